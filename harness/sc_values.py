"""
Shared by corr_C05.py and corr_C03.py: the value codec of the line protocol of
Drivers/C05.lean and Drivers/C03.lean, the callback pools (preparers, transforms)
and the builder that turns a class-family description (plain JSON) into real
spec classes and into `class …` protocol lines.

Nothing here consults the Lean model.  `spec_classes` is imported lazily
(`init()` is called from the `setup()` of the property modules, after
`common.use_repo()` has pointed `sys.path` at the tree under test).
"""
from __future__ import annotations

import dataclasses
import json

_sc = {}
_FAMILY_CACHE = {}


def init():
    """(Re)bind the spec_classes names; forget classes built from another tree."""
    import spec_classes
    from spec_classes import EMPTY, MISSING, UNCHANGED, Attr, spec_class

    _sc.clear()
    _sc.update(
        MISSING=MISSING, EMPTY=EMPTY, UNCHANGED=UNCHANGED, Attr=Attr, spec_class=spec_class, mod=spec_classes
    )
    _FAMILY_CACHE.clear()
    _EFF_CACHE.clear()


def S(name):
    return _sc[name]


# ---------------------------------------------------------------------------
# strings: the n-th entry of the string table
# ---------------------------------------------------------------------------


def pystr(n: int) -> str:
    if n == 999:
        return ""
    if n == 998:
        return "?"
    if n >= 1000:
        return pystr(n - 1000).upper()
    if n < 100:
        return f"a{n}"
    return f"s{n}"


def strtok(s: str) -> int:
    if s == "":
        return 999
    if s == "?":
        return 998
    if s[0] in "AS":
        return 1000 + strtok(s.lower())
    if s[0] == "a":
        return int(s[1:])
    if s[0] == "s":
        return int(s[1:])
    raise ValueError(f"string outside the table: {s!r}")


def attr_name(a: int) -> str:
    return f"a{a}"


# ---------------------------------------------------------------------------
# value codec
# ---------------------------------------------------------------------------


def toks(s):
    return s.split() if isinstance(s, str) else list(s)


def decode(tokens, classes=None):
    """tokens (str or list) -> real Python value; instances are injected raw (no library code runs)."""
    v, rest = _decode(toks(tokens), classes)
    if rest:
        raise ValueError(f"trailing tokens {rest}")
    return v


def _decode(ts, classes):
    t, r = ts[0], ts[1:]
    if t == "N":
        return None, r
    if t == "T":
        return True, r
    if t == "F":
        return False, r
    if t == "M":
        return _sc["MISSING"], r
    if t == "E":
        return _sc["EMPTY"], r
    if t == "U":
        return _sc["UNCHANGED"], r
    if t in ("L", "S"):
        k = int(r[0])
        r = r[1:]
        xs = []
        for _ in range(k):
            x, r = _decode(r, classes)
            xs.append(x)
        return (xs if t == "L" else set(xs)), r
    if t == "D":
        k = int(r[0])
        r = r[1:]
        d = {}
        for _ in range(k):
            kk, r = _decode(r, classes)
            vv, r = _decode(r, classes)
            d[kk] = vv
        return d, r
    if t == "I":
        c, k = int(r[0]), int(r[1])
        r = r[2:]
        cls = classes[c]
        obj = cls.__new__(cls)
        for _ in range(k):
            a = int(r[0])
            vv, r = _decode(r[1:], classes)
            obj.__dict__[attr_name(a)] = vv
        return obj, r
    if t[0] == "i":
        return int(t[1:]), r
    if t[0] == "f":
        return int(t[1:]) / 2.0, r
    if t[0] == "s":
        return pystr(int(t[1:])), r
    raise ValueError(f"bad value token {t!r}")


def is_spec_instance(v):
    return hasattr(type(v), "__verif_id__")


def field_ids(v):
    """attribute ids held by a spec instance: the managed attributes plus stray `a<N>` entries of the instance
    dictionary (a keyword merged into an instance of a class that does not manage it), sorted"""
    managed = set(type(v).__verif_attrs__)
    for k in v.__dict__:
        if k[:1] == "a" and k[1:].isdigit() and int(k[1:]) not in managed:
            managed.add(int(k[1:]))
    return sorted(managed)


def show(v) -> str:
    """Canonical rendering, identical to `showVal` of the Lean drivers."""
    if v is None:
        return "N"
    if v is True:
        return "T"
    if v is False:
        return "F"
    if v is _sc["MISSING"]:
        return "M"
    if v is _sc["EMPTY"]:
        return "E"
    if v is _sc["UNCHANGED"]:
        return "U"
    if isinstance(v, int):
        return f"i{v}"
    if isinstance(v, float):
        t = v * 2
        if t != int(t):
            return f"f?{v!r}"
        return f"f{int(t)}"
    if isinstance(v, str):
        try:
            return f"s{strtok(v)}"
        except ValueError:
            return f"s?{v}"
    if isinstance(v, list):
        return "[" + ",".join(show(x) for x in v) + "]"
    if isinstance(v, (set, frozenset)):
        return "{" + ",".join(sorted(show(x) for x in v)) + "}"
    if isinstance(v, dict):
        return "{" + ",".join(f"{show(k)}:{show(x)}" for k, x in v.items()) + "}"
    if isinstance(v, tuple):
        return "(" + ",".join(show(x) for x in v) + ")"
    if is_spec_instance(v):
        cls = type(v)
        fields = []
        for a in field_ids(v):
            x = v.__dict__.get(attr_name(a), _sc["MISSING"])
            if x is not _sc["MISSING"]:
                fields.append(f"{a}={show(x)}")
        return f"C{cls.__verif_id__}(" + ",".join(fields) + ")"
    return f"?{type(v).__name__}"


def encode(v) -> str:
    """real value -> protocol tokens (inverse of decode on the value universe)."""
    if v is None:
        return "N"
    if v is True:
        return "T"
    if v is False:
        return "F"
    if v is _sc["MISSING"]:
        return "M"
    if v is _sc["EMPTY"]:
        return "E"
    if v is _sc["UNCHANGED"]:
        return "U"
    if isinstance(v, int):
        return f"i{v}"
    if isinstance(v, float):
        return f"f{int(v * 2)}"
    if isinstance(v, str):
        return f"s{strtok(v)}"
    if isinstance(v, list):
        return " ".join(["L", str(len(v))] + [encode(x) for x in v])
    if isinstance(v, (set, frozenset)):
        xs = sorted(v, key=show)
        return " ".join(["S", str(len(xs))] + [encode(x) for x in xs])
    if isinstance(v, dict):
        return " ".join(["D", str(len(v))] + [encode(k) + " " + encode(x) for k, x in v.items()])
    if is_spec_instance(v):
        cls = type(v)
        fs = []
        for a in field_ids(v):
            x = v.__dict__.get(attr_name(a), _sc["MISSING"])
            if x is not _sc["MISSING"]:
                fs.append(f"{a} {encode(x)}")
        return " ".join(["I", str(cls.__verif_id__), str(len(fs))] + fs)
    raise ValueError(f"cannot encode {v!r}")


ERRS = ("TypeError", "ValueError", "KeyError", "IndexError", "AttributeError", "FrozenInstanceError", "RuntimeError")


def err_name(e):
    for klass in type(e).__mro__:
        if klass.__name__ in ERRS:
            return klass.__name__
    return type(e).__name__


# ---------------------------------------------------------------------------
# callback pools (mirrored in Drivers/C05.lean: `prepPool`, `TrTok.fn`)
# ---------------------------------------------------------------------------


def _upper(s):
    try:
        n = strtok(s)
    except ValueError:
        return s
    return pystr(n + 1000) if n < 900 else s


def _p0(self, v):
    return v * 2 if type(v) is int else v


def _p1(self, v):
    return max(v, 0) if type(v) is int else v


def _p2(self, v):
    return _upper(v) if type(v) is str else v


def _p3(self, v):
    return pystr(100 + v) if type(v) is int and 0 <= v < 700 else v


def _p4(self, v):
    if type(v) is int:
        m = getattr(self, "a0", None)
        if type(m) is int:
            return v + m
    return v


def _p5(self, v):
    return {"a0": v} if type(v) is int else v


def _p6(self, v):
    return pystr(100) if type(v) is int and v % 7 == 6 else v


def _p7(self, v):
    return 0 if v is None else v


PREPARERS = [_p0, _p1, _p2, _p3, _p4, _p5, _p6, _p7]


# validated types (mirrored in C05Proto.lean: `predPool`); the predicates below are the harness' own
VALID_PRED = [
    lambda v: isinstance(v, int) and v >= 0,
    lambda v: isinstance(v, int) and 0 < v <= 10,
    lambda v: isinstance(v, str) and v != "",
    lambda v: type(v) is int and v % 2 == 0,
]
VALID_REGISTRY = {}      # id(validated type object) -> (type object, predicate index)


def make_validated(pid):
    from spec_classes.types import bounded, validated

    if pid == 0:
        t = bounded(int, ge=0)
    elif pid == 1:
        t = bounded(int, gt=0, le=10)
    elif pid == 2:
        t = validated(lambda v: isinstance(v, str) and v != "", "nonempty")
    else:
        t = validated(lambda v: type(v) is int and v % 2 == 0, "even")
    VALID_REGISTRY[id(t)] = (t, pid)
    return t


def transform_fn(tok, classes=None):
    """transform token string (`inc`, `cst <value>`, …) -> pure Python function"""
    if tok is None or tok == "_":
        return None
    ts = toks(tok)
    name = ts[0]
    if name == "inc":
        return lambda v: v + 1 if isinstance(v, (int, float)) else v
    if name == "dbl":
        return lambda v: v * 2 if type(v) is int else v
    if name == "neg":
        return lambda v: -v if type(v) is int else v
    if name == "up":
        return lambda v: _upper(v) if type(v) is str else v
    if name == "idt":
        return lambda v: v
    if name == "cst":
        return lambda v: decode(ts[1:], classes)
    if name == "app":

        def app(v):
            x = decode(ts[1:], classes)
            if isinstance(v, list):
                return v + [x]
            if isinstance(v, set):
                return v | {x}
            return v

        return app
    raise ValueError(tok)


# ---------------------------------------------------------------------------
# types
# ---------------------------------------------------------------------------
# ty JSON: ["int"] ["str"] ["bool"] ["float"] ["none"] ["any"] ["lit", [scalar tokens]]
#          ["union", t, t] ["list", t] ["set", t] ["dict", k, v] ["spec", class id] ["valid", predicate id, base]
#          ["mseq", t] ["mset", t] ["mmap", k, v]   (MutableSequence[t], MutableSet[t], MutableMapping[k, v])


def opt(t):
    return ["union", t, ["none"]]


def ty_tokens(t) -> str:
    k = t[0]
    if k in ("int", "str", "bool", "float", "none", "any"):
        return k
    if k == "lit":
        return " ".join(["lit", str(len(t[1]))] + list(t[1]))
    if k == "union":
        return f"union {ty_tokens(t[1])} {ty_tokens(t[2])}"
    if k in ("list", "set"):
        return f"{k} {ty_tokens(t[1])}"
    if k == "dict":
        return f"dict {ty_tokens(t[1])} {ty_tokens(t[2])}"
    if k == "spec":
        return f"spec {t[1]}"
    if k == "valid":
        return f"valid {t[1]} {ty_tokens(t[2])}"
    if k in ("mseq", "mset"):
        return f"{k} {ty_tokens(t[1])}"
    if k == "mmap":
        return f"mmap {ty_tokens(t[1])} {ty_tokens(t[2])}"
    raise ValueError(t)


def ty_real(t, classes):
    import typing

    k = t[0]
    if k == "int":
        return int
    if k == "str":
        return str
    if k == "bool":
        return bool
    if k == "float":
        return float
    if k == "none":
        return type(None)
    if k == "any":
        return typing.Any
    if k == "lit":
        return typing.Literal[tuple(decode(x) for x in t[1])]
    if k == "union":
        return typing.Union[ty_real(t[1], classes), ty_real(t[2], classes)]
    if k == "list":
        return typing.List[ty_real(t[1], classes)]
    if k == "set":
        return typing.Set[ty_real(t[1], classes)]
    if k == "dict":
        return typing.Dict[ty_real(t[1], classes), ty_real(t[2], classes)]
    if k == "spec":
        return classes[t[1]]
    if k == "valid":
        # one type object per predicate and family: shared by all attributes / classes of the family
        vc = classes.setdefault("__valid__", {})
        if t[1] not in vc:
            vc[t[1]] = make_validated(t[1])
        return vc[t[1]]
    # the abstract collection generics: `check_type` looks at the container class only
    if k == "mseq":
        return typing.MutableSequence[ty_real(t[1], classes)]
    if k == "mset":
        return typing.MutableSet[ty_real(t[1], classes)]
    if k == "mmap":
        return typing.MutableMapping[ty_real(t[1], classes), ty_real(t[2], classes)]
    raise ValueError(t)


def union_members(t):
    if t[0] == "union":
        return union_members(t[1]) + union_members(t[2])
    return [t]


# ---------------------------------------------------------------------------
# class families
# ---------------------------------------------------------------------------
# family = {"classes": [cd, ...]} in dependency order, cd =
#   {"id": n, "kind": "spec"|"plain", "base": id|None, "key": attr|None,
#    "attrs": [{"name": a, "ty": ty, "dk": "none|value|factory|attr|attrfactory|field|fieldfactory|prop",
#               "d": value tokens|None, "prep": id|None, "ip": id|None}],
#               (dk "prop": the attribute is backed by an overridable `spec_property` whose getter returns `d`:
#                no default of its own, `getattr` without an override finds `d`)
#    "over": {"<attr>": value tokens},        # class-body default overrides of inherited attributes
#    "reann": {"<attr>": value tokens|None},  # spec subclass: inherited attribute annotated again (same type), with or without a value
#    "redecl": {"<attr>": {"dk": "attr|attrfactory|attrnone|field|fieldfactory", "d": value tokens|None, "ann": bool,
#                          "dprep": id|None, "dip": id|None}},
#                                             # spec subclass: inherited attribute given a new `Attr(...)` / `field(...)` object
#                                             # (annotated again or not), with callbacks registered by decorator
#    "pm": {"<attr>": preparer id}, "ipm": {"<attr>": preparer id},
#                                             # `_prepare_<attr>` / `_prepare_<item>` methods defined in this (spec or plain)
#                                             # subclass body for inherited attributes
#  HOW a callback is declared (attribute description): "prep" / "ip" = `_prepare_<attr>` / `_prepare_<item>` METHODS of the
#  class body; "dprep" / "dip" = registered with the `@<attr>.preparer` / `@<attr>.item_preparer` DECORATORS of the `Attr(...)`
#  object of the body (dk "attr" / "attrfactory" / "attrnone" = `Attr()` without default, or any attribute with "inv").
#  A family that uses "dprep"/"dip"/"redecl"/"pm"/"ipm" carries "decl": True; `effective_attrs` then resolves which callback
#  applies to each class (`doc_preparer`, a reading of the documentation; "prep_undoc"/"ip_undoc" where it does not say) and
#  `pdecl_lines` hands the raw declarations to the Lean model, which resolves them itself (`Decl.bootstrap`).
#    "ovf": attr}                             # spec_class(init_overflow_attr=<attr>): extra constructor keywords
#                                             # are collected into the Dict[str, Any] attribute <attr>


def class_desc(fam, cid):
    for cd in fam["classes"]:
        if cd["id"] == cid:
            return cd
    raise KeyError(cid)


_EFF_CACHE = {}


def effective_attrs(fam, cid):
    """attributes of class `cid` in metadata order with the defaults an instance of `cid` gets (and, for a family with
    declared callbacks — "decl": True, complete and no longer edited —, the callbacks that apply to `cid`)"""
    if not fam.get("decl"):
        return _effective_attrs(fam, cid)
    hit = _EFF_CACHE.get((id(fam), cid))
    if hit is None or hit[0] is not fam:
        if len(_EFF_CACHE) > 20000:
            _EFF_CACHE.clear()
        hit = (fam, _effective_attrs(fam, cid))
        _EFF_CACHE[(id(fam), cid)] = hit
    return [dict(ad) for ad in hit[1]]


def _effective_attrs(fam, cid):
    cd = class_desc(fam, cid)
    out = []
    if cd.get("base") is not None:
        out = [dict(a) for a in effective_attrs(fam, cd["base"])]
    for a, d in (cd.get("over") or {}).items():
        for ad in out:
            if ad["name"] == int(a):
                ad["d"] = d
                ad["dk"] = "value"
    for a, d in (cd.get("reann") or {}).items():
        # re-annotated (same type) in this spec subclass: it now owns the attribute; position is kept
        for ad in out:
            if ad["name"] == int(a):
                ad["owner"] = cid
                if d is not None:
                    ad["d"] = d
                    ad["dk"] = "value"
                elif ad.get("dk") not in ("value", None, "none"):
                    pass
                else:
                    # no value in the subclass body: the base class attribute (its default) is still found
                    pass
    for a, rd in (cd.get("redecl") or {}).items():
        # a new `Attr(...)` / `field(...)` object in this spec subclass: it owns the attribute from here on (position
        # kept); default, factory and `invalidated_by` are those of the new object
        for ad in out:
            if ad["name"] == int(a):
                ad["owner"] = cid
                ad["dk"] = rd["dk"]
                ad["d"] = rd.get("d")
                ad.pop("inv", None)
    for ad in cd.get("attrs", []):
        out.append(dict(ad, owner=cid))
    if fam.get("decl"):
        for ad in out:
            ad["prep"], ad["prep_undoc"] = doc_preparer(decl_chain(fam, cid, ad["name"], "p"))
            ad["ip"], ad["ip_undoc"] = doc_preparer(decl_chain(fam, cid, ad["name"], "i"))
    if cd.get("ovf") is not None:
        # `init_overflow_attr`: managed as Dict[str, Any], after the annotated attributes, no default
        out.append({"name": cd["ovf"], "ty": OVF_TY, "dk": "none", "d": None, "prep": None, "ip": None,
                    "owner": cid, "ovf": True})
    return out


OVF_TY = ["dict", ["str"], ["any"]]


def effective_ovf(fam, cid):
    """the overflow attribute (`init_overflow_attr`) of class `cid`, inherited like the key; None = none"""
    cd = class_desc(fam, cid)
    if cd.get("ovf") is not None:
        return cd["ovf"]
    if cd.get("base") is not None:
        return effective_ovf(fam, cd["base"])
    return None


def ovf_lines(fam):
    """`ovf <class> <attr>` protocol lines (after the `class` lines) for the classes that collect extra keywords"""
    out = []
    for cd in fam["classes"]:
        o = effective_ovf(fam, cd["id"])
        if o is not None:
            out.append(f"ovf {cd['id']} {o}")
    return out


def init_order(fam, cid):
    """attribute names in the order InitMethod assigns them: owners root-most first, metadata order within"""
    eff = effective_attrs(fam, cid)
    chain = [cid] + supers(fam, cid)
    rank = {c: len(chain) - i for i, c in enumerate(chain)}
    # (the overflow attribute is not initialised by the loop: it is stored once, at the end)
    return [a["name"] for a in sorted(eff, key=lambda a: rank.get(a.get("owner"), 0)) if not a.get("ovf")]


def effective_key(fam, cid):
    cd = class_desc(fam, cid)
    if cd.get("key") is not None:
        return cd["key"]
    if cd.get("base") is not None:
        return effective_key(fam, cd["base"])
    return None


def supers(fam, cid):
    cd = class_desc(fam, cid)
    if cd.get("base") is None:
        return []
    return [cd["base"]] + supers(fam, cd["base"])


ATTR_OBJECT_KINDS = ("factory", "attrfactory", "attr", "attrnone", "field", "fieldfactory")


def decl_chain(fam, cid, a, which):
    """what the class bodies of the hierarchy of `cid` say about attribute `a` and its preparer (`which` = "p") or item
    preparer ("i"): layers ROOT FIRST, from the class that introduces the attribute down to `cid`;
    layer = {"cid", "spec": decorated?, "body": "-" nothing | "v" plain value | "a" annotation | "A" Attr/field object,
             "deco": callback registered with the decorator on that object, "method": `_prepare_…` method of the body}"""
    dkey, mkey, pmkey = ("dprep", "prep", "pm") if which == "p" else ("dip", "ip", "ipm")
    out = []
    for c in reversed([cid] + supers(fam, cid)):
        cd = class_desc(fam, c)
        spec = cd["kind"] == "spec"
        own = [ad for ad in cd.get("attrs", []) if ad["name"] == a]
        sa = str(a)
        if own:
            ad = own[0]
            obj = ad.get("dk") in ATTR_OBJECT_KINDS or bool(ad.get("inv")) or ad.get("dprep") is not None \
                or ad.get("dip") is not None
            out = [{"cid": c, "spec": spec, "body": "A" if obj else "a", "deco": ad.get(dkey), "method": ad.get(mkey)}]
            continue
        if not out:
            continue          # the attribute does not exist yet
        method = (cd.get(pmkey) or {}).get(sa)
        if sa in (cd.get("redecl") or {}):
            out.append({"cid": c, "spec": spec, "body": "A", "deco": cd["redecl"][sa].get(dkey), "method": method})
        elif sa in (cd.get("reann") or {}):
            out.append({"cid": c, "spec": spec, "body": "a", "deco": None, "method": method})
        elif sa in (cd.get("over") or {}):
            out.append({"cid": c, "spec": spec, "body": "v", "deco": None, "method": method})
        else:
            out.append({"cid": c, "spec": spec, "body": "-", "deco": None, "method": method})
    return out


def doc_preparer(chain):
    """Which callback the documentation gives the attribute for the class at the END of `chain` (written from
    docsite/docs/usage/advanced.md "Typecasting/preparation" and examples/preparation.md; NOT from the code):
    `_prepare_<attr>` methods "are detected" — a method is a class member and is inherited like one —, and an `Attr`
    object carries what its decorators registered.  -> (preparer id | None, undocumented?)
    A subclass that merely re-defaults the attribute (`a = 3`) declares a new default, nothing else: the callbacks of
    its parent still apply (bootstrap's own comment: "the rest of the inherited configuration still applies").
    Not described (True): a body that has both spellings with different callbacks; a decorator registration when a
    method of the conventional name is also in sight, or when a nearer class declares the attribute anew by annotation
    or with a new `Attr` object; a method overridden by a class that does not mention the attribute (the library never
    looks at that class's body again)."""
    near = list(reversed(chain))
    for i, L in enumerate(near):
        m, d = L["method"], L["deco"]
        if m is None and d is None:
            continue
        mentioned_nearer = any(x["spec"] and x["body"] != "-" for x in near[:i])
        redeclared_nearer = any(x["spec"] and x["body"] in ("a", "A") for x in near[:i])
        if m is not None and d is not None:
            return m, m != d
        if m is not None:
            return m, not ((L["spec"] and L["body"] != "-") or mentioned_nearer)
        method_above = any(x["method"] is not None for x in near[i + 1:])
        return d, redeclared_nearer or method_above
    return None, False


def pdecl_lines(fam):
    """`pdecl <class> <attr> p|i <n> (layer)…` protocol lines (after the `class` lines): the raw declarations of every
    preparer / item preparer, for the Lean model to resolve (`Decl.bootstrap`)"""
    out = []
    for cd in fam["classes"]:
        cid = cd["id"]
        for ad in effective_attrs(fam, cid):
            if ad.get("ovf"):
                continue
            for which in ("p", "i"):
                ch = decl_chain(fam, cid, ad["name"], which)
                if not any(L["deco"] is not None or L["method"] is not None for L in ch):
                    continue
                if which == "i" and ad["ty"][0] not in ("list", "set", "dict", "mseq", "mset", "mmap"):
                    continue          # `prepare_item` is looked up for collections only
                parts = ["pdecl", str(cid), str(ad["name"]), which, str(len(ch))]
                for L in ch:
                    parts += ["s" if L["spec"] else "p", L["body"],
                              "_" if L["deco"] is None else str(L["deco"]),
                              "_" if L["method"] is None else str(L["method"])]
                out.append(" ".join(parts))
    return out


def class_lines(fam):
    """`class …` protocol lines of the family (after a `reset` line)"""
    lines = []
    for cd in fam["classes"]:
        cid = cd["id"]
        attrs = effective_attrs(fam, cid)
        key = effective_key(fam, cid)
        sup = supers(fam, cid)
        parts = ["class", str(cid), "_" if key is None else str(key), str(len(sup))] + [str(s) for s in sup]
        order = init_order(fam, cid)
        parts += [str(len(order))] + [str(x) for x in order]
        parts += [str(len(attrs))]
        for a in attrs:
            parts += [
                str(a["name"]),
                ty_tokens(a["ty"]),
                "_" if a.get("d") is None or a.get("dk") == "prop" else a["d"],
                "_" if a.get("prep") is None else str(a["prep"]),
                "_" if a.get("ip") is None else str(a["ip"]),
                a["d"] if a.get("d") is not None and a.get("dk") in ("value", "attr", "field", "prop") else "_",
                str(len(a.get("inv") or [])),
            ] + [str(x) for x in (a.get("inv") or [])]
        lines.append(" ".join(parts))
    return lines


def _as_method(f):
    return lambda self, v: f(self, v)


def _attr_object(dk, d, inv, classes):
    """the `Attr(...)` / `dataclasses.field(...)` object of a class body"""
    Attr = _sc["Attr"]
    kw = {"invalidated_by": inv} if inv else {}
    if dk in ("factory", "attrfactory"):
        return Attr(default_factory=(lambda d=d: decode(d, classes)), **kw)
    if dk == "attr":
        return Attr(default=decode(d, classes), **kw)
    if dk == "attrnone":
        return Attr(**kw)
    if dk == "field":
        return dataclasses.field(default=decode(d, classes))
    if dk == "fieldfactory":
        return dataclasses.field(default_factory=(lambda d=d: decode(d, classes)))
    raise ValueError(f"not an Attr/field kind: {dk}")


def _decorate(ns, name, dprep, dip):
    """what
           @<name>.preparer            @<name>.item_preparer
           def _(self, v): ...         def _(self, v): ...
    in a class body does: the callback is registered on the `Attr` object and the name `_` is bound to that object"""
    if dprep is None and dip is None:
        return
    obj = ns.get(name)
    if not isinstance(obj, _sc["Attr"]):
        raise ValueError(f"decorator spelling needs an Attr(...) object for {name}")
    if dprep is not None:
        ns["_"] = obj.preparer(_as_method(PREPARERS[dprep]))
    if dip is not None:
        ns["_"] = obj.item_preparer(_as_method(PREPARERS[dip]))


def build_family(fam, fresh=False):
    """family description -> {class id: real class}; cached per description (`fresh`: new classes, not cached)"""
    key = json.dumps(fam, sort_keys=True)
    if key in _FAMILY_CACHE and not fresh:
        return _FAMILY_CACHE[key]
    Attr, spec_class = _sc["Attr"], _sc["spec_class"]
    classes = {}
    for cd in fam["classes"]:
        cid = cd["id"]
        bases = (classes[cd["base"]],) if cd.get("base") is not None else ()
        ns = {"__module__": "verif_family", "__qualname__": f"C{cid}"}
        for a, d in (cd.get("over") or {}).items():
            ns[attr_name(int(a))] = decode(d, classes)
        for a, pid in (cd.get("pm") or {}).items():
            ns[f"_prepare_{attr_name(int(a))}"] = _as_method(PREPARERS[pid])
        for a, pid in (cd.get("ipm") or {}).items():
            ns[f"_prepare_{attr_name(int(a))}_item"] = _as_method(PREPARERS[pid])
        reann = {}
        for a, rd in (cd.get("redecl") or {}).items():
            name = attr_name(int(a))
            if rd.get("ann"):
                base_ad = [x for x in effective_attrs(fam, cd["base"]) if x["name"] == int(a)][0]
                reann[name] = ty_real(base_ad["ty"], classes)
            ns[name] = _attr_object(rd["dk"], rd.get("d"), None, classes)
            _decorate(ns, name, rd.get("dprep"), rd.get("dip"))
        for a, d in (cd.get("reann") or {}).items():
            base_ad = [x for x in effective_attrs(fam, cd["base"]) if x["name"] == int(a)][0]
            reann[attr_name(int(a))] = ty_real(base_ad["ty"], classes)
            if d is not None:
                ns[attr_name(int(a))] = decode(d, classes)
        if cd["kind"] == "spec":
            ann = dict(reann)
            for ad in cd.get("attrs", []):
                name = attr_name(ad["name"])
                ann[name] = ty_real(ad["ty"], classes)
                dk, d = ad.get("dk", "none"), ad.get("d")
                inv = [attr_name(x) for x in (ad.get("inv") or [])]
                if inv:
                    if dk in ("factory", "attrfactory", "fieldfactory"):
                        ns[name] = Attr(default_factory=(lambda d=d: decode(d, classes)), invalidated_by=inv)
                    elif dk in ("value", "attr", "field"):
                        ns[name] = Attr(default=decode(d, classes), invalidated_by=inv)
                    else:
                        ns[name] = Attr(invalidated_by=inv)
                elif dk == "prop":
                    ns[name] = _sc["mod"].spec_property((lambda d: (lambda self: decode(d, classes)))(d))
                elif dk == "value":
                    ns[name] = decode(d, classes)
                elif dk == "factory" or dk == "attrfactory":
                    ns[name] = Attr(default_factory=(lambda d=d: decode(d, classes)))
                elif dk == "attr":
                    ns[name] = Attr(default=decode(d, classes))
                elif dk == "field":
                    ns[name] = dataclasses.field(default=decode(d, classes))
                elif dk == "fieldfactory":
                    ns[name] = dataclasses.field(default_factory=(lambda d=d: decode(d, classes)))
                elif dk == "attrnone":
                    ns[name] = Attr()
                # the documented decorator spelling: `@<attr>.preparer` / `@<attr>.item_preparer` on the `Attr(...)` object
                _decorate(ns, name, ad.get("dprep"), ad.get("dip"))
                if ad.get("prep") is not None:
                    ns[f"_prepare_{name}"] = (lambda f: (lambda self, v: f(self, v)))(PREPARERS[ad["prep"]])
                if ad.get("ip") is not None:
                    ns[f"_prepare_{name}_item"] = (lambda f: (lambda self, v: f(self, v)))(PREPARERS[ad["ip"]])
            ns["__annotations__"] = ann
            cls = type(f"C{cid}", bases, ns)
            kw = {}
            if cd.get("key") is not None:
                kw["key"] = attr_name(cd["key"])
            kw["bootstrap"] = bool(cd.get("eager", True))
            if cd.get("ovf") is not None:
                kw["init_overflow_attr"] = attr_name(cd["ovf"])
            if cd.get("dnc") is not None:
                # do_not_copy differing from the parent class: inherited Attr specs are rebuilt
                kw["do_not_copy"] = True if cd["dnc"] is True else [attr_name(a) for a in cd["dnc"]]
            cls = spec_class(**kw)(cls)
        else:
            cls = type(f"C{cid}", bases, ns)
        cls.__verif_id__ = cid
        cls.__verif_attrs__ = [a["name"] for a in effective_attrs(fam, cid)]
        classes[cid] = cls
    if not fresh:
        _FAMILY_CACHE[key] = classes
    return classes
