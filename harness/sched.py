"""
Deterministic cooperative scheduler for real threads (shared by C19 and C20).

Real `threading.Thread`s run the real library code, but only the thread that
holds the *baton* (its own semaphore was released) executes; every other thread
sleeps on its semaphore. A `sys.settrace` line hook installed for the frames
selected by `want_code` calls back at every line; at *labelled* lines
(`label_of(frame)` is not None) a policy decides which thread continues. A
schedule is therefore an explicit list of decisions and replays exactly.

Locks: the library's `threading.RLock` objects are replaced (by the callers,
see `patch_locks`) with `CoopRLock`, a re-entrant lock that hands the baton to
another runnable thread instead of blocking; if no thread is runnable the
scheduler reports a deadlock (and unwinds the threads) instead of hanging.

Nothing here is specific to spec_classes.
"""
from __future__ import annotations

import sys
import threading

_ACTIVE = None  # the Scheduler currently running (at most one)
_CUR = threading.local()


class Deadlock(BaseException):
    """Raised inside scheduled threads to unwind them when the schedule deadlocked."""


class SchedulerHang(Exception):
    """The watchdog fired: infrastructure problem, never a verdict."""


class CoopRLock:
    """Re-entrant lock that yields the baton instead of blocking."""

    def __init__(self):
        self.owner = None
        self.count = 0

    def _me(self):
        tid = getattr(_CUR, "tid", None)
        if _ACTIVE is not None and tid is not None:
            return tid
        return ("ext", threading.get_ident())

    def acquire(self, blocking=True, timeout=-1):
        me = self._me()
        s = _ACTIVE
        if isinstance(me, tuple) or s is None:
            if self.owner is not None and self.owner != me:
                raise RuntimeError("CoopRLock contended outside a running scheduler")
        else:
            while self.owner is not None and self.owner != me:
                if not blocking:
                    return False
                s._block(me, self)
        self.owner = me
        self.count += 1
        return True

    def release(self):
        if self.count <= 0 or self.owner != self._me():
            raise RuntimeError("cannot release un-acquired lock")
        self.count -= 1
        if self.count == 0:
            self.owner = None

    def __enter__(self):
        self.acquire()
        return True

    def __exit__(self, *a):
        self.release()

    def _is_owned(self):
        return self.owner == self._me()


class CoopLock(CoopRLock):
    """Non re-entrant variant (`threading.Lock`): a second acquire by the owner blocks."""

    def acquire(self, blocking=True, timeout=-1):
        me = self._me()
        s = _ACTIVE
        if isinstance(me, tuple) or s is None:
            if self.owner is not None:
                raise RuntimeError("CoopLock contended outside a running scheduler")
        else:
            while self.owner is not None:
                if not blocking:
                    return False
                s._block(me, self)
        self.owner = me
        self.count = 1
        return True

    def locked(self):
        return self.owner is not None


_ARMED = [0]  # > 0 while `patch_locks()` is in force: lock factories hand out cooperative locks
_REAL_RLOCK = threading.RLock
_REAL_LOCK = threading.Lock


def _rlock_factory(*a, **k):
    return CoopRLock() if _ARMED[0] else _REAL_RLOCK(*a, **k)


def _lock_factory(*a, **k):
    return CoopLock() if _ARMED[0] else _REAL_LOCK(*a, **k)


class lock_factories_installed:
    """`with lock_factories_installed(): import spec_classes` - every `from threading import RLock/Lock`
    (and `threading.RLock` looked up later through a module alias bound meanwhile) executed inside binds the
    factories above, so that locks the library creates *while a scheduled run is armed* are cooperative, wherever
    in the library they are created (a lock per placeholder, per instance, ...). Unarmed they are real locks."""

    def __enter__(self):
        threading.RLock = _rlock_factory
        threading.Lock = _lock_factory

    def __exit__(self, *a):
        threading.RLock = _REAL_RLOCK
        threading.Lock = _REAL_LOCK


class Decision:
    __slots__ = ("k", "cur", "runnable", "forced", "label", "chosen")

    def __init__(self, k, cur, runnable, forced, label, chosen):
        self.k, self.cur, self.runnable, self.forced, self.label, self.chosen = k, cur, runnable, forced, label, chosen

    def as_list(self):
        return [self.k, self.cur, list(self.runnable), self.forced, self.label, self.chosen]


class Result:
    def __init__(self):
        self.outcomes = []
        self.decisions = []
        self.deadlock = False
        self.livelock = False
        self.infeasible = False
        self.events = []


def _noop_trace(frame, event, arg):
    return None


class keep_tracing:
    """Context manager for sweeps of many runs: tracing stays on in the calling thread."""

    def __enter__(self):
        self.old = sys.gettrace()
        if self.old is None:
            sys.settrace(_noop_trace)

    def __exit__(self, *a):
        if self.old is None:
            sys.settrace(None)


_opcode_warm = [False]


def _warm_opcode_tracing():
    """CPython >= 3.12 switches per-instruction events on interpreter-wide the first time a
    frame asks for them, and the frame that asked only sees them from its next call on. Ask
    once up front so that every scheduled run sees the same events."""
    if _opcode_warm[0]:
        return
    _opcode_warm[0] = True

    def probe():
        x = 1
        return x + 1

    def tr(frame, event, arg):
        frame.f_trace_opcodes = True
        return tr

    old = sys.gettrace()
    sys.settrace(tr)
    try:
        probe()
        probe()
    finally:
        sys.settrace(old)


class Scheduler:
    """
    fns        : one callable per thread
    want_code  : code object -> bool, frames to trace
    label_of   : frame -> hashable label or None (None: the line is not a switch point)
    opcode_codes : code objects whose every bytecode is a switch point (finer than lines)
    policy     : object with `choose(k, cur, runnable, forced, label) -> tid`
    on_trace   : optional observer `(tid, frame, event, arg)` for every event of traced frames
    """

    def __init__(self, fns, want_code, label_of, policy, on_trace=None, step_limit=200000, watchdog=60.0,
                 opcode_codes=None):
        self.fns = list(fns)
        self.n = len(self.fns)
        self.want_code, self.label_of, self.policy, self.on_trace = want_code, label_of, policy, on_trace
        self.step_limit, self.watchdog = step_limit, watchdog
        # code objects in which every *bytecode* (not only every line) is a switch point;
        # `label_of(frame)` is then called for "opcode" events as well (frame.f_lasti tells where)
        self.opcode_codes = opcode_codes or ()
        if self.opcode_codes:
            _warm_opcode_tracing()
        self.go = [threading.Semaphore(0) for _ in self.fns]
        self.status = ["ready"] * self.n  # ready | blocked | done
        self.blocked_on = [None] * self.n
        self.finished = threading.Event()
        self.aborting = False
        self.k = 0
        self.res = Result()
        self.res.outcomes = [None] * self.n

    # -- bookkeeping ------------------------------------------------------
    def _runnable(self):
        out = []
        for t in range(self.n):
            st = self.status[t]
            if st == "ready":
                out.append(t)
            elif st == "blocked":
                lk = self.blocked_on[t]
                if lk.owner is None or lk.owner == t:
                    out.append(t)
        return out

    def _decide(self, cur, runnable, forced, label):
        k = self.k
        self.k += 1
        if len(runnable) == 1:
            chosen = runnable[0]
        else:
            chosen = self.policy.choose(k, cur, runnable, forced, label)
            if chosen not in runnable:
                self.res.infeasible = True
                chosen = cur if (not forced and cur in runnable) else runnable[0]
        self.res.decisions.append(Decision(k, cur, tuple(runnable), forced, label, chosen))
        return chosen

    def _switch(self, me, nxt):
        self.go[nxt].release()
        self.go[me].acquire()
        if self.aborting:
            raise Deadlock()

    def _start_abort(self, why):
        if why == "deadlock":
            self.res.deadlock = True
        else:
            self.res.livelock = True
        self.aborting = True

    # -- called from scheduled threads --------------------------------------
    def _point(self, tid, label):
        if self.k >= self.step_limit:
            self._start_abort("livelock")
            raise Deadlock()
        runnable = self._runnable()
        nxt = self._decide(tid, runnable, False, label)
        if nxt != tid:
            self._switch(tid, nxt)

    def _block(self, me, lock):
        if self.aborting:
            raise Deadlock()
        self.status[me] = "blocked"
        self.blocked_on[me] = lock
        runnable = self._runnable()
        if not runnable:
            self.status[me] = "ready"
            self._start_abort("deadlock")
            raise Deadlock()
        nxt = self._decide(me, runnable, True, "block")
        try:
            self._switch(me, nxt)
        finally:
            self.status[me] = "ready"
            self.blocked_on[me] = None

    def _local(self, frame, event, arg):
        tid = _CUR.tid
        if self.on_trace is not None:
            self.on_trace(tid, frame, event, arg)
        if (event == "line" or event == "opcode") and not self.aborting:
            if event == "line" and frame.f_trace_opcodes:
                return self._local  # the opcode event of the same instruction follows
            lab = self.label_of(frame)
            if lab is not None:
                self._point(tid, lab)
        return self._local

    def _global(self, frame, event, arg):
        if self.want_code(frame.f_code):
            if self.on_trace is not None:
                self.on_trace(_CUR.tid, frame, event, arg)
            if frame.f_code in self.opcode_codes:
                frame.f_trace_opcodes = True
            return self._local
        return None

    def _body(self, tid):
        self.go[tid].acquire()
        _CUR.tid = tid
        out = None
        if not self.aborting:
            sys.settrace(self._global)
            try:
                out = ("ok", self.fns[tid]())
            except Deadlock:
                out = ("deadlock",)
            except BaseException as e:  # noqa: BLE001 - outcomes are data
                out = ("err", type(e).__name__, str(e)[:200])
            finally:
                sys.settrace(None)
        else:
            out = ("deadlock",)
        self.res.outcomes[tid] = out
        self.status[tid] = "done"
        _CUR.tid = None
        self._pass_on(tid)

    def _pass_on(self, me):
        if all(s == "done" for s in self.status):
            self.finished.set()
            return
        if self.aborting:
            for t in range(self.n):
                if self.status[t] != "done":
                    self.go[t].release()  # one at a time: it unwinds and passes on
                    return
        runnable = self._runnable()
        if not runnable:
            self._start_abort("deadlock")
            self._pass_on(me)
            return
        nxt = self._decide(me, runnable, True, "end")
        self.go[nxt].release()

    # -- driver ---------------------------------------------------------------
    def run(self):
        global _ACTIVE
        if _ACTIVE is not None:
            raise RuntimeError("nested schedulers")
        _ACTIVE = self
        # Keep (legacy) tracing switched on in this thread for the whole run: CPython >= 3.12
        # (de)instruments every code object when the number of tracing threads changes between
        # 0 and 1; doing that only while no scheduled thread exists avoids re-instrumenting code
        # that another thread is in the middle of executing (seen to crash 3.12.1).
        restore = None
        if sys.gettrace() is None:
            restore = True
            sys.settrace(_noop_trace)
        try:
            ths = [threading.Thread(target=self._body, args=(i,), daemon=True) for i in range(self.n)]
            for t in ths:
                t.start()
            first = self._decide(None, self._runnable(), True, "start")
            self.go[first].release()
            if not self.finished.wait(self.watchdog):
                raise SchedulerHang(f"scheduler watchdog fired after {self.watchdog}s (k={self.k})")
            for t in ths:
                t.join(10.0)
        finally:
            _ACTIVE = None
            if restore:
                sys.settrace(None)
        return self.res


# ---------------------------------------------------------------------------
# policies
# ---------------------------------------------------------------------------


class Replay:
    """Follow explicit decisions {k: tid}; otherwise stay on the current thread,
    and at forced points take the lowest runnable thread id."""

    def __init__(self, decisions=None):
        self.decisions = dict(decisions or {})
        self.missed = []

    def choose(self, k, cur, runnable, forced, label):
        if k in self.decisions:
            t = self.decisions[k]
            if t in runnable:
                return t
            self.missed.append(k)
        if not forced and cur in runnable:
            return cur
        return min(runnable)


class AtLabels:
    """Pre-empt by label, robust to line renumbering: rules `[tid, label, occurrence, switch_to]` —
    when thread `tid` reaches a switch point labelled `label` for the `occurrence`-th time, run
    `switch_to` instead (a label ending in `*` is a prefix pattern, counted per pattern).
    Otherwise like `Replay({})`; `start` picks the first thread."""

    def __init__(self, rules, start=None):
        self.rules = [tuple(r) for r in rules]
        self.start = start
        self.seen = {}
        self.fired = []

    def choose(self, k, cur, runnable, forced, label):
        if forced:
            if label == "start" and self.start in runnable:
                return self.start
            return min(runnable)
        counts = {}
        for lab in {r[1] for r in self.rules} | {label}:
            hit = lab == label or (isinstance(lab, str) and isinstance(label, str) and lab.endswith("*") and label.startswith(lab[:-1]))
            if hit:
                counts[lab] = self.seen[(cur, lab)] = self.seen.get((cur, lab), 0) + 1
        for tid, lab, occ, to in self.rules:
            if tid == cur and counts.get(lab) == occ and to in runnable:
                self.fired.append((tid, lab, occ, to))
                return to
        return cur


class RandomPriority:
    """PCT-style: random distinct priorities; at `depth-1` random decision
    indices the running thread's priority drops below all others."""

    def __init__(self, rng, n, depth=3, horizon=300):
        pr = list(range(n))
        rng.shuffle(pr)
        self.prio = {t: depth + pr[t] for t in range(n)}
        self.change = {}
        for i in range(max(0, depth - 1)):
            self.change[rng.randrange(horizon)] = depth - 1 - i

    def choose(self, k, cur, runnable, forced, label):
        if k in self.change and cur is not None:
            self.prio[cur] = self.change[k]
        return max(runnable, key=lambda t: self.prio[t])


class RandomWalk:
    """Switch with probability p at every labelled point."""

    def __init__(self, rng, p=0.25):
        self.rng, self.p = rng, p

    def choose(self, k, cur, runnable, forced, label):
        if forced or cur not in runnable or self.rng.random() < self.p:
            return self.rng.choice(runnable)
        return cur


# ---------------------------------------------------------------------------
# bounded exploration
# ---------------------------------------------------------------------------


def explore(run, max_preempt, max_runs=None, point_ok=None):
    """
    Enumerate every schedule with at most `max_preempt` pre-emptions (switches
    at a labelled point although the running thread could continue); choices at
    forced points (thread start, thread end, blocked on a lock) are free and all
    explored. `run(policy) -> Result`. Yields (decisions_dict, preemptions, result).
    `point_ok(label)` may restrict the labels at which pre-emption is tried.
    """
    stack = [({}, -1, 0)]
    runs = 0
    while stack:
        dec, last, used = stack.pop()
        res = run(Replay(dec))
        runs += 1
        yield dec, used, res
        if max_runs is not None and runs >= max_runs:
            return
        children = []
        for d in res.decisions:
            if d.k <= last or len(d.runnable) < 2:
                continue
            alts = [t for t in d.runnable if t != d.chosen]
            if d.forced:
                for t in alts:
                    children.append(({**dec, d.k: t}, d.k, used))
            elif used < max_preempt and (point_ok is None or point_ok(d.label)):
                for t in alts:
                    children.append(({**dec, d.k: t}, d.k, used + 1))
        stack.extend(reversed(children))


def patch_locks():
    """Replace the library's locks by cooperative ones. Returns an undo function.
    (`spec_classes.spec_class` the attribute is the decorator class: go through sys.modules.)"""
    import spec_classes.utils.mutation as mut  # noqa: F401

    mods = [sys.modules["spec_classes.utils.mutation"], sys.modules["spec_classes.spec_class"]]
    saved = [(m, m.__dict__.get("RLock")) for m in mods]
    _ARMED[0] += 1
    for m in mods:
        if "RLock" in m.__dict__:
            m.RLock = CoopRLock
    guard = mods[0]._modules_copyable
    saved_lock = guard.__dict__.get("lock", None)
    had_lock = "lock" in guard.__dict__
    if had_lock:
        guard.lock = CoopRLock()
    inst = guard.__dict__.get("__instance__")
    saved_inst_lock = None
    if inst is not None and "lock" in getattr(inst, "__dict__", {}):
        saved_inst_lock = inst.__dict__["lock"]
        inst.__dict__["lock"] = CoopRLock()

    def undo():
        _ARMED[0] -= 1
        for m, v in saved:
            if v is not None:
                m.RLock = v
        if had_lock:
            guard.lock = saved_lock
        if saved_inst_lock is not None:
            inst.__dict__["lock"] = saved_inst_lock

    return undo
