import SpecVerif.Model.C02Masked
/-!
Line-protocol driver of `SpecVerif.C02Masked` (instances with descriptor-backed
attributes): evaluates the very definitions `Props/C02Masked.lean` is about.
Canonical printing, reference paths and the `table` / `class` / `attr` / `boot` /
`arg` lines are those of `Drivers/Heap.lean` (copied; that file is shared).

Additional input lines:

  desc <c> <a> sp ov=<b> cache=<b> g=<lit~LIT|attr~b|listof~b> fset=<s|->
  desc <c> <a> alias target=<t> slot=<s> pass=<b> fb=<LIT|->
  desc <c> <a> prop slot=<s> setter=<b>
  op <dst|-> new <c> [k<a>=<ref>]*
  op <dst|-> copy <ref>
  op <dst|-> get <ref> <a>            the value read is printed as the last root `ret`
  op - set <ref> <a> <ref>
  op - del <ref> <a>
  op <dst|-> with <ref> <a> <ref> ip=<b>
  op <dst|-> reset <ref> <a> ip=<b>

Output: `<outcome> ;; <canonical world>`.
-/
open SpecVerif.Py SpecVerif.Heap SpecVerif.C02Masked

/-! ## State of the driver -/

structure DS where
  T : List ClassDecl := []
  descs : List ((Nat × Nat) × Desc) := []
  X : Ctx := { T := [] }
  heap : Heap := []
  vars : List (Nat × Ref) := []
  args : List (Nat × Ref) := []
  faults : List (CbKind × Nat) := []
  budget : Option Nat := none

def DS.D (d : DS) : MCtx := { X := d.X, descs := d.descs, depth := 12 }

/-! ## Canonical printing -/

def showSc : Sc → String
  | .none => "N" | .missing => "M"
  | .bool true => "T" | .bool false => "F"
  | .int n => s!"i{n}" | .str t => s!"s{t}"

structure PS where
  seen : List (Nat × Nat) := []

def joinWith (sep : String) : List String → String
  | [] => ""
  | [x] => x
  | x :: xs => x ++ sep ++ joinWith sep xs

def showList (f : Ref → PS → String × PS) : List Ref → PS → List String × PS
  | [], p => ([], p)
  | r :: rs, p =>
    let (s, p1) := f r p
    let (ss, p2) := showList f rs p1
    (s :: ss, p2)

def showKVs (f : Ref → PS → String × PS) : List (Sc × Ref) → PS → List String × PS
  | [], p => ([], p)
  | (k, r) :: rs, p =>
    let (s, p1) := f r p
    let (ss, p2) := showKVs f rs p1
    ((showSc k ++ ":" ++ s) :: ss, p2)

def showFields (f : Ref → PS → String × PS) : List (Nat × Ref) → PS → List String × PS
  | [], p => ([], p)
  | (a, r) :: rs, p =>
    let (s, p1) := f r p
    let (ss, p2) := showFields f rs p1
    ((s!"{a}=" ++ s) :: ss, p2)

def insertSorted (x : Nat × Ref) : List (Nat × Ref) → List (Nat × Ref)
  | [] => [x]
  | y :: ys => if x.1 ≤ y.1 then x :: y :: ys else y :: insertSorted x ys
def sortFields (fs : List (Nat × Ref)) : List (Nat × Ref) := fs.foldr insertSorted []

def scKey : Sc → Int × Int
  | .none => (0, 0) | .missing => (1, 0) | .bool b => (2, if b then 1 else 0)
  | .int n => (3, n) | .str t => (4, t)
def scLe (a b : Sc) : Bool :=
  let (x1, x2) := scKey a
  let (y1, y2) := scKey b
  x1 < y1 || (x1 == y1 && x2 ≤ y2)
def insertSc (x : Sc) : List Sc → List Sc
  | [] => [x]
  | y :: ys => if scLe x y then x :: y :: ys else y :: insertSc x ys
def sortScs (xs : List Sc) : List Sc := xs.foldr insertSc []

def showRef (h : Heap) : Nat → Ref → PS → String × PS
  | _, .sc s, p => (showSc s, p)
  | 0, .obj _, p => ("?", p)
  | fuel+1, .obj i, p =>
    match alGet i p.seen with
    | some k => (s!"#{k}", p)
    | none =>
      let k := p.seen.length
      let p := { p with seen := p.seen ++ [(i, k)] }
      match h[i]? with
      | none => (s!"?{k}", p)
      | some (.list xs) =>
        let (ss, p1) := showList (showRef h fuel) xs p
        (s!"L{k}[" ++ joinWith "," ss ++ "]", p1)
      | some (.dict kvs) =>
        let (ss, p1) := showKVs (showRef h fuel) kvs p
        (s!"D{k}\{" ++ joinWith "," ss ++ "}", p1)
      | some (.set xs) =>
        (s!"S{k}\{" ++ joinWith "," ((sortScs xs).map showSc) ++ "}", p)
      | some (.inst c t fs) =>
        let (ss, p1) := showFields (showRef h fuel) (sortFields fs) p
        (s!"I{k}:c{c}" ++ (if t then "!" else "") ++ "{" ++ joinWith "," ss ++ "}", p1)

def showRoots (h : Heap) : List (String × Ref) → PS → List String × PS
  | [], p => ([], p)
  | (n, r) :: rs, p =>
    let (s, p1) := showRef h (h.length + 1) r p
    let (ss, p2) := showRoots h rs p1
    ((n ++ "=" ++ s) :: ss, p2)

def sortPairs (xs : List (Nat × Ref)) : List (Nat × Ref) := sortFields xs

def DS.roots (d : DS) : List (String × Ref) :=
  (d.X.clsDict.reverse.map fun ((c, a), r) => (s!"cd{c}.{a}", r)) ++
  (d.X.specDef.reverse.map fun ((c, a), r) => (s!"sd{c}.{a}", r)) ++
  ((sortPairs d.args).map fun (n, r) => (s!"a{n}", r)) ++
  ((sortPairs d.vars).map fun (n, r) => (s!"v{n}", r))

def showWorld (d : DS) (h : Heap) : String :=
  joinWith " " (showRoots h d.roots {}).1

/-! ## Parsing -/

def parseSc (s : String) : Option Sc :=
  if s == "N" then some .none
  else if s == "M" then some .missing
  else if s == "T" then some (.bool true)
  else if s == "F" then some (.bool false)
  else if s.startsWith "i" then (s.drop 1).toString.toInt?.map Sc.int
  else if s.startsWith "s" then (s.drop 1).toString.toNat?.map Sc.str
  else none

def splitCommas (s : String) : List String :=
  if s.isEmpty then [] else s.splitOn ","

def parseLit (s : String) : Option Lit :=
  match s.splitOn ":" with
  | ["sc", x] => (parseSc x).map Lit.sc
  | ["list", xs] => ((splitCommas xs).mapM parseSc).map Lit.list
  | ["set", xs] => ((splitCommas xs).mapM parseSc).map Lit.set
  | ["dict", kvs] =>
    ((splitCommas kvs).mapM fun (kv : String) =>
      match kv.splitOn ">" with
      | [k, v] => do pure ((← parseSc k), (← parseSc v))
      | _ => none).map Lit.dict
  | ["inst", c] => c.toNat?.map Lit.newInst
  | ["linst", c, n] => do pure (Lit.listInst (← c.toNat?) (← n.toNat?))
  | _ => none

def parseCb (s : String) : Option Cb :=
  match s.splitOn ":" with
  | ["ident"] => some .ident
  | ["inc"] => some .inc
  | ["rebuild"] => some .rebuild
  | ["abs"] => some .absInt
  | ["const", x] => (parseSc x).map Cb.const
  | ["append", x] => (parseSc x).map Cb.append
  | _ => none

def parseOptCb (s : String) : Option (Option Cb) :=
  if s == "-" then some none else (parseCb s).map some

def parseKind (s : String) : Option Kind :=
  match s.splitOn ":" with
  | ["int"] => some .int | ["str"] => some .str | ["li"] => some .listInt
  | ["dsi"] => some .dictStrInt | ["si"] => some .setInt
  | ["spec", c] => c.toNat?.map Kind.spec
  | ["ls", c] => c.toNat?.map Kind.listSpec
  | _ => none

def parseDk (s : String) : Option DefKind :=
  match s with
  | "none" => some .none | "plain" => some .plain | "attr" => some .attr
  | "factory" => some .factory | "fplain" => some .fieldPlain | "ffactory" => some .fieldFactory
  | _ => none

def parseBool (s : String) : Option Bool :=
  if s == "1" then some true else if s == "0" then some false else none

def parseCbKind (s : String) : Option CbKind :=
  match s with
  | "transform" => some .transform | "attrTransform" => some .attrTransform
  | "preparer" => some .preparer | "itemPreparer" => some .itemPreparer
  | "postCopy" => some .postCopy
  | _ => none

/-- `key=value` token → value, given the key. -/
def kv (key : String) (tok : String) : Option String :=
  match tok.splitOn "=" with
  | [k, v] => if k == key then some v else none
  | _ => none

/-- Path steps after the root: `.3` attribute, `[2]` list index. -/
inductive PStep | attr (a : Nat) | idx (n : Int)

partial def parseSteps (cs : List Char) : Option (List PStep) :=
  match cs with
  | [] => some []
  | '.' :: rest =>
    let ds := rest.takeWhile Char.isDigit
    let rest' := rest.dropWhile Char.isDigit
    do
      let a ← (String.ofList ds).toNat?
      let more ← parseSteps rest'
      pure (.attr a :: more)
  | '[' :: rest =>
    let ds := rest.takeWhile (fun c => c != ']')
    let rest' := (rest.dropWhile (fun c => c != ']')).drop 1
    do
      let n ← (String.ofList ds).toInt?
      let more ← parseSteps rest'
      pure (.idx n :: more)
  | _ => none

def followStep (h : Heap) (r : Ref) : PStep → Option Ref
  | .attr a => (match r with
      | .obj i => (match h[i]? with
          | some (.inst _ _ fs) => alGet a fs
          | _ => none)
      | _ => none)
  | .idx n => (match r with
      | .obj i => (match h[i]? with
          | some (.list xs) => (pyIdx xs.length n).bind (fun k => xs[k]?)
          | _ => none)
      | _ => none)

def followSteps (h : Heap) (r : Ref) : List PStep → Option Ref
  | [] => some r
  | s :: ss => (followStep h r s).bind (fun r' => followSteps h r' ss)

/-- A reference token: scalar, or `@v<n>…` / `@a<n>…` path. -/
def parseRef (d : DS) (s : String) : Option Ref :=
  if s.startsWith "@" then
    let cs := (s.drop 1).toString.toList
    match cs with
    | kind :: rest =>
      let ds := rest.takeWhile Char.isDigit
      let rest' := rest.dropWhile Char.isDigit
      do
        let n ← (String.ofList ds).toNat?
        let root ← if kind == 'v' then alGet n d.vars else if kind == 'a' then alGet n d.args else none
        let steps ← parseSteps rest'
        followSteps d.heap root steps
    | [] => none
  else (parseSc s).map Ref.sc

/-- Trailing `k<a>=<ref>` tokens. -/
def parseKw (d : DS) : List String → Option (List (Nat × Ref))
  | [] => some []
  | t :: ts =>
    if t.startsWith "k" then
      match (t.drop 1).toString.splitOn "=" with
      | [a, v] => do
        let a ← a.toNat?
        let v ← parseRef d v
        let rest ← parseKw d ts
        pure ((a, v) :: rest)
      | _ => none
    else none


def parseGetter (s : String) : Option Getter :=
  match s.splitOn "~" with
  | ["lit", l] => (parseLit l).map Getter.lit
  | ["attr", b] => b.toNat?.map Getter.attr
  | ["listof", b] => b.toNat?.map Getter.listOf
  | _ => none

def parseOptNat (s : String) : Option (Option Nat) :=
  if s == "-" then some none else s.toNat?.map some

def parseOptLit (s : String) : Option (Option Lit) :=
  if s == "-" then some none else (parseLit s).map some

def parseDesc (ts : List String) : Option ((Nat × Nat) × Desc) :=
  match ts with
  | [c, a, "sp", ov, ca, g, fset] => do
    pure ((← c.toNat?, ← a.toNat?),
      .specProp (← (kv "ov" ov).bind parseBool) (← (kv "cache" ca).bind parseBool)
        (← (kv "g" g).bind parseGetter) (← (kv "fset" fset).bind parseOptNat))
  | [c, a, "alias", t, s, p, fb] => do
    pure ((← c.toNat?, ← a.toNat?),
      .alias (← (kv "target" t).bind String.toNat?) (← (kv "slot" s).bind String.toNat?)
        (← (kv "pass" p).bind parseBool) (← (kv "fb" fb).bind parseOptLit))
  | [c, a, "prop", s, st] => do
    pure ((← c.toNat?, ← a.toNat?),
      .prop (← (kv "slot" s).bind String.toNat?) (← (kv "setter" st).bind parseBool))
  | _ => none

def parseIp (s : String) : Option Bool := (kv "ip" s).bind parseBool

def parseMOp (d : DS) (ts : List String) : Option MOp :=
  match ts with
  | "new" :: c :: kw => do pure (.construct (← c.toNat?) (← parseKw d kw))
  | ["copy", r] => do pure (.deepcopy (← parseRef d r))
  | ["get", r, a] => do pure (.get (← parseRef d r) (← a.toNat?))
  | ["set", r, a, v] => do pure (.set (← parseRef d r) (← a.toNat?) (← parseRef d v))
  | ["del", r, a] => do pure (.del (← parseRef d r) (← a.toNat?))
  | ["with", r, a, v, ip] => do
    pure (.withAttr (← parseRef d r) (← a.toNat?) (← parseRef d v) (← parseIp ip))
  | ["reset", r, a, ip] => do pure (.resetAttr (← parseRef d r) (← a.toNat?) (← parseIp ip))
  | _ => none

def isGet : MOp → Bool
  | .get _ _ => true
  | _ => false

def showWorldRet (d : DS) (h : Heap) (ret : Option Ref) : String :=
  let roots := d.roots ++ (match ret with | some r => [("ret", r)] | none => [])
  joinWith " " (showRoots h roots {}).1

def showExn : Exn → String
  | .py e => "err " ++ e.name
  | .boom => "err Boom"

def setAt {α} (n : Nat) (v : α) (l : List (Nat × α)) : List (Nat × α) := alSet n v l

def parseClassLine (ts : List String) : Option (Nat × ClassDecl) :=
  match ts with
  | [c, fr, dnc, base, plain, pc] => do
    let c ← c.toNat?
    let fr ← (kv "frozen" fr).bind parseBool
    let dnc ← (kv "dnc" dnc).bind parseBool
    let base ← kv "base" base
    let base ← if base == "-" then some none else base.toNat?.map some
    let plain ← (kv "plain" plain).bind parseBool
    let pc ← (kv "postcopy" pc).bind parseBool
    pure (c, { frozen := fr, dnc := dnc, base := base, plain := plain, postCopy := pc })
  | _ => none

def parseAttrLine (ts : List String) : Option (Nat × AttrDecl) :=
  match ts with
  | [c, a, kind, dk, lit, dnc, prep, iprep, owner] => do
    let c ← c.toNat?
    let a ← a.toNat?
    let kind ← (kv "kind" kind).bind parseKind
    let dk ← (kv "dk" dk).bind parseDk
    let lit ← (kv "lit" lit).bind parseLit
    let dnc ← (kv "dnc" dnc).bind parseBool
    let prep ← (kv "prep" prep).bind parseOptCb
    let iprep ← (kv "iprep" iprep).bind parseOptCb
    let owner ← (kv "owner" owner).bind String.toNat?
    pure (c, { name := a, kind := kind, dk := dk, lit := lit, dnc := dnc, prep := prep,
               iprep := iprep, owner := owner })
  | _ => none

def updateClass (T : List ClassDecl) (c : Nat) (f : ClassDecl → ClassDecl) : List ClassDecl :=
  let T := if c < T.length then T else T ++ List.replicate (c + 1 - T.length) ({} : ClassDecl)
  T.set c (f (T.getD c {}))


def handle (d : DS) (line : String) : DS × String :=
  match (line.trimAscii.toString.splitOn " ").filter (· ≠ "") with
  | ["table"] => ({}, "ok")
  | "class" :: ts =>
    match parseClassLine ts with
    | some (c, cd) => ({ d with T := updateClass d.T c (fun old => { cd with attrs := old.attrs, overrides := old.overrides }) }, "ok")
    | none => (d, "bad-class")
  | "attr" :: ts =>
    match parseAttrLine ts with
    | some (c, ad) => ({ d with T := updateClass d.T c (fun old => { old with attrs := old.attrs ++ [ad] }) }, "ok")
    | none => (d, "bad-attr")
  | "desc" :: ts =>
    match parseDesc ts with
    | some kd => ({ d with descs := d.descs ++ [kd] }, "ok")
    | none => (d, "bad-desc")
  | ["boot"] =>
    let (X, h) := boot d.T
    let d' := { d with X := X, heap := h, vars := [], args := [] }
    (d', "ok ;; " ++ showWorld d' h)
  | ["arg", n, lit] =>
    match n.toNat?, parseLit lit with
    | some n, some lit =>
      match instantiate d.X lit { heap := d.heap } with
      | (.ok r, s) =>
        let d' := { d with heap := s.heap, args := setAt n r d.args }
        (d', "ok ;; " ++ showWorld d' s.heap)
      | (.error e, s) => ({ d with heap := s.heap }, showExn e ++ " ;; " ++ showWorld d s.heap)
    | _, _ => (d, "bad-arg")
  | "op" :: dst :: ts =>
    match parseMOp d ts with
    | none => (d, "bad-op")
    | some op =>
      let (res, s) := mstep d.D d.heap op [] none
      let d1 := { d with heap := s.heap }
      match res with
      | .ok r =>
        let d2 := match (dst.drop 1).toString.toNat? with
          | some n => if dst.startsWith "v" then { d1 with vars := setAt n r d1.vars } else d1
          | none => d1
        (d2, "ok ;; " ++ showWorldRet d2 s.heap (if isGet op then some r else none))
      | .error e => (d1, showExn e ++ " ;; " ++ showWorld d1 s.heap)
  | _ => (d, "bad-line")

partial def loop (h : IO.FS.Stream) (out : IO.FS.Stream) (d : DS) : IO Unit := do
  let line ← h.getLine
  if line.isEmpty then return ()
  let (d', o) := handle d line
  out.putStrLn o
  loop h out d'

def main : IO Unit := do
  loop (← IO.getStdin) (← IO.getStdout) {}
