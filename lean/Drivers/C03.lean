import SpecVerif.Model.C05Proto
import SpecVerif.Model.C03
/-!
Line-protocol driver for the C03 correspondence: every command of `Drivers/C05.lean`
(class table, constructor, scalar / top-level helpers, assignment, deletion) plus the
element helpers of list / dict / set attributes. It evaluates `SpecVerif.C03.step` and, after
every command, the invariant `SpecVerif.C03.wt` on the receiver and on the returned object.

Additional commands (flags as in C05; `<by>` ∈ {a (auto), y, n}; `<ins>` ∈ {0,1}):
  `ewith <flags> <attr> <item v> <index v> <ins>`   with_<item>(item, _index=index, _insert=ins)   (M = not given)
  `eupd  <flags> <attr> <voi v> <new v> <by>`       update_<item>(voi, new, _by_index=by)
  `etra  <flags> <attr> <voi v> <tr> <by>`          transform_<item>(voi, tr, _by_index=by)
  `edel  <flags> <attr> <voi v> <by>`               without_<item>(voi, _by_index=by)
  `mwith <flags> <attr> <k v> <v v>` · `mupd <flags> <attr> <k v> <new v>` · `mtra <flags> <attr> <k v> <tr>` · `mdel <flags> <attr> <k v>`
  `swith <flags> <attr> <item v>` · `supd <flags> <attr> <item v> <new v>` · `stra <flags> <attr> <item v> <tr>` · `sdel <flags> <attr> <item v>`
Output: `<ret> ;; <receiver state> ;; wt=<0|1><0|1>` (invariant on the receiver, on the returned object).
-/
open SpecVerif.Py SpecVerif.C05 SpecVerif.C03 C05Driver

namespace C03Driver

def pBy : P ByIndex
  | "a" :: r => some (.auto, r)
  | "y" :: r => some (.yes, r)
  | "n" :: r => some (.no, r)
  | _ => none

def pBool : P Bool
  | "1" :: r => some (true, r)
  | "0" :: r => some (false, r)
  | _ => none

def parseElem (ts : List String) : Option (Nat × EOp × Flags) :=
  match ts with
  | "ewith" :: r => do
      let (f, r) ← pFlags r; let (a, r) ← pNat r; let (it, r) ← pVal r; let (ix, r) ← pVal r; let (ins, _) ← pBool r
      pure (a, .seqWith it ix ins, f)
  | "eupd" :: r => do
      let (f, r) ← pFlags r; let (a, r) ← pNat r; let (v, r) ← pVal r; let (nw, r) ← pVal r; let (b, _) ← pBy r
      pure (a, .seqUpdate v nw b, f)
  | "etra" :: r => do
      let (f, r) ← pFlags r; let (a, r) ← pNat r; let (v, r) ← pVal r; let (t, r) ← pTr r; let t ← t; let (b, _) ← pBy r
      pure (a, .seqTransform v t.fn b, f)
  | "edel" :: r => do
      let (f, r) ← pFlags r; let (a, r) ← pNat r; let (v, r) ← pVal r; let (b, _) ← pBy r
      pure (a, .seqWithout v b, f)
  | "mwith" :: r => do
      let (f, r) ← pFlags r; let (a, r) ← pNat r; let (k, r) ← pVal r; let (v, _) ← pVal r
      pure (a, .mapWith k v, f)
  | "mupd" :: r => do
      let (f, r) ← pFlags r; let (a, r) ← pNat r; let (k, r) ← pVal r; let (v, _) ← pVal r
      pure (a, .mapUpdate k v, f)
  | "mtra" :: r => do
      let (f, r) ← pFlags r; let (a, r) ← pNat r; let (k, r) ← pVal r; let (t, _) ← pTr r; let t ← t
      pure (a, .mapTransform k t.fn, f)
  | "mdel" :: r => do
      let (f, r) ← pFlags r; let (a, r) ← pNat r; let (k, _) ← pVal r
      pure (a, .mapWithout k, f)
  | "swith" :: r => do
      let (f, r) ← pFlags r; let (a, r) ← pNat r; let (v, _) ← pVal r
      pure (a, .setWith v, f)
  | "supd" :: r => do
      let (f, r) ← pFlags r; let (a, r) ← pNat r; let (v, r) ← pVal r; let (nw, _) ← pVal r
      pure (a, .setUpdate v nw, f)
  | "stra" :: r => do
      let (f, r) ← pFlags r; let (a, r) ← pNat r; let (v, r) ← pVal r; let (t, _) ← pTr r; let t ← t
      pure (a, .setTransform v t.fn, f)
  | "sdel" :: r => do
      let (f, r) ← pFlags r; let (a, r) ← pNat r; let (v, _) ← pVal r
      pure (a, .setWithout v, f)
  | _ => none

def bit (b : Bool) : String := if b then "1" else "0"

def wtSuffix (E : Env) (o : Outcome) : String :=
  " ;; wt=" ++ bit (wt E o.recv) ++ bit (wt E o.result)

def handle (st : St) (line : String) : St × String :=
  let ts := (line.trimAscii.toString.splitOn " ").filter (· ≠ "")
  match ts with
  | "new" :: _ =>
    let (st', o) := C05Driver.handle st line
    (st', o ++ " ;; wt=" ++ bit (wt st'.env st'.recv) ++ bit (wt st'.env st'.recv))
  | "reset" :: _ => C05Driver.handle st line
  | "class" :: _ => C05Driver.handle st line
  | _ =>
    if st.dead then (st, "err AttributeError ;; N ;; wt=11")
    else match parseElem ts with
      | some (a, op, f) =>
        let o := step st.env FUEL st.recv (.elem a op f.inplace f.cond)
        let (st', s) := showRes st f.adopt o
        (st', s ++ wtSuffix st.env o)
      | none =>
        match parseCall ts with
        | none => (st, "bad-op")
        | some (call, adopt) =>
          let o := step st.env FUEL st.recv (.api call)
          let (st', s) := showRes st adopt o
          (st', s ++ wtSuffix st.env o)

partial def loop (h : IO.FS.Stream) (out : IO.FS.Stream) (st : St) : IO Unit := do
  let line ← h.getLine
  if line.isEmpty then return ()
  let (st', o) := handle st line
  out.putStrLn o
  loop h out st'

end C03Driver

def main : IO Unit := do
  C03Driver.loop (← IO.getStdin) (← IO.getStdout) {}
