import SpecVerif.Model.C05Proto
import SpecVerif.Model.C03
import SpecVerif.Model.C03Boot
/-!
Line-protocol driver for the C03 correspondence: every command of `Drivers/C05.lean`
(class table, constructor, scalar / top-level helpers, assignment, deletion) plus the
element helpers of list / dict / set attributes. It evaluates `SpecVerif.C03.step` and, after
every command, the invariant `SpecVerif.C03.wt` on the receiver and on the returned object.

Additional commands (flags as in C05; `<by>` ∈ {a (auto), y, n}; `<ins>` ∈ {0,1}):
  `ewith <flags> <attr> <item v> <index v> <ins>`   with_<item>(item, _index=index, _insert=ins)   (M = not given)
  `eupd  <flags> <attr> <voi v> <new v> <by>`       update_<item>(voi, new, _by_index=by)
  `etra  <flags> <attr> <voi v> <tr> <by>`          transform_<item>(voi, tr, _by_index=by)
  `edel  <flags> <attr> <voi v> <by>`               without_<item>(voi, _by_index=by)
  `mwith <flags> <attr> <k v> <v v>` · `mupd <flags> <attr> <k v> <new v>` · `mtra <flags> <attr> <k v> <tr>` · `mdel <flags> <attr> <k v>`
  `swith <flags> <attr> <item v>` · `supd <flags> <attr> <item v> <new v>` · `stra <flags> <attr> <item v> <tr>` · `sdel <flags> <attr> <item v>`
Output: `<ret> ;; <receiver state> ;; wt=<0|1><0|1>` (invariant on the receiver, on the returned object).

Class statements instead of ready-made class table lines (`SpecVerif.C03Boot.bootstrap` computes the table entry):
  `decl <id> <s|p> <base|_> <key: _ inherit, - None, N> <ovf|_> <skip: _ | k a…> <k> <attrs a…> <k> <attrs_typed (a ty)…>
        <k> <entries (name <ann ty|_> <body: _ | v val | d val | f val | b | p val> <prep|_> <item prep|_>)…>`
A `new` line may come more than once per case: every one starts a new receiver (classes used before the class under
test is first used).
-/
open SpecVerif.Py SpecVerif.C05 SpecVerif.C03 SpecVerif.C03Boot C05Driver

namespace C03Driver

def pBy : P ByIndex
  | "a" :: r => some (.auto, r)
  | "y" :: r => some (.yes, r)
  | "n" :: r => some (.no, r)
  | _ => none

def pBool : P Bool
  | "1" :: r => some (true, r)
  | "0" :: r => some (false, r)
  | _ => none

def parseElem (ts : List String) : Option (Nat × EOp × Flags) :=
  match ts with
  | "ewith" :: r => do
      let (f, r) ← pFlags r; let (a, r) ← pNat r; let (it, r) ← pVal r; let (ix, r) ← pVal r; let (ins, _) ← pBool r
      pure (a, .seqWith it ix ins, f)
  | "eupd" :: r => do
      let (f, r) ← pFlags r; let (a, r) ← pNat r; let (v, r) ← pVal r; let (nw, r) ← pVal r; let (b, _) ← pBy r
      pure (a, .seqUpdate v nw b, f)
  | "etra" :: r => do
      let (f, r) ← pFlags r; let (a, r) ← pNat r; let (v, r) ← pVal r; let (t, r) ← pTr r; let t ← t; let (b, _) ← pBy r
      pure (a, .seqTransform v t.fn b, f)
  | "edel" :: r => do
      let (f, r) ← pFlags r; let (a, r) ← pNat r; let (v, r) ← pVal r; let (b, _) ← pBy r
      pure (a, .seqWithout v b, f)
  | "mwith" :: r => do
      let (f, r) ← pFlags r; let (a, r) ← pNat r; let (k, r) ← pVal r; let (v, _) ← pVal r
      pure (a, .mapWith k v, f)
  | "mupd" :: r => do
      let (f, r) ← pFlags r; let (a, r) ← pNat r; let (k, r) ← pVal r; let (v, _) ← pVal r
      pure (a, .mapUpdate k v, f)
  | "mtra" :: r => do
      let (f, r) ← pFlags r; let (a, r) ← pNat r; let (k, r) ← pVal r; let (t, _) ← pTr r; let t ← t
      pure (a, .mapTransform k t.fn, f)
  | "mdel" :: r => do
      let (f, r) ← pFlags r; let (a, r) ← pNat r; let (k, _) ← pVal r
      pure (a, .mapWithout k, f)
  | "swith" :: r => do
      let (f, r) ← pFlags r; let (a, r) ← pNat r; let (v, _) ← pVal r
      pure (a, .setWith v, f)
  | "supd" :: r => do
      let (f, r) ← pFlags r; let (a, r) ← pNat r; let (v, r) ← pVal r; let (nw, _) ← pVal r
      pure (a, .setUpdate v nw, f)
  | "stra" :: r => do
      let (f, r) ← pFlags r; let (a, r) ← pNat r; let (v, r) ← pVal r; let (t, _) ← pTr r; let t ← t
      pure (a, .setTransform v t.fn, f)
  | "sdel" :: r => do
      let (f, r) ← pFlags r; let (a, r) ← pNat r; let (v, _) ← pVal r
      pure (a, .setWithout v, f)
  | _ => none

def pOptTy : P (Option Ty)
  | "_" :: r => some (none, r)
  | r => (pTy r).map (fun (t, r) => (some t, r))

def pBody : P Body
  | "_" :: r => some (.absent, r)
  | "b" :: r => some (.bare, r)
  | "v" :: r => (pVal r).map (fun (v, r) => (.value v, r))
  | "d" :: r => (pVal r).map (fun (v, r) => (.dflt v, r))
  | "f" :: r => (pVal r).map (fun (v, r) => (.factory v, r))
  | "p" :: r => (pVal r).map (fun (v, r) => (.prop v, r))
  | _ => none

partial def pEntries : Nat → P (List Entry)
  | 0, r => some ([], r)
  | k+1, r => do
      let (name, r) ← pNat r; let (ann, r) ← pOptTy r; let (body, r) ← pBody r
      let (p, r) ← pOptNat r; let (ip, r) ← pOptNat r
      let (es, r) ← pEntries k r
      pure ({ name := name, ann := ann, body := body, prep := p, itemPrep := ip } :: es, r)

partial def pTyped : Nat → P (List (Nat × Ty))
  | 0, r => some ([], r)
  | k+1, r => do
      let (a, r) ← pNat r; let (t, r) ← pTy r; let (ts, r) ← pTyped k r
      pure ((a, t) :: ts, r)

def pKeyOpt : P KeyOpt
  | "_" :: r => some (.inherit, r)
  | "-" :: r => some (.disabled, r)
  | t :: r => t.toNat?.map (fun n => (.named n, r))
  | [] => none

def pSkip : P (Option (List Nat))
  | "_" :: r => some (none, r)
  | r => do let (k, r) ← pNat r; let (xs, r) ← pNats k r; pure (some xs, r)

def pDecl : P Decl := fun r => do
  let (id, r) ← pNat r
  let (isSpec, r) ← (match r with | "s" :: r => some (true, r) | "p" :: r => some (false, r) | _ => none)
  let (base, r) ← pOptNat r
  let (key, r) ← pKeyOpt r
  let (ovf, r) ← pOptNat r
  let (skip, r) ← pSkip r
  let (na, r) ← pNat r; let (attrs, r) ← pNats na r
  let (nt, r) ← pNat r; let (typed, r) ← pTyped nt r
  let (ne, r) ← pNat r; let (entries, r) ← pEntries ne r
  pure ({ id := id, isSpec := isSpec, base := base, entries := entries, attrs := attrs, attrsTyped := typed,
          attrsSkip := skip, key := key, ovf := ovf }, r)

/-- the C05 driver state plus the world of bootstrapped classes -/
structure St3 where
  st : St := {}
  world : List RClass := []

def bit (b : Bool) : String := if b then "1" else "0"

def wtSuffix (E : Env) (o : Outcome) : String :=
  " ;; wt=" ++ bit (wt E o.recv) ++ bit (wt E o.result)

def handle (s3 : St3) (line : String) : St3 × String :=
  let st := s3.st
  let lift := fun (p : St × String) => ({ s3 with st := p.1 }, p.2)
  let ts := (line.trimAscii.toString.splitOn " ").filter (· ≠ "")
  match ts with
  | "new" :: r =>
    match (do let (c, r) ← pNat r; let (kw, _) ← pKw r; pure (c, kw)) with
    | none => (s3, "bad-op")
    | some (c, kw) =>
      let ovf := ((s3.world.find? (·.id == c)).bind (·.ovf))
      match constructB st.env ovf FUEL c kw with
      | .ok v => ({ s3 with st := { st with recv := v, dead := false } },
                  "ok ;; " ++ showVal v ++ " ;; wt=" ++ bit (wt st.env v) ++ bit (wt st.env v))
      | .error e => ({ s3 with st := { st with recv := NONE, dead := true } }, "err " ++ e.name ++ " ;; N ;; wt=11")
  | "reset" :: _ => ({}, "ok")
  | "class" :: _ => lift (C05Driver.handle st line)
  | "decl" :: r =>
    match pDecl r with
    | some (d, []) =>
      let R := bootIn s3.world d
      let cl := st.env.classes ++ [R.toSpec]
      ({ st := { st with env := { classes := cl, prep := prepPool cl, pred := predPool } }, world := s3.world ++ [R] }, "ok")
    | _ => (s3, "bad-decl")
  | _ =>
    if st.dead then (s3, "err AttributeError ;; N ;; wt=11")
    else match parseElem ts with
      | some (a, op, f) =>
        let o := step st.env FUEL st.recv (.elem a op f.inplace f.cond)
        let (st', s) := showRes st f.adopt o
        ({ s3 with st := st' }, s ++ wtSuffix st.env o)
      | none =>
        match parseCall ts with
        | none => (s3, "bad-op")
        | some (call, adopt) =>
          let o := step st.env FUEL st.recv (.api call)
          let (st', s) := showRes st adopt o
          ({ s3 with st := st' }, s ++ wtSuffix st.env o)

partial def loop (h : IO.FS.Stream) (out : IO.FS.Stream) (st : St3) : IO Unit := do
  let line ← h.getLine
  if line.isEmpty then return ()
  let (st', o) := handle st line
  out.putStrLn o
  loop h out st'

end C03Driver

def main : IO Unit := do
  C03Driver.loop (← IO.getStdin) (← IO.getStdout) {}
