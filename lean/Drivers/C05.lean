import SpecVerif.Model.C05OvProto
/-!
Line-protocol driver for the C05 (and, through `Drivers/C03.lean`, C03)
correspondence: evaluates the very definitions of `SpecVerif.C05` the theorems
of `Props/C05.lean` are about.

Tokens are separated by single spaces.

Value syntax (prefix):  `N` None · `T`/`F` bool · `i<int>` · `f<int>` float (halves) ·
  `s<nat>` string table entry · `M`/`E`/`U` MISSING/EMPTY/UNCHANGED ·
  `L <k> v…` list · `S <k> v…` set · `D <k> k v …` dict · `I <class> <k> <attr> v …` instance
Type syntax (prefix): `any int str bool float none` · `lit <k> scalar…` · `union t t` ·
  `list t` · `set t` · `dict t t` · `spec <c>`
Transform syntax: `_` (absent) · `inc dbl neg up idt` · `cst v` · `app v`

Commands:
  `reset`                                            forget all classes
  `class <id> <key|_> <nsup> sup… <ninit> a… <nattr> (attr)…`
       attr = `<name> <type> <default v|_> <prep id|_> <itemprep id|_> <class attribute v|_>`
  `new <class> <kw>`                                 receiver := Class(**kw);  kw = `<k> <attr> v …`
  `with|upd <flags> <attr> v <kw>`                   flags ⊆ {i (inplace), n (_if=False), a (adopt the returned object as receiver), -}
  `tra <flags> <attr> <tr> <kwt>`                    kwt = `<k> <attr> tr …`
  `rst <flags> <attr>` · `set <attr> v` · `del <attr>`
  `UPD <flags> v <kw>` · `TRA <flags> <tr> <kwt>` · `RST <flags>`
Output: `<ret> ;; <receiver state>` with ret = `self` | `new <value>` | `err <Class>`.

Overflow classes and the constructor-argument memo (`Model/C05OvProto.lean`):
  `ovf <class> <attr>`                               the class collects extra constructor keywords in `<attr>`
  `sig <f> builtin|object|fixed <k> n…|varkw <k> n…` · `args <f> <k> n…`   `_get_function_args` with its memo
Where the callbacks come from (`Model/C05Decl.lean`, parsed in `Model/C05Proto.lean`):
  `pdecl <class> <attr> p|i <n> (<s|p> <-|v|a|A> <decorator id|_> <method id|_>)…`
       the class bodies of the hierarchy of `<class>` (root first) about the preparer (`p`) / item preparer (`i`) of
       `<attr>`; the entry of the class table is replaced by `(Decl.bootstrap layers).entry`; answers `ok`
A class table with an `ovf` line is evaluated by `SpecVerif.C05.Ov.run`, one without by `SpecVerif.C05.run`.
-/
open SpecVerif.Py SpecVerif.C05

def main : IO Unit := do
  C05Driver.loopO (← IO.getStdin) (← IO.getStdout) {}
