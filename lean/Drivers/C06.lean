import SpecVerif.Model.C06H
/-!
Line-protocol driver for the C06 correspondence: evaluates the very
definitions of `SpecVerif.C06` that the theorems of `Props/C06.lean` are about.

Input (one command per line, tokens separated by single spaces):
  attr <name> [<store> (missing | default <tok>*)]
        a new bare instance of a holder class: how the instance keeps the attribute
        (`dict` | `slot` | `computed` | `cached`, see `Store`) and what the attribute shows
        before anything was assigned (MISSING, or the class default / the getter's content)
  init <tok>*                                   a new instance constructed with that content (dict: `k=v`)
  with <item> <index> <insert> <kwK> <kwA> <if> [<inplace>]
  update <voi> <new> <byidx> <kwK> <kwA> <if> [<inplace>]
  transform <voi> <fn> <byidx> <fnK> <fnA> <if> [<inplace>]
  without <voi> <byidx> <if> [<inplace>]
Value token: `_` (MISSING) | `i<int>` | `s<letters>` | `o<0|1>:<letters>:<int>` | `o2:<int>:<int>`,
optionally followed by `@<label>`: the same labelled token twice (since the last `attr` / `init`) is the
SAME object twice.
Plain-list and dict attributes run on the model with object identity (`hSeqHelper` / `hMapHelper` on a heap
of objects, `Model/C06H.lean`), every other family on the content model (`helperI` = `helper` behind `Inst`).
Output (one line per input line): `<ok|err Name> ;; <what the attribute shows>`.
-/
open SpecVerif.Py SpecVerif.C06 SpecVerif

def parseVal (s : String) : Option Val :=
  if s.startsWith "i" then (s.drop 1).toString.toInt?.map Val.int
  else if s.startsWith "s" then some (.str (s.drop 1).toString)
  else if s.startsWith "o" then
    match (s.drop 1).toString.splitOn ":" with
    | [kd, k, a] => do
      let a ← a.toInt?
      if kd == "2" then do
        let n ← k.toInt?
        pure (.obj true (.i n) a)
      else pure (.obj (kd == "1") (.s k) a)
    | _ => none
  else none

/-- `_` is MISSING -/
def parseOptVal (s : String) : Option (Option Val) :=
  if s == "_" then some none else (parseVal s).map some

def showVal : Val → String
  | .int n => s!"i{n}"
  | .str s => "s" ++ s
  | .obj kd (.s k) a => s!"o{if kd then 1 else 0}:{k}:{a}"
  | .obj _ (.i n) a => s!"o2:{n}:{a}"

def parseOptBool (s : String) : Option (Option Bool) :=
  if s == "_" then some none else if s == "t" then some (some true)
  else if s == "f" then some (some false) else none

def parseKwK (s : String) : Option (Option Key) :=
  if s == "_" then some none
  else if s.startsWith "s" then some (some (.s (s.drop 1).toString))
  else if s.startsWith "i" then (s.drop 1).toString.toInt?.map fun n => some (.i n)
  else none

def parseKwA (s : String) : Option (Option Int) :=
  if s == "_" then some none
  else if s.startsWith "i" then (s.drop 1).toString.toInt?.map some else none

/-- the pool of element transforms (interpreted identically in corr_C06.py) -/
def fnPool (s : String) : Option (Option (Val → Val)) :=
  if s == "_" then some none
  else if s == "id" then some (some id)
  else if s == "inc" then some (some fun
    | .int n => .int (n + 1) | .str t => .str (t ++ "x") | .obj kd k a => .obj kd k (a + 1))
  else if s == "zero" then some (some fun
    | .int _ => .int 0 | .str _ => .str "" | .obj kd k _ => .obj kd k 0)
  else if s == "bad" then some (some fun
    | .int _ => .str "bad" | .str _ => .int 7 | .obj _ _ _ => .int 7)
  else if s == "rekey" then some (some fun
    | .obj kd (.s k) a => .obj kd (.s (k ++ "x")) a
    | .obj kd (.i n) a => .obj kd (.i (n + 1)) a
    | v => v)
  else if s.startsWith "const:" then (parseVal (s.drop 6).toString).map fun v => some (fun _ => v)
  else none

def fnKPool (s : String) : Option (Option (Key → Key)) :=
  if s == "_" then some none
  else if s == "up" then some (some fun | .s k => .s (k ++ "x") | .i n => .i (n + 1))
  else if s == "empty" then some (some fun | .s _ => .s "" | .i _ => .i 0)
  else none

def fnAPool (s : String) : Option (Option (Int → Int)) :=
  if s == "_" then some none
  else if s == "inc" then some (some (· + 1))
  else if s == "zero" then some (some fun _ => 0)
  else none

def absPrep : Val → Val
  | .int n => .int (Int.ofNat n.natAbs)
  | v => v

def cfgOf (name : String) : Option AttrCfg :=
  match name with
  | "ints" => some { fam := .list, item := .int }
  | "strs" => some { fam := .list, item := .str }
  | "dmap" => some { fam := .dict, item := .int, keyTy := some .str }
  | "iset" => some { fam := .set, item := .int }
  | "sset" => some { fam := .set, item := .str }
  | "specs" => some { fam := .list, item := .spec }
  | "smap" => some { fam := .dict, item := .spec, keyTy := some .str }
  | "kspecs" => some { fam := .klist, item := .kspec }
  | "ksets" => some { fam := .kset, item := .kspec }
  | "kmap" => some { fam := .dict, item := .kspec, keyTy := some .str }
  | "klist2" => some { fam := .list, item := .kspec }
  | "pints" => some { fam := .list, item := .int, prep := some absPrep }
  | "kispecs" => some { fam := .klist, item := .ikspec }
  | "kilist" => some { fam := .list, item := .ikspec }
  | "kimap" => some { fam := .dict, item := .ikspec, keyTy := some .str }
  | "kisets" => some { fam := .kset, item := .ikspec }
  | _ => none

def parseOp (ts : List String) : Option (Op × Bool) :=
  match ts with
  | ["with", item, index, insert, kwK, kwA, if_] => do
    let item ← parseOptVal item; let index ← parseOptVal index
    let k ← parseKwK kwK; let a ← parseKwA kwA
    pure (.with_ item index (insert == "1") { k := k, a := a }, if_ == "1")
  | ["update", voi, new, bi, kwK, kwA, if_] => do
    let voi ← parseVal voi; let new ← parseOptVal new; let bi ← parseOptBool bi
    let k ← parseKwK kwK; let a ← parseKwA kwA
    pure (.update voi new bi { k := k, a := a }, if_ == "1")
  | ["transform", voi, fn, bi, fnK, fnA, if_] => do
    let voi ← parseVal voi; let fn ← fnPool fn; let bi ← parseOptBool bi
    let fk ← fnKPool fnK; let fa ← fnAPool fnA
    pure (.transform voi fn bi { k := fk, a := fa }, if_ == "1")
  | ["without", voi, bi, if_] => do
    let voi ← parseVal voi; let bi ← parseOptBool bi
    pure (.without voi bi, if_ == "1")
  | _ => none

def showList (xs : List Val) : String := "[" ++ ",".intercalate (xs.map showVal) ++ "]"
def showSorted (xs : List Val) : String :=
  "{" ++ ",".intercalate ((xs.map showVal).mergeSort (fun a b => decide (a ≤ b))) ++ "}"
def showDict (d : PyDict) : String :=
  "{" ++ ",".intercalate (d.map fun p => showVal p.1 ++ "=" ++ showVal p.2) ++ "}"

def showSortedPairs (d : PyDict) : String :=
  "{" ++ ",".intercalate ((d.map fun p => showVal p.1 ++ "=" ++ showVal p.2).mergeSort
    (fun a b => decide (a ≤ b))) ++ "}"

/-- KeyedList: the list view and the key view (`items()`, insertion order);
KeyedSet: the key view, sorted. -/
def showState : Option Coll → String
  | none => "missing"
  | some (.seq (.plain xs)) => showList xs
  | some (.seq (.keyed l)) => showList l.list ++ " dict " ++ showDict l.dict
  | some (.map d) => showDict d
  | some (.set (.plain xs)) => showSorted xs
  | some (.set (.keyed d)) => showSortedPairs d

/-- `tok@label` -> (`tok`, is labelled) -/
def baseTok (s : String) : String := (s.splitOn "@").headD s
def isLabelled (s : String) : Bool := (s.splitOn "@").length > 1

structure St where
  cfg : AttrCfg
  /-- the objects allocated since the last `attr` -/
  hp : Heap := []
  /-- labelled token -> its object (since the last `attr` / `init`) -/
  labels : List (String × Nat) := []
  /-- the instance, for a plain-list attribute (references) … -/
  instH : Inst (List Nat) := {}
  /-- … for a dict attribute (key -> reference) … -/
  instD : Inst RDict := {}
  /-- … and for every other family (content) -/
  instV : Inst Coll := {}

def St.isHeap (s : St) : Bool := s.cfg.fam == .list
def St.isHeapD (s : St) : Bool := s.cfg.fam == .dict

def St.shown (s : St) : String :=
  if s.isHeap then
    match s.instH.observe with
    | none => "missing"
    | some refs => showList (view s.hp refs)
  else if s.isHeapD then
    match s.instD.observe with
    | none => "missing"
    | some d => showDict (viewD s.hp d)
  else showState s.instV.observe

/-- the object a token denotes: a labelled token seen before is that object, anything else a new one -/
def allocTok (s : St) (tok : String) : Option (St × Nat) := do
  let v ← parseVal (baseTok tok)
  if isLabelled tok then
    match s.labels.lookup tok with
    | some r => pure (s, r)
    | none => pure ({ s with hp := s.hp ++ [v], labels := (tok, s.hp.length) :: s.labels }, s.hp.length)
  else pure ({ s with hp := s.hp ++ [v] }, s.hp.length)

def allocOpt (s : St) (tok : String) : Option (St × Option Nat) :=
  if tok == "_" then some (s, none) else (allocTok s tok).map fun (s', r) => (s', some r)

/-- content handed to the constructor: `prepare()` adds the items one by one -/
def initOp (c : AttrCfg) (tok : String) : Option Op :=
  match c.fam with
  | .dict =>
    match (baseTok tok).splitOn "=" with
    | [k, v] => do
      let k ← parseVal k; let v ← parseVal v
      pure (.with_ (some v) (some k) false {})
    | _ => none
  | _ => do
    let v ← parseVal (baseTok tok)
    pure (.with_ (some v) none false {})

/-- builds a container from tokens (objects are allocated in `s`) -/
def buildH (s : St) (toks : List String) : Option (St × Except Err (List Nat)) :=
  toks.foldlM (fun (acc : St × Except Err (List Nat)) tok =>
    match acc with
    | (s, .error e) => some (s, .error e)
    | (s, .ok refs) => do
      let (s', r) ← allocTok s tok
      match hSeqStep s'.cfg s'.hp refs false (.with_ (some r) none false {}) with
      | .error e => pure (s', .error e)
      | .ok (hp', refs') => pure ({ s' with hp := hp' }, .ok refs')) (s, .ok [])

/-- the same for a dict: tokens `k=v` -/
def buildD (s : St) (toks : List String) : Option (St × Except Err RDict) :=
  toks.foldlM (fun (acc : St × Except Err RDict) tok =>
    match acc with
    | (s, .error e) => some (s, .error e)
    | (s, .ok d) =>
      match tok.splitOn "=" with
      | [k, v] => do
        let (s1, kr) ← allocTok s k
        let (s2, r) ← allocTok s1 v
        match hMapStep s2.cfg s2.hp d false (.with_ (some r) (some kr) false {}) with
        | .error e => pure (s2, .error e)
        | .ok (hp', d') => pure ({ s2 with hp := hp' }, .ok d')
      | _ => none) (s, .ok [])

def buildV (c : AttrCfg) (toks : List String) : Option (Except Err Coll) := do
  let ops ← toks.mapM (initOp c)
  pure (ops.foldl (fun (acc : Except Err Coll) op =>
    match acc with
    | .error e => .error e
    | .ok coll => stepColl c coll op) (.ok (create c)))

def parseStore (s : String) : Option Store :=
  if s == "dict" then some .dict else if s == "slot" then some .slot
  else if s == "computed" then some (.computed false) else if s == "cached" then some (.computed true) else none

/-- a bare instance: the default content is the instance's own copy of a class-level default (`dict`)
or what the getter returns (`computed`) -/
def bare {κ : Type} (store : Store) (dflt : Option κ) : Inst κ :=
  match store with
  | .dict => { store := store, own := dflt }
  | .slot => { store := store, back := dflt }
  | .computed _ => { store := store, dflt := dflt }

/-- a new instance of the same class -/
def renew {κ : Type} (i : Inst κ) : Inst κ := { store := i.store, dflt := i.dflt }

def startCase (name : String) (store : Store) (dflt : Option (List String)) : Option St := do
  let c ← cfgOf name
  let s0 : St := { cfg := c }
  if s0.isHeap then
    match dflt with
    | none => pure { s0 with instH := bare store none }
    | some toks =>
      let (s1, r) ← buildH s0 toks
      match r with
      | .ok refs => pure { s1 with labels := [], instH := bare store (some refs) }
      | .error _ => none
  else if s0.isHeapD then
    match dflt with
    | none => pure { s0 with instD := bare store none }
    | some toks =>
      let (s1, r) ← buildD s0 toks
      match r with
      | .ok d => pure { s1 with labels := [], instD := bare store (some d) }
      | .error _ => none
  else
    match dflt with
    | none => pure { s0 with instV := bare store none }
    | some toks =>
      match ← buildV c toks with
      | .ok coll => pure { s0 with instV := bare store (some coll) }
      | .error _ => none

/-- element / address arguments of a call on a plain list, as objects -/
def parseHOp (s : St) (ts : List String) : Option (St × HOp × Bool × Bool) :=
  let flag (x : List String) : Bool := x == ["1"]
  match ts with
  | "with" :: item :: index :: insert :: kwK :: kwA :: if_ :: ip => do
    let (s, index) ← allocOpt s index; let (s, item) ← allocOpt s item
    let k ← parseKwK kwK; let a ← parseKwA kwA
    pure (s, .with_ item index (insert == "1") { k := k, a := a }, if_ == "1", flag ip)
  | "update" :: voi :: new :: bi :: kwK :: kwA :: if_ :: ip => do
    let (s, voi) ← allocTok s voi; let (s, new) ← allocOpt s new; let bi ← parseOptBool bi
    let k ← parseKwK kwK; let a ← parseKwA kwA
    pure (s, .update voi new bi { k := k, a := a }, if_ == "1", flag ip)
  | "transform" :: voi :: fn :: bi :: fnK :: fnA :: if_ :: ip => do
    let (s, voi) ← allocTok s voi; let fn ← fnPool fn; let bi ← parseOptBool bi
    let fk ← fnKPool fnK; let fa ← fnAPool fnA
    pure (s, .transform voi fn bi { k := fk, a := fa }, if_ == "1", flag ip)
  | "without" :: voi :: bi :: if_ :: ip => do
    let (s, voi) ← allocTok s voi; let bi ← parseOptBool bi
    pure (s, .without voi bi, if_ == "1", flag ip)
  | _ => none

/-- the trailing `<inplace>` flag and `@label`s are of no concern to the content model -/
def contentTokens (ts : List String) : List String :=
  let n := match ts.head? with
    | some "without" => 4
    | _ => 7
  (ts.take n).map baseTok

def handle (s : St) (line : String) : St × String :=
  match (line.trimAscii.toString.splitOn " ").filter (· ≠ "") with
  | "attr" :: name :: rest =>
    let parsed : Option (Store × Option (List String)) :=
      match rest with
      | [] => some (.dict, none)
      | [st, "missing"] => (parseStore st).map fun x => (x, none)
      | st :: "default" :: toks => (parseStore st).map fun x => (x, some toks)
      | _ => none
    match parsed.bind fun (st, d) => startCase name st d with
    | none => (s, "bad-op")
    | some s' => (s', "ok ;; " ++ s'.shown)
  | "init" :: toks =>
    -- a new instance: nothing refers to the old objects any more, except the content a computed attribute returns
    let keep := s.instH.dflt.isSome || s.instD.dflt.isSome
    let s0 : St := { s with hp := if keep then s.hp else [], labels := [],
                            instH := renew s.instH, instD := renew s.instD, instV := renew s.instV }
    if s.isHeap then
      match buildH s0 toks with
      | none => (s, "bad-op")
      | some (s1, .ok refs) =>
        let s2 := { s1 with instH := s1.instH.write refs }
        (s2, "ok ;; " ++ s2.shown)
      | some (s1, .error e) => (s1, "err " ++ e.name ++ " ;; " ++ s1.shown)
    else if s.isHeapD then
      match buildD s0 toks with
      | none => (s, "bad-op")
      | some (s1, .ok d) =>
        let s2 := { s1 with instD := s1.instD.write d }
        (s2, "ok ;; " ++ s2.shown)
      | some (s1, .error e) => (s1, "err " ++ e.name ++ " ;; " ++ s1.shown)
    else
      match buildV s.cfg toks with
      | none => (s, "bad-op")
      | some (.ok coll) =>
        let s2 := { s0 with instV := s0.instV.write coll }
        (s2, "ok ;; " ++ s2.shown)
      | some (.error e) => (s0, "err " ++ e.name ++ " ;; " ++ s0.shown)
  | ts =>
    if s.isHeap then
      match parseHOp s ts with
      | none => (s, "bad-op")
      | some (s1, op, if_, inplace) =>
        if !if_ then (s1, "ok ;; " ++ s1.shown)
        else
          -- lift with `getattr`, edit (a copy of) the container, store with `setattr`
          match hSeqHelper s1.cfg s1.hp s1.instH.read.1 op true inplace false with
          | .ok (hp', some refs') =>
            let s2 := { s1 with hp := hp', instH := s1.instH.read.2.write refs' }
            (s2, "ok ;; " ++ s2.shown)
          | .ok (_, none) => (s1, "bad-op")
          | .error e => (s1, "err " ++ e.name ++ " ;; " ++ s1.shown)
    else if s.isHeapD then
      match parseHOp s ts with
      | none => (s, "bad-op")
      | some (s1, op, if_, inplace) =>
        if !if_ then (s1, "ok ;; " ++ s1.shown)
        else
          match hMapHelper s1.cfg s1.hp s1.instD.read.1 op true inplace false with
          | .ok (hp', some d') =>
            let s2 := { s1 with hp := hp', instD := s1.instD.read.2.write d' }
            (s2, "ok ;; " ++ s2.shown)
          | .ok (_, none) => (s1, "bad-op")
          | .error e => (s1, "err " ++ e.name ++ " ;; " ++ s1.shown)
    else
      match parseOp (contentTokens ts) with
      | none => (s, "bad-op")
      | some (op, if_) =>
        match helperI s.cfg s.instV op if_ with
        | .ok i' =>
          let s2 := { s with instV := i' }
          (s2, "ok ;; " ++ s2.shown)
        | .error e => (s, "err " ++ e.name ++ " ;; " ++ s.shown)

partial def loop (h : IO.FS.Stream) (out : IO.FS.Stream) (s : St) : IO Unit := do
  let line ← h.getLine
  if line.isEmpty then return ()
  let (s', o) := handle s line
  out.putStrLn o
  loop h out s'

def main : IO Unit := do
  loop (← IO.getStdin) (← IO.getStdout) { cfg := { fam := .list, item := .int } }
