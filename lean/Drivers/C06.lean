import SpecVerif.Model.C06
/-!
Line-protocol driver for the C06 correspondence: evaluates the very
definitions of `SpecVerif.C06` that the theorems of `Props/C06.lean` are about.

Input (one command per line, tokens separated by single spaces):
  attr <name>                                   start a case: attribute never assigned
  init <tok>*                                   content handed to the constructor (dict: `k=v`)
  with <item> <index> <insert> <kwK> <kwA> <if>
  update <voi> <new> <byidx> <kwK> <kwA> <if>
  transform <voi> <fn> <byidx> <fnK> <fnA> <if>
  without <voi> <byidx> <if>
Value token: `_` (MISSING) | `i<int>` | `s<letters>` | `o<0|1>:<letters>:<int>` | `o2:<int>:<int>`.
Output (one line per input line): `<ok|err Name> ;; <state>`.
-/
open SpecVerif.Py SpecVerif.C06 SpecVerif

def parseVal (s : String) : Option Val :=
  if s.startsWith "i" then (s.drop 1).toString.toInt?.map Val.int
  else if s.startsWith "s" then some (.str (s.drop 1).toString)
  else if s.startsWith "o" then
    match (s.drop 1).toString.splitOn ":" with
    | [kd, k, a] => do
      let a ← a.toInt?
      if kd == "2" then do
        let n ← k.toInt?
        pure (.obj true (.i n) a)
      else pure (.obj (kd == "1") (.s k) a)
    | _ => none
  else none

/-- `_` is MISSING -/
def parseOptVal (s : String) : Option (Option Val) :=
  if s == "_" then some none else (parseVal s).map some

def showVal : Val → String
  | .int n => s!"i{n}"
  | .str s => "s" ++ s
  | .obj kd (.s k) a => s!"o{if kd then 1 else 0}:{k}:{a}"
  | .obj _ (.i n) a => s!"o2:{n}:{a}"

def parseOptBool (s : String) : Option (Option Bool) :=
  if s == "_" then some none else if s == "t" then some (some true)
  else if s == "f" then some (some false) else none

def parseKwK (s : String) : Option (Option Key) :=
  if s == "_" then some none
  else if s.startsWith "s" then some (some (.s (s.drop 1).toString))
  else if s.startsWith "i" then (s.drop 1).toString.toInt?.map fun n => some (.i n)
  else none

def parseKwA (s : String) : Option (Option Int) :=
  if s == "_" then some none
  else if s.startsWith "i" then (s.drop 1).toString.toInt?.map some else none

/-- the pool of element transforms (interpreted identically in corr_C06.py) -/
def fnPool (s : String) : Option (Option (Val → Val)) :=
  if s == "_" then some none
  else if s == "id" then some (some id)
  else if s == "inc" then some (some fun
    | .int n => .int (n + 1) | .str t => .str (t ++ "x") | .obj kd k a => .obj kd k (a + 1))
  else if s == "zero" then some (some fun
    | .int _ => .int 0 | .str _ => .str "" | .obj kd k _ => .obj kd k 0)
  else if s == "bad" then some (some fun
    | .int _ => .str "bad" | .str _ => .int 7 | .obj _ _ _ => .int 7)
  else if s == "rekey" then some (some fun
    | .obj kd (.s k) a => .obj kd (.s (k ++ "x")) a
    | .obj kd (.i n) a => .obj kd (.i (n + 1)) a
    | v => v)
  else if s.startsWith "const:" then (parseVal (s.drop 6).toString).map fun v => some (fun _ => v)
  else none

def fnKPool (s : String) : Option (Option (Key → Key)) :=
  if s == "_" then some none
  else if s == "up" then some (some fun | .s k => .s (k ++ "x") | .i n => .i (n + 1))
  else if s == "empty" then some (some fun | .s _ => .s "" | .i _ => .i 0)
  else none

def fnAPool (s : String) : Option (Option (Int → Int)) :=
  if s == "_" then some none
  else if s == "inc" then some (some (· + 1))
  else if s == "zero" then some (some fun _ => 0)
  else none

def absPrep : Val → Val
  | .int n => .int (Int.ofNat n.natAbs)
  | v => v

def cfgOf (name : String) : Option AttrCfg :=
  match name with
  | "ints" => some { fam := .list, item := .int }
  | "strs" => some { fam := .list, item := .str }
  | "dmap" => some { fam := .dict, item := .int, keyTy := some .str }
  | "iset" => some { fam := .set, item := .int }
  | "sset" => some { fam := .set, item := .str }
  | "specs" => some { fam := .list, item := .spec }
  | "smap" => some { fam := .dict, item := .spec, keyTy := some .str }
  | "kspecs" => some { fam := .klist, item := .kspec }
  | "ksets" => some { fam := .kset, item := .kspec }
  | "kmap" => some { fam := .dict, item := .kspec, keyTy := some .str }
  | "klist2" => some { fam := .list, item := .kspec }
  | "pints" => some { fam := .list, item := .int, prep := some absPrep }
  | "kispecs" => some { fam := .klist, item := .ikspec }
  | "kilist" => some { fam := .list, item := .ikspec }
  | "kimap" => some { fam := .dict, item := .ikspec, keyTy := some .str }
  | "kisets" => some { fam := .kset, item := .ikspec }
  | _ => none

def parseOp (ts : List String) : Option (Op × Bool) :=
  match ts with
  | ["with", item, index, insert, kwK, kwA, if_] => do
    let item ← parseOptVal item; let index ← parseOptVal index
    let k ← parseKwK kwK; let a ← parseKwA kwA
    pure (.with_ item index (insert == "1") { k := k, a := a }, if_ == "1")
  | ["update", voi, new, bi, kwK, kwA, if_] => do
    let voi ← parseVal voi; let new ← parseOptVal new; let bi ← parseOptBool bi
    let k ← parseKwK kwK; let a ← parseKwA kwA
    pure (.update voi new bi { k := k, a := a }, if_ == "1")
  | ["transform", voi, fn, bi, fnK, fnA, if_] => do
    let voi ← parseVal voi; let fn ← fnPool fn; let bi ← parseOptBool bi
    let fk ← fnKPool fnK; let fa ← fnAPool fnA
    pure (.transform voi fn bi { k := fk, a := fa }, if_ == "1")
  | ["without", voi, bi, if_] => do
    let voi ← parseVal voi; let bi ← parseOptBool bi
    pure (.without voi bi, if_ == "1")
  | _ => none

def showList (xs : List Val) : String := "[" ++ ",".intercalate (xs.map showVal) ++ "]"
def showSorted (xs : List Val) : String :=
  "{" ++ ",".intercalate ((xs.map showVal).mergeSort (fun a b => decide (a ≤ b))) ++ "}"
def showDict (d : PyDict) : String :=
  "{" ++ ",".intercalate (d.map fun p => showVal p.1 ++ "=" ++ showVal p.2) ++ "}"

def showSortedPairs (d : PyDict) : String :=
  "{" ++ ",".intercalate ((d.map fun p => showVal p.1 ++ "=" ++ showVal p.2).mergeSort
    (fun a b => decide (a ≤ b))) ++ "}"

/-- KeyedList: the list view and the key view (`items()`, insertion order);
KeyedSet: the key view, sorted. -/
def showState : Option Coll → String
  | none => "missing"
  | some (.seq (.plain xs)) => showList xs
  | some (.seq (.keyed l)) => showList l.list ++ " dict " ++ showDict l.dict
  | some (.map d) => showDict d
  | some (.set (.plain xs)) => showSorted xs
  | some (.set (.keyed d)) => showSortedPairs d

structure St where
  cfg : AttrCfg
  st : Option Coll

/-- content handed to the constructor: `prepare()` adds the items one by one -/
def initOp (c : AttrCfg) (tok : String) : Option Op :=
  match c.fam with
  | .dict =>
    match tok.splitOn "=" with
    | [k, v] => do
      let k ← parseVal k; let v ← parseVal v
      pure (.with_ (some v) (some k) false {})
    | _ => none
  | _ => do
    let v ← parseVal tok
    pure (.with_ (some v) none false {})

def handle (s : St) (line : String) : St × String :=
  match (line.trimAscii.toString.splitOn " ").filter (· ≠ "") with
  | ["attr", name] =>
    match cfgOf name with
    | none => (s, "bad-op")
    | some c => ({ cfg := c, st := none }, "ok ;; missing")
  | "init" :: toks =>
    match toks.mapM (initOp s.cfg) with
    | none => (s, "bad-op")
    | some ops =>
      let r := ops.foldl (fun (acc : Except Err Coll) op =>
        match acc with
        | .error e => .error e
        | .ok coll => stepColl s.cfg coll op) (.ok (create s.cfg))
      match r with
      | .ok coll => ({ s with st := some coll }, "ok ;; " ++ showState (some coll))
      | .error e => (s, "err " ++ e.name ++ " ;; " ++ showState s.st)
  | ts =>
    match parseOp ts with
    | none => (s, "bad-op")
    | some (op, if_) =>
      match helper s.cfg s.st op if_ with
      | .ok st' => ({ s with st := st' }, "ok ;; " ++ showState st')
      | .error e => (s, "err " ++ e.name ++ " ;; " ++ showState s.st)

partial def loop (h : IO.FS.Stream) (out : IO.FS.Stream) (s : St) : IO Unit := do
  let line ← h.getLine
  if line.isEmpty then return ()
  let (s', o) := handle s line
  out.putStrLn o
  loop h out s'

def main : IO Unit := do
  loop (← IO.getStdin) (← IO.getStdout) { cfg := { fam := .list, item := .int }, st := none }
