import SpecVerif.Model.C09
/-!
Line-protocol driver for the C09 correspondence: evaluates the definitions of
`SpecVerif.C09` (`bootstrapAll`, `construct`, `wfCall`) that the theorems of
`Props/C09.lean` are about.

Input (tokens separated by single spaces; `-` = empty/None, `?` = not given):
  reset <name:ty,...>                      ty ∈ int|str|any|dict|ints
  class <name> <spec 0|1> <bases A,B|-> <mro C,A,B> <key ?|-|name> <ovf ?|-|name> <post 0|1>
        <hand -|p:dflt:f,...> <decls -|name:ann:kind:default:factory:init,...>
        <preps -|attr:id,...> <itemPreps -|collectionattr:id,...>
        kind ∈ none|lit|attr ; dflt/default/factory value tokens, `!` = required parameter;
        preps = `_prepare_<attr>` methods defined in the class body (function id), itemPreps = `_prepare_<item>`
        methods keyed by the collection attribute whose items they prepare
  call <cls> <pos -|v,v> <kw -|name=v,...>
Value tokens: `_` missing, `i<int>`, `s<letters>`, `l<int>.<int>...`
Output: for `class` the bootstrapped metadata and class dict; for `call`
`wf=<0|1> ok|err <E> ;; <state> ;; <trace>`.
-/
open SpecVerif.Py SpecVerif.C09

def parseVal (t : String) : Option Val :=
  if t == "_" then some .missing
  else match t.toList with
    | 'i' :: r => (String.ofList r).toInt?.map Val.int
    | 's' :: r => some (.str (String.ofList r))
    | 'l' :: r =>
      let body := String.ofList r
      if body == "" then some (.list [])
      else ((body.splitOn ".").mapM String.toInt?).map Val.list
    | _ => none

def showVal : Val → String
  | .missing => "_"
  | .int n => s!"i{n}"
  | .str s => "s" ++ s
  | .list xs => "l" ++ ".".intercalate (xs.map toString)

def splitList (t : String) (sep : String) : List String :=
  if t == "-" then [] else t.splitOn sep

def parseOptName (t : String) : Option (Option (Option Name)) :=
  if t == "?" then some none else if t == "-" then some (some none) else some (some (some t))

def parseTy (t : String) : Option Ty :=
  match t with
  | "int" => some .int | "str" => some .str | "any" => some .any | "dict" => some .dict | "ints" => some .ints
  | _ => none

def parsePreps (t : String) : Option (List (Name × Nat)) :=
  (splitList t ",").mapM (fun p => match p.splitOn ":" with
    | [n, i] => i.toNat?.map (fun i => (n, i))
    | _ => none)

def parseDecl (t : String) : Option Decl :=
  match t.splitOn ":" with
  | [name, ann, kind, d, f, i] => do
    let d ← parseVal d
    let f ← parseVal f
    let body : Option Slot ← match kind with
      | "none" => some none
      | "lit" => some (some (.lit d))
      | "attr" => some (some (.attrObj d f (i == "1")))
      | _ => none
    pure { name := name, ann := ann == "1", body := body }
  | _ => none

def parseHandParam (t : String) : Option HandParam :=
  match t.splitOn ":" with
  | [name, d, f] => do
    let f ← f.toNat?
    let d : Option Val ← if d == "!" then some none else (parseVal d).map some
    pure { name := name, dflt := d, f := f }
  | _ => none

def parseKw (t : String) : Option Kw :=
  (splitList t ",").mapM (fun p => match p.splitOn "=" with
    | [n, v] => (parseVal v).map (fun v => (n, v))
    | _ => none)

structure DSt where
  tys : List (Name × Ty) := []
  defs : List ClassDef := []
  classes : List ClsInfo := []

def DSt.env (d : DSt) : Env := { tys := d.tys, classes := d.classes }

def showSpec (p : Name × AttrSpec) : String :=
  s!"{p.1}:{p.2.owner}:{if p.2.init then 1 else 0}:{showVal p.2.default}:{showVal p.2.factory}:p{p.2.prep}:q{p.2.prepItem}"

def showOptName : Option Name → String
  | none => "-"
  | some n => n

def showDict (d : List (Name × Val)) : String :=
  ",".intercalate (d.map fun p => s!"{p.1}={showVal p.2}")

def sortPairs (d : List (Name × Val)) : List (Name × Val) :=
  (d.toArray.qsort (fun a b => a.1 < b.1)).toList

def showInfo (i : ClsInfo) : String :=
  match i.«meta» with
  | none => s!"plain dict={showDict (sortPairs i.dict)}"
  | some m =>
    s!"spec key={showOptName m.key} ovf={showOptName m.ovf} post={showOptName m.post} " ++
    s!"attrs={",".intercalate (m.attrs.map showSpec)} dict={showDict (sortPairs i.dict)}"

def showEv : Ev → String
  | .ctor c => s!"ctor {c}"
  | .set a v => s!"set {a}={showVal v}"
  | .setOvf a => s!"set {a}"
  | .post c => s!"post {c}"

def showState (d : DSt) (c : Cls) (s : St) : String :=
  let names := (d.tys.map (·.1))
  let parts := names.filterMap (fun a =>
    match assoc s.fields a with
    | some v => some s!"{a}={showVal v}"
    | none =>
      let v := classGetattr d.classes (mroOf d.classes c) a
      if v = .missing then none else some s!"{a}~{showVal v}")
  let o := match s.ovf with
    | none => []
    | some kv => ["OVF={" ++ showDict (sortPairs kv) ++ "}"]
  " ".intercalate (parts ++ o)

def handle (d : DSt) (line : String) : DSt × String :=
  match (line.trimAscii.toString.splitOn " ").filter (· ≠ "") with
  | ["reset", tys] =>
    let tys := (splitList tys ",").filterMap (fun p => match p.splitOn ":" with
      | [n, t] => (parseTy t).map (fun t => (n, t)) | _ => none)
    ({ tys := tys }, "ok")
  | ["class", name, spec, bases, mro, key, ovf, post, hand, decls, preps, itemPreps] =>
    let r : Option ClassDef := do
      let key ← parseOptName key
      let ovf ← parseOptName ovf
      let hand ← if hand == "-" then some none else ((hand.splitOn ",").mapM parseHandParam).map some
      let decls ← (splitList decls ",").mapM parseDecl
      let preps ← parsePreps preps
      let itemPreps ← parsePreps itemPreps
      pure { name := name, bases := splitList bases ",", mro := splitList mro ",", spec := spec == "1",
             keyArg := key, ovfArg := ovf, decls := decls, hand := hand, post := post == "1",
             preps := preps, itemPreps := itemPreps }
    match r with
    | none => (d, "bad-class")
    | some cd =>
      let info := bootstrapClass d.classes cd
      ({ d with defs := d.defs ++ [cd], classes := d.classes ++ [info] }, showInfo info)
  | ["call", c, pos, kw] =>
    match (splitList pos ",").mapM parseVal, parseKw kw with
    | some pos, some kw =>
      let (s, e) := construct d.env c pos kw
      let head := match e with
        | none => "ok"
        | some e => "err " ++ e.name
      let st := if e.isNone then showState d c s else ""
      let wf := if wfCall d.env c then "1" else "0"
      let gen := if allGenerated d.env c then "1" else "0"
      (d, s!"wf={wf} gen={gen} {head} ;; {st} ;; {",".intercalate (s.trace.map showEv)}")
    | _, _ => (d, "bad-call")
  | _ => (d, "bad-op")

partial def loop (h : IO.FS.Stream) (out : IO.FS.Stream) (st : DSt) : IO Unit := do
  let line ← h.getLine
  if line.isEmpty then return ()
  let (st', o) := handle st line
  out.putStrLn o
  loop h out st'

def main : IO Unit := do
  loop (← IO.getStdin) (← IO.getStdout) {}
