import SpecVerif.Model.C10H
/-!
Line-protocol driver for the C10 correspondence: evaluates `pyEq`, `deepcopy`, `reconstruct`,
`reconstructible`, `reprOf` of `SpecVerif.C10` — the definitions the theorems of `Props/C10.lean` are about.

Values are written in prefix notation, tokens separated by single spaces:
  N | i<int> | s<text> | f<int> | L <n> v.. | D <n> k v .. | S <n> v.. | I <cls> <n> v..
  | B - <fn> (bound to the holder) | B <owner> <fn> | F <id> | C <id> | M <id> | _ (MISSING) | SELF
Commands:
  reset
  cls <id> <name> <parent|-> <key index|-> <spec 0|1> <n> then n times:
      <name>:<compare><repr><init><doNotCopy>:<owner class id> <default value>
      (property-backed attribute: `<name>:<flags>:<owner>:p<cache><overridable>:c<int>|s<attribute index>`)
  sto <idx> <value>           the instance's OWN state (per attribute its `__dict__` entry, `_` = none)
                              -> I <cls> <n> v..   what getattr shows for it (`showS`)
  dcs <idx>                   -> I <cls> <n> v..   what a deep copy of stored state idx shows (`copyShows`); copied owners `c`
  st <idx> <value>            define state idx
                              (`eq`: `pyEqC` — an operand that refers to itself (SELF) is compared through `cEq`)
  eq <i> <j>                  -> 1|0      (x == y)
  dc <i>                      -> 1|0      (deepcopy(x) == x)
  dca <i>                     -> 1|0      (deepcopy keeps EVERY attribute, compare=False ones included)
  rc <i>                      -> <reconstructible 1|0> <1|0>   (type(x)(**own values) == x, through `construct`)
  new <cls> <n> v..           -> I <cls> <n> v..   what `cls(**kwargs)` shows (`_` = not passed / MISSING); owners of
                                 bound methods that the constructor copied are printed as `c`
  repr <i>                    -> <ClassName> <attr>=<kind> ...
  meta <key|-> <overflow|-> <attrs_skip given 0|1> | <inherited names> | <body annotations> | <attrs> | <attrs_typed keys> | <attrs_skip>
                              -> the key order of `metadata.attrs` (`metaOrder`), names separated by spaces (`-` = none)
Histories (`runH` of `Model/C10H.lean`, one step per line; a slot is a value, `X<flags e r c>:<identity>` = an object
whose ==/!= (e), repr (r), deepcopy (c) raise, or `G` = reading the attribute raises):
  hst <idx> <cls> <n> slot..  -> ok          the attributes of object idx now have these values (`HOp.put`)
  heq <i> <j>                 -> 1|0|raised  (`HOp.cmp`: outcome of x_i == x_j, `eqO`)
  hrepr <i>                   -> raised | <ClassName> <attr>=<kind> ...   (`HOp.repr`, `reprO`)
  hcopy <i>                   -> raised | ok (`HOp.copy`, `copyRaises`)
-/
open SpecVerif.C10

partial def parseVals (n : Nat) (ts : List String) (parse : List String → Option (Val × List String)) :
    Option (Vals × List String) :=
  match n with
  | 0 => some (.nil, ts)
  | n + 1 => do
    let (v, ts) ← parse ts
    let (r, ts) ← parseVals n ts parse
    pure (.cons v r, ts)

partial def parseKVs (n : Nat) (ts : List String) (parse : List String → Option (Val × List String)) :
    Option (KVs × List String) :=
  match n with
  | 0 => some (.nil, ts)
  | n + 1 => do
    let (k, ts) ← parse ts
    let (v, ts) ← parse ts
    let (r, ts) ← parseKVs n ts parse
    pure (.cons k v r, ts)

partial def parseVal (ts : List String) : Option (Val × List String) :=
  match ts with
  | [] => none
  | t :: r =>
    if t == "N" then some (.none, r)
    else if t == "_" then some (.missing, r)
    else if t == "SELF" then some (.selfRef, r)
    else if t == "L" || t == "S" then
      match r with
      | n :: r => do
        let n ← n.toNat?
        let (vs, r) ← parseVals n r parseVal
        pure (if t == "L" then .list vs else .set vs, r)
      | _ => none
    else if t == "D" then
      match r with
      | n :: r => do
        let n ← n.toNat?
        let (kvs, r) ← parseKVs n r parseVal
        pure (.dict kvs, r)
      | _ => none
    else if t == "I" then
      match r with
      | c :: n :: r => do
        let c ← c.toNat?
        let n ← n.toNat?
        let (vs, r) ← parseVals n r parseVal
        pure (.inst c vs, r)
      | _ => none
    else if t == "B" then
      match r with
      | o :: f :: r => do
        let f ← f.toNat?
        let o : Option Nat ← if o == "-" then some none else o.toNat?.map some
        pure (.bound o f, r)
      | _ => none
    else if t == "F" || t == "C" || t == "M" then
      match r with
      | i :: r => do
        let i ← i.toNat?
        pure (if t == "F" then .func i else if t == "C" then .cls i else .mod i, r)
      | _ => none
    else match t.toList with
      | 'i' :: x => (String.ofList x).toInt?.map (fun n => (.int n, r))
      | 'f' :: x => (String.ofList x).toInt?.map (fun n => (.flt n, r))
      | 's' :: x => some (.str (String.ofList x), r)
      | _ => none

/-- One slot: `G`, `X<flags>:<id>`, or a value. -/
partial def parseSlot (ts : List String) : Option (Slot × List String) :=
  match ts with
  | [] => none
  | t :: r =>
    if t == "G" then some (.getterRaises, r)
    else match t.toList with
      | 'X' :: x =>
        (match (String.ofList x).splitOn ":" with
         | [fl, i] => i.toNat?.map (fun n =>
             (.boom { id := n, eqRaises := fl.contains 'e', reprRaises := fl.contains 'r', copyRaises := fl.contains 'c' }, r))
         | _ => none)
      | _ => (parseVal ts).map (fun (v, r) => (.val v, r))

partial def parseSlots (n : Nat) (ts : List String) : Option (List Slot × List String) :=
  match n with
  | 0 => some ([], ts)
  | n + 1 => do
    let (s, ts) ← parseSlot ts
    let (r, ts) ← parseSlots n ts
    pure (s :: r, ts)

/-- Split a token list at `|` separators. -/
def splitBars (ts : List String) : List (List String) :=
  ts.foldr (fun t acc => if t == "|" then [] :: acc else match acc with
    | g :: gs => (t :: g) :: gs
    | [] => [[t]]) [[]]

structure DSt where
  heap : Heap := []                   -- histories (`hst`)
  table : Table := []
  states : List (Nat × Val) := []
  stored : List (Nat × Val) := []     -- the instances' own state (`__dict__` entries), `sto`

def DSt.get (d : DSt) (i : Nat) : Option Val := (d.states.find? (·.1 == i)).map (·.2)

partial def parseAttrs (n : Nat) (ts : List String) : Option (List AttrInfo) :=
  match n with
  | 0 => some []
  | n + 1 =>
    match ts with
    | spec :: r =>
      match spec.splitOn ":" with
      | name :: flags :: owner :: more =>
        match flags.toList with
        | [c, rp, i, d] => do
          let ow ← owner.toNat?
          let (dv, r) ← parseVal r
          let rest ← parseAttrs n r
          -- property-backed: `p<cache><overridable>` and the getter `c<int>` (constant) / `s<attribute index>`
          let pr : Option (Option PropInfo) :=
            match more with
            | [] => some none
            | [pf, g] =>
              (match pf.toList, g.toList with
               | ['p', ca, ov], 'c' :: x =>
                 (String.ofList x).toInt?.map (fun k => some { cache := ca == '1', overridable := ov == '1', getter := .const (.int k) })
               | ['p', ca, ov], 's' :: x =>
                 (String.ofList x).toNat?.map (fun j => some { cache := ca == '1', overridable := ov == '1', getter := .sameAs j })
               | _, _ => none)
            | _ => none
          let pr ← pr
          pure ({ name := name, compare := c == '1', repr := rp == '1', init := i == '1',
                  doNotCopy := d == '1', dflt := dv, owner := ow, prop := pr } :: rest)
        | _ => none
      | _ => none
    | [] => none

def showKind (T : Table) : Kind → String
  | .self => "self"
  | .boundSelf f => s!"bself:{f}"
  | .boundOther f => s!"bound:{f}"
  | .compact c km => s!"compact:{T.cname c}:" ++ (match km with | none => "n" | some true => "m" | some false => "k")
  | .missing => "missing"
  | .value => "val"

def b2s (b : Bool) : String := if b then "1" else "0"

mutual
partial def showVal : Val → List String
  | .none => ["N"]
  | .int n => [s!"i{n}"]
  | .str t => ["s" ++ t]
  | .flt n => [s!"f{n}"]
  | .list xs => ["L", toString (lenV xs)] ++ showVals xs
  | .dict kvs => let r := showKVs kvs; ["D", toString r.1] ++ r.2
  | .set xs => ["S", toString (lenV xs)] ++ showVals xs
  | .inst c fs => ["I", toString c, toString (lenV fs)] ++ showVals fs
  | .bound none f => ["B", "-", toString f]
  | .bound (some o) f => ["B", if o ≥ copyOffset then "c" else toString o, toString f]
  | .func i => ["F", toString i]
  | .cls i => ["C", toString i]
  | .mod i => ["M", toString i]
  | .missing => ["_"]
  | .selfRef => ["SELF"]
partial def showVals : Vals → List String
  | .nil => []
  | .cons v r => showVal v ++ showVals r
partial def showKVs : KVs → Nat × List String
  | .nil => (0, [])
  | .cons k v r => let t := showKVs r; (t.1 + 1, showVal k ++ showVal v ++ t.2)
end

def handle (d : DSt) (line : String) : DSt × String :=
  match (line.trimAscii.toString.splitOn " ").filter (· ≠ "") with
  | ["reset"] => ({}, "ok")
  | "cls" :: _id :: name :: parent :: key :: spec :: n :: rest =>
    match n.toNat?.bind (fun n => parseAttrs n rest) with
    | none => (d, "bad-cls")
    | some attrs =>
      let ci : ClassInfo := { name := name, parent := parent.toNat?, attrs := attrs, key := key.toNat?, spec := spec == "1" }
      ({ d with table := d.table ++ [ci] }, "ok")
  | "new" :: c :: n :: rest =>
    match c.toNat?, n.toNat?.bind (fun n => parseVals n rest parseVal) with
    | some c, some (kw, []) =>
      let fs := construct d.table c kw
      (d, " ".intercalate (["I", toString c, toString (lenV fs)] ++ showVals fs))
    | _, _ => (d, "bad-new")
  | "st" :: idx :: rest =>
    match idx.toNat?, parseVal rest with
    | some i, some (v, []) =>
      ({ d with states := (i, v) :: d.states },
       -- scope of the theorems: well-formed values and table; the init-enabled attributes of the instance's
       -- class are owned by the classes whose constructors run (`ownersOk`)
       let own := match v with
         | .inst c _ => ownersOk d.table c
         | _ => true
       s!"ok wf={b2s (wfVal d.table v && wfTable d.table && own)} acyclic={b2s (okVal v)}")
    | _, _ => (d, "bad-st")
  | "sto" :: idx :: rest =>
    match idx.toNat?, parseVal rest with
    | some i, some (.inst c st, []) =>
      let fs := showS (d.table.attrs c) st
      ({ d with stored := (i, .inst c st) :: d.stored },
       " ".intercalate (["I", toString c, toString (lenV fs)] ++ showVals fs))
    | _, _ => (d, "bad-sto")
  | ["dcs", i] =>
    match (i.toNat?.bind (fun i => (d.stored.find? (·.1 == i)).map (·.2)) : Option Val) with
    | some (.inst c st) =>
      let fs := copyShows d.table c st
      (d, " ".intercalate (["I", toString c, toString (lenV fs)] ++ showVals fs))
    | _ => (d, "bad-dcs")
  | ["eq", i, j] =>
    match i.toNat?.bind d.get, j.toNat?.bind d.get with
    | some x, some y => (d, b2s (pyEqC d.table x y))
    | _, _ => (d, "bad-eq")
  | ["dc", i] =>
    match i.toNat?.bind d.get with
    | some x => (d, b2s (pyEq d.table (deepcopy d.table x) x))
    | none => (d, "bad-dc")
  | ["dca", i] =>
    -- every attribute (also compare=False ones) of the copy is attribute-equal to the original's
    match i.toNat?.bind d.get with
    | some (.inst c fs) =>
      let all := (d.table.attrs c).map (fun a => { a with compare := true })
      (match deepcopy d.table (.inst c fs) with
       | .inst _ fs' => (d, b2s (fieldsEq d.table all fs' fs))
       | _ => (d, "bad-dca"))
    | _ => (d, "bad-dca")
  | ["rc", i] =>
    match i.toNat?.bind d.get with
    | some x =>
      let ok := match x with
        | .inst c fs => reconstructible d.table (d.table.attrs c) fs
        | _ => false
      (d, b2s ok ++ " " ++ b2s (pyEq d.table (reconstruct d.table x) x))
    | none => (d, "bad-rc")
  | ["repr", i] =>
    match (i.toNat?.bind d.get).bind (reprOf d.table) with
    | some (name, es) => (d, " ".intercalate (name :: es.map (fun e => s!"{e.1}={showKind d.table e.2}")))
    | none => (d, "bad-repr")
  | "meta" :: key :: ovf :: sg :: "|" :: rest =>
    (match splitBars rest with
     | [inh, ann, attrs, typed, skip] =>
       let o : DecoOpts := { annotations := ann, attrs := attrs, typed := typed, skipGiven := sg == "1", skipNames := skip,
                             overflow := if ovf == "-" then none else some ovf, key := if key == "-" then none else some key }
       let r := metaOrder inh o
       (d, if r.isEmpty then "-" else " ".intercalate r)
     | _ => (d, "bad-meta"))
  | "hst" :: idx :: c :: n :: rest =>
    (match idx.toNat?, c.toNat?, n.toNat?.bind (fun n => parseSlots n rest) with
     | some i, some c, some (ss, []) => ({ d with heap := heapStep d.heap (.put i c ss) }, "ok")
     | _, _, _ => (d, "bad-hst"))
  | ["heq", i, j] =>
    (match i.toNat?, j.toNat? with
     | some i, some j =>
       (match outStep d.table d.heap (.cmp i j) with
        | .cmp (.ok b) => (d, b2s b)
        | .cmp .raised => (d, "raised")
        | _ => (d, "bad-heq"))
     | _, _ => (d, "bad-heq"))
  | ["hrepr", i] =>
    (match i.toNat? with
     | some i =>
       (match outStep d.table d.heap (.repr i) with
        | .repr none => (d, "raised")
        | .repr (some (name, es)) => (d, " ".intercalate (name :: es.map (fun e => s!"{e.1}={showKind d.table e.2}")))
        | _ => (d, "bad-hrepr"))
     | none => (d, "bad-hrepr"))
  | ["hcopy", i] =>
    (match i.toNat? with
     | some i =>
       (match outStep d.table d.heap (.copy i) with
        | .copy r => (d, if r then "raised" else "ok")
        | _ => (d, "bad-hcopy"))
     | none => (d, "bad-hcopy"))
  | _ => (d, "bad-op")

partial def loop (h : IO.FS.Stream) (out : IO.FS.Stream) (st : DSt) : IO Unit := do
  let line ← h.getLine
  if line.isEmpty then return ()
  let (st', o) := handle st line
  out.putStrLn o
  loop h out st'

def main : IO Unit := do
  loop (← IO.getStdin) (← IO.getStdout) {}
