import SpecVerif.Model.C11
/-!
Line-protocol driver for the C11 correspondence: evaluates the definitions of
`SpecVerif.C11` (`Tbl.code`, `construct`, `wstep`, …) that the theorems of
`Props/C11.lean` are about.

Input (tokens separated by single spaces; one output line per input line):
  reset                                   start a case                         -> ok
  class <0|1>                             next class of the hierarchy (base first; 1 = @spec_class) -> ok
  mem <n> <kind> <c> <o> <a> <dflt> <reads> <inv> <form>
        member of the last class. kind: attr|attrnd|list|plain|plainnc|prop;
        c/o/a = cache/overridable/annotated; dflt int or `[i;j]` list (attr, list,
        plain); reads = names read by the pool getter (`-` or comma list); inv =
        invalidated_by keys (`-`, or comma list of names and `*`); form:
        std | viaattr (`n: T = Attr(...)`) | bareattr (`n = Attr(...)`, no annotation) -> ok
  new <kwargs>                            construct instance 0 (`-` or `n=v,...`)
  op <i> <inplace> <opname> <args>        see `parseOp`
Output of new/op: `<outcome> ;; calls=<names> ;; <instances>`
-/
open SpecVerif.Py SpecVerif.C11

inductive DVal
  | int (i : Int)
  | list (xs : List Int)
  | bad
  deriving DecidableEq, Repr, Inhabited

def DVal.show : DVal → String
  | .int i => toString i
  | .list xs => "[" ++ ";".intercalate (xs.map toString) ++ "]"
  | .bad => "bad"

def parseVal (s : String) : Option DVal :=
  if s == "bad" then some .bad
  else if s.startsWith "[" then
    let inner := ((s.drop 1).dropEnd 1).toString
    if inner == "" then some (.list [])
    else ((inner.splitOn ";").mapM String.toInt?).map DVal.list
  else s.toInt?.map .int

structure DSt where
  classes : List (ClassDecl DVal) := []        -- most derived first
  reads   : List (Name × List Name) := []
  isList  : List Name := []
  world   : World DVal := []

/-- `R.kind` of `Tbl.resolveWith`: attribute resolution on the effective declarations -/
def kindOfD (st : DSt) (n : Name) : Kind DVal :=
  match lookupMember (effAll false st.classes) n with
  | some m => m.kind
  | none => .plain none

def pow13 : Nat → Int
  | 0 => 1
  | n + 1 => 13 * pow13 n

/-- Pool getter: an injective encoding of the non-cache values of the names it reads. -/
def poolGetter (st : DSt) (n : Name) (ncs : Name → Option DVal) : DVal :=
  let rs := match st.reads.find? (fun p => p.1 == n) with
    | some p => p.2
    | none => []
  let digit (d : Name) : Int :=
    match kindOfD st d with
    | .prop _ _ _ =>
      match ncs d with
      | some (.int v) => if v < 0 then (-v) % 13 else 0
      | _ => 0
    | k =>
      let cur : Option DVal := match ncs d with
        | some v => some v
        | none => match k with
          | .plain c => c
          | _ => none
      match cur with
      | some (.int v) => (v + 1) % 13
      | some (.list xs) => (xs.foldl (· + ·) 0 + 3 * (xs.length : Int)) % 10 + 1
      | some .bad => 12
      | none => 0
  .int ((rs.foldl (fun acc d => acc + digit d * pow13 d) 0) * 4 + (n : Int))

def okTypeD (st : DSt) (n : Name) (v : DVal) : Bool :=
  match v with
  | .int _ => !(st.isList.contains n)
  | .list _ => st.isList.contains n
  | .bad => false

def tblOf (st : DSt) : Tbl DVal :=
  { mro := st.classes, getter := poolGetter st, okType := okTypeD st,
    ctor0 := fun n => if st.isList.contains n then some (.list []) else some (.int 0) }

def parseNames (s : String) : Option (List Name) :=
  if s == "-" then some [] else (s.splitOn ",").mapM String.toNat?

def parseKeys (s : String) : Option (List Key) :=
  if s == "-" then some []
  else (s.splitOn ",").mapM (fun t => if t == "*" then some Key.star else t.toNat?.map Key.nm)

def parseKw (s : String) : Option (List (Name × DVal)) :=
  if s == "-" then some []
  else (s.splitOn ",").mapM (fun t =>
    match t.splitOn "=" with
    | [k, v] => do pure ((← k.toNat?), (← parseVal v))
    | _ => none)

/-- transform pool -/
def tfPool (name : String) : Option (Option DVal → Except Err DVal) :=
  match name with
  | "inc" => some fun
    | some (.int v) => .ok (.int (if v ≥ 0 then (v + 1) % 10 else v))
    | some (.list xs) => .ok (.list (xs ++ [1]))
    | _ => .error .typeError
  | "neg" => some fun
    | some (.int v) => .ok (.int (-((v.natAbs % 9 : Nat) + 1 : Int)))
    | _ => .error .typeError
  | "bad" => some fun _ => .ok .bad
  | _ => none

def listSetAt : List Int → Nat → Int → List Int
  | [], _, _ => []
  | _ :: xs, 0, v => v :: xs
  | x :: xs, i + 1, v => x :: listSetAt xs i v

/-- element-helper pool: the new collection the mutator computes -/
def elemPool (kind : String) (x : DVal) : Option (Option DVal → Except Err DVal) :=
  let get (o : Option DVal) : List Int := match o with
    | some (.list xs) => xs
    | _ => []
  match kind, x with
  | "app", .int v => some fun o => .ok (.list (get o ++ [v]))
  | "app", _ => some fun _ => .error .valueError
  | "ins", .int v => some fun o => .ok (.list (v :: get o))
  | "ins", _ => some fun _ => .error .valueError
  | "rem", .int v => some fun o =>
      if (get o).contains v then .ok (.list ((get o).erase v)) else .error .valueError
  | "remi", .int i => some fun o =>
      if 0 ≤ i ∧ i.toNat < (get o).length then .ok (.list ((get o).eraseIdx i.toNat)) else .error .indexError
  | "tfi", .int i => some fun o =>
      if 0 ≤ i ∧ i.toNat < (get o).length then
        .ok (.list (listSetAt (get o) i.toNat (((get o).getD i.toNat 0 + 1) % 10)))
      else .error .indexError
  | _, _ => none

def parseOp (ts : List String) : Option (Op DVal) :=
  match ts with
  | ["read", n] => do pure (.read (← n.toNat?))
  | ["set", n, v] => do pure (.setattr (← n.toNat?) (← parseVal v))
  | ["del", n] => do pure (.delattr (← n.toNat?))
  | ["with", n, v] => do pure (.withAttr (← n.toNat?) (← parseVal v))
  | ["withu", n, v] => do pure (.updateAttr (← n.toNat?) (← parseVal v))
  | ["tf", n, f] => do pure (.transformAttr (← n.toNat?) (← tfPool f))
  | ["rst", n] => do pure (.resetAttr (← n.toNat?))
  | ["elem", n, k, x] => do pure (.elem (← n.toNat?) (← elemPool k (← parseVal x)))
  | ["upd", kvs] => do pure (.update (← parseKw kvs))
  | ["tfm", kfs] => do
      let ps ← (kfs.splitOn ",").mapM (fun t =>
        match t.splitOn "=" with
        | [k, f] => do pure ((← k.toNat?), (← tfPool f))
        | _ => none)
      pure (.transform ps)
  | ["reset"] => some .reset
  | _ => none

def showInst (st : DSt) (R : RTbl DVal) (s : Dict DVal) : String :=
  let names := R.names.mergeSort (· ≤ ·)
  let ents := names.filterMap fun n =>
    match s n with
    | none => none
    | some (t, v) =>
      let isProp := match kindOfD st n with
        | .prop _ _ _ => true
        | _ => false
      let tag := if isProp then (if t == .cache then "c:" else "o:") else ""
      some s!"{n}={tag}{v.show}"
  "{" ++ ",".intercalate ents ++ "}"

def showWorld (st : DSt) (R : RTbl DVal) (w : World DVal) : String :=
  " | ".intercalate (w.map (showInst st R))

def showCalls (cs : List Name) : String :=
  if cs.isEmpty then "calls=-" else "calls=" ++ ",".intercalate (cs.map toString)

def handle (st : DSt) (line : String) : DSt × String :=
  match (line.trimAscii.toString.splitOn " ").filter (· ≠ "") with
  | ["reset"] => ({}, "ok")
  | ["class", sp] => ({ st with classes := ⟨sp == "1", []⟩ :: st.classes }, "ok")
  | ["mem", n, kind, c, o, a, dflt, reads, inv, form] =>
    match n.toNat?, parseVal dflt, parseNames reads, parseKeys inv, st.classes with
    | some n, some d, some rs, some ks, cl :: rest =>
      let k : Option (Kind DVal) := match kind with
        | "attr" => some (.attr (some d))
        | "attrnd" => some (.attr none)
        | "list" => some (.attr (some d))
        | "plain" => some (.plain (some d))
        | "plainnc" => some (.plain none)
        | "prop" => some (.prop (c == "1") (o == "1") (a == "1"))
        | _ => none
      let f : Option Form := match form with
        | "std" => some .std
        | "viaattr" => some .viaAttr
        | "bareattr" => some .bareAttr
        | _ => none
      let dIsList := match d with
        | .list _ => kind == "list" || kind == "plain" || kind == "attr"
        | _ => false
      match k, f with
      | some k, some f =>
        let cl' : ClassDecl DVal := { cl with members := cl.members ++ [⟨n, k, ks, f⟩] }
        ({ st with classes := cl' :: rest, reads := (n, rs) :: st.reads,
                   isList := if kind == "list" || dIsList then n :: st.isList else st.isList }, "ok")
      | _, _ => (st, "bad-op")
    | _, _, _, _, _ => (st, "bad-op")
  | ["new", kw] =>
    match parseKw kw with
    | none => (st, "bad-op")
    | some kw =>
      let R := (tblOf st).code
      match construct R kw with
      | .ok s => ({ st with world := [s] }, "ok ;; calls=- ;; " ++ showWorld st R [s])
      | .error e => ({ st with world := [] }, "err " ++ e.name ++ " ;; calls=- ;; ")
  | "op" :: i :: ip :: ts =>
    match i.toNat?, parseOp ts with
    | some i, some op =>
      let R := (tblOf st).code
      -- the instance index is taken modulo the number of live instances (same convention on the real side)
      let i := if st.world.isEmpty then i else i % st.world.length
      let r := wstep R st.world i op (ip == "1")
      let o := match r.out with
        | .error e => "err " ++ e.name
        | .ok (some v, _) => "val " ++ v.show
        | .ok (none, some j) => s!"new {j}"
        | .ok (none, none) => "ok"
      ({ st with world := r.world }, o ++ " ;; " ++ showCalls r.calls ++ " ;; " ++ showWorld st R r.world)
    | _, _ => (st, "bad-op")
  | _ => (st, "bad-op")

partial def loop (h : IO.FS.Stream) (out : IO.FS.Stream) (st : DSt) : IO Unit := do
  let line ← h.getLine
  if line.isEmpty then return ()
  let (st', o) := handle st line
  out.putStrLn o
  loop h out st'

def main : IO Unit := do
  loop (← IO.getStdin) (← IO.getStdout) {}
