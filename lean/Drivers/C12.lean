import SpecVerif.Model.C12
/-!
Line-protocol driver for the C12 correspondence: evaluates the very
definitions of `SpecVerif.C12` that the theorems of `Props/C12.lean` are about.

Input (one command per line, tokens separated by single spaces):
  sp <6 flag chars>[<ann>] <layout> <getter token>+
                                        start a spec_property case; flags in the order
                                        overridable cache hasSetter hasDeleter hasGetter allowAttrErr; the optional 7th
                                        char is the annotation every annotating class gives `x`: `i` int (default),
                                        `o` Optional[int], `y` Any, `t` str (decides `conforms` and `construct`);
                                        <layout> is the inheritance chain of type(instance), base first, classes
                                        separated by `/`, each a subset of the letters `s` (decorated with
                                        @spec_class) `d` (declares the spec_property) `a` (annotates x) `p` (defines
                                        _prepare_x), or `-` for none of them; or `<Lchain>+<Rchain>><leaf>/<tail…>`:
                                        two independent base chains joined by class leaf(Ltop, Rtop). The host flags
                                        onSpecClass / managed / hasPreparer are computed by the model
                                        (`SpecVerif.C12.resolve`, `resolveMI`).
  cp <7 flag chars> <getter token>+     start a classproperty case; flags
                                        overridable cache perSubclass hasSetter hasDeleter
                                        hasGetter allowAttrErr
  r | a <val> | d | b                    spec_property ops: read / assign / delete / bump
  c | w <val> | u <val> | Z | y <val> | W <val> | R
                                         instance-level ops: obj = copy.deepcopy(obj) / obj = obj.with_y(v) /
                                         obj = obj.update_y(v) / obj = obj.reset_y() / obj.y = v (in place) /
                                         obj = obj.with_x(v) / obj = obj.reset_x()   (`y: int = 0` is another managed
                                         attribute of every decorated class)
  r <t> | a <t> <val> | d <t> | b        classproperty ops; target `c<k>` (class k) or `o<k>` (instance of k)
  @<k> <op>                              rewind to the state reached after the first k operations of the
                                         current path, then apply <op> (the models are pure, so a whole tree of
                                         operation sequences is walked with one line per edge)
Value tokens: `i<int>` `s<int>` (the str "s<int>") `M` `E` `U` (sentinels) and the falsy values
`N` (None) `F` (False) `e` ("") `L` ([]) (`i0` is the falsy int); getter tokens additionally
`!A !R !V !K !T` (raise AttributeError / RuntimeError / ValueError / KeyError / TypeError) and
`z` (a falsy value that depends on the class the getter runs on: 0, "", None; 0 for spec_property).
The getter on underlying state n yields token n mod len; a classproperty getter
invoked on class k adds 100*(k+1) to an int token >= 10.
Output (one line per input line):
  spec_property:  `<out> ;; <slot> ;; <under> ;; <y> ;; <log>`; for an instance-level op that succeeded <out> is
                  `ok same` (the instance itself was returned) or `ok new ^<slot>|<under>|<y>|<log>` (a new instance;
                  after `^` the state of the instance the op was applied to, which must not have changed)
  classproperty:  `<out> ;; <cache> ;; <under> ;; <log>`
-/
open SpecVerif.Py SpecVerif.C12

inductive V
  | int (n : Int)
  | str (n : Int)
  | missing | empty | unchanged
  | none_ | false_ | estr | elist
  | pcf            -- only in getter tables: per-class falsy value
  deriving DecidableEq, Repr

def V.show : V → String
  | .int n => s!"i{n}"
  | .str n => s!"s{n}"
  | .missing => "M" | .empty => "E" | .unchanged => "U"
  | .none_ => "N" | .false_ => "F" | .estr => "e" | .elist => "L" | .pcf => "z"

def parseV (s : String) : Option V :=
  if s == "M" then some .missing
  else if s == "E" then some .empty
  else if s == "U" then some .unchanged
  else if s == "N" then some .none_
  else if s == "F" then some .false_
  else if s == "e" then some .estr
  else if s == "L" then some .elist
  else if s.startsWith "i" then (s.drop 1).toString.toInt?.map V.int
  else if s.startsWith "s" then (s.drop 1).toString.toInt?.map V.str
  else none

def parseG (s : String) : Option (Except Err V) :=
  if s == "!A" then some (.error .attributeError)
  else if s == "!R" then some (.error .runtimeError)
  else if s == "!V" then some (.error .valueError)
  else if s == "!K" then some (.error .keyError)
  else if s == "!T" then some (.error .typeError)
  else if s == "z" then some (.ok .pcf)
  else (parseV s).map .ok

/-- the harness's `_prepare_x` (97, 96 and the strs s3, s7, … make it raise; the falsy None / "" / [] are real
values and become 3000 / 3001 / 3002) -/
def thePreparer : V → Except Err V
  | .int n =>
    if n = 99 then .ok .missing else if n = 98 then .ok (.int 0)
    else if n = 97 then .error .typeError else if n = 96 then .error .attributeError
    else .ok (.int (n + 1000))
  | .false_ => .ok (.int 1000)          -- `False + 1000`
  | .str n => if n % 2 = 0 then .ok (.int (n + 2000)) else if n % 4 = 3 then .error .valueError else .ok (.str n)
  | .none_ => .ok (.int 3000)
  | .estr => .ok (.int 3001)
  | .elist => .ok (.int 3002)
  | v => .ok v

def tableGet (tab : Array (Except Err V)) (n : Nat) : Except Err V :=
  if tab.size = 0 then .ok (.int 0) else tab[n % tab.size]!

def isIntLike : V → Bool
  | .int _ => true | .false_ => true | _ => false

/-- `ann`: the annotation of `x` — `i` int, `o` Optional[int], `y` Any, `t` str. `construct` is what
`attr_spec.constructor()` gives: `int()`, `str()`, and TypeError for `typing.Union()` / `typing.Any()`. -/
def mkWorld (ann : Char) (tab : Array (Except Err V)) : World V :=
  { getter := fun n => match tableGet tab n with
      | .ok .pcf => .ok (.int 0)
      | o => o
    preparer := thePreparer
    conforms := fun v =>
      if ann == 'o' then isIntLike v || v == .none_
      else if ann == 'y' then true
      else if ann == 't' then (match v with | .str _ => true | .estr => true | _ => false)
      else isIntLike v
    construct :=
      if ann == 'o' || ann == 'y' then .error .typeError else if ann == 't' then .ok .estr else .ok (.int 0)
    missing := .missing, empty := .empty, unchanged := .unchanged }

/-- the other attribute `y: int = 0` -/
def theOther : Other V := { dflt := .int 0, construct := .int 0, conforms := isIntLike }

def mkCWorld (tab : Array (Except Err V)) : CWorld Nat V :=
  { getter := fun k n =>
      match tableGet tab n with
      | .ok (.int m) => if m ≥ 10 then .ok (.int (m + 100 * ((k : Int) + 1))) else .ok (.int m)
      | .ok .pcf => .ok (match k with | 0 => .int 0 | 1 => .estr | 2 => .none_ | _ => .false_)
      | o => o }

def flag (s : String) (i : Nat) : Bool := (s.toList.getD i '0') == '1'

def parseOpts (s : String) : Option Opts :=
  if s.length ≠ 6 ∧ s.length ≠ 7 then none else
  some { overridable := flag s 0, cache := flag s 1, hasSetter := flag s 2, hasDeleter := flag s 3,
         hasGetter := flag s 4, allowAttrErr := flag s 5 }

def parseClass (s : String) : Option ClassDesc :=
  if s.isEmpty then none
  else if s == "-" then some ⟨false, false, false, false⟩
  else if s.toList.all (fun ch => ch == 's' || ch == 'd' || ch == 'a' || ch == 'p') then
    some ⟨s.toList.contains 's', s.toList.contains 'd', s.toList.contains 'a', s.toList.contains 'p'⟩
  else none

def parseChain (s : String) : Option (List ClassDesc) :=
  if s.isEmpty then some [] else (s.splitOn "/").mapM parseClass

/-- `chain`, or `Lchain+Rchain>leaf/tail…` (two base chains joined by `leaf`) -/
def parseLayout (s : String) : Option Resolved :=
  match s.splitOn ">" with
  | [chain] => (parseChain chain).map resolve
  | [bases, rest] =>
    match bases.splitOn "+", parseChain rest with
    | [l, r], some (leaf :: tail) => do pure (resolveMI (← parseChain l) (← parseChain r) leaf tail)
    | _, _ => none
  | _ => none

def parseCCfg (s : String) : Option CCfg :=
  if s.length ≠ 7 then none else
  some { overridable := flag s 0, cache := flag s 1, perSubclass := flag s 2, hasSetter := flag s 3,
         hasDeleter := flag s 4, hasGetter := flag s 5, allowAttrErr := flag s 6 }

def parseTarget (s : String) : Option (Target Nat) :=
  if s.startsWith "c" then (s.drop 1).toString.toNat?.map Target.cls
  else if s.startsWith "o" then (s.drop 1).toString.toNat?.map Target.inst
  else none

def showOut : Out V → String
  | .val v => "val " ++ v.show
  | .done => "ok"
  | .err e => "err " ++ e.name
  | .nested => "err NestedAttributeError"

def showOpt : Option V → String
  | none => "-"
  | some v => v.show

def showLog (l : List (Acc V)) : String :=
  if l.isEmpty then "-" else
  ",".intercalate (l.map fun a => match a with | .fset v => "S:" ++ v.show | .fdel => "D")

def showCLog (l : List (CAcc Nat V)) : String :=
  if l.isEmpty then "-" else
  ",".intercalate (l.map fun a => match a with
    | .fset k v => s!"S{k}:" ++ v.show | .fdel k => s!"D{k}")

/-- the `_cache` dict restricted to the keys the harness can produce: None, classes 0..3 -/
def showCache (m : Option Nat → Option V) : String :=
  let keys : List (String × Option Nat) :=
    [("N", none), ("0", some 0), ("1", some 1), ("2", some 2), ("3", some 3)]
  let parts := keys.filterMap fun (n, k) => (m k).map fun v => n ++ "=" ++ v.show
  "{" ++ ",".intercalate parts ++ "}"

def showSt (o : Obj V) : String := s!"{showOpt o.st.slot} ;; {o.st.under} ;; {showOpt o.other} ;; {showLog o.st.log}"
def showStBar (o : Obj V) : String := s!"{showOpt o.st.slot}|{o.st.under}|{showOpt o.other}|{showLog o.st.log}"
def showCSt (s : CSt Nat V) : String := s!"{showCache s.cache} ;; {s.under} ;; {showCLog s.log}"

/-- `stack[k]` is the state after the first `k` operations of the current path. -/
inductive Mode
  | none
  | sp (w : World V) (c : Cfg) (stack : Array (Obj V))
  | cp (w : CWorld Nat V) (c : CCfg) (stack : Array (CSt Nat V))

/-- split an optional `@k` prefix off the tokens -/
def splitDepth (ts : List String) : Option Nat × List String :=
  match ts with
  | t :: rest => if t.startsWith "@" then ((t.drop 1).toString.toNat?, rest) else (none, ts)
  | [] => (none, [])

def parseOp (ts : List String) : Option (OOp V) :=
  match ts with
  | ["r"] => some (.prop .read)
  | ["a", v] => (parseV v).map fun x => .prop (.assign x)
  | ["d"] => some (.prop .delete)
  | ["b"] => some (.prop .bump)
  | ["c"] => some .copy
  | ["w", v] => (parseV v).map .withOther
  | ["u", v] => (parseV v).map .withOther     -- `update_y(v)`: the same model operation, another helper
  | ["Z"] => some .resetOther
  | ["y", v] => (parseV v).map .setOther
  | ["W", v] => (parseV v).map .withSelf
  | ["R"] => some .resetSelf
  | _ => none

def isProp : OOp V → Bool
  | .prop _ => true
  | _ => false

def parseCOp (ts : List String) : Option (COp Nat V) :=
  match ts with
  | ["r", t] => (parseTarget t).map .read
  | ["a", t, v] => do pure (.assign (← parseTarget t) (← parseV v))
  | ["d", t] => (parseTarget t).map .delete
  | ["b"] => some .bump
  | _ => none

def handle (m : Mode) (line : String) : Mode × String :=
  match (line.trimAscii.toString.splitOn " ").filter (· ≠ "") with
  | "sp" :: flags :: layout :: tab =>
    match parseOpts flags, parseLayout layout, tab.mapM parseG with
    | some o, some l, some t =>
      let c := cfgOf o l
      let s : Obj V := Obj.init c theOther
      (.sp (mkWorld (flags.toList.getD 6 'i') t.toArray) c #[s], "ok ;; " ++ showSt s)
    | _, _, _ => (m, "bad-op")
  | "cp" :: flags :: tab =>
    match parseCCfg flags, tab.mapM parseG with
    | some c, some t =>
      let s : CSt Nat V := CSt.init
      (.cp (mkCWorld t.toArray) c #[s], "ok ;; " ++ showCSt s)
    | _, _ => (m, "bad-op")
  | ts0 =>
    let (dep, ts) := splitDepth ts0
    match m with
    | .none => (m, "bad-op")
    | .sp w c stack =>
      let k := dep.getD (stack.size - 1)
      match parseOp ts, stack[k]? with
      | some op, some s =>
        let (s', o, fresh) := ostep w c theOther s op
        let how := if isProp op then "" else
          match o with
          | .done => if fresh then " new ^" ++ showStBar s else " same"
          | _ => ""
        (.sp w c ((stack.extract 0 (k + 1)).push s'), showOut o ++ how ++ " ;; " ++ showSt s')
      | _, _ => (m, "bad-op")
    | .cp w c stack =>
      let k := dep.getD (stack.size - 1)
      match parseCOp ts, stack[k]? with
      | some op, some s =>
        let (s', o) := cstep w c s op
        (.cp w c ((stack.extract 0 (k + 1)).push s'), showOut o ++ " ;; " ++ showCSt s')
      | _, _ => (m, "bad-op")

partial def loop (h : IO.FS.Stream) (out : IO.FS.Stream) (m : Mode) : IO Unit := do
  let line ← h.getLine
  if line.isEmpty then return ()
  let (m', o) := handle m line
  out.putStrLn o
  loop h out m'

def main : IO Unit := do
  loop (← IO.getStdin) (← IO.getStdout) .none
