import SpecVerif.Model.C13
/-!
Line-protocol driver for the C13 correspondence: evaluates the very
definitions of `SpecVerif.C13` that the theorems of `Props/C13.lean` are about.

Input  (one command per line, tokens separated by single spaces):
  new <typed 0|1> <selfkeyed 0|1> <eqmode 0|1|2> <item>*   start a case: KeyedList(items)
      eqmode = what Python `==` between two items is in this universe:
        0 identity of the token; 1 payload and kind only (the key is ignored: equal items with
        different keys); 2 key, payload, kind with kinds 0 and 3 identified ((1, p) == (1.0, p))
  <op> <args>*                                  see `parseOp`
Item token `k:p:b` (key, payload, bad-kind); option-int `_` = None.
Output (one line per input line): `<out> ;; <list> ;; <dict>`
-/
open SpecVerif.Py SpecVerif.C13

structure Item where
  k : Int
  p : Nat
  b : Nat
  deriving DecidableEq, Repr

def Item.show (x : Item) : String := s!"{x.k}:{x.p}:{x.b}"

def parseItem (s : String) : Option Item :=
  match s.splitOn ":" with
  | [k, p, b] => do
    let k ← k.toInt?; let p ← p.toNat?; let b ← b.toNat?
    pure ⟨k, p, b⟩
  | _ => none

def parseItems (ts : List String) : Option (List Item) := ts.mapM parseItem
def parseOptInt (s : String) : Option (Option Int) :=
  if s == "_" then some none else s.toInt?.map some

def mkCfg (typed selfKeyed : Bool) : Cfg Item Int :=
  { key := fun x => x.k
    okItem := fun x => !typed || x.b == 0
    asKey := fun x => if selfKeyed then some x.k else none }

def mkEqv (mode : String) : Item → Item → Bool :=
  if mode == "1" then fun a b => a.p == b.p && a.b == b.b
  else if mode == "2" then
    fun a b => a.k == b.k && a.p == b.p && (if a.b == 3 then 0 else a.b) == (if b.b == 3 then 0 else b.b)
  else fun a b => a == b

def parseOp (ts : List String) : Option (Op Item Int) :=
  match ts with
  | ["getIdx", i] => do pure (.getIdx (← i.toInt?))
  | ["getKey", k] => do pure (.getKey (← k.toInt?))
  | ["getSlice", a, b] => do pure (.getSlice (← parseOptInt a) (← parseOptInt b))
  | ["setIdx", i, x] => do pure (.setIdx (← i.toInt?) (← parseItem x))
  | ["setKey", k, x] => do pure (.setKey (← k.toInt?) (← parseItem x))
  | ["setSlice"] => some .setSlice
  | ["delIdx", i] => do pure (.delIdx (← i.toInt?))
  | ["delKey", k] => do pure (.delKey (← k.toInt?))
  | ["delSlice"] => some .delSlice
  | ["insert", i, x] => do pure (.insert (← i.toInt?) (← parseItem x))
  | ["append", x] => do pure (.append (← parseItem x))
  | "extend" :: xs => do pure (.extend (← parseItems xs))
  | "iadd" :: xs => do pure (.iadd (← parseItems xs))
  | ["pop", i] => do pure (.pop (← parseOptInt i))
  | ["remove", x] => do pure (.remove (← parseItem x))
  | ["reverse"] => some .reverse
  | ["clear"] => some .clear
  | "add" :: xs => do pure (.add (← parseItems xs))
  | "radd" :: xs => do pure (.radd (← parseItems xs))
  | ["containsItem", x] => do pure (.containsItem (← parseItem x))
  | ["containsKey", k] => do pure (.containsKey (← k.toInt?))
  | ["index", x] => do pure (.index (← parseItem x))
  | ["count", x] => do pure (.count (← parseItem x))
  | ["get", k] => do pure (.get (← k.toInt?))
  | ["indexForKey", k] => do pure (.indexForKey (← k.toInt?))
  | ["len"] => some .len
  | ["iter"] => some .iter
  | ["keys"] => some .keys
  | ["items"] => some .items
  | "eqList" :: xs => do pure (.eqList (← parseItems xs))
  | _ => none

def showItems (xs : List Item) : String := "[" ++ ",".intercalate (xs.map Item.show) ++ "]"
def showDict (d : List (Int × Item)) : String :=
  "{" ++ ",".intercalate (d.map fun p => s!"{p.1}={p.2.show}") ++ "}"

def showOut : Out Item Int → String
  | .none => "ok"
  | .item x => "item " ++ x.show
  | .optItem none => "opt _"
  | .optItem (some x) => "opt " ++ x.show
  | .nat n => s!"nat {n}"
  | .bool b => if b then "bool 1" else "bool 0"
  | .items xs => "items " ++ showItems xs
  | .keys ks => "keys [" ++ ",".intercalate (ks.map toString) ++ "]"
  | .pairs ps => "pairs " ++ showDict ps
  | .err e => "err " ++ e.name

def showState (l : KL Item Int) : String := showItems l.list ++ " ;; " ++ showDict l.dict

structure St where
  cfg : Cfg Item Int
  eqv : Item → Item → Bool
  kl : KL Item Int

def handle (st : St) (line : String) : St × String :=
  match (line.trimAscii.toString.splitOn " ").filter (· ≠ "") with
  | "new" :: typed :: selfk :: eqm :: items =>
    match parseItems items with
    | none => (st, "bad-op")
    | some xs =>
      let cfg := mkCfg (typed == "1") (selfk == "1")
      match ofList cfg xs KL.empty with
      | .ok l => ({ cfg := cfg, eqv := mkEqv eqm, kl := l }, "ok ;; " ++ showState l)
      | .error e => ({ cfg := cfg, eqv := mkEqv eqm, kl := KL.empty }, "err " ++ e.name ++ " ;; " ++ showState (KL.empty : KL Item Int))
  | ts =>
    match parseOp ts with
    | none => (st, "bad-op")
    | some op =>
      let (l', o) := stepE st.cfg st.eqv st.kl op
      ({ st with kl := l' }, showOut o ++ " ;; " ++ showState l')

partial def loop (h : IO.FS.Stream) (out : IO.FS.Stream) (st : St) : IO Unit := do
  let line ← h.getLine
  if line.isEmpty then return ()
  let (st', o) := handle st line
  out.putStrLn o
  loop h out st'

def main : IO Unit := do
  loop (← IO.getStdin) (← IO.getStdout) { cfg := mkCfg false true, eqv := mkEqv "0", kl := KL.empty }
