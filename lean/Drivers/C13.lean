import SpecVerif.Model.C13Pair
/-!
Line-protocol driver for the C13 correspondence: evaluates the very
definitions of `SpecVerif.C13` that the theorems of `Props/C13.lean` are about.

Input  (one command per line, tokens separated by single spaces):
  new <typed 0|1|@spec> <selfkeyed 0|1> <eqmode 0|1|2> <item>*   start a case: KeyedList(items)
      typed = 0 unparameterised, 1 `KeyedList[T, K]` admitting exactly the items of kind 0, or
      `@<item>,<item>,…/<key>,<key>,…` = `KeyedList[T, K]` with arbitrary type parameters: the items that pass
      `check_type(item, T)` and the keys that pass `check_type(key, K)` (both decided by the harness's reference
      checker); the configuration is `typedCfg key okT okK` of `Model/C13.lean`
      eqmode = what Python `==` between two items is in this universe:
        0 identity of the token; 1 payload and kind only (the key is ignored: equal items with
        different keys); 2 key, payload, kind with kinds 0 and 3 identified ((1, p) == (1.0, p))
  <op> <args>*                                  see `parseOp` (an operation on the main container)
  onew <okkinds> <keymode 0|1|2> <item>*        second container (`other`) with its OWN configuration:
      okkinds = `*` (unparameterised), the digits of the admissible bad-kinds (`0`, `023`, …) or an `@` spec as for `new`;
      keymode = its key function on tokens: 0 key field, 1 payload, 2 (key + 1) mod 3
      from here on every output line also shows the second container
  o <op> <args>*                                the same operations on the second container
  extendFrom|iaddFrom|extendSelf|addFrom|raddFrom|eqFrom|ctorFrom <m|o>      cross operations, receiver m(ain) / o(ther)
  extendFromSlice <m|o> <a> <b>                 receiver.extend(operand[a:b])
Item token `k:p:b` (key, payload, bad-kind); option-int `_` = None.
Output (one line per input line): `<out> ;; <list> ;; <dict>` (+ ` ;; <list> ;; <dict>` of the second container once it exists);
a new container (`+`, constructor) is shown as `kl <list> <dict>`
-/
open SpecVerif.Py SpecVerif.C13

structure Item where
  k : Int
  p : Nat
  b : Nat
  deriving DecidableEq, Repr

def Item.show (x : Item) : String := s!"{x.k}:{x.p}:{x.b}"

def parseItem (s : String) : Option Item :=
  match s.splitOn ":" with
  | [k, p, b] => do
    let k ← k.toInt?; let p ← p.toNat?; let b ← b.toNat?
    pure ⟨k, p, b⟩
  | _ => none

def parseItems (ts : List String) : Option (List Item) := ts.mapM parseItem
def parseOptInt (s : String) : Option (Option Int) :=
  if s == "_" then some none else s.toInt?.map some

def mkCfg (typed selfKeyed : Bool) : Cfg Item Int :=
  { key := fun x => x.k
    okItem := fun x => !typed || x.b == 0
    asKey := fun x => if selfKeyed then some x.k else none }

def mkEqv (mode : String) : Item → Item → Bool :=
  if mode == "1" then fun a b => a.p == b.p && a.b == b.b
  else if mode == "2" then
    fun a b => a.k == b.k && a.p == b.p && (if a.b == 3 then 0 else a.b) == (if b.b == 3 then 0 else b.b)
  else fun a b => a == b

def parseOp (ts : List String) : Option (Op Item Int) :=
  match ts with
  | ["getIdx", i] => do pure (.getIdx (← i.toInt?))
  | ["getKey", k] => do pure (.getKey (← k.toInt?))
  | ["getSlice", a, b] => do pure (.getSlice (← parseOptInt a) (← parseOptInt b))
  | ["setIdx", i, x] => do pure (.setIdx (← i.toInt?) (← parseItem x))
  | ["setKey", k, x] => do pure (.setKey (← k.toInt?) (← parseItem x))
  | ["setSlice"] => some .setSlice
  | ["delIdx", i] => do pure (.delIdx (← i.toInt?))
  | ["delKey", k] => do pure (.delKey (← k.toInt?))
  | ["delSlice"] => some .delSlice
  | ["insert", i, x] => do pure (.insert (← i.toInt?) (← parseItem x))
  | ["append", x] => do pure (.append (← parseItem x))
  | "extend" :: xs => do pure (.extend (← parseItems xs))
  | "iadd" :: xs => do pure (.iadd (← parseItems xs))
  | ["pop", i] => do pure (.pop (← parseOptInt i))
  | ["remove", x] => do pure (.remove (← parseItem x))
  | ["reverse"] => some .reverse
  | ["clear"] => some .clear
  | "add" :: xs => do pure (.add (← parseItems xs))
  | "radd" :: xs => do pure (.radd (← parseItems xs))
  | ["containsItem", x] => do pure (.containsItem (← parseItem x))
  | ["containsKey", k] => do pure (.containsKey (← k.toInt?))
  | ["index", x] => do pure (.index (← parseItem x))
  | ["count", x] => do pure (.count (← parseItem x))
  | ["get", k] => do pure (.get (← k.toInt?))
  | ["indexForKey", k] => do pure (.indexForKey (← k.toInt?))
  | ["len"] => some .len
  | ["iter"] => some .iter
  | ["keys"] => some .keys
  | ["items"] => some .items
  | "eqList" :: xs => do pure (.eqList (← parseItems xs))
  | _ => none

def showItems (xs : List Item) : String := "[" ++ ",".intercalate (xs.map Item.show) ++ "]"
def showDict (d : List (Int × Item)) : String :=
  "{" ++ ",".intercalate (d.map fun p => s!"{p.1}={p.2.show}") ++ "}"

def showOut : Out Item Int → String
  | .none => "ok"
  | .item x => "item " ++ x.show
  | .optItem none => "opt _"
  | .optItem (some x) => "opt " ++ x.show
  | .nat n => s!"nat {n}"
  | .bool b => if b then "bool 1" else "bool 0"
  | .items xs => "items " ++ showItems xs
  | .keys ks => "keys [" ++ ",".intercalate (ks.map toString) ++ "]"
  | .pairs ps => "pairs " ++ showDict ps
  | .err e => "err " ++ e.name

def showState (l : KL Item Int) : String := showItems l.list ++ " ;; " ++ showDict l.dict

def keyOf (mode : String) (x : Item) : Int :=
  if mode == "1" then Int.ofNat x.p else if mode == "2" then (x.k + 1) % 3 else x.k

/-- configuration of the second container: own key function, own admissible kinds -/
def mkCfgO (okkinds mode : String) (selfKeyed : Bool) : Cfg Item Int :=
  { key := keyOf mode
    okItem := fun x => okkinds == "*" || okkinds.toList.contains (Char.ofNat (48 + x.b))
    asKey := fun x => if selfKeyed then some x.k else none }

/-- `@<item>,…/<key>,…`: the verdicts of the two type checks of `KeyedList[T, K]` as finite sets -/
def parseSpec (s : String) : Option (List Item × List Int) :=
  match (String.ofList (s.toList.drop 1)).splitOn "/" with
  | [a, b] => do
    let xs ← if a == "" then some [] else (a.splitOn ",").mapM parseItem
    let ks ← if b == "" then some [] else (b.splitOn ",").mapM String.toInt?
    pure (xs, ks)
  | _ => none

/-- configuration of a container from its admissibility token and key mode -/
def cfgOf (spec mode : String) (selfKeyed : Bool) : Option (Cfg Item Int) :=
  if spec.toList.head? == some '@' then do
    let (xs, ks) ← parseSpec spec
    pure (typedCfg (keyOf mode) (fun x => xs.contains x) (fun k => ks.contains k)
      (fun x => if selfKeyed then some x.k else none))
  else some (mkCfgO spec mode selfKeyed)

def parseSide (s : String) : Option Side :=
  if s == "m" then some .main else if s == "o" then some .other else none

def parseOpP (ts : List String) : Option (OpP Item Int) :=
  match ts with
  | ["extendFrom", s] => do pure (.extendFrom (← parseSide s))
  | ["iaddFrom", s] => do pure (.iaddFrom (← parseSide s))
  | ["extendSelf", s] => do pure (.extendSelf (← parseSide s))
  | ["extendFromSlice", s, a, b] => do pure (.extendFromSlice (← parseSide s) (← parseOptInt a) (← parseOptInt b))
  | ["addFrom", s] => do pure (.addFrom (← parseSide s))
  | ["raddFrom", s] => do pure (.raddFrom (← parseSide s))
  | ["eqFrom", s] => do pure (.eqFrom (← parseSide s))
  | ["ctorFrom", s] => do pure (.ctorFrom (← parseSide s))
  | "o" :: rest => do pure (.on .other (← parseOp rest))
  | _ => do pure (.on .main (← parseOp ts))

def showOutP : OutP Item Int → String
  | .out o => showOut o
  | .kl r => "kl " ++ showItems r.list ++ " " ++ showDict r.dict

structure St where
  cfg : Cfg2 Item Int
  selfKeyed : Bool
  eqv : Item → Item → Bool
  pair : Pair Item Int
  hasOther : Bool

def showSt (st : St) : String :=
  showState st.pair.main ++ (if st.hasOther then " ;; " ++ showState st.pair.other else "")

def handle (st : St) (line : String) : St × String :=
  match (line.trimAscii.toString.splitOn " ").filter (· ≠ "") with
  | "new" :: typed :: selfk :: eqm :: items =>
    match parseItems items, (if typed == "0" || typed == "1" then some (mkCfg (typed == "1") (selfk == "1"))
        else cfgOf typed "0" (selfk == "1")) with
    | none, _ => (st, "bad-op")
    | _, none => (st, "bad-op")
    | some xs, some cfg =>
      let st' : St := { cfg := ⟨cfg, cfg⟩, selfKeyed := selfk == "1", eqv := mkEqv eqm, pair := ⟨KL.empty, KL.empty⟩, hasOther := false }
      match construct cfg xs with
      | .ok l => let st'' := { st' with pair := ⟨l, KL.empty⟩ }; (st'', "ok ;; " ++ showSt st'')
      | .error e => (st', "err " ++ e.name ++ " ;; " ++ showSt st')
  | "onew" :: okkinds :: mode :: items =>
    match parseItems items, cfgOf okkinds mode st.selfKeyed with
    | none, _ => (st, "bad-op")
    | _, none => (st, "bad-op")
    | some xs, some cfgO =>
      let st' : St := { st with cfg := ⟨st.cfg.main, cfgO⟩, pair := ⟨st.pair.main, KL.empty⟩, hasOther := true }
      match construct cfgO xs with
      | .ok l => let st'' := { st' with pair := ⟨st.pair.main, l⟩ }; (st'', "ok ;; " ++ showSt st'')
      | .error e => (st', "err " ++ e.name ++ " ;; " ++ showSt st')
  | ts =>
    match parseOpP ts with
    | none => (st, "bad-op")
    | some op =>
      let (p', o) := stepP st.cfg st.eqv st.pair op
      -- `+` and slices: show the whole new container (items AND key index), not only its items
      let o := match op with
        | .on s op' => (match newContainer (st.cfg.get s) (st.pair.get s) op' with
          | some (.ok r) => .kl r
          | _ => o)
        | _ => o
      let st' := { st with pair := p' }
      (st', showOutP o ++ " ;; " ++ showSt st')

partial def loop (h : IO.FS.Stream) (out : IO.FS.Stream) (st : St) : IO Unit := do
  let line ← h.getLine
  if line.isEmpty then return ()
  let (st', o) := handle st line
  out.putStrLn o
  loop h out st'

def main : IO Unit := do
  let cfg := mkCfg false true
  loop (← IO.getStdin) (← IO.getStdout)
    { cfg := ⟨cfg, cfg⟩, selfKeyed := true, eqv := mkEqv "0", pair := ⟨KL.empty, KL.empty⟩, hasOther := false }
