import SpecVerif.Model.C14
/-!
Line-protocol driver for the C14 correspondence: evaluates the very
definitions of `SpecVerif.C14` that the theorems of `Props/C14.lean` are about.

Input (one command per line, tokens separated by single spaces):
  new <universe> <typed 0|1> <enforce 0|1> <value>*     start a case: KeyedSet(values, …)
  <op> <args>*                                           see `parseOp`
Value token `k/p/b` (key number, payload, kind). Operand token:
  `K|<enforce>|<typed>|v,v,…` another KeyedSet of the same universe, `S|v,v,…` a built-in
  set in iteration order, `F|v,v,…` a frozenset, `L|v,v,…` a list, `self` the receiver itself.
Output (one line per input line): `<out> ;; <state>`.
Results of operators are fresh values in the model: `fresh=1` is printed literally (the real side prints
whether `r is not a and r is not b`), and `probe <refl> <bin> <operand> <x>` prints the result after its own
mutation, the other operand, the receiver re-read, and the result re-read after the receiver's mutation.

Key codes (`Int`): str "k<n>" ↦ n, int n ↦ 2000+n, str "k" ↦ 3000, str "" ↦ 3001,
tuple ("notspec", k, p) ↦ 4000+10k+p.

Universes (what the Python value behind `k/p/b` is — see `real_value` in corr_C14.py):
  self    no key function, KeyedSet[str,str]:   0 "k<k>"  1 int k  4 ["k<k>"]  6 ""
  tuple   key=x[0], KeyedSet[tuple,str]:        0 ("k<k>",p)  1 ["k<k>",p]  2 (k,p)  3 "k<k>"  4 int k  5 ()  6 ("",p)
  spec    keyed spec class, KeyedSet[It,str]:   0 It("k<k>",p)  1 ("notspec",k,p)  2 It(k,p)  3 "k<k>"  4 [k]  6 It("",p)
          (It(…, p=0) is falsy: the class defines __bool__)
  unhash  key=x[0], KeyedSet[list,str]:         0 ["k<k>",p]  1 ("k<k>",p)  2 [k,p]  3 "k<k>"  4 int k  5 []  6 ["",p]
  ambig   key=x//10, KeyedSet[int,int]:         0 int 10k+p (int 0: falsy item, falsy key)  4 "k<k>"
  bylen   key=len, KeyedSet[list,int]:          0 list of length k ([] / [p] / [p,0])  1 the same as a tuple  3 int k
  tab     TABLE-DRIVEN universe for sets parameterised with rich types (`rec pair opt lit bnd` in corr_C14.py:
          KeyedSet[Dict[str, Any], str], KeyedSet[Tuple[Any, int], tuple[str, Any]], Tuple/Union/Optional,
          Literal, bounded(...)). The harness keeps a pool of Python values per universe; a token is
            k = key code of `key(x)` (>= 0), or -1 / -2 / -3: the key function raises TypeError / IndexError / KeyError
            p = index of the value in the pool
            b = flags: bit0 the value conforms to T; bit1 hashable; bit2 the value, used as a key, conforms to K
          and the key code of the pool value number q is 6000 + 10q + (1 if it conforms to K else 0). Whether a value
          conforms to T / K is decided by the harness's own reference checker (`ref_conforms`, NOT
          spec_classes.check_type), so `okItem` / `okKey` below only read the bits.
-/
open SpecVerif.Py SpecVerif.C14

structure Val where
  k : Int
  p : Nat
  b : Nat
  deriving DecidableEq, Repr

def Val.show (x : Val) : String := s!"{x.k}/{x.p}/{x.b}"

def parseVal (s : String) : Option Val :=
  match s.splitOn "/" with
  | [k, p, b] => do
    let k ← k.toInt?; let p ← p.toNat?; let b ← b.toNat?
    pure ⟨k, p, b⟩
  | _ => none

def parseVals (s : String) : Option (List Val) :=
  if s == "" then some [] else (s.splitOn ",").mapM parseVal

inductive Univ | self | tuple | spec | unhash | ambig | bylen | tab
  deriving DecidableEq

def parseUniv : String → Option Univ
  | "self" => some .self | "tuple" => some .tuple | "spec" => some .spec
  | "unhash" => some .unhash | "ambig" => some .ambig | "bylen" => some .bylen
  | "rec" => some .tab | "pair" => some .tab | "opt" => some .tab | "lit" => some .tab | "bnd" => some .tab
  | "tab" => some .tab | _ => none

def isStrKey (c : Int) : Bool := (0 ≤ c && c < 1000) || c == 3000 || c == 3001
def isIntKey (c : Int) : Bool := 2000 ≤ c && c < 3000

def tabBit (x : Val) (i : Nat) : Bool := (x.b / 2 ^ i) % 2 == 1

/-- the table-driven universe: everything is read off the token (see the header) -/
def tabCfg (typed : Bool) : Cfg Val Int :=
  { keyOf := fun x =>
      if 0 ≤ x.k then .ok x.k
      else if x.k == -2 then .error .indexError
      else if x.k == -3 then .error .keyError
      else .error .typeError
    asKey := fun x => if tabBit x 1 then some (6000 + 10 * (x.p : Int) + (if tabBit x 2 then 1 else 0)) else none
    hashable := fun x => tabBit x 1
    typed := typed
    okItem := fun x => tabBit x 0
    okKey := fun c => c % 10 == 1 }

def mkCfg (u : Univ) (typed : Bool) : Cfg Val Int :=
  match u with
  | .tab => tabCfg typed
  | .self =>
    { keyOf := fun x => match x.b with
        | 0 => .ok x.k | 1 => .ok (2000 + x.k) | 6 => .ok 3001 | _ => .error .typeError
      asKey := fun x => match x.b with
        | 0 => some x.k | 1 => some (2000 + x.k) | 6 => some 3001 | _ => none
      hashable := fun x => x.b == 0 || x.b == 1 || x.b == 6
      typed := typed
      okItem := fun x => x.b == 0 || x.b == 6
      okKey := isStrKey }
  | .tuple =>
    { keyOf := fun x => match x.b with
        | 0 => .ok x.k | 1 => .ok x.k | 2 => .ok (2000 + x.k) | 3 => .ok 3000
        | 4 => .error .typeError | 6 => .ok 3001 | _ => .error .indexError
      asKey := fun x => match x.b with
        | 3 => some x.k | 4 => some (2000 + x.k) | _ => none
      hashable := fun x => x.b != 1
      typed := typed
      okItem := fun x => x.b == 0 || x.b == 2 || x.b == 5 || x.b == 6
      okKey := isStrKey }
  | .spec =>
    { keyOf := fun x => match x.b with
        | 0 => .ok x.k | 1 => .ok (4000 + 10 * x.k + x.p) | 2 => .ok (2000 + x.k) | 3 => .ok x.k
        | 6 => .ok 3001 | _ => .error .typeError
      asKey := fun x => match x.b with
        | 1 => some (4000 + 10 * x.k + x.p) | 3 => some x.k | _ => none
      hashable := fun x => x.b != 4
      typed := typed
      okItem := fun x => x.b == 0 || x.b == 2 || x.b == 6
      okKey := isStrKey }
  | .unhash =>
    { keyOf := fun x => match x.b with
        | 0 => .ok x.k | 1 => .ok x.k | 2 => .ok (2000 + x.k) | 3 => .ok 3000
        | 4 => .error .typeError | 6 => .ok 3001 | _ => .error .indexError
      asKey := fun x => match x.b with
        | 3 => some x.k | 4 => some (2000 + x.k) | _ => none
      hashable := fun x => x.b == 1 || x.b == 3 || x.b == 4
      typed := typed
      okItem := fun x => x.b == 0 || x.b == 2 || x.b == 5 || x.b == 6
      okKey := isStrKey }
  | .ambig =>
    { keyOf := fun x => match x.b with
        | 0 => .ok (2000 + x.k) | _ => .error .typeError
      asKey := fun x => match x.b with
        | 0 => some (2000 + 10 * x.k + x.p) | _ => some x.k
      hashable := fun _ => true
      typed := typed
      okItem := fun x => x.b == 0
      okKey := isIntKey }
  | .bylen =>
    { keyOf := fun x => match x.b with
        | 0 => .ok (2000 + x.k) | 1 => .ok (2000 + x.k) | _ => .error .typeError
      asKey := fun x => match x.b with
        | 3 => some (2000 + x.k) | _ => none
      hashable := fun x => x.b != 0
      typed := typed
      okItem := fun x => x.b == 0
      okKey := isIntKey }

structure St where
  u : Univ
  ks : KS Val Int

def showDict (d : List (Int × Val)) : String :=
  "{" ++ ",".intercalate (d.map fun p => s!"{p.1}={p.2.show}") ++ "}"
def showVals (xs : List Val) : String := "[" ++ ",".intercalate (xs.map Val.show) ++ "]"
def b01 (b : Bool) : String := if b then "1" else "0"
def showKS (s : KS Val Int) : String :=
  s!"enf={b01 s.enforce} typed={b01 s.cfg.typed} kf=1 " ++ showDict s.dict

def parseOperand (st : St) (tok : String) : Option (Except Err (Operand Val Int)) :=
  if tok == "self" then some (.ok (.ks st.ks)) else
  match tok.splitOn "|" with
  | ["K", enf, typed, vs] => do
    let xs ← parseVals vs
    match construct (mkCfg st.u (typed == "1")) (enf == "1") xs with
    | .ok t => pure (.ok (.ks t))
    | .error e => pure (.error e)
  | ["S", vs] => do pure (.ok (.pyset (← parseVals vs)))
  | ["F", vs] => do pure (.ok (.pyfrozen (← parseVals vs)))
  | ["L", vs] => do pure (.ok (.pylist (← parseVals vs)))
  | _ => none

def parseBin : String → Option BinOp
  | "and" => some .and | "or" => some .or | "sub" => some .sub | "xor" => some .xor | _ => none
def parseCmp : String → Option CmpOp
  | "le" => some .le | "lt" => some .lt | "ge" => some .ge | "gt" => some .gt
  | "eq" => some .eq | "isdisjoint" => some .isdisjoint | _ => none
def parseIOp : String → Option IOp
  | "ior" => some .ior | "iand" => some .iand | "isub" => some .isub | "ixor" => some .ixor | _ => none

/-- `none`: malformed; `some (.error e)`: the operand could not be constructed. -/
def parseOp (st : St) (ts : List String) : Option (Except Err (Op Val Int)) :=
  match ts with
  | ["add", x] => do pure (.ok (.add (← parseVal x)))
  | ["discard", x] => do pure (.ok (.discard (← parseVal x)))
  | ["remove", x] => do pure (.ok (.remove (← parseVal x)))
  | ["pop"] => some (.ok .pop)
  | ["clear"] => some (.ok .clear)
  | ["contains", x] => do pure (.ok (.contains (← parseVal x)))
  | ["getItem", x] => do pure (.ok (.getItem (← parseVal x)))
  | ["get", x] => do pure (.ok (.get (← parseVal x)))
  | ["keys"] => some (.ok .keys)
  | ["items"] => some (.ok .items)
  | ["len"] => some (.ok .len)
  | ["iter"] => some (.ok .iter)
  | ["bin", b, o] => do
    let b ← parseBin b; let o ← parseOperand st o
    pure (o.map (Op.bin b))
  | ["rbin", b, o] => do
    let b ← parseBin b; let o ← parseOperand st o
    pure (o.map (Op.rbin b))
  | ["rebind", b, o] => do
    let b ← parseBin b; let o ← parseOperand st o
    pure (o.map (Op.rebind b))
  | ["cmp", c, o] => do
    let c ← parseCmp c; let o ← parseOperand st o
    pure (o.map (Op.cmp c))
  | ["rcmp", c, o] => do
    let c ← parseCmp c; let o ← parseOperand st o
    pure (o.map (Op.rcmp c))
  | ["inplace", i, o] => do
    let i ← parseIOp i; let o ← parseOperand st o
    pure (o.map (Op.inplace i))
  | ["inplaceSelf", i] => do pure (.ok (.inplaceSelf (← parseIOp i)))
  | ["probe", refl, b, o, x] => do
    let b ← parseBin b; let o ← parseOperand st o; let x ← parseVal x
    pure (o.map (fun o => Op.probe (refl == "1") b o x))
  | _ => none

def showOut : Out Val Int → String
  | .none => "ok"
  | .item x => "item " ++ x.show
  | .optItem none => "opt _"
  | .optItem (some x) => "opt " ++ x.show
  | .nat n => s!"nat {n}"
  | .bool b => "bool " ++ b01 b
  | .items xs => "items " ++ showVals xs
  | .keys ks => "keys [" ++ ",".intercalate (ks.map toString) ++ "]"
  | .pairs ps => "pairs " ++ showDict ps
  | .set r => "set fresh=1 " ++ showKS r
  | .probe r1 mid => "probe fresh=1 r1=" ++ showKS r1 ++ " mid=" ++ showKS mid ++ " r2=" ++ showKS r1
  | .err e => "err " ++ e.name

def showOperand : Operand Val Int → String
  | .ks t => showDict t.dict
  | .pyset xs => showVals xs
  | .pyfrozen xs => showVals xs
  | .pylist xs => showVals xs

/-- operation-specific decoration: the other operand of a probe is re-read too (a value in the model),
a rebinding assignment reports that the new set is not one of the operands -/
def decorate (op : Op Val Int) (o : Out Val Int) (shown : String) : String :=
  match op, o with
  | .probe _ _ other _, .probe _ _ => shown ++ " o=" ++ showOperand other
  | .rebind _ _, .none => "ok fresh=1"
  | _, _ => shown

def emptyKS (u : Univ) (typed enf : Bool) : KS Val Int := ⟨mkCfg u typed, enf, []⟩

def handle (st : St) (line : String) : St × String :=
  match (line.trimAscii.toString.splitOn " ").filter (· ≠ "") with
  | "new" :: u :: typed :: enf :: vals =>
    match parseUniv u, vals.mapM parseVal with
    | some u, some xs =>
      match construct (mkCfg u (typed == "1")) (enf == "1") xs with
      | .ok s => ({ u := u, ks := s }, "ok ;; " ++ showKS s)
      | .error e =>
        let s := emptyKS u (typed == "1") (enf == "1")
        ({ u := u, ks := s }, "err " ++ e.name ++ " ;; " ++ showKS s)
    | _, _ => (st, "bad-op")
  | ts =>
    match parseOp st ts with
    | none => (st, "bad-op")
    | some (.error e) => (st, "operand-error " ++ e.name ++ " ;; " ++ showKS st.ks)
    | some (.ok op) =>
      let r := step st.ks op
      ({ st with ks := r.1 }, decorate op r.2 (showOut r.2) ++ " ;; " ++ showKS r.1)

partial def loop (h : IO.FS.Stream) (out : IO.FS.Stream) (st : St) : IO Unit := do
  let line ← h.getLine
  if line.isEmpty then return ()
  let (st', o) := handle st line
  out.putStrLn o
  loop h out st'

def main : IO Unit := do
  loop (← IO.getStdin) (← IO.getStdout) { u := .self, ks := emptyKS .self false false }
