import SpecVerif.Model.C15
/-!
Line-protocol driver for the C15 correspondence: evaluates `checkType` (IMPL),
`conforms` (SPEC) and `Ty.wf` of `SpecVerif/Model/C15.lean` — the definitions the
theorems of `Props/C15.lean` are about.

Input, one command per line, tokens separated by single spaces (prefix syntax,
explicit counts, no parentheses):

  lat <n> <a>:<b>*            user-class table: `a:b` = issubclass(user a, user b)   -> `lat <n> <#pairs>`
  chk <Ty> <Val>              -> `<impl> ref <spec>`   impl = `ok true|false` / `err <Class>`;
                                 spec = `true|false`, or `-` when the annotation is not `wf`

  Ty  ::= A | V | F | N | NL | C <cid> | L Ty | S Ty | D Ty Ty | T <n> Ty^n | TV Ty | Y Ty
        | U <n> Ty^n | Lit <n> Val^n | B Ty <ge> <gt> <le> <lt> | P <pred id> | R Ty <pred id>
          (bounds: `_` or an integer number of halves)
  Val ::= n | b0 | b1 | i<int> | f<halves> | s:<text> | y:<text>
        | l <n> Val^n | e <n> Val^n | t <n> Val^n | d <n> (Val Val)^n | c <cid> | o <user class> <id>
  cid ::= object|type|NoneType|bool|int|float|str|bytes|list|set|dict|tuple|u<n>
-/
open SpecVerif.Py SpecVerif.C15

def parseCid (s : String) : Option ClassId :=
  match s with
  | "object" => some .object | "type" => some .type_ | "NoneType" => some .noneType
  | "bool" => some .bool | "int" => some .int | "float" => some .float | "str" => some .str
  | "bytes" => some .bytes | "list" => some .list | "set" => some .set | "dict" => some .dict
  | "tuple" => some .tuple
  | _ => if s.startsWith "u" then (s.drop 1).toNat?.map .user else none

def parseOptInt (s : String) : Option (Option Int) :=
  if s == "_" then some none else s.toInt?.map some

mutual
  partial def parseVal : List String → Option (Val × List String)
    | [] => none
    | tok :: rest =>
      if tok == "n" then some (.none, rest)
      else if tok == "b0" then some (.bool false, rest)
      else if tok == "b1" then some (.bool true, rest)
      else if tok == "l" || tok == "e" || tok == "t" then
        match rest with
        | n :: rest => do
          let n ← n.toNat?
          let (xs, rest) ← parseVals n rest
          let v := if tok == "l" then Val.list xs else if tok == "e" then Val.set xs else Val.tuple xs
          pure (v, rest)
        | [] => none
      else if tok == "d" then
        match rest with
        | n :: rest => do
          let n ← n.toNat?
          let (kvs, rest) ← parseKVs n rest
          pure (.dict kvs, rest)
        | [] => none
      else if tok == "c" then
        match rest with
        | c :: rest => do pure (.cls (← parseCid c), rest)
        | [] => none
      else if tok == "o" then
        match rest with
        | c :: i :: rest => do pure (.inst (← c.toNat?) (← i.toNat?), rest)
        | _ => none
      else if tok.startsWith "s:" then some (.str (tok.drop 2).toString, rest)
      else if tok.startsWith "y:" then some (.bytes (tok.drop 2).toString, rest)
      else if tok.startsWith "i" then (tok.drop 1).toInt?.map fun n => (.int n, rest)
      else if tok.startsWith "f" then (tok.drop 1).toInt?.map fun n => (.float n, rest)
      else none
  partial def parseVals : Nat → List String → Option (Vals × List String)
    | 0, ts => some (.nil, ts)
    | n + 1, ts => do
      let (v, ts) ← parseVal ts
      let (vs, ts) ← parseVals n ts
      pure (.cons v vs, ts)
  partial def parseKVs : Nat → List String → Option (KVs × List String)
    | 0, ts => some (.nil, ts)
    | n + 1, ts => do
      let (k, ts) ← parseVal ts
      let (v, ts) ← parseVal ts
      let (kvs, ts) ← parseKVs n ts
      pure (.cons k v kvs, ts)
end

mutual
  partial def parseTy : List String → Option (Ty × List String)
    | [] => none
    | "A" :: r => some (.any, r)
    | "V" :: r => some (.typeVar, r)
    | "F" :: r => some (.float, r)
    | "N" :: r => some (.noneType, r)
    | "NL" :: r => some (.noneLit, r)
    | "C" :: c :: r => do pure (.cls (← parseCid c), r)
    | "L" :: r => do let (t, r) ← parseTy r; pure (.list t, r)
    | "S" :: r => do let (t, r) ← parseTy r; pure (.set t, r)
    | "TV" :: r => do let (t, r) ← parseTy r; pure (.tupleVar t, r)
    | "Y" :: r => do let (t, r) ← parseTy r; pure (.type_ t, r)
    | "D" :: r => do
      let (k, r) ← parseTy r
      let (v, r) ← parseTy r
      pure (.dict k v, r)
    | "T" :: n :: r => do
      let (ts, r) ← parseTys (← n.toNat?) r
      pure (.tuple ts, r)
    | "U" :: n :: r => do
      let (ts, r) ← parseTys (← n.toNat?) r
      pure (.union ts, r)
    | "Lit" :: n :: r => do
      let (cs, r) ← parseVals (← n.toNat?) r
      pure (.literal cs, r)
    | "B" :: r => do
      let (b, r) ← parseTy r
      match r with
      | ge :: gt :: le :: lt :: r =>
        pure (.bounded b (← parseOptInt ge) (← parseOptInt gt) (← parseOptInt le) (← parseOptInt lt), r)
      | _ => none
    | "P" :: p :: r => do pure (.validated (← p.toNat?), r)
    | "R" :: r => do
      let (b, r) ← parseTy r
      match r with
      | p :: r => pure (.refined b (← p.toNat?), r)
      | _ => none
    | _ => none
  partial def parseTys : Nat → List String → Option (Tys × List String)
    | 0, ts => some (.nil, ts)
    | n + 1, ts => do
      let (t, ts) ← parseTy ts
      let (rest, ts) ← parseTys n ts
      pure (.cons t rest, ts)
end

/-- The predicates of the `validated` types used by the harness (`PREDICATES` in corr_C15.py). -/
def predTable (p : Nat) (v : Val) : Bool :=
  match p, v with
  -- 0: isinstance(x, int) and x % 2 == 0
  | 0, .bool b => !b
  | 0, .int n => n % 2 == 0
  -- 1: isinstance(x, str) and len(x) >= 2
  | 1, .str s => s.length ≥ 2
  -- 2: isinstance(x, (list, tuple)) and len(x) == 2
  | 2, .list xs => xs.length == 2
  | 2, .tuple xs => xs.length == 2
  -- 3: x is not None
  | 3, .none => false
  | 3, _ => true
  -- 4: never
  -- 5: isinstance(x, (int, float)) and x == int(x)      (integral value; bools are ints)
  | 5, .bool _ => true
  | 5, .int _ => true
  | 5, .float h => h % 2 == 0
  -- 6: isinstance(x, (int, float)) and not isinstance(x, bool)
  | 6, .int _ => true
  | 6, .float _ => true
  | _, _ => false

def parsePairs (ts : List String) : Option (List (Nat × Nat)) :=
  ts.mapM fun s =>
    match s.splitOn ":" with
    | [a, b] => do pure ((← a.toNat?), (← b.toNat?))
    | _ => none

def mkEnv (pairs : List (Nat × Nat)) : Env :=
  { userSub := fun a b => pairs.contains (a, b), pred := predTable }

def showRes : Except Err Bool → String
  | .ok true => "ok true"
  | .ok false => "ok false"
  | .error e => "err " ++ e.name

def handle (env : Env) (line : String) : Env × String :=
  match (line.trimAscii.toString.splitOn " ").filter (· ≠ "") with
  | "lat" :: n :: pairs =>
    match parsePairs pairs with
    | some ps => (mkEnv ps, s!"lat {n} {ps.length}")
    | none => (env, "bad-line")
  | "chk" :: rest =>
    match parseTy rest with
    | some (t, rest) =>
      match parseVal rest with
      | some (v, []) =>
        let impl := showRes (checkType env t v)
        let spec := if t.wf then (if conforms env t v then "true" else "false") else "-"
        (env, impl ++ " ref " ++ spec)
      | _ => (env, "bad-val")
    | none => (env, "bad-ty")
  | _ => (env, "bad-line")

partial def loop (h : IO.FS.Stream) (out : IO.FS.Stream) (env : Env) : IO Unit := do
  let line ← h.getLine
  if line.isEmpty then return ()
  let (env', o) := handle env line
  out.putStrLn o
  loop h out env'

def main : IO Unit := do
  loop (← IO.getStdin) (← IO.getStdout) (mkEnv [])
