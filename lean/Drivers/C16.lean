import SpecVerif.Model.C16
/-!
Line-protocol driver for the C16 correspondence: evaluates the definitions of
`SpecVerif.C16` that the theorems of `Props/C16.lean` are about.

  sing a=b c=d …          the harvested `singular_noun` table (absent = False); `sing` alone clears it  -> `ok`
  class E:<entries> A:<annots> a:<attrs> t:<typed> s:<skip|~> f:<init><repr><eq> o:<overflow|-> k:<key|-> I:<inherited>
        entries   name=kind#id,…   kind in fn sm cm pr pv ad fd ; id of ad/fd = default object id or _
        annots    name:K,…         K in Y(any) S(scalar) L(list) D(dict) T(set)
        typed     name:K,…
        inherited name:K:item,…
        empty lists are `-`; skip `~` = not given; `I:^` = `inheritedOf` the previously decorated class (a chain of
        class lines is `decorateChain`; a class whose decoration failed, and `sing`, hand nothing down)
     -> `err ValueError|RuntimeError` | `<dict> ;; items a=item,… ;; shadow [..] ;; renamed [..]`
        dict entry: name=u:<kind>#<id> | name=d#<id|_> | name=z:<gen> (lazy) | name=b:<gen> (built)
        gen: core.<name> | top.<name> | sc.<prefix>.<attr> | el.<prefix>.<attr>
  touch <name>            first access of one name -> `<dict>`
  touchall                first access of every name (in dict order) -> `<dict>`
  touchparent             first access, through the child, of every helper of the parent -> `<dict>` (unchanged)
  lazyuse <new|meta|fields>  one use of the same class decorated WITHOUT bootstrap=True -> `ok` | `err <class>`
-/
open SpecVerif.Py SpecVerif.C16

def nm (x : String) : Name := x.toList
def str (n : Name) : String := String.ofList n

def parseAKind : String → Option AKind
  | "Y" => some .any | "S" => some .scalar | "L" => some .list | "D" => some .dict | "T" => some .set
  | _ => none

def parseList {β : Type} (t : String) (f : String → Option β) : Option (List β) :=
  if t == "-" then some [] else (t.splitOn ",").mapM f

def parseOptId (x : String) : Option (Option Nat) :=
  if x == "_" then some none else x.toNat?.map some

def parseEntry (t : String) : Option (Name × Entry) :=
  match t.splitOn "=" with
  | [n, v] =>
    match v.splitOn "#" with
    | [k, i] =>
      match k with
      | "fn" => do pure (nm n, .userFunction (← i.toNat?))
      | "sm" => do pure (nm n, .staticmethod (← i.toNat?))
      | "cm" => do pure (nm n, .classmethod (← i.toNat?))
      | "pr" => do pure (nm n, .property (← i.toNat?))
      | "pv" => do pure (nm n, .plainValue (← i.toNat?))
      | "ad" => do pure (nm n, .attrDecl (← parseOptId i))
      | "fd" => do pure (nm n, .fieldDecl (← parseOptId i))
      | _ => none
    | _ => none
  | _ => none

def parseAnn (t : String) : Option (Name × AKind) :=
  match t.splitOn ":" with
  | [n, k] => do pure (nm n, ← parseAKind k)
  | _ => none

def parseInh (t : String) : Option Inherited :=
  match t.splitOn ":" with
  | [n, k, i] => do pure ⟨nm n, ← parseAKind k, nm i⟩
  | _ => none

def parseOptName (t : String) : Option Name := if t == "-" then none else some (nm t)

def field (pfx : String) (t : String) : Option String :=
  if t.startsWith pfx then some (t.drop pfx.length).toString else none

def parseCls (ts : List String) : Option Cls :=
  match ts with
  | [e, a, atr, ty, sk, f, o, k, i] => do
    let e ← field "E:" e; let a ← field "A:" a; let atr ← field "a:" atr; let ty ← field "t:" ty
    let sk ← field "s:" sk; let f ← field "f:" f; let o ← field "o:" o; let k ← field "k:" k
    let i ← field "I:" i
    let fl := f.toList
    pure {
      entries := ← parseList e parseEntry
      annots := ← parseList a parseAnn
      attrs := ← parseList atr (fun x => some (nm x))
      attrsTyped := ← parseList ty parseAnn
      attrsSkip := ← (if sk == "~" then some none else (parseList sk (fun x => some (nm x))).map some)
      init := fl[0]? == some '1'
      repr := fl[1]? == some '1'
      eq := fl[2]? == some '1'
      overflow := parseOptName o
      key := parseOptName k
      inherited := ← parseList i parseInh }
  | _ => none

def showEntry : Entry → String
  | .userFunction i => s!"fn#{i}" | .staticmethod i => s!"sm#{i}" | .classmethod i => s!"cm#{i}"
  | .property i => s!"pr#{i}" | .plainValue i => s!"pv#{i}"
  | .attrDecl d => "ad#" ++ (match d with | some i => toString i | none => "_")
  | .fieldDecl d => "fd#" ++ (match d with | some i => toString i | none => "_")

def showGen : GenId → String
  | .core n => "core." ++ str n
  | .top n => "top." ++ str n
  | .scalar p a => "sc." ++ str p ++ "." ++ str a
  | .elem p a => "el." ++ str p ++ "." ++ str a

def showVal : Val → String
  | .user e => "u:" ++ showEntry e
  | .dflt d => "d#" ++ (match d with | some i => toString i | none => "_")
  | .lazy g => "z:" ++ showGen g
  | .built g => "b:" ++ showGen g

def showDict (d : Dict) : String :=
  if d.isEmpty then "-" else ",".intercalate (d.map fun p => str p.1 ++ "=" ++ showVal p.2)

def showNames (l : List Name) : String := "[" ++ ",".intercalate (l.map str) ++ "]"

structure St where
  sing : List (Name × Name)
  dict : Dict
  last : List Inherited     -- `inheritedOf` the last decorated class (`I:^` inherits them: one step of `decorateChain`)
  cur : Option Cls          -- the last class line (for `lazyuse`)
  lz : LazyState

def singularOf (tbl : List (Name × Name)) (a : Name) : Option Name :=
  (tbl.find? (fun p => p.1 == a)).map (·.2)

def handle (st : St) (line : String) : St × String :=
  match (line.trimAscii.toString.splitOn " ").filter (· ≠ "") with
  | "sing" :: pairs =>
    let tbl := pairs.filterMap (fun t =>
      match t.splitOn "=" with | [a, b] => some (nm a, nm b) | _ => none)
    ({ st with sing := tbl, last := [] }, "ok")
  | "class" :: ts =>
    let inheritLast := ts.getLast? == some "I:^"
    let ts := if inheritLast then ts.dropLast ++ ["I:-"] else ts
    match parseCls ts with
    | none => (st, "bad-op")
    | some c0 =>
      let c := if inheritLast then
          { c0 with inherited := st.last } else c0
      let st := { st with cur := some c, lz := LazyState.pending }
      match decorate (singularOf st.sing) c with
      | .error e => ({ st with dict := [], last := [] }, "err " ++ e.name)
      | .ok d =>
        let items := (d.attrs.filter (·.kind.isCollection)).map (fun a => str a.name ++ "=" ++ str a.item)
        ({ st with dict := d.dict, last := inheritedOf d },
          showDict d.dict ++ " ;; items " ++ ",".intercalate items ++
          " ;; shadow " ++ showNames (shadowedParentHelpers c d) ++
          " ;; renamed " ++ showNames (renamedInherited c d))
  | ["touch", n] =>
    let d := dissolve st.dict (nm n)
    ({ st with dict := d }, showDict d)
  | ["touchparent"] =>
    -- first use of the PARENT's helpers through the child: they dissolve onto the parent
    (st, showDict st.dict)
  | ["lazyuse", _] =>
    match st.cur with
    | none => (st, "bad-op")
    | some c =>
      let r := lazyUse (singularOf st.sing) c st.lz
      ({ st with lz := r.1 }, match r.2 with | .ok _ => "ok" | .error e => "err " ++ e.name)
  | ["touchall"] =>
    let d := (st.dict.map (·.1)).foldl dissolve st.dict
    ({ st with dict := d }, showDict d)
  | _ => (st, "bad-op")

partial def loop (h : IO.FS.Stream) (out : IO.FS.Stream) (st : St) : IO Unit := do
  let line ← h.getLine
  if line.isEmpty then return ()
  let (st', o) := handle st line
  out.putStrLn o
  loop h out st'

def main : IO Unit := do
  loop (← IO.getStdin) (← IO.getStdout) { sing := [], dict := [], last := [], cur := none, lz := LazyState.pending }
