import SpecVerif.Model.C17Impl
import SpecVerif.Model.C17Reg
/-!
Line-protocol driver for the C17 correspondence: evaluates the definitions of
`SpecVerif.C17` that the theorems of `Props/C17.lean` are about.

Tokens are separated by single spaces. A signature is one token:
`name/kind/d` joined by `,` (kind in po pk vp ko vk; d in 0 1), or `-` when empty.

  impl <sig>                          the implementation's own parameters   -> `impl`
  method <kind> <key|-> <nested|->   the builder of a generated method, then `.build()`
        key    = name:d                     (constructor only)
        nested = <overflow|_>;a:1,b:0,...   (the class given to with_spec_attrs_for)
     -> `build ok ;; adv <sig> ;; cmp <sig> ;; val <0|1>` | `build BuildError|RuntimeError` | `err RuntimeError`
  builder <name/kind/d/v>*            an arbitrary with_arg sequence, then `.build()`
     -> the same, or `err RuntimeError@<index of the failing with_arg>`
  call <npos> <kwname>*               positional values are p0 p1 …, keyword k carries k.<k>
     -> `err TypeError` | `ok <pos> ;; <kw> ;; impl <ok|err>` | `unbuilt`
  sig <sig>                           a plain function signature (pyBind test)
  bind <npos> <kwname>*               -> `err TypeError` | `ok name=<bval> …`

Behaviour of the two implementations that take the class's own attribute keywords (Model/C17Impl.lean).
A keyword token is `name` (value `k.<name>`) or `name=<value>`; a value `M.…`/`E.…`/`U.…` is the
sentinel MISSING/EMPTY/UNCHANGED, `F.…` is falsy, everything else a plain truthy value.

  hier <ovf|_> <attrs|-> <ancestor>*  the hierarchy of the class whose constructor `method init …` built
        attrs    = name:init:owner:hasDefault,…      (`instance_metadata.attrs`; owner 0 = the class itself)
        ancestor = id/isSpec/<key|->/<nested|->      (`mro()[1:]`, nearest first; key+nested describe ITS constructor)
     -> `hier <0|1> ;; <ovf> ;; <attrs> ;; id:isSpec:key:attr+attr:<ctor sig> …`   (1 = `hierOKB`)
  new <kw>*                           `runInit`: the generated constructor, wrapper then `InitMethod.init`
     -> `err TypeError` | `ok a=<v>,… ;; ovf <none|-|k=<v>,…>`     (attributes sorted by name)
  obj <self|new> <name=value,…|->     attributes of the receiver / of the replacement object   -> `obj`
  upd <npos> <kw>*                    `runUpdate` (after `method update …`); positional 1 is the replacement
     -> `err TypeError` | `ok <self|new|copy> ;; res <fields> ;; self <fields> ;; new <fields>`

Which method a name resolves to (Model/C17Reg.lean): classes are numbers; the world is declared first, then events.

  rnew                                 forget the world and the state                                  -> `rnew`
  rcls <id> <spec> <lazy> <bases|-> <mro> <hand|-> <eager|-> <meth>*      declares a class (no event)   -> `rcls`
        bases/mro/hand/eager = comma lists (mro: the class itself first); meth = name|kind|key|nested|look — the
        configuration of every method the bootstrap generates for the class (those not in `eager` are descriptors);
        look = id of the class whose `__spec_class__` is looked at when the method is BUILT (`-`: none)
  rdef <id>                            the class statement (+ decorator) runs        -> `def <bootstrapped ids|->`
  rboot <id>                           `C.__spec_class__` is looked at               -> `boot <bootstrapped ids|->`
  rget <id> <name>                     `getattr(C, name)`
  riget <id> <name>                    `getattr(C(), name)`
  rsget <id> <k> <name>                `getattr(super(K, C()), name)`
     -> `boot <ids> ;; get p=<provider> was=<desc|fn|hand> for=<class|-> np=<provider afterwards> now=<desc|fn|hand> ;; adv <sig|hand>`
      | `boot <ids> ;; err AttributeError`
        and the builder of the method found becomes the current one (`call` lines may follow)
-/
open SpecVerif.Py SpecVerif.C17

def kindTok : Kind → String
  | .posOnly => "po" | .posOrKw => "pk" | .varPos => "vp" | .kwOnly => "ko" | .varKw => "vk"

def parseKind : String → Option Kind
  | "po" => some .posOnly | "pk" => some .posOrKw | "vp" => some .varPos
  | "ko" => some .kwOnly | "vk" => some .varKw | _ => none

def showSig (s : Sig) : String :=
  if s.isEmpty then "-" else
  ",".intercalate (s.map fun p => s!"{p.name}/{kindTok p.kind}/{if p.hasDefault then 1 else 0}")

def parseParam (t : String) : Option Param :=
  match t.splitOn "/" with
  | [n, k, d] => do pure ⟨n, ← parseKind k, d == "1"⟩
  | _ => none

def parseSig (t : String) : Option Sig :=
  if t == "-" then some [] else (t.splitOn ",").mapM parseParam

def parseArgSpec (t : String) : Option ArgSpec :=
  match t.splitOn "/" with
  | [n, k, d, v] => do pure ⟨n, ← parseKind k, d == "1", v == "1"⟩
  | _ => none

def parseMKind : String → Option MKind
  | "init" => some .init | "update" => some .update | "transform" => some .transform
  | "reset" => some .reset | "withAttr" => some .withAttr | "updateAttr" => some .updateAttr
  | "transformAttr" => some .transformAttr | "resetAttr" => some .resetAttr
  | "withSeq" => some .withSeq | "updateSeq" => some .updateSeq
  | "transformSeq" => some .transformSeq | "withoutSeq" => some .withoutSeq
  | "withMap" => some .withMap | "updateMap" => some .updateMap
  | "transformMap" => some .transformMap | "withoutMap" => some .withoutMap
  | "withSet" => some .withSet | "updateSet" => some .updateSet
  | "transformSet" => some .transformSet | "withoutSet" => some .withoutSet
  | _ => none

def parseKey (t : String) : Option (Option (Name × Bool)) :=
  if t == "-" then some none else
  match t.splitOn ":" with
  | [n, d] => some (some (n, d == "1"))
  | _ => none

def parseNAttr (t : String) : Option NAttr :=
  match t.splitOn ":" with
  | [n, i] => some ⟨n, i == "1"⟩
  | _ => none

def parseNested (t : String) : Option (Option Nested) :=
  if t == "-" then some none else
  match t.splitOn ";" with
  | [o, as] => do
    let attrs ← if as == "" then some [] else (as.splitOn ",").mapM parseNAttr
    pure (some ⟨attrs, if o == "_" then none else some o⟩)
  | _ => none

/-- values of the protocol: positional i is `p<i>`, keyword k carries `k.<k>` -/
def mkCall (npos : Nat) (kws : List String) : Call String :=
  { pos := (List.range npos).map (fun i => s!"p{i}"), kw := kws.map (fun k => (k, s!"k.{k}")) }

def showArg : Arg String → String
  | .val v => v
  | .dflt n => s!"D.{n}"

def showList (xs : List String) : String := "[" ++ ",".intercalate xs ++ "]"

def showFCall (f : FCall String) : String :=
  showList (f.pos.map showArg) ++ " ;; " ++ showList (f.kw.map fun kv => s!"{kv.1}={showArg kv.2}")

def showBVal : BVal String → String
  | .one a => showArg a
  | .star vs => showList vs
  | .dstar kvs => "{" ++ ",".intercalate (kvs.map fun kv => s!"{kv.1}={kv.2}") ++ "}"

structure St where
  b : Builder
  impl : Sig
  sig : Sig
  built : Bool
  cfg : InitCfg := ⟨[], none, []⟩
  selfF : Fields String := []
  newF : Fields String := []
  rw : List (Nat × Reg.RCls) := []
  rcfg : List (Nat × Name × MethodCfg) := []
  rs : Reg.RState := Reg.RState.empty

/-! ### behaviour commands -/

def envOf (newF : Fields String) : Env String :=
  { sent := fun v =>
      if v.startsWith "M." then .missing else if v.startsWith "E." then .empty
      else if v.startsWith "U." then .unchanged else .plain
    truthy := fun v => !(v.startsWith "F.")
    fieldsOf := fun _ => newF }

/-- `name` or `name=value` -/
def parseKw (t : String) : Name × String :=
  match t.splitOn "=" with
  | [n, v] => (n, v)
  | _ => (t, s!"k.{t}")

def mkCallV (npos : Nat) (kws : List String) : Call String :=
  { pos := (List.range npos).map (fun i => s!"p{i}"), kw := kws.map parseKw }

def sortFields {β : Type} (fs : Fields β) : Fields β := fs.mergeSort (fun a b => decide (a.1 ≤ b.1))

def showFields (fs : Fields String) : String :=
  if fs.isEmpty then "-" else ",".intercalate ((sortFields fs).map fun kv => s!"{kv.1}={kv.2}")

def parseFields (t : String) : Fields String :=
  if t == "-" then [] else (t.splitOn ",").filterMap fun kv =>
    match kv.splitOn "=" with
    | [n, v] => some (n, v)
    | _ => none

def showIVal : IVal String → String
  | .given v => v
  | .missing => "M"
  | .dflt n => s!"D.{n}"

def showIFields (fs : Fields (IVal String)) : String :=
  if fs.isEmpty then "-" else ",".intercalate ((sortFields fs).map fun kv => s!"{kv.1}={showIVal kv.2}")

def parseCAttr (t : String) : Option CAttr :=
  match t.splitOn ":" with
  | [n, i, o, d] => do pure ⟨n, i == "1", ← o.toNat?, d == "1"⟩
  | _ => none

def parseAncestor (t : String) : Option Ancestor :=
  match t.splitOn "/" with
  | [i, sp, key, nested] => do
    let id ← i.toNat?
    let key ← parseKey key
    let nested ← parseNested nested
    let ctor := match builderFor ⟨.init, key, nested⟩ with
      | .ok b => advertised b
      | .error _ => []
    pure ⟨id, sp == "1", (nested.map (·.attrs.map (·.name))).getD [], key.map (·.1),
          if sp == "1" then ctor else []⟩
  | _ => none

def b01 (b : Bool) : String := if b then "1" else "0"

def showHier (cfg : InitCfg) : String :=
  let attrs := if cfg.attrs.isEmpty then "-" else
    ",".intercalate (cfg.attrs.map fun a => s!"{a.name}:{b01 a.init}:{a.owner}:{b01 a.hasDefault}")
  let anc := cfg.ancestors.map fun p =>
    s!"{p.id}:{b01 p.isSpec}:{p.key.getD "_"}:{if p.attrs.isEmpty then "-" else "+".intercalate p.attrs}:{showSig p.ctor}"
  s!"hier {b01 (hierOKB cfg)} ;; {cfg.overflow.getD "_"} ;; {attrs} ;; " ++ " ".intercalate anc

def showSrc : Src → String
  | .self => "self" | .newValue => "new" | _ => "copy"

def showBuilder (b : Builder) : String :=
  s!"adv {showSig (advertised b)} ;; cmp {showSig (compiled b)} ;; val {if !b.virt.isEmpty && b.checkAttrs then 1 else 0}"

/-- `withArgs` that also reports the index of the failing `with_arg` -/
def withArgsIdx (b : Builder) : List ArgSpec → Nat → Except Nat Builder
  | [], _ => .ok b
  | a :: as, i =>
    match withArg b a with
    | .ok b' => withArgsIdx b' as (i + 1)
    | .error _ => .error i

/-- `.build()` against the current implementation signature -/
def finish (st : St) (b : Builder) : St × String :=
  let r := buildResult b st.impl
  if r == "ok" then ({ st with b := b, built := true }, "build ok ;; " ++ showBuilder b)
  else ({ st with b := b, built := false }, "build " ++ r)


/-! ### registration / resolution commands -/

def commaList (t : String) : List String := if t == "-" then [] else t.splitOn ","

def worldOf (rw : List (Nat × Reg.RCls)) : Reg.World := fun i =>
  match rw.find? (·.1 == i) with
  | some (_, r) => r
  | none => default

def parseMeth (t : String) : Option (Name × MethodCfg × Option Nat) :=
  match t.splitOn "|" with
  | [n, k, key, nested, look] => do
    pure (n, ⟨← parseMKind k, ← parseKey key, ← parseNested nested⟩, look.toNat?)
  | _ => none

def showBooted (st : St) : String :=
  let ids := (st.rw.map (·.1)).filter (fun i => st.rs.booted i)
  if ids.isEmpty then "-" else ",".intercalate (ids.map toString)

def showEntryKind : Reg.Entry → String
  | .desc _ => "desc" | .fn _ => "fn" | .hand => "hand"

/-- a lookup through `mro` on the state `rs` (already bootstrapped as the event demands) -/
def regAccess (st : St) (rs : Reg.RState) (mro : List Nat) (n : Name) : St × String :=
  let (rs', found) := Reg.accessVia (worldOf st.rw) (st.rw.length + 1) rs mro n
  let st := { st with rs := rs' }
  let pre := s!"boot {showBooted st} ;; "
  match found with
  | none => ({ st with built := false }, pre ++ "err AttributeError")
  | some (k, e) =>
    let after := match Reg.lookupFrom rs' mro n with
      | some (k', e') => s!"np={k'} now={showEntryKind e'}"
      | none => "np=- now=-"
    match e with
    | .hand => ({ st with built := false }, pre ++ s!"get p={k} was=hand for=- {after} ;; adv hand")
    | .desc o | .fn o =>
      let head := s!"get p={k} was={showEntryKind e} for={o} {after} ;; adv "
      match st.rcfg.find? (fun x => x.1 == o && x.2.1 == n) with
      | none => ({ st with built := false }, pre ++ head ++ "?")
      | some (_, _, cfg) =>
        match builderFor cfg with
        | .ok b => ({ st with b := b, built := buildResult b st.impl == "ok" }, pre ++ head ++ showSig (advertised b))
        | .error e => ({ st with built := false }, pre ++ head ++ "err " ++ e.name)

def handle (st : St) (line : String) : St × String :=
  match (line.trimAscii.toString.splitOn " ").filter (· ≠ "") with
  | ["impl", s] =>
    match parseSig s with
    | none => (st, "bad-op")
    | some s => ({ st with impl := s, built := false }, "impl")
  | ["method", k, key, nested] =>
    match parseMKind k, parseKey key, parseNested nested with
    | some k, some key, some nested =>
      match builderFor ⟨k, key, nested⟩ with
      | .ok b => finish st b
      | .error e => ({ st with b := Builder.init, built := false }, "err " ++ e.name)
    | _, _, _ => (st, "bad-op")
  | "builder" :: specs =>
    match specs.mapM parseArgSpec with
    | none => (st, "bad-op")
    | some as =>
      match withArgsIdx Builder.init as 0 with
      | .ok b => finish st b
      | .error i => ({ st with b := Builder.init, built := false }, s!"err RuntimeError@{i}")
  | "call" :: n :: kws =>
    match n.toNat? with
    | none => (st, "bad-op")
    | some n =>
      if !st.built then (st, "unbuilt") else
      let c := mkCall n kws
      match wrapper st.b c with
      | .error e => (st, "err " ++ e.name)
      | .ok f =>
        let implOk := acceptsB st.impl f.toCall
        (st, "ok " ++ showFCall f ++ " ;; impl " ++ (if implOk then "ok" else "err"))
  | "hier" :: ovf :: attrs :: ancs =>
    match (if attrs == "-" then some [] else (attrs.splitOn ",").mapM parseCAttr), ancs.mapM parseAncestor with
    | some attrs, some ancs =>
      let cfg : InitCfg := ⟨attrs, if ovf == "_" then none else some ovf, ancs⟩
      ({ st with cfg := cfg }, showHier cfg)
    | _, _ => (st, "bad-op")
  | "new" :: kws =>
    if !st.built then (st, "unbuilt") else
    match runInit (envOf []) st.b st.cfg (mkCallV 1 kws) with
    | .error e => (st, "err " ++ e.name)
    | .ok r => (st, s!"ok {showIFields r.fields} ;; ovf " ++
        (match r.overflow with | none => "none" | some o => showIFields o))
  | ["obj", which, fs] =>
    if which == "self" then ({ st with selfF := parseFields fs }, "obj")
    else ({ st with newF := parseFields fs }, "obj")
  | "upd" :: n :: kws =>
    match n.toNat? with
    | none => (st, "bad-op")
    | some n =>
      if !st.built then (st, "unbuilt") else
      match runUpdate (envOf st.newF) st.b st.selfF (mkCallV n kws) with
      | .error e => (st, "err " ++ e.name)
      | .ok r => (st, s!"ok {showSrc r.src} ;; res {showFields r.fields} ;; self " ++
          s!"{showFields (r.selfAfter st.selfF)} ;; new {showFields (r.newAfter st.newF)}")
  | ["rnew"] => ({ st with rw := [], rcfg := [], rs := Reg.RState.empty, built := false }, "rnew")
  | "rcls" :: id :: spec :: lz :: bases :: mro :: hand :: eager :: meths =>
    match id.toNat?, (commaList bases).mapM (·.toNat?), (commaList mro).mapM (·.toNat?), meths.mapM parseMeth with
    | some id, some bases, some mro, some meths =>
      let eager := commaList eager
      let r : Reg.RCls := ⟨spec == "1", lz == "1", bases, mro, commaList hand, eager,
        (meths.map (·.1)).filter (fun n => !eager.contains n),
        meths.filterMap (fun m => m.2.2.map (fun t => (m.1, t)))⟩
      ({ st with rw := st.rw ++ [(id, r)], rcfg := st.rcfg ++ meths.map (fun m => (id, m.1, m.2.1)) }, "rcls")
    | _, _, _, _ => (st, "bad-op")
  | ["rdef", c] =>
    match c.toNat? with
    | none => (st, "bad-op")
    | some c =>
      let st := { st with rs := Reg.define (worldOf st.rw) (st.rw.length + 1) st.rs c }
      (st, "def " ++ showBooted st)
  | ["rboot", c] =>
    match c.toNat? with
    | none => (st, "bad-op")
    | some c =>
      let st := { st with rs := Reg.bootEv (worldOf st.rw) (st.rw.length + 1) st.rs c }
      (st, "boot " ++ showBooted st)
  | ["rget", c, n] =>
    match c.toNat? with
    | none => (st, "bad-op")
    | some c => regAccess st st.rs (worldOf st.rw c).mro n
  | ["riget", c, n] =>
    match c.toNat? with
    | none => (st, "bad-op")
    | some c =>
      let W := worldOf st.rw
      regAccess st (Reg.bootEv W (st.rw.length + 1) st.rs c) (W c).mro n
  | ["rsget", c, k, n] =>
    match c.toNat?, k.toNat? with
    | some c, some k =>
      let W := worldOf st.rw
      regAccess st (Reg.bootEv W (st.rw.length + 1) st.rs c) (Reg.superMro W c k) n
    | _, _ => (st, "bad-op")
  | ["sig", s] =>
    match parseSig s with
    | none => (st, "bad-op")
    | some s => ({ st with sig := s }, "sig " ++ (if sigValid s then "valid" else "invalid"))
  | "bind" :: n :: kws =>
    match n.toNat? with
    | none => (st, "bad-op")
    | some n =>
      if !sigValid st.sig then (st, "unbound") else
      match pyBind st.sig (mkCall n kws) with
      | .error e => (st, "err " ++ e.name)
      | .ok bs => (st, "ok " ++ " ".intercalate (bs.map fun nb => s!"{nb.1}={showBVal nb.2}"))
  | _ => (st, "bad-op")

partial def loop (h : IO.FS.Stream) (out : IO.FS.Stream) (st : St) : IO Unit := do
  let line ← h.getLine
  if line.isEmpty then return ()
  let (st', o) := handle st line
  out.putStrLn o
  loop h out st'

def main : IO Unit := do
  loop (← IO.getStdin) (← IO.getStdout) { b := Builder.init, impl := [], sig := [], built := false }
