import SpecVerif.Model.C18
/-!
Line-protocol driver for the C18 correspondence: evaluates the definitions of
`SpecVerif.C18` that the theorems of `Props/C18.lean` are about.

Input (one command per line, tokens separated by single spaces):
  cfg <pass 0|1> <tr 0|1|2> <fb -|val> <dep 0|1> <chk 0|1> <spec 0|1> <path> <decl>
        start a case: alias configuration (path = code points "97,46,98" or "-"),
        empty host instance whose class type-checks the attributes in <decl> ("x,y" or "-")
  put <path> <val>      structural set-up: assign along a path
  ra | wa <val> | da | rt | wt <val> | dt | dp | sp <val> | cp | cwa <val> | cra | cwt <val> | cdt
  hw <c|i> <val|-> <attrs>     with_<alias>([val], **attrs)       c = copying, i = _inplace=True
  hu <c|i> <val|-> <attrs>     update_<alias>([val], **attrs)     attrs = `x=i5;d=D` or `-`
  ht <c|i> <xf|-> <xfs>        transform_<alias>([f], **fs)       xf = id | a<int> | c<val>; xfs = `x=a10;d=id` or `-`
  hr <c|i>                     reset_<alias>
  (<chk> = 2: the alias attribute is annotated with the nested spec class)
  parse <path>          the path parser alone
Value tokens: i<int>  s<nat>  L<a>,<b>,…  O<decl>  D  N<decl>:<int>
Output (one line per input line):
  cfg    -> `ok` | `invalid` | `unsupported`
  put/op -> `<res> w<warnings> ;; <cur> | <old> | …`  with instance = `ov=<val|-> host=<val> al=<val|!Err>`
  parse  -> `invalid` | `unsupported` | `ok <a:hex|i:hex>*`
-/
open SpecVerif.Py SpecVerif.C18

def splitComma (s : String) : List String := if s == "-" || s == "" then [] else s.splitOn ","

def parseCodes (s : String) : Option (List Char) :=
  (splitComma s).mapM fun t => t.toNat?.map Char.ofNat

def parseVal (s : String) : Option Val :=
  match s.toList with
  | 'i' :: r => (String.ofList r).toInt?.map .int
  | 's' :: r => (String.ofList r).toNat?.map .str
  | 'L' :: r => ((splitComma (String.ofList r)).mapM String.toInt?).map .lst
  | 'O' :: r => some (.obj (splitComma (String.ofList r)) [])
  | ['D'] => some (.dict [])
  | 'N' :: r =>   -- N<decl>:<int> = an instance with x = the int and d = {"m": the int}
    match (String.ofList r).splitOn ":" with
    | [d, n] => n.toInt?.map fun k => .obj (splitComma d) [("x", .int k), ("d", .dict [("m", .int k)])]
    | _ => none
  | _ => none

def insertSorted (p : String × String) : List (String × String) → List (String × String)
  | [] => [p]
  | q :: r => if p.1 < q.1 then p :: q :: r else q :: insertSorted p r

def sortPairs (xs : List (String × String)) : List (String × String) :=
  xs.foldl (fun acc p => insertSorted p acc) []

mutual
partial def showVal : Val → String
  | .int n => s!"i{n}"
  | .str n => s!"s{n}"
  | .lst xs => "L[" ++ ",".intercalate (xs.map toString) ++ "]"
  | .obj _ fs => "O{" ++ showFields fs ++ "}"
  | .dict fs => "D{" ++ showFields fs ++ "}"
partial def showFields (fs : List (String × Val)) : String :=
  ",".intercalate ((sortPairs (fs.map fun (k, v) => (k, showVal v))).map fun (k, v) => k ++ "=" ++ v)
end

def showGet : GetRes → String
  | .val v => showVal v
  | .fresh v => showVal v
  | .err e => "!" ++ e.name

def showInst (c : Cfg) (i : Inst) : String :=
  "ov=" ++ (match i.override with | some v => showVal v | none => "-")
    ++ " host=" ++ showVal i.host ++ " al=" ++ showGet (aliasGet c i)

def showWorld (c : Cfg) (w : World) : String :=
  " | ".intercalate ((w.cur :: w.olds).map (showInst c))

def showRes : Res → String
  | .none => "ok"
  | .val v => "val " ++ showVal v
  | .fresh v n => s!"fresh {showVal v} #{n}"
  | .err e => "err " ++ e.name

def tr1 : Val → Except Err Val
  | .int n => .ok (.int (n * 2 + 1))
  | _ => .error .typeError

def tr2 : Val → Except Err Val
  | .int n => if n < 0 then .error .attributeError else .ok (.int (n + 100))
  | _ => .error .typeError

def hexDigit (n : Nat) : Char := if n < 10 then Char.ofNat (48 + n) else Char.ofNat (87 + n)
def hexOf (s : String) : String :=
  String.ofList (s.toUTF8.toList.flatMap fun b => [hexDigit (b.toNat / 16), hexDigit (b.toNat % 16)])

def showSeg : Seg → String
  | .attr n => "a:" ++ hexOf n
  | .item k => "i:" ++ hexOf k

/-- path string → segments, through the model's parser -/
def pathOf (s : String) : Except String (List Seg) :=
  match parseCodes s with
  | none => .error "bad-op"
  | some cs =>
    match parsePath cs with
    | .error _ => .error "invalid"
    | .ok ts => match toksSegs ts with
      | none => .error "unsupported"
      | some p => .ok p

structure St where
  x : XCfg
  w : World

def St.cfg (st : St) : Cfg := st.x.base

def parsePairs {α : Type} (f : String → Option α) (s : String) : Option (List (String × α)) :=
  if s == "-" || s == "" then some []
  else (s.splitOn ";").mapM fun t =>
    match t.splitOn "=" with
    | [n, v] => (f v).map fun a => (n, a)
    | _ => none

def parseXf (s : String) : Option Xf :=
  if s == "id" then some .ident
  else match s.toList with
    | 'a' :: r => (String.ofList r).toInt?.map .add
    | 'c' :: r => (parseVal (String.ofList r)).map .const
    | _ => none

def parseOpt {α : Type} (f : String → Option α) (s : String) : Option (Option α) :=
  if s == "-" then some none else (f s).map some

def parseInplace (s : String) : Option Bool :=
  if s == "i" then some true else if s == "c" then some false else none

def parseOp (ts : List String) : Option Op :=
  match ts with
  | ["ra"] => some .readAlias
  | ["wa", v] => (parseVal v).map .writeAlias
  | ["da"] => some .delAlias
  | ["rt"] => some .readTarget
  | ["wt", v] => (parseVal v).map .writeTarget
  | ["dt"] => some .delTarget
  | ["dp"] => some .delPrefix
  | ["sp", v] => (parseVal v).map .setPrefix
  | ["cp"] => some .deepcopy
  | ["cwa", v] => (parseVal v).map .cowWithAlias
  | ["cra"] => some .cowResetAlias
  | ["cwt", v] => (parseVal v).map .cowWriteTarget
  | ["cdt"] => some .cowDelTarget
  | _ => none

def parseXOp (ts : List String) : Option XOp :=
  match ts with
  | ["hw", io, nv, attrs] => do
    let i ← parseInplace io; let v ← parseOpt parseVal nv; let a ← parsePairs parseVal attrs
    pure (.helper (.write i (.withA v a)))
  | ["hu", io, nv, attrs] => do
    let i ← parseInplace io; let v ← parseOpt parseVal nv; let a ← parsePairs parseVal attrs
    pure (.helper (.write i (.updA v a)))
  | ["ht", io, f, ats] => do
    let i ← parseInplace io; let g ← parseOpt parseXf f; let a ← parsePairs parseXf ats
    pure (.helper (.write i (.trA g a)))
  | ["hr", io] => (parseInplace io).map fun i => .helper (.reset i)
  | ts => (parseOp ts).map .base

def handle (st : St) (line : String) : St × String :=
  match (line.trimAscii.toString.splitOn " ").filter (· ≠ "") with
  | ["cfg", pass, tr, fb, dep, chk, spec, path, decl] =>
    match pathOf path with
    | .error m => (st, m)
    | .ok p =>
      let fbv := if fb == "-" then none else parseVal fb
      let cfg : Cfg :=
        { path := p, passthrough := pass == "1",
          transform := if tr == "1" then some tr1 else if tr == "2" then some tr2 else none,
          fallback := fbv, deprecated := dep == "1", checked := chk == "1", specHost := spec == "1" }
      -- chk = 2: the alias attribute is annotated with the nested spec class (same `decl` as the host)
      let proto : Option Val := if chk == "2" then some (.obj (splitComma decl) []) else none
      ({ x := { base := cfg, proto := proto }, w := ⟨⟨.obj (splitComma decl) [], none⟩, [], 0⟩ }, "ok")
  | ["put", path, v] =>
    match pathOf path, parseVal v with
    | .ok p, some v =>
      match assign st.w.cur.host p v with
      | .ok h =>
        let w := { st.w with cur := { st.w.cur with host := h } }
        ({ st with w := w }, "ok w0 ;; " ++ showWorld st.cfg w)
      | .error e => (st, "err " ++ e.name ++ " w0 ;; " ++ showWorld st.cfg st.w)
    | _, _ => (st, "bad-op")
  | ["parse", path] =>
    match pathOf path with
    | .error m => (st, m)
    | .ok p => (st, " ".intercalate ("ok" :: p.map showSeg))
  | ts =>
    match parseXOp ts with
    | none => (st, "bad-op")
    | some op =>
      let (w', o) := xstep st.x st.w op
      ({ st with w := w' }, showRes o.res ++ s!" w{o.warns} ;; " ++ showWorld st.cfg w')

partial def loop (h : IO.FS.Stream) (out : IO.FS.Stream) (st : St) : IO Unit := do
  let line ← h.getLine
  if line.isEmpty then return ()
  let (st', o) := handle st line
  out.putStrLn o
  loop h out st'

def main : IO Unit := do
  loop (← IO.getStdin) (← IO.getStdout)
    { x := { base := { path := [], passthrough := false, transform := none, fallback := none } },
      w := ⟨⟨.obj [] [], none⟩, [], 0⟩ }
