import SpecVerif.Model.C19
import SpecVerif.Model.C19Hier
/-!
Line-protocol driver for the C19 correspondence: evaluates the definitions of
`SpecVerif.C19` that the theorems of `Props/C19.lean` are about.

Input, one case per line:
  run D <n> (<A|F|P> <default|_> <factory> <repr> <compare>)^n M <k> <id>^k U <j> <id>^j N <origNew> <parentNew> | <inst|meta|fields|sub1|sub0>* | <tid>*
    (sub1 / sub0: instantiate through a subclass with its own `__new__` that hands the arguments on / does not)
  eager D ... N .. ..      (the sequential eager result of the same body)
Output of `run`:  <tid>:<label>* ;; T<i>=<pc>/<obs|-> k=[<sub|orig|synthesized|parent>:<args>,..] ... ;; <class> ;; boots=<n> lock=<_|tid>
Output of `eager`: <class core>
  hier <class> / <class> / ... | <k>*        (a chain of decorated classes, root first; first uses of class k in order)
  heager <class> / <class> / ...             (the same chain with bootstrap=True on every class)
    <class> = A <n> (<name> <ty>)^n  D <m> (<name> <A|F|P> <default|_> <factory> <repr> <compare>)^m  T <j> (<name> <ty>)^j  S <_ | s <name>^s>
    (A: body annotations, D: class attributes, T: self.attrs of the decorator (attrs= with ty 0, then attrs_typed=), S: attrs_skip)
Output of `hier`: the hierarchy after each first use, ` ;; `-separated; of `heager`: the eager hierarchy.
  hierarchy = <cls> | <cls> ...;  <cls> = m=<[name:ty:d:f:r:c:owner,..]|_> a=[name:ty,..] d=[name=<D|v|_>,..] h=[name,..]
Obs / class syntax: m=<[d:f:r:c,..]|_> f=<1|0> d=[<D|v|_>,..] g=[ids] n=<wrapper|orig|synthesized|inherited>
-/
open SpecVerif.C19

def toks (s : String) : List String := (s.trimAscii.toString.splitOn " ").filter (· ≠ "")

def splitBar (ts : List String) : List (List String) :=
  ts.foldr (fun x acc => if x == "|" then [] :: acc else match acc with
    | [] => [[x]] | a :: as => (x :: a) :: as) [[]]

def pBool (s : String) : Bool := s == "1"
def pOptNat (s : String) : Option Nat := if s == "_" then none else s.toNat?

partial def parseDecls : Nat → List String → Option (List Decl × List String)
  | 0, r => some ([], r)
  | n + 1, k :: d :: f :: rp :: cp :: r => do
    let info : AttrInfo := ⟨pOptNat d, pBool f, pBool rp, pBool cp⟩
    let decl := if k == "A" then Decl.attr info else if k == "F" then Decl.field info else Decl.plain (pOptNat d)
    let (ds, r) ← parseDecls n r
    pure (decl :: ds, r)
  | _, _ => none

def takeNats (n : Nat) (r : List String) : List Nat × List String :=
  ((r.take n).map (fun x => x.toNat?.getD 0), r.drop n)

def parseBody (ts : List String) : Option Body :=
  match ts with
  | "D" :: n :: r => do
    let (ds, r) ← parseDecls (← n.toNat?) r
    match r with
    | "M" :: k :: r =>
      let (ms, r) := takeNats (k.toNat?.getD 0) r
      match r with
      | "U" :: j :: r =>
        let (us, r) := takeNats (j.toNat?.getD 0) r
        match r with
        | ["N", o, p] => some { decls := ds, methods := ms, userMethods := us, origNew := pBool o, parentNew := pBool p }
        | _ => none
      | _ => none
    | _ => none
  | _ => none

def showInfo (i : AttrInfo) : String :=
  s!"{match i.default with | none => "_" | some v => toString v}:{if i.factory then 1 else 0}:{if i.repr then 1 else 0}:{if i.compare then 1 else 0}"
def showInfos : Option (List AttrInfo) → String
  | none => "_"
  | some l => "[" ++ ",".intercalate (l.map showInfo) ++ "]"
def showDecl : Decl → String
  | .attr _ => "D" | .field _ => "D"
  | .plain none => "_" | .plain (some v) => toString v
def showNew : NewState → String
  | .wrapper => "wrapper" | .orig => "orig" | .synthesized => "synthesized" | .inherited => "inherited"
def showObs (o : Obs) : String :=
  s!"m={showInfos o.mdata} f={if o.fields.isSome then (if o.fields == o.mdata then 1 else 2) else 0} d=[{",".intercalate (o.decls.map showDecl)}] g=[{",".intercalate (o.methods.map toString)}] n={showNew o.new}"
def showPC : PC → String
  | .start => "start" | .lookup => "lookup" | .acqB => "acqB" | .recheck => "recheck" | .boot k => s!"boot{k}" | .relB => "relB"
  | .superNew => "superNew" | .dispatch => "dispatch"
  | .reread => "reread" | .acqN => "acqN" | .checkNew => "checkNew" | .swapNew => "swapNew" | .relN => "relN"
  | .observe => "observe" | .done => "done"
def showLabel : Label → String
  | .superNew => "supernew" | .dispatch => "dispatch"
  | .call => "call" | .lookup => "lookup" | .acquire => "acquire" | .recheck => "recheck" | .release => "release"
  | .reread => "reread" | .checkNew => "checknew" | .swapNew => "swap" | .observe => "observe"
  | .act (.readDecl a) => s!"read:{a}" | .act (.consumeDecl a) => s!"consume:{a}"
  | .act .publishMeta => "pubmeta" | .act .publishFields => "pubfields" | .act (.setMethod g) => s!"set:{g}"

def parseTrig (s : String) : Trigger :=
  if s == "meta" then .mdata else if s == "fields" then .fields
  else if s == "sub1" then .instSub true else if s == "sub0" then .instSub false else .inst

def showFn : NewFn → String
  | .sub => "sub" | .orig => "orig" | .synthesized => "synthesized" | .parent => "parent"
def showNews (l : List NewCall) : String :=
  "[" ++ ",".intercalate (l.map fun x => s!"{showFn x.fn}:{if x.args then 1 else 0}") ++ "]"

/-- `runSched`, additionally collecting the labels of the steps taken -/
def runLabels (b : Body) (trig : Nat → Trigger) : Config → List Nat → List String → Config × List String
  | c, [], acc => (c, acc)
  | c, t :: ts, acc => match step b trig c t with
    | none => runLabels b trig c ts (acc ++ [s!"{t}:blocked"])
    | some (c', l) => runLabels b trig c' ts (acc ++ [s!"{t}:{showLabel l}"])

def handle1 (line : String) : String :=
  match splitBar (toks line) with
  | ["run" :: body, trigs, sched] =>
    match parseBody body with
    | none => "bad-body"
    | some b =>
      let tl := trigs.map parseTrig
      let trig : Nat → Trigger := fun i => tl.getD i .inst
      let sc := sched.map (fun x => x.toNat?.getD 0)
      let (c, labels) := runLabels b trig (Config.init b) sc []
      let same := (runSched b trig (Config.init b) sc).cls == c.cls
      let ths := (List.range tl.length).map (fun i =>
        let st := c.threads i
        s!"T{i}={showPC st.pc}/{match st.obs with | none => "-" | some o => showObs o} k={showNews (c.news i)}")
      (if same then "" else "!MISMATCH ") ++ " ".intercalate labels ++ " ;; " ++ " ".intercalate ths ++ " ;; " ++ showObs (snapshot c.cls)
        ++ s!" ;; boots={c.boots} lock={match c.lock with | none => "_" | some t => toString t}"
  | ["eager" :: body] =>
    match parseBody body with
    | none => "bad-body"
    | some b => showObs ⟨(eagerCore b).mdata, (eagerCore b).fields, (eagerCore b).decls, (eagerCore b).methods, finalNew b⟩
  | _ => "bad-op"

/-! ### hierarchies (`Model/C19Hier.lean`) -/
open SpecVerif.C19.Hier in
def splitSlash (ts : List String) : List (List String) :=
  ts.foldr (fun x acc => if x == "/" then [] :: acc else match acc with
    | [] => [[x]] | a :: as => (x :: a) :: as) [[]]

partial def parsePairs : Nat → List String → Option (List (Nat × Nat) × List String)
  | 0, r => some ([], r)
  | n + 1, a :: b :: r => do
    let (ps, r) ← parsePairs n r
    pure ((← a.toNat?, ← b.toNat?) :: ps, r)
  | _, _ => none

partial def parseHDict : Nat → List String → Option (List (Nat × Decl) × List String)
  | 0, r => some ([], r)
  | n + 1, nm :: k :: d :: f :: rp :: cp :: r => do
    let info : AttrInfo := ⟨pOptNat d, pBool f, pBool rp, pBool cp⟩
    let decl := if k == "A" then Decl.attr info else if k == "F" then Decl.field info else Decl.plain (pOptNat d)
    let (ds, r) ← parseHDict n r
    pure ((← nm.toNat?, decl) :: ds, r)
  | _, _ => none

open SpecVerif.C19.Hier in
def parseHBody (ts : List String) : Option HBody :=
  match ts with
  | "A" :: n :: r => do
    let (an, r) ← parsePairs (← n.toNat?) r
    match r with
    | "D" :: m :: r =>
      let (dd, r) ← parseHDict (← m.toNat?) r
      match r with
      | "T" :: j :: r =>
        let (tt, r) ← parsePairs (← j.toNat?) r
        match r with
        | ["S", "_"] => some ⟨an, dd, tt, none⟩
        | "S" :: s :: r => some ⟨an, dd, tt, some ((r.take (s.toNat?.getD 0)).map (fun x => x.toNat?.getD 0))⟩
        | _ => none
      | _ => none
    | _ => none
  | _ => none

def parseChain (ts : List String) : Option (List SpecVerif.C19.Hier.HBody) :=
  (splitSlash ts).mapM parseHBody

open SpecVerif.C19.Hier in
def showSpec (s : Spec) : String := s!"{s.name}:{s.ty}:{showInfo s.info}:{s.owner}"

open SpecVerif.C19.Hier in
def showHCls (c : HCls) : String :=
  let m := match c.mdata with
    | none => "_"
    | some l => "[" ++ ",".intercalate (l.map showSpec) ++ "]"
  let a := ",".intercalate (c.annots.map fun x => s!"{x.1}:{x.2}")
  let d := ",".intercalate ((List.range 8).filterMap fun n => (c.dict.lookup n).map fun v => s!"{n}={showDecl v}")
  s!"m={m} a=[{a}] d=[{d}] h=[{",".intercalate (c.helpers.map toString)}]"

def showHier (st : List SpecVerif.C19.Hier.HCls) : String := " | ".intercalate (st.map showHCls)

open SpecVerif.C19.Hier in
def runHier (chain : List HBody) : List Nat → List HCls → List String → List String
  | [], _, acc => acc
  | k :: ks, st, acc => let st' := boot chain k st; runHier chain ks st' (acc ++ [showHier st'])

def handleHier (line : String) : Option String :=
  match splitBar (toks line) with
  | ["hier" :: chain, trigs] =>
    some (match parseChain chain with
    | none => "bad-chain"
    | some ch =>
      let ks := trigs.map (fun x => x.toNat?.getD 0)
      let outs := runHier ch ks (SpecVerif.C19.Hier.initSt ch) []
      let same := SpecVerif.C19.Hier.runTrigs ch ks (SpecVerif.C19.Hier.initSt ch)
        == ks.foldl (fun st k => SpecVerif.C19.Hier.boot ch k st) (SpecVerif.C19.Hier.initSt ch)
      (if same then "" else "!MISMATCH ") ++ " ;; ".intercalate outs)
  | ["heager" :: chain] =>
    some (match parseChain chain with
    | none => "bad-chain"
    | some ch => showHier (SpecVerif.C19.Hier.eager ch))
  | _ => none

def handle (line : String) : String :=
  match handleHier line with
  | some s => s
  | none => handle1 line

partial def loop (h : IO.FS.Stream) (out : IO.FS.Stream) : IO Unit := do
  let line ← h.getLine
  if line.isEmpty then return ()
  out.putStrLn (handle line)
  loop h out

def main : IO Unit := do
  loop (← IO.getStdin) (← IO.getStdout)
