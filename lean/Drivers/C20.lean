import SpecVerif.Model.C20
/-!
Line-protocol driver for the C20 correspondence: evaluates the definitions of
`SpecVerif.C20` that the theorems of `Props/C20.lean` are about.

Input (one command per line):
  init <foreign 0|1> <nthreads>      reset the shared state             -> `ok ;; <state>`
  protect <t> <value>                `protect_via_deepcopy(value)` by thread t, predicted
                                     event trace                         -> `<ok|err> ;; <event>* ;; <state>`
  deepcopy <t> <value>               `copy.deepcopy(value)` (no outer guard) by thread t   -> same format
  external <0|1>                     another library sets/removes its reducer (quiescent points only)
  events <t> <E|X|C>*                validate an observed event trace of thread t against `step`
                                                                         -> `<ok|refused@i> ;; <event>* ;; <state>`
  sched <foreign> | <value> | ... | <tid>*   thread programs `protect(value_i)` under a schedule
                                                                         -> `<event>* ;; <status>* ;; <state>`
  schedx <foreign> | <P|D> <value> | ... | <tid>*   the same with `protect(value_i)` (P) or a bare
                                     `copy.deepcopy(value_i)` (D) per thread (`histProg`)
  tevents <foreign> <n> <tid>:<E|X|C>*   validate an observed linearised trace of n threads against `step`
                                                                         -> `<ok|refused@i> ;; <event>* ;; <state>`
Value syntax (prefix): `a` atom, `m` module, `b` uncopyable, `L <n> v1..vn`, `I <dnc> <postCopyRaises> <n> (<dnc_i> v_i)*`.
Event: `<t><kind>:<table>:<refcount>:<patched>`; state: `table=.. rc=.. patched=.. depth=..`.
-/
open SpecVerif.C20

def showTable : Option Entry → String
  | none => "none" | some .ours => "ours" | some .foreign => "foreign"

def showState (s : Sys) : String :=
  s!"table={showTable s.table} rc={s.refcount} patched={if s.patched then 1 else 0} depth={",".intercalate (s.depth.map toString)}"

def showEv (t : Nat) (k : String) (s : Sys) : String :=
  s!"{t}{k}:{showTable s.table}:{s.refcount}:{if s.patched then 1 else 0}"

/-! value parser -/
mutual
partial def parseVal : List String → Option (Val × List String)
  | "a" :: r => some (.atom, r)
  | "m" :: r => some (.module, r)
  | "b" :: r => some (.bad, r)
  | "L" :: n :: r => do
    let n ← n.toNat?
    let (xs, r) ← parseVals n r
    pure (.list xs, r)
  | "I" :: d :: pc :: n :: r => do
    let n ← n.toNat?
    let (as, r) ← parseAttrs n r
    pure (.inst (d == "1") as (pc == "1"), r)
  | _ => none
partial def parseVals : Nat → List String → Option (Vals × List String)
  | 0, r => some (.nil, r)
  | n + 1, r => do
    let (v, r) ← parseVal r
    let (vs, r) ← parseVals n r
    pure (.cons v vs, r)
partial def parseAttrs : Nat → List String → Option (Attrs × List String)
  | 0, r => some (.nil, r)
  | n + 1, d :: r => do
    let (v, r) ← parseVal r
    let (as, r) ← parseAttrs n r
    pure (.cons (d == "1") v as, r)
  | _, _ => none
end

def toks (s : String) : List String := (s.trimAscii.toString.splitOn " ").filter (· ≠ "")

/-- run a program of thread `t` instruction by instruction (the same `seqStep` as
`execSeq`), printing an event per protocol step; unwinding prints its `X` events. -/
def traceUnwind (t : Nat) : Nat → Sys → List String → Sys × List String
  | 0, s, acc => (s, acc)
  | k + 1, s, acc => let s' := exitStep s t; traceUnwind t k s' (acc ++ [showEv t "X" s'])

def traceSeq (t : Nat) : List Instr → Sys → List String → Sys × Bool × List String
  | [], s, acc => (s, true, acc)
  | i :: r, s, acc =>
    match i with
    | .enter => let s' := enterStep s t; traceSeq t r s' (acc ++ [showEv t "E" s'])
    | .exit =>
      let s' := exitStep s t
      if s'.failedOf t && !s.failedOf t then
        let (s'', acc) := traceUnwind t (s'.depthOf t) s' (acc ++ [showEv t "X" s'])
        (s'', false, acc)
      else traceSeq t r s' (acc ++ [showEv t "X" s'])
    | .copy =>
      if s.table.isSome then traceSeq t r s (acc ++ [showEv t "C" s])
      else
        let s' := copyStep s t
        let (s'', acc) := traceUnwind t (s'.depthOf t) s' (acc ++ [showEv t "F" s'])
        (s'', false, acc)
    | .raise =>
      let (s'', acc) := traceUnwind t (s.depthOf t) s acc
      (s'', false, acc)

def validate (t : Nat) : List String → Nat → Sys → List String → Sys × Option Nat × List String
  | [], _, s, acc => (s, none, acc)
  | e :: r, i, s, acc =>
    let st : Option Step := match e with
      | "E" => some (.enter t) | "X" => some (.exit t) | "C" => some (.copyModule t) | _ => none
    match st.bind (step s) with
    | none => (s, some i, acc)
    | some s' => validate t r (i + 1) s' (acc ++ [showEv t e s'])

def splitBar (ts : List String) : List (List String) :=
  ts.foldr (fun x acc => if x == "|" then [] :: acc else match acc with
    | [] => [[x]] | a :: as => (x :: a) :: as) [[]]

def showStat : TStatus → String
  | .running => "running" | .unwinding => "unwinding" | .ok => "ok" | .err => "err"

def showE : Ev → String | .E => "E" | .X => "X" | .C => "C" | .F => "F" | .idle => "-"

/-- validate a linearised multi-thread trace (`<tid>:<kind>` tokens) event by event with `step` -/
def validateT : List String → Nat → Sys → List String → Sys × Option Nat × List String
  | [], _, s, acc => (s, none, acc)
  | e :: r, i, s, acc =>
    match e.splitOn ":" with
    | [ts, k] =>
      let t := ts.toNat?.getD 0
      let st : Option Step := match k with
        | "E" => some (.enter t) | "X" => some (.exit t) | "C" => some (.copyModule t) | _ => none
      match st.bind (step s) with
      | none => (s, some i, acc)
      | some s' =>
        -- C is a lookup by a thread that holds no lock: only the table is compared there
        let shown := if k == "C" then s!"{t}C:{showTable s'.table}" else showEv t k s'
        validateT r (i + 1) s' (acc ++ [shown])
    | _ => (s, some i, acc)

def runSched (f : String) (progs : List (List Instr)) (sched : List Nat) : String :=
  let c0 := Conf.start (f == "1") progs
  let (c, evs) := sched.foldl (fun (acc : Conf × List String) t =>
      let (c', e) := tick acc.1 t
      -- C/F are lookups by a thread that holds no lock: only the table is compared there
      let shown := if e == .C || e == .F then s!"{t}{showE e}:{showTable c'.sys.table}" else showEv t (showE e) c'.sys
      (c', acc.2 ++ [shown])) (c0, [])
  " ".intercalate evs ++ " ;; " ++ ",".intercalate (c.stat.map showStat) ++ " ;; " ++ showState c.sys

def handle (s : Sys) (line : String) : Sys × String :=
  match toks line with
  | ["init", f, n] =>
    let s' := init (f == "1") (n.toNat?.getD 1)
    (s', "ok ;; " ++ showState s')
  | "protect" :: t :: r =>
    match parseVal r with
    | some (v, []) =>
      let t := t.toNat?.getD 0
      let (s', ok, evs) := traceSeq t (protectI v) s []
      -- the printed run and `execSeq` are the same function of the model:
      let chk := (execSeq t (protectI v) s) == (s', ok)
      (s', (if ok then "ok" else "err") ++ (if chk then "" else "!MISMATCH") ++ " ;; " ++ " ".intercalate evs ++ " ;; " ++ showState s')
    | _ => (s, "bad-value")
  | "deepcopy" :: t :: r =>
    match parseVal r with
    | some (v, []) =>
      let t := t.toNat?.getD 0
      let (s', ok, evs) := traceSeq t (deepI v) s []
      let chk := (execSeq t (deepI v) s) == (s', ok)
      (s', (if ok then "ok" else "err") ++ (if chk then "" else "!MISMATCH") ++ " ;; " ++ " ".intercalate evs ++ " ;; " ++ showState s')
    | _ => (s, "bad-value")
  | ["external", f] =>
    match step s (.external (f == "1")) with
    | some s' => (s', "ok ;;  ;; " ++ showState s')
    | none => (s, "refused ;;  ;; " ++ showState s)
  | "events" :: t :: r =>
    let t := t.toNat?.getD 0
    let (s', bad, evs) := validate t r 0 s []
    (s', (match bad with | none => "ok" | some i => s!"refused@{i}") ++ " ;; " ++ " ".intercalate evs ++ " ;; " ++ showState s')
  | "sched" :: f :: "|" :: r =>
    let parts := splitBar r
    let vals := parts.dropLast.map (fun p => (parseVal p).map (·.1))
    if vals.any (·.isNone) then (s, "bad-value") else
    let progs := vals.map (fun v => protectI (v.getD .atom))
    let sched := (parts.getLast?.getD []).map (fun x => x.toNat?.getD 0)
    (s, runSched f progs sched)
  | "schedx" :: f :: "|" :: r =>
    let parts := splitBar r
    let ops : List (Option HistOp) := parts.dropLast.map (fun p => match p with
      | "P" :: v => (parseVal v).bind (fun x => if x.2.isEmpty then some (HistOp.protect x.1) else none)
      | "D" :: v => (parseVal v).bind (fun x => if x.2.isEmpty then some (HistOp.deepcopy x.1) else none)
      | _ => none)
    if ops.any (·.isNone) then (s, "bad-value") else
    let progs := ops.map (fun o => match o with | some op => histProg op | none => [])
    let sched := (parts.getLast?.getD []).map (fun x => x.toNat?.getD 0)
    (s, runSched f progs sched)
  | "tevents" :: f :: n :: evs =>
    let s0 := init (f == "1") (n.toNat?.getD 1)
    let (s', bad, shown) := validateT evs 0 s0 []
    (s, (match bad with | none => "ok" | some i => s!"refused@{i}") ++ " ;; " ++ " ".intercalate shown ++ " ;; " ++ showState s')
  | _ => (s, "bad-op")

partial def loop (h : IO.FS.Stream) (out : IO.FS.Stream) (s : Sys) : IO Unit := do
  let line ← h.getLine
  if line.isEmpty then return ()
  let (s', o) := handle s line
  out.putStrLn o
  loop h out s'

def main : IO Unit := do
  loop (← IO.getStdin) (← IO.getStdout) (init false 1)
