import SpecVerif.Model.MutateValue
/-!
Line-protocol driver for the `mutate_value` tie (C01 / C07): evaluates `SpecVerif.MutateValue.mutateValue`, the
definition the theorems of `Props/MutateValue.lean` are about.

Input:  `mv <old 0|1> <new missing|unchanged|val> <replace 0|1> <prepare none|ident|fresh|pre|boom> <ctor 0|1> <attrs 0|1>
         <transform none|ident|fresh|pre|boom> <attr_transforms 0|1> <inplace 0|1> <frozen 0|1>`
Output: `ok <provenance of the result: old|arg|preP|preT|fresh|missing> e=<pre-existing objects edited, sorted, comma separated>`,
        `err <Class> e=...`, or `skip` (attribute transforms on MISSING: not modelled).
-/
open SpecVerif.Py SpecVerif.MutateValue

def parseBool (t : String) : Option Bool := if t == "1" then some true else if t == "0" then some false else none

def parseHook (t : String) : Option (Option Hook) :=
  if t == "none" then some none else if t == "ident" then some (some .ident) else if t == "fresh" then some (some .fresh)
  else if t == "pre" then some (some .pre) else if t == "boom" then some (some .boom) else none

def parseNew (t : String) : Option NewArg :=
  if t == "missing" then some .missing else if t == "unchanged" then some .unchanged else if t == "val" then some .val else none

def showObj : Obj → String
  | .old => "old" | .arg => "arg" | .preP => "preP" | .preT => "preT" | .fresh _ => "fresh"

def showEdited (es : List Obj) : String :=
  let names := [Obj.arg, Obj.old, Obj.preP, Obj.preT].filter (fun o => es.contains o)
  "e=" ++ ",".intercalate (names.map showObj)

def answer (line : String) : String :=
  match line.trimAscii.toString.splitOn " " with
  | ["mv", o, n, r, p, c, a, t, at_, ip, fz] =>
    (match (do
      let o ← parseBool o; let n ← parseNew n; let r ← parseBool r; let p ← parseHook p; let c ← parseBool c
      let a ← parseBool a; let t ← parseHook t; let at_ ← parseBool at_; let ip ← parseBool ip; let fz ← parseBool fz
      pure ({ old := o, new := n, replace := r, prepare := p, ctor := c, attrs := a, transform := t, attrTr := at_, inplace := ip, frozen := fz } : In)) with
    | some i =>
      let (res, s) := mutateValue i
      (match res with
       | .ok .missing => s!"ok missing {showEdited s.edited}"
       | .ok (.obj o) => s!"ok {showObj o} {showEdited s.edited}"
       | .err e => s!"err {e.name} {showEdited s.edited}"
       | .unsupported => "skip")
    | none => "bad-line")
  | _ => "bad-line"

partial def loop (stdin : IO.FS.Stream) (stdout : IO.FS.Stream) : IO Unit := do
  let line ← stdin.getLine
  if line.isEmpty then return
  stdout.putStrLn (answer line)
  loop stdin stdout

def main : IO Unit := do
  let stdin ← IO.getStdin
  let stdout ← IO.getStdout
  loop stdin stdout
  stdout.flush
