import SpecVerif.Model.Protect
/-!
Line-protocol driver for the `protect_via_deepcopy` tie (C01 / C02): evaluates `SpecVerif.Protect.protect`, the
definition the theorems of `Props/Protect.lean` are about.

Input: one value per line, prefix notation, tokens separated by single spaces:
  n | i<int> | s<nat>                       atoms (None, int, the string token)
  H <id> module|lock|gen|raiser             a module / an object that cannot be copied
  R <id>                                    a further occurrence of object <id>
  L|T|N|F|S <id> <k> <member>*k             list / tuple / named tuple / frozenset / set with k members
  D <id> <k> (<atom key> <value>)*k         dict
  B <id> <value>                            plain object with one attribute
  Y <id> <t>                                bytearray with content token t
Output, one line per input line: `ok <original> => <copy>` or `err <Class> <original>`, objects written as
`L3[..]`, `T3(..)`, `N3(..)`, `F3{..}`, `S3{..}`, `D3{k:v ..}`, `B3<..>`, `Y3:t`, `H3:kind`, with identities
renumbered by first appearance over the whole line and `#3` for an object already written -- so an object of the copy
that IS an object of the original shows as `#k`.
-/
open SpecVerif.Py SpecVerif.Protect

def parseAtom (t : String) : Option Atom :=
  if t == "n" then some .none
  else if t.startsWith "i" then (t.drop 1).toInt?.map .int
  else if t.startsWith "s" then (t.drop 1).toNat?.map .str
  else none

def parseKind (t : String) : Option HKind :=
  if t == "module" then some .module else if t == "lock" then some .lock
  else if t == "gen" then some .gen else if t == "raiser" then some .raiser else none

mutual
partial def parseVal : List String → Option (Val × List String)
  | [] => none
  | "H" :: i :: k :: r => do
    let i ← i.toNat?; let k ← parseKind k
    pure (.handle i k, r)
  | "R" :: i :: r => do
    let i ← i.toNat?
    pure (.ref i, r)
  | "L" :: i :: k :: r => do
    let i ← i.toNat?; let k ← k.toNat?
    let (xs, r') ← parseVals k r
    pure (.list i xs, r')
  | "T" :: i :: k :: r => do
    let i ← i.toNat?; let k ← k.toNat?
    let (xs, r') ← parseVals k r
    pure (.tuple i xs, r')
  | "N" :: i :: k :: r => do
    let i ← i.toNat?; let k ← k.toNat?
    let (xs, r') ← parseVals k r
    pure (.ntuple i xs, r')
  | "F" :: i :: k :: r => do
    let i ← i.toNat?; let k ← k.toNat?
    let (xs, r') ← parseVals k r
    pure (.fset i xs, r')
  | "S" :: i :: k :: r => do
    let i ← i.toNat?; let k ← k.toNat?
    let (xs, r') ← parseVals k r
    pure (.set i xs, r')
  | "D" :: i :: k :: r => do
    let i ← i.toNat?; let k ← k.toNat?
    let (kvs, r') ← parseKVs k r
    pure (.dict i kvs, r')
  | "B" :: i :: r => do
    let i ← i.toNat?
    let (v, r') ← parseVal r
    pure (.box i v, r')
  | "Y" :: i :: t :: r => do
    let i ← i.toNat?; let t ← t.toNat?
    pure (.barr i t, r)
  | t :: r => do
    let a ← parseAtom t
    pure (.atom a, r)
partial def parseVals : Nat → List String → Option (Vals × List String)
  | 0, r => some (.nil, r)
  | k + 1, r => do
    let (v, r') ← parseVal r
    let (vs, r'') ← parseVals k r'
    pure (.cons v vs, r'')
partial def parseKVs : Nat → List String → Option (KVs × List String)
  | 0, r => some (.nil, r)
  | _ + 1, [] => none
  | k + 1, t :: r => do
    let a ← parseAtom t
    let (v, r') ← parseVal r
    let (kvs, r'') ← parseKVs k r'
    pure (.cons a v kvs, r'')
end

def showAtom : Atom → String
  | .none => "n"
  | .int n => s!"i{n}"
  | .str t => s!"s{t}"

def showKind : HKind → String
  | .module => "module" | .lock => "lock" | .gen => "gen" | .raiser => "raiser"

abbrev Num := List (Nat × Nat)

def numOf (i : Nat) (m : Num) : Option Nat := (m.find? (·.1 == i)).map (·.2)

mutual
partial def showVal (v : Val) (m : Num) : String × Num :=
  let node (i : Nat) (body : Nat → Num → String × Num) : String × Num :=
    match numOf i m with
    | some k => (s!"#{k}", m)
    | none => let k := m.length; body k ((i, k) :: m)
  match v with
  | .atom a => (showAtom a, m)
  | .ref i => (match numOf i m with | some k => (s!"#{k}", m) | none => ("#?", m))
  | .handle i c => node i (fun k m' => (s!"H{k}:{showKind c}", m'))
  | .list i xs => node i (fun k m' => let (s, m'') := showVals xs m'; (s!"L{k}[{s}]", m''))
  | .tuple i xs => node i (fun k m' => let (s, m'') := showVals xs m'; (s!"T{k}({s})", m''))
  | .ntuple i xs => node i (fun k m' => let (s, m'') := showVals xs m'; (s!"N{k}({s})", m''))
  | .fset i xs => node i (fun k m' => let (s, m'') := showVals xs m'; ("F" ++ toString k ++ "{" ++ s ++ "}", m''))
  | .set i xs => node i (fun k m' => let (s, m'') := showVals xs m'; ("S" ++ toString k ++ "{" ++ s ++ "}", m''))
  | .dict i kvs => node i (fun k m' => let (s, m'') := showKVs kvs m'; ("D" ++ toString k ++ "{" ++ s ++ "}", m''))
  | .box i w => node i (fun k m' => let (s, m'') := showVal w m'; (s!"B{k}<{s}>", m''))
  | .barr i t => node i (fun k m' => (s!"Y{k}:{t}", m'))
partial def showVals (xs : Vals) (m : Num) : String × Num :=
  match xs with
  | .nil => ("", m)
  | .cons v .nil => showVal v m
  | .cons v r => let (s, m') := showVal v m; let (s', m'') := showVals r m'; (s ++ " " ++ s', m'')
partial def showKVs (xs : KVs) (m : Num) : String × Num :=
  match xs with
  | .nil => ("", m)
  | .cons k v .nil => let (s, m') := showVal v m; (showAtom k ++ ":" ++ s, m')
  | .cons k v r =>
    let (s, m') := showVal v m; let (s', m'') := showKVs r m'
    (showAtom k ++ ":" ++ s ++ " " ++ s', m'')
end

def answer (line : String) : String :=
  match parseVal (line.trimAscii.toString.splitOn " ") with
  | some (v, []) =>
    let (sin, m) := showVal v []
    (match protect v (maxId v) with
     | .ok v' => let (sout, _) := showVal v' m; s!"ok {sin} => {sout}"
     | .error e => s!"err {e.name} {sin}")
  | _ => "bad-line"

partial def loop (stdin : IO.FS.Stream) (stdout : IO.FS.Stream) : IO Unit := do
  let line ← stdin.getLine
  if line.isEmpty then return
  stdout.putStrLn (answer line)
  loop stdin stdout

def main : IO Unit := do
  let stdin ← IO.getStdin
  let stdout ← IO.getStdout
  loop stdin stdout
  stdout.flush
