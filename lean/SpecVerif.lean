-- Root of the `SpecVerif` library: `lake build` (MANIFEST.setup_cmd) builds everything imported here.
import SpecVerif.Audit
import SpecVerif.Model.Py
import SpecVerif.Props.C13
import SpecVerif.Props.C15
import SpecVerif.Props.C18
import SpecVerif.Props.C11
import SpecVerif.Props.C12
import SpecVerif.Props.C06
import SpecVerif.Props.C09
import SpecVerif.Props.C10
import SpecVerif.Props.C19
import SpecVerif.Props.C20
import SpecVerif.Props.C14
import SpecVerif.Props.C05
import SpecVerif.Props.C03
import SpecVerif.Props.C17
import SpecVerif.Props.C16
