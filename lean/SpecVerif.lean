-- This module serves as the root of the `SpecVerif` library.
-- Import modules here that should be built as part of the library.
import SpecVerif.Basic
