import Lean
/-!
`#audit_ns Foo.Bar` lists every theorem declared in namespace `Foo.Bar`
together with the axioms it depends on, one per line:

    AUDIT <theorem name> | <axiom> <axiom> ... | <statement, one line, truncated>

The check scripts parse these lines; they are the "obligations" of a property.
-/
open Lean Elab Command

private def oneLine (s : String) (n : Nat) : String :=
  let s := s.replace "\n" " "
  let s := (s.splitOn " ").filter (· ≠ "") |> " ".intercalate
  if s.length > n then (s.take n).toString ++ " …" else s

/-- auto-generated companions of definitions (equation lemmas etc.) are not obligations -/
private def isGenerated (env : Environment) (n : Name) : Bool :=
  match n with
  | .str p s =>
    env.contains p &&
      ((s.startsWith "eq_" && (s.drop 3).all Char.isDigit) ||
       ["eq_def", "eq_unfold", "congr_simp", "inj", "injEq", "sizeOf_spec", "induct",
        "induct_unfolding", "fun_cases", "fun_cases_unfolding"].contains s)
  | _ => false

elab "#audit_ns " ns:ident : command => do
  let env ← getEnv
  let nsName := ns.getId
  let mut names : Array Name := #[]
  for (n, ci) in env.constants.toList do
    if nsName.isPrefixOf n && !n.isInternal && !(env.isProjectionFn n) && !(isGenerated env n) then
      match ci with
      | .thmInfo _ => names := names.push n
      | _ => pure ()
  let sorted := names.qsort (fun a b => a.toString < b.toString)
  for n in sorted do
    let axs ← Lean.collectAxioms n
    let some ci := env.find? n | continue
    let stmt ← liftTermElabM do
      let f ← Meta.ppExpr ci.type
      pure (oneLine f.pretty 400)
    let axStr := " ".intercalate (axs.toList.map toString)
    logInfo m!"AUDIT {n} | {axStr} | {stmt}"
