import SpecVerif.Model.Inst
/-!
# C02 — instances with descriptor-backed ("masked") attributes

`Model/Inst.lean` models instances whose `__dict__` holds plain managed
attributes.  Real instances hold more: the cache / override of a
`spec_property`, the local override of an `Alias`, the backing field of a
`property` with a setter.  `DeepCopyMethod.deepcopy` walks *every* `__dict__`
entry (`copyFields` already does: an entry whose name is not declared is
deep-copied), so what is added here is the *descriptor layer* on top of the
heap of `Model/Heap.lean`:

* `readAttr`  — `getattr(obj, a)`: `spec_property.__get__` (override / cache
  lookup, getter, `prepare_attr_value` + `check_type`, cache fill),
  `Alias.__get__` (local override, target, fallback), `property.__get__`,
  `GetAttrMethod.__getattr__` for a plain attribute;
* `storeVia`  — `object.__setattr__(obj, a, v)`: `spec_property.__set__`
  (override store, or the user's setter), `Alias.__set__`, `property.__set__`;
* `setAttrM`  — `SetAttrMethod.__setattr__` (`prepare_attr_value`, then
  `mutate_attr(inplace=True)`: frozen check, type check, store);
* `delVia`    — `DelAttrMethod.__delattr__` (frozen check, default lookup for a
  plain attribute, `spec_property.__delete__`, `Alias.__delete__`);
* `mutateAttrM`, `withAttrM`, `resetAttrM` — `mutate_attr`,
  `WithAttrMethod.with_attr`, `ResetAttrMethod.reset_attr` with the stores above
  (copy first, then store into the copy inside the thaw window).

Field names are numbers; a descriptor says under which *other* name (`slot`)
its value lives (`_x` of a property, `__spec_classes_Alias_<a>_override`).
Getter functions come from a small pool (`Getter`) interpreted identically by
`harness/c02_masked_tie.py`.  Core Lean only.
-/
namespace SpecVerif.C02Masked
open SpecVerif.Py SpecVerif.Heap

/-- What a getter function computes. -/
inductive Getter
  | lit (l : Lit)        -- `return <literal>`: a new object on every call
  | attr (b : Nat)       -- `return self.<b>`: whatever reading attribute/slot `b` yields
  | listOf (b : Nat)     -- `return list(self.<b>)`: a new list holding the same items
  deriving DecidableEq, Repr, Inhabited

/-- The descriptor found on the class for an attribute name.
* `specProp overridable cache g fset`: `@spec_property(overridable=…, cache=…)`
  with getter `g`; `fset = some s`: a setter `self.<s> = value` was attached.
* `alias target slot passthrough fallback`: `Alias('<target>', passthrough=…,
  fallback=…)`; a local override is stored under `slot`.
* `prop slot setter`: builtin `property` reading `self.<slot>`; `setter`: it has
  a setter `self.<slot> = value`. -/
inductive Desc
  | specProp (overridable cache : Bool) (g : Getter) (fset : Option Nat)
  | alias (target slot : Nat) (passthrough : Bool) (fallback : Option Lit)
  | prop (slot : Nat) (setter : Bool)
  deriving DecidableEq, Repr, Inhabited

/-- Class table + descriptors per (class, attribute name) + recursion limit of
attribute lookups that go through other attributes. -/
structure MCtx where
  X : Ctx
  descs : List ((Nat × Nat) × Desc) := []
  depth : Nat := 8

def MCtx.desc (D : MCtx) (c a : Nat) : Option Desc := alGet (c, a) D.descs

/-- `Ctx.close` of the class table, same descriptors. -/
def MCtx.ofTable (X₀ : Ctx) (descs : List ((Nat × Nat) × Desc)) (depth : Nat) : MCtx :=
  { X := X₀.close, descs := descs, depth := depth }

/-! ## Reading: `getattr(obj, a)` -/

/-- `prepare_attr_value` + `check_type` of `spec_property.__get__` (only when the
attribute is managed, i.e. annotated). -/
def preparedGet (X : Ctx) (c a : Nat) (v : Ref) : M Ref :=
  match (X.cd c).attr? a with
  | some d => do
    let v' ← prepareAttrValue0 X d v
    let h ← getHeap
    guardM (!(typeOk X h d.kind v')) .valueError
    pure v'
  | none => pure v

/-- `list(v)`. -/
def listOfRef (v : Ref) : M Ref :=
  match v with
  | .obj j => do
    match (← getNode j) with
    | .list xs => do pure (.obj (← alloc (.list xs)))
    | _ => throwPy .typeError
  | .sc _ => throwPy .typeError

/-- `getattr(r, a)`; the first argument bounds lookups through other attributes
(`RecursionError`, reported as RuntimeError). -/
def readAttr (D : MCtx) : Nat → Ref → Nat → M Ref
  | 0, _, _ => throwPy .runtimeError
  | fuel+1, r, a => do
    let (_, c, _, fs) ← getInst r
    match D.desc c a with
    | none =>
      -- instance `__dict__`, else `GetAttrMethod.__getattr__` -> AttributeError
      (match alGet a fs with
        | some v => pure v
        | none => throwPy .attributeError)
    | some (.specProp ov ca g _) =>
      (match (if ov || ca then alGet a fs else none) with
        | some v => pure v                       -- overridden / cached
        | none => do
          let v ← (match g with
            | .lit l => instantiate D.X l
            | .attr b => readAttr D fuel r b
            | .listOf b => do
              let w ← readAttr D fuel r b
              listOfRef w)
          let v' ← preparedGet D.X c a v
          -- `instance.__dict__[name] = value` (no `__setattr__`, no frozen check)
          (if ca && v' != .sc .missing then rawSet r a v' else pure ())
          pure v')
    | some (.alias target slot pass fb) =>
      (match (if pass then none else alGet slot fs) with
        | some v => pure v                       -- local override
        | none =>
          tryCatch (readAttr D fuel r target) (fun e => e == .py .attributeError)
            (match fb with
              | some l => instantiate D.X l      -- `protect_via_deepcopy(self.fallback)`
              | none => throwPy .attributeError))
    | some (.prop slot _) =>
      (match alGet slot fs with
        | some v => pure v
        | none => throwPy .attributeError)

/-! ## Writing: `object.__setattr__`, `SetAttrMethod.__setattr__`, `mutate_attr` -/

/-- The checks of `mutate_attr(obj, a, v, inplace=True)` followed by the store `k`. -/
def inplaceChecked (X : Ctx) (k : Ref → Nat → Ref → M Unit) (obj : Ref) (a : Nat) (v : Ref) :
    M Unit :=
  if v = .sc .missing then pure ()
  else do
    let p ← getInst obj
    let cd := X.cd p.2.1
    guardM (!p.2.2.1 && cd.frozen) .frozenInstanceError
    let h ← getHeap
    guardM (match cd.attr? a with
      | some d => !(typeOk X h d.kind v)
      | none => false) .typeError
    k obj a v

/-- `SetAttrMethod.__setattr__(obj, a, v)` with `k` as `object.__setattr__`. -/
def setattrWith (X : Ctx) (k : Ref → Nat → Ref → M Unit) (obj : Ref) (a : Nat) (v : Ref) :
    M Unit := do
  let p ← getInst obj
  let v' ← (match (X.cd p.2.1).attr? a with
    | some d => prepareAttrValue0 X d v
    | none => pure v)
  inplaceChecked X k obj a v'

/-- Where a descriptor's `__set__` puts the value: `none` = into `__dict__[a]`
itself (overridable `spec_property`), `some s` = `setattr(instance, s, value)`. -/
def Desc.setTarget : Desc → Nat → Except Err (Option Nat)
  | .specProp _ _ _ (some s), _ => .ok (some s)
  | .specProp ov _ _ none, _ => if ov then .ok none else .error .attributeError
  | .alias target slot pass _, _ => .ok (some (if pass then target else slot))
  | .prop slot setter, _ => if setter then .ok (some slot) else .error .attributeError

/-- `object.__setattr__(obj, a, v)`: a data descriptor on the class wins over `__dict__`. -/
def storeVia (D : MCtx) : Nat → Ref → Nat → Ref → M Unit
  | 0, _, _, _ => throwPy .runtimeError
  | fuel+1, obj, a, v => do
    let p ← getInst obj
    match D.desc p.2.1 a with
    | none => rawSet obj a v
    | some d =>
      match d.setTarget a with
      | .error e => throwPy e
      | .ok none => rawSet obj a v        -- `instance.__dict__[name] = value`
      | .ok (some s) => setattrWith D.X (storeVia D fuel) obj s v

/-- `obj.a = v`. -/
def setAttrM (D : MCtx) (obj : Ref) (a : Nat) (v : Ref) : M Unit :=
  setattrWith D.X (storeVia D D.depth) obj a v

/-- `mutate_attr(obj, a, v, inplace)` (type_check=True, force=False). -/
def mutateAttrM (D : MCtx) (obj : Ref) (a : Nat) (v : Ref) (inplace : Bool) : M Ref :=
  if v = .sc .missing then pure obj
  else do
    let p ← getInst obj
    let cd := D.X.cd p.2.1
    guardM (!p.2.2.1 && inplace && cd.frozen) .frozenInstanceError
    let h ← getHeap
    guardM (match cd.attr? a with
      | some d => !(typeOk D.X h d.kind v)
      | none => false) .typeError
    if !(inplace || cd.dnc) then do
      let target ← deepcopy D.X obj
      thawed D.X target (storeVia D D.depth target a v)
      pure target
    else do
      storeVia D D.depth obj a v
      pure obj

/-- `obj.with_<a>(v, _inplace=inplace)` (the helper exists for annotated attributes only). -/
def withAttrM (D : MCtx) (obj : Ref) (a : Nat) (v : Ref) (inplace : Bool) : M Ref := do
  let p ← getInst obj
  match (D.X.cd p.2.1).attr? a with
  | none => throwPy .attributeError
  | some d => do
    let v' ← prepareAttrValue0 D.X d v
    mutateAttrM D obj a v' inplace

/-! ## Deleting: `DelAttrMethod.__delattr__` -/

/-- `object.__delattr__` on the instance `__dict__`. -/
def dictDel (obj : Ref) (a : Nat) : M Unit := do
  let q ← getInst obj
  if alHas a q.2.2.2 then write q.1 (.inst q.2.1 q.2.2.1 (alDel a q.2.2.2))
  else throwPy .attributeError

/-- `delattr(obj, a)`. -/
def delVia (D : MCtx) : Nat → Ref → Nat → M Unit
  | 0, _, _ => throwPy .runtimeError
  | fuel+1, obj, a => do
    let p ← getInst obj
    let cd := D.X.cd p.2.1
    match D.desc p.2.1 a with
    | none =>
      if (cd.attr? a).isSome then delAttr D.X obj a false       -- plain managed attribute
      else do
        guardM (!p.2.2.1 && cd.frozen) .frozenInstanceError
        dictDel obj a
    | some d => do
      guardM (!p.2.2.1 && cd.frozen) .frozenInstanceError
      match d with
      | .specProp ov ca _ _ =>
        if ov || ca then dictDel obj a else throwPy .attributeError
      | .alias target slot pass _ => delVia D fuel obj (if pass then target else slot)
      | .prop _ _ => throwPy .attributeError

/-- `obj.reset_<a>(_inplace=inplace)`. -/
def resetAttrM (D : MCtx) (obj : Ref) (a : Nat) (inplace : Bool) : M Ref := do
  let p ← getInst obj
  match (D.X.cd p.2.1).attr? a with
  | none => throwPy .attributeError
  | some _ =>
    if !inplace then do
      let copy ← deepcopy D.X obj
      thawed D.X copy (delVia D D.depth copy a)
      pure copy
    else do
      delVia D D.depth obj a
      pure obj

/-! ## The operations of the protocol -/

inductive MOp
  | construct (c : Nat) (kw : List (Nat × Ref))     -- keywords for plain attributes only
  | deepcopy (r : Ref)
  | get (r : Ref) (a : Nat)
  | set (r : Ref) (a : Nat) (v : Ref)
  | del (r : Ref) (a : Nat)
  | withAttr (r : Ref) (a : Nat) (v : Ref) (inplace : Bool)
  | resetAttr (r : Ref) (a : Nat) (inplace : Bool)
  deriving Repr, Inhabited

def runMOp (D : MCtx) : MOp → M Ref
  | .construct c kw => D.X.make c kw
  | .deepcopy r => deepcopy D.X r
  | .get r a => readAttr D D.depth r a
  | .set r a v => do setAttrM D r a v; pure r
  | .del r a => do delVia D D.depth r a; pure r
  | .withAttr r a v ip => withAttrM D r a v ip
  | .resetAttr r a ip => resetAttrM D r a ip

/-- The operations that derive a new instance from an existing one. -/
def MOp.derives : MOp → Bool
  | .deepcopy _ => true
  | .withAttr _ _ _ ip => !ip
  | .resetAttr _ _ ip => !ip
  | _ => false

/-- Objects the caller hands to the call. -/
def MOp.args : MOp → List Ref
  | .withAttr _ _ v _ => [v]
  | .set _ _ v => [v]
  | .construct _ kw => kw.map (fun p => p.2)
  | _ => []

def mstep (D : MCtx) (h : Heap) (op : MOp) (faults : List (CbKind × Nat)) (budget : Option Nat) :
    Except Exn Ref × MS :=
  runMOp D op { heap := h, faults := faults, budget := budget }

/-- `try: m except Exception: None` (the injected crash is not an `Exception`). -/
def attempt {α} (m : M α) : M (Option α) :=
  tryCatch (do let a ← m; pure (some a)) (fun e => e != .boom) (pure none)

/-- Everything `obj` shows through the attributes `as`: the values of the reads
that succeed (`getattr(obj, a)` for `a` in `as`, failures skipped). -/
def readAll (D : MCtx) (r : Ref) : List Nat → M (List Ref)
  | [] => pure []
  | a :: as => do
    let v ← attempt (readAttr D D.depth r a)
    let vs ← readAll D r as
    pure (match v with
      | some v => v :: vs
      | none => vs)

end SpecVerif.C02Masked
