import SpecVerif.Model.C05
/-!
# C03 — managed attributes always satisfy their declared type: Impl model of every mutation route

On top of the value-level model of C05 (`construct`, `setAttrV`, `delAttrV`, the scalar and
top-level helpers, `mutateValue`, `prepareAttrValue`, `collPrepare`, `conforms` = `check_type`)
this file adds

* the element helpers of list / dict / set attributes
  (`spec_classes/collections/{base,sequences,mappings,sets}.py`:
  `_mutate_collection`, `_extractor`, `_inserter`, `add_item`, `transform_item`, `remove_item`;
  `spec_classes/methods/collections/*.py`: `with_/update_/transform_/without_<item>`, which hand the
  edited collection to `mutate_attr(type_check=False)`),
* the invariant `wt` (every managed attribute that is set conforms to its annotation — element, key and
  value types, Union/Optional alternatives, Literal choices, nested spec classes, recursively; `conformsDeep`:
  also for container classes `check_type` does not look inside),
* `step`: one API call of any route, and `Reachable`: all histories.

Core Lean only.
-/
namespace SpecVerif.C03
open SpecVerif.Py SpecVerif.C05

/-! ## the invariant -/

/-- What the property demands of the value a managed attribute holds: `check_type` (`conforms`), and, for the
container classes `check_type` does not look inside (the abstract collection generics `MutableSequence[t]`,
`MutableSet[t]`, `MutableMapping[k, v]`), also the element / key / value types. For every other annotation
this is `conforms` itself (`conformsDeep_eq`). -/
def conformsDeep (E : Env) (ty : Ty) (v : Val) : Bool :=
  conforms E ty v &&
    (match ty, v with
     | .mseq t, .list xs => xs.all (conforms E t)
     | .mset t, .set xs => xs.all (conforms E t)
     | .mmap k w, .dict kvs => kvs.all (fun k' v' => conforms E k k' && conforms E w v')
     | _, _ => true)

mutual
/-- every spec instance inside the value has only conforming managed attributes (deep) -/
def wt (E : Env) : Val → Bool
  | .sc _ => true
  | .list xs => wtVals E xs
  | .set xs => wtVals E xs
  | .dict kvs => wtKVs E kvs
  | .inst c fs => wtFlds E c fs
def wtVals (E : Env) : Vals → Bool
  | .nil => true
  | .cons v vs => wt E v && wtVals E vs
def wtKVs (E : Env) : KVs → Bool
  | .nil => true
  | .cons k v r => wt E k && wt E v && wtKVs E r
def wtFlds (E : Env) (c : Nat) : Flds → Bool
  | .nil => true
  | .cons a v r =>
    (v == MISSING ||
      ((match E.attr? c a with
        | some sp => conformsDeep E sp.ty v
        | none => true) && wt E v)) && wtFlds E c r
end

/-- `WellTyped`: the invariant of the property on a value (an instance, or anything containing instances) -/
def WellTyped (E : Env) (v : Val) : Prop := wt E v = true

/-! ## element helpers -/

/-- the `_by_index` argument of the sequence helpers -/
inductive ByIndex | auto | yes | no
  deriving DecidableEq, Repr

/-- `value in collection` / `collection[key]` need a hashable value -/
def hashable : Val → Bool
  | .sc _ => true
  | .inst _ _ => true
  | _ => false

/-- an `int` (or `bool`) used as a list index -/
def asIndex : Val → Option Int
  | .sc (.int i) => some i
  | .sc (.bool b) => some (if b then 1 else 0)
  | _ => none

def listGet? : List Val → Nat → Option Val
  | [], _ => none
  | x :: _, 0 => some x
  | _ :: xs, n+1 => listGet? xs n

/-- the item pipeline of `_mutate_collection`:
`mutate_value(old_item, new_value=…, prepare=prepare_item, constructor=item_constructor,
expected_type=item_type, transform=…, replace=…)` -/
def itemMutate (E : Env) (n : Nat) (inst : Val) (sp : AttrSpec) (itemTy : Ty) (old new : Val)
    (f : Option Tr) (replace : Bool) : Except Err Val :=
  mutateValue E n old
    { new := new, replace := replace, prepare := sp.itemPrep.map (fun p => E.prep p inst),
      ty := some itemTy, transform := f }

/-- `by_index` resolved: when not given, a value that conforms to the item type is looked up by value -/
def byIndexOf (E : Env) (itemTy : Ty) (voi : Val) : ByIndex → Bool
  | .yes => true
  | .no => false
  | .auto => !conforms E itemTy voi

/-- `SequenceMutator._extractor`: the index (`none`: append) and the existing item -/
def seqExtract (E : Env) (itemTy : Ty) (xs : List Val) (voi : Val) (raise : Bool) (by_ : ByIndex) :
    Except Err (Option Int × Val) :=
  if voi = MISSING then .ok (none, MISSING)
  else
    if byIndexOf E itemTy voi by_ then
      match asIndex voi with
      | none => .error .typeError
      | some i =>
        match pyIdx xs.length i with
        | some k => .ok (some i, (listGet? xs k).getD MISSING)
        | none => if raise then .error .indexError else .ok (some i, MISSING)
    else
      match xs.findIdx? (fun x => x == voi) with
      | some k => .ok (some (Int.ofNat k), voi)
      | none => if raise then .error .valueError else .ok (none, voi)

/-- `SequenceMutator._inserter` -/
def seqInsert (E : Env) (itemTy : Ty) (xs : List Val) (idx : Option Int) (item : Val) (insert : Bool) :
    Except Err (List Val) :=
  if !conforms E itemTy item then .error .valueError
  else match idx with
    | none => .ok (xs ++ [item])
    | some i =>
      if insert then .ok (pyInsert xs i item)
      else match pyIdx xs.length i with
        | some k => .ok (xs.set k item)
        | none => .error .indexError

/-- the list currently held (`getattr(instance, name, MISSING)`, created when MISSING) -/
def curList (E : Env) (recv : Val) (sp : AttrSpec) : Except Err (List Val) :=
  match E.getAttr recv sp.name with
  | .list xs => .ok xs.toList
  | v => if v = MISSING then .ok [] else .error .attributeError

def curSet (E : Env) (recv : Val) (sp : AttrSpec) : Except Err (List Val) :=
  match E.getAttr recv sp.name with
  | .set xs => .ok xs.toList
  | v => if v = MISSING then .ok [] else .error .attributeError

def curDict (E : Env) (recv : Val) (sp : AttrSpec) : Except Err KVs :=
  match E.getAttr recv sp.name with
  | .dict kvs => .ok kvs
  | v => if v = MISSING then .ok .nil else .error .attributeError

def KVs.erase (k : Val) : KVs → KVs
  | .nil => .nil
  | .cons k' v r => if k' = k then r else .cons k' v (KVs.erase k r)

/-- `mutate_attr(obj, attr, value=<edited collection>, inplace=…, type_check=False)` -/
def storeColl (E : Env) (recv : Val) (sp : AttrSpec) (coll : Val) (inplace : Bool) : Outcome :=
  outcomeOf recv (E.invalidate (recv.setField sp.name coll) sp.name) inplace

/-- an element operation -/
inductive EOp
  | seqWith (item index : Val) (insert : Bool)
  | seqUpdate (voi new : Val) (by_ : ByIndex)
  | seqTransform (voi : Val) (f : Tr) (by_ : ByIndex)
  | seqWithout (voi : Val) (by_ : ByIndex)
  | mapWith (k v : Val)
  | mapUpdate (k new : Val)
  | mapTransform (k : Val) (f : Tr)
  | mapWithout (k : Val)
  | setWith (item : Val)
  | setUpdate (item new : Val)
  | setTransform (item : Val) (f : Tr)
  | setWithout (item : Val)

/-- sequence helpers: the new list (`SequenceMutator.add_item / transform_item / remove_item`) -/
def seqColl (E : Env) (n : Nat) (recv : Val) (sp : AttrSpec) (t : Ty) (xs : List Val) : EOp → Except Err (List Val)
  | .seqWith item index insert => do
    let (idx, old) ← seqExtract E t xs index (index != MISSING && !insert) .yes
    let new ← itemMutate E n recv sp t old item none true
    seqInsert E t xs idx new insert
  | .seqUpdate voi new by_ => do
    let (idx, old) ← seqExtract E t xs voi (voi != MISSING) by_
    let it ← itemMutate E n recv sp t old new none false
    seqInsert E t xs idx it false
  | .seqTransform voi f by_ => do
    let (idx, old) ← seqExtract E t xs voi true by_
    let it ← itemMutate E n recv sp t old MISSING (some f) false
    seqInsert E t xs idx it false
  | .seqWithout voi by_ => do
    let (idx, _) ← seqExtract E t xs voi true by_
    match idx with
    | none => pure xs
    | some i => match pyIdx xs.length i with
      | some k => pure (xs.eraseIdx k)
      | none => .error .indexError
  | _ => .error .attributeError

/-- the checking `MappingMutator._inserter` -/
def mapInsert (E : Env) (kt vt : Ty) (kvs : KVs) (k it : Val) : Except Err KVs :=
  if !conforms E vt it then .error .valueError
  else if !conforms E kt k then .error .valueError
  else .ok (kvs.set k it)

/-- mapping helpers: the new dict -/
def mapColl (E : Env) (n : Nat) (recv : Val) (sp : AttrSpec) (kt vt : Ty) (kvs : KVs) : EOp → Except Err KVs
  | .mapWith k v =>
    if !hashable k then .error .typeError else do
    let it ← itemMutate E n recv sp vt ((kvs.get? k).getD MISSING) v none true
    mapInsert E kt vt kvs k it
  | .mapUpdate k new =>
    if !hashable k then .error .typeError else
    match kvs.get? k with
    | none => .error .keyError
    | some old => do
      let it ← itemMutate E n recv sp vt old new none false
      mapInsert E kt vt kvs k it
  | .mapTransform k f =>
    if !hashable k then .error .typeError else
    match kvs.get? k with
    | none => .error .keyError
    | some old => do
      let it ← itemMutate E n recv sp vt old MISSING (some f) false
      mapInsert E kt vt kvs k it
  | .mapWithout k =>
    if !hashable k then .error .typeError else
    match kvs.get? k with
    | none => .error .keyError
    | some _ => .ok (KVs.erase k kvs)
  | _ => .error .attributeError

/-- `collection.discard(index)` when an element is being replaced -/
def discardOpt (xs : List Val) : Option Val → List Val
  | some i => xs.filter (fun x => x != i)
  | none => xs

/-- `collection.add(item)` -/
def addToSet (xs : List Val) (it : Val) : List Val := if xs.contains it then xs else xs ++ [it]

/-- the checking `SetMutator._inserter` (`discard(index)` then `add(item)`) -/
def setInsert (E : Env) (t : Ty) (xs : List Val) (index : Option Val) (it : Val) : Except Err (List Val) :=
  if !conforms E t it then .error .valueError
  else if !hashable it then .error .typeError
  else .ok (addToSet (discardOpt xs index) it)

/-- set helpers: the new set (as a duplicate-free list) -/
def setColl (E : Env) (n : Nat) (recv : Val) (sp : AttrSpec) (t : Ty) (xs : List Val) : EOp → Except Err (List Val)
  | .setWith item => do
    let it ← itemMutate E n recv sp t MISSING item none true
    setInsert E t xs none it
  | .setUpdate item new =>
    if !hashable item then .error .typeError else
    if !xs.contains item then .error .valueError else do
    let it ← itemMutate E n recv sp t item new none false
    setInsert E t xs (some item) it
  | .setTransform item f =>
    if !hashable item then .error .typeError else
    if !xs.contains item then .error .valueError else do
    let it ← itemMutate E n recv sp t item MISSING (some f) false
    setInsert E t xs (some item) it
  | .setWithout item =>
    if !hashable item then .error .typeError else
    if !xs.contains item then .error .valueError else
    .ok (xs.filter (fun x => x != item))
  | _ => .error .attributeError

/-- the new collection an element helper builds (`attr_spec.get_collection_mutator(self).<op>(…).collection`) -/
def elemColl (E : Env) (n : Nat) (recv : Val) (sp : AttrSpec) (op : EOp) : Except Err Val :=
  -- `if self.collection is MISSING: self.collection = self._create_collection()`: TypeError for an abstract class
  if sp.ty.isAbstract && E.getAttr recv sp.name == MISSING then .error .typeError else
  match sp.ty with
  | .list t | .mseq t => do
    let xs ← curList E recv sp
    let ys ← seqColl E n recv sp t xs op
    pure (.list (Vals.ofList ys))
  | .dict kt vt | .mmap kt vt => do
    let kvs ← curDict E recv sp
    let kvs' ← mapColl E n recv sp kt vt kvs op
    pure (.dict kvs')
  | .set t | .mset t => do
    let xs ← curSet E recv sp
    let ys ← setColl E n recv sp t xs op
    pure (.set (Vals.ofList ys))
  | _ => .error .attributeError

/-- the element helpers exist for the matching kind of collection attribute only -/
def kindMatches : Ty → EOp → Bool
  | .list _, .seqWith .. | .list _, .seqUpdate .. | .list _, .seqTransform .. | .list _, .seqWithout .. => true
  | .dict _ _, .mapWith .. | .dict _ _, .mapUpdate .. | .dict _ _, .mapTransform .. | .dict _ _, .mapWithout .. => true
  | .set _, .setWith .. | .set _, .setUpdate .. | .set _, .setTransform .. | .set _, .setWithout .. => true
  | .mseq _, .seqWith .. | .mseq _, .seqUpdate .. | .mseq _, .seqTransform .. | .mseq _, .seqWithout .. => true
  | .mmap _ _, .mapWith .. | .mmap _ _, .mapUpdate .. | .mmap _ _, .mapTransform .. | .mmap _ _, .mapWithout .. => true
  | .mset _, .setWith .. | .mset _, .setUpdate .. | .mset _, .setTransform .. | .mset _, .setWithout .. => true
  | _, _ => false

/-- an element helper call: `with_/update_/transform_/without_<item>(…, _inplace=…, _if=…)` -/
def elemRun (E : Env) (n : Nat) (recv : Val) (a : Nat) (op : EOp) (inplace cond : Bool) : Outcome :=
  match specOf E recv a with
  | none => ⟨recv, .raised .attributeError⟩
  | some sp =>
    if !kindMatches sp.ty op then ⟨recv, .raised .attributeError⟩
    else if !cond then ⟨recv, .receiver⟩
    else match elemColl E n recv sp op with
      | .error e => ⟨recv, .raised e⟩
      | .ok coll => storeColl E recv sp coll inplace

/-! ## every API route -/

inductive Route
  /-- `with_/update_/transform_/reset_<attr>`, `obj.a = v`, `del obj.a`, `update/transform/reset`
  (values, keywords incl. nested keyword updates and dict-to-spec casting, preparers) -/
  | api (c : Call)
  /-- element helpers with index / key / value addressing (item preparers) -/
  | elem (a : Nat) (op : EOp) (inplace cond : Bool)

/-- one API call on the receiver -/
def step (E : Env) (n : Nat) (recv : Val) : Route → Outcome
  | .api c => run E n recv c
  | .elem a op i cnd => elemRun E n recv a op i cnd

end SpecVerif.C03
