import SpecVerif.Model.C05
/-!
# C03 — where the managed TYPE of an attribute comes from: Impl model of `spec_class.bootstrap`

`Model/C05.lean` / `Model/C03.lean` take the class table (`ClassSpec`: the managed attributes of a class with
their types, defaults, preparers) as given.  This file models the step that *produces* that table from what the
user wrote: `spec_classes/spec_class.py : spec_class.__init__` (decorator options) and `spec_class.bootstrap`
(+ `build_attr_spec`, `SpecClassMetadata.for_class`, `Attr.from_attr_value`), step by step:

| Python | Lean |
|---|---|
| the class body: annotations, class-level values (`a = v`, `Attr(default=…)`, `dataclasses.field(…)`, default factories, an overridable `spec_property`), `_prepare_<a>` / `_prepare_<item>` methods | `Entry`, `Body` |
| decorator options `attrs=`, `attrs_typed=`, `attrs_skip=`, `key=`, `init_overflow_attr=` | `Decl` |
| `self.inherit_annotations`, `self.attrs` (`attrs` → the `Any` placeholder, then `attrs_typed`, then the overflow attribute as `Dict[str, Any]`) | `Decl.inheritAnn`, `Decl.selfAttrs` |
| `managed_attrs` (own annotations minus `attrs_skip`, then the keys of `self.attrs`) | `Decl.managed` |
| `typing.get_type_hints(spec_cls)`: own annotations, then those of the ancestors (as they are after THEIR bootstrap, which adds the types of attributes declared through the decorator only) | `hints` |
| `attr_types`: the decorator's type unless it is the `Any` placeholder, else the type hint, else `Any` | `attrType` |
| `getattr(spec_cls, attr, MISSING)` through the MRO, after the ancestors' bootstrap replaced `Attr` / `Field` declarations by their default (or the MISSING sentinel) | `Body.after`, `nsLookup` |
| `build_attr_spec` (default, masking descriptor, `_prepare_<a>`, `_prepare_<item>` only for collection types) | `buildSpec` |
| inherited `Attr`s: kept; rebuilt with the INHERITED type when only re-defaulted; replaced when managed by this class (position kept, new ones appended); the key attribute added without helpers | `bootstrap` |
| `__annotations__` completed for the attributes this class owns | `RClass.anns` |
| a plain (undecorated) subclass: inherits the metadata, `lookup_default_value` sees its class-body overrides | `bootstrap` (`isSpec = false`) |
| `InitMethod.init`: owners root-most first, metadata order within; the overflow attribute is stored last (`{}` when there are no extra keywords) | `RClass.initOrder`, `constructB` |
| lazy bootstrap: on first use, parents first (`hasattr(parent, "__spec_class__")`) | `useClass`, `runUses` (eager, in definition order: `bootAll`) |

Not modelled: `do_not_copy`, `frozen`, `init/repr/eq`, `invalidated_by` declared in a `Decl` (inherited ones are
carried along), `ANNOTATION_TYPES`, the renaming of clashing item names, multiple inheritance.
A declaration is assumed to put `Attr(...)` / `field(...)` values only on attributes the class manages or inherits
(others would stay `Attr` objects on the class).

Core Lean only.
-/
namespace SpecVerif.C03Boot
open SpecVerif.Py SpecVerif.C05

/-! ## what the user writes -/

/-- the class-level value of a name in a class body -/
inductive Body
  | absent
  | value (v : Val)        -- `a = v`
  | dflt (v : Val)         -- `a = Attr(default=v)` / `dataclasses.field(default=v)`
  | factory (v : Val)      -- `Attr(default_factory=…)` / `field(default_factory=…)` producing `v`
  | bare                   -- `Attr()` / `field()` without a default
  | prop (v : Val)         -- an overridable `spec_property` whose getter returns `v`
  deriving DecidableEq

/-- what `getattr(cls, a)` finds on a class once bootstrap has lifted the declaration -/
inductive CV
  | value (v : Val)
  | missing                -- the MISSING sentinel bootstrap leaves for a declaration without a default value
  | descr (v : Val)        -- a masking descriptor (getter value `v`)
  deriving DecidableEq

def Body.after : Body → Option CV
  | .absent => none
  | .value v => some (.value v)
  | .dflt v => some (.value v)
  | .factory _ => some .missing
  | .bare => some .missing
  | .prop v => some (.descr v)

/-- `isinstance(spec_cls.__dict__.get(attr), (Attr, dataclasses.Field))` -/
def Body.redeclared : Body → Bool
  | .dflt _ | .factory _ | .bare => true
  | _ => false

/-- one name of a class body -/
structure Entry where
  name : Nat
  ann : Option Ty := none
  body : Body := .absent
  /-- `_prepare_<name>` defined in this class body (index into the preparer pool) -/
  prep : Option Nat := none
  /-- `_prepare_<item name>` defined in this class body -/
  itemPrep : Option Nat := none
  deriving DecidableEq

inductive KeyOpt
  | inherit                -- `key` not given
  | disabled               -- `key=None`
  | named (a : Nat)
  deriving DecidableEq

/-- a class statement with its `@spec_class(...)` decorator (`isSpec = false`: an undecorated subclass) -/
structure Decl where
  id : Nat
  isSpec : Bool := true
  base : Option Nat := none
  entries : List Entry := []
  attrs : List Nat := []
  attrsTyped : List (Nat × Ty) := []
  attrsSkip : Option (List Nat) := none
  key : KeyOpt := .inherit
  ovf : Option Nat := none

/-! ## what bootstrap produces -/

/-- an entry of `__spec_class__.attrs` with the class that owns it -/
structure RAttr where
  spec : AttrSpec
  owner : Nat
  deriving DecidableEq

/-- a class after bootstrap (or an undecorated class) -/
structure RClass where
  id : Nat
  attrs : List RAttr := []
  key : Option Nat := none
  ovf : Option Nat := none
  /-- the ancestors, nearest first -/
  supers : List Nat := []
  /-- `cls.__annotations__` (own) after bootstrap -/
  anns : List (Nat × Ty) := []
  /-- `cls.__dict__` (own class-level values) after bootstrap -/
  ns : List (Nat × CV) := []
  preps : List (Nat × Nat) := []
  ipreps : List (Nat × Nat) := []
  deriving DecidableEq

/-- a Python dict as an association list in insertion order: `d[k] = v` -/
def dictSet {β : Type} (m : List (Nat × β)) (k : Nat) (v : β) : List (Nat × β) :=
  if m.any (·.1 == k) then m.map (fun p => if p.1 == k then (k, v) else p) else m ++ [(k, v)]

def dictGet {β : Type} (m : List (Nat × β)) (k : Nat) : Option β := (m.find? (·.1 == k)).map (·.2)

def Decl.entry? (d : Decl) (a : Nat) : Option Entry := d.entries.find? (·.name == a)
def Decl.bodyOf (d : Decl) (a : Nat) : Body := ((d.entry? a).map (·.body)).getD .absent
/-- the class body's own annotations, in order -/
def Decl.ownAnns (d : Decl) : List (Nat × Ty) :=
  d.entries.filterMap (fun e => e.ann.map (fun t => (e.name, t)))

/-- `self.inherit_annotations = not (attrs or attrs_typed) or attrs_skip is not MISSING` -/
def Decl.inheritAnn (d : Decl) : Bool :=
  !(!d.attrs.isEmpty || !d.attrsTyped.isEmpty) || d.attrsSkip.isSome

/-- `self.attrs`: `{**{a: Any for a in attrs}, **attrs_typed, **({ovf: Dict[str, Any]} if ovf else {})}` -/
def Decl.selfAttrs (d : Decl) : List (Nat × Ty) :=
  let m := d.attrs.foldl (fun m a => dictSet m a Ty.any) []
  let m := d.attrsTyped.foldl (fun m p => dictSet m p.1 p.2) m
  match d.ovf with
  | some o => dictSet m o (.dict .str .any)
  | none => m

/-- `managed_attrs` (a name that is annotated AND named by the decorator occurs twice; the code keeps the first
occurrence -- `dict.fromkeys` --, here the second `upsert` replaces the entry by an identical one at the same place) -/
def Decl.managed (d : Decl) : List Nat :=
  (if d.inheritAnn then
      (d.ownAnns.map (·.1)).filter (fun a => !((d.attrsSkip.getD []).contains a))
    else []) ++ d.selfAttrs.map (·.1)

/-- `typing.get_type_hints(spec_cls).get(a)`: the class's own annotation, else the nearest ancestor's -/
def hints (chain : List RClass) (d : Decl) (a : Nat) : Option Ty :=
  match dictGet d.ownAnns a with
  | some t => some t
  | none => chain.findSome? (fun R => dictGet R.anns a)

/-- `attr_types[a]` -/
def attrType (chain : List RClass) (d : Decl) (a : Nat) : Ty :=
  match dictGet d.selfAttrs a with
  | some t => if t ≠ .any then t else (hints chain d a).getD .any
  | none => (hints chain d a).getD .any

/-- `getattr(parent, a, MISSING)` through the ancestors -/
def nsLookup (chain : List RClass) (a : Nat) : Option CV := chain.findSome? (fun R => dictGet R.ns a)

/-- `getattr(spec_cls, "_prepare_<a>", MISSING)` -/
def prepLookup (chain : List RClass) (d : Decl) (a : Nat) : Option Nat :=
  match (d.entry? a).bind (·.prep) with
  | some p => some p
  | none => chain.findSome? (fun R => dictGet R.preps a)

def iprepLookup (chain : List RClass) (d : Decl) (a : Nat) : Option Nat :=
  match (d.entry? a).bind (·.itemPrep) with
  | some p => some p
  | none => chain.findSome? (fun R => dictGet R.ipreps a)

/-- (default, class attribute) of an attribute whose spec is built by this class -/
def defaultOf (chain : List RClass) (d : Decl) (a : Nat) : Option Val × Option Val :=
  match d.bodyOf a with
  | .value v => (some v, some v)
  | .dflt v => (some v, some v)
  | .factory v => (some v, none)
  | .bare => (none, none)
  | .prop v => (none, some v)
  | .absent =>
    match nsLookup chain a with
    | some (.value v) => (some v, some v)
    | some .missing => (none, none)
    | some (.descr v) => (none, some v)
    | none => (none, none)

/-- `build_attr_spec(spec_cls, a, t)` -/
def buildSpec (chain : List RClass) (d : Decl) (a : Nat) (t : Ty) (inv : List Nat := []) : AttrSpec :=
  { name := a, ty := t
    default := (defaultOf chain d a).1
    classAttr := (defaultOf chain d a).2
    prep := prepLookup chain d a
    itemPrep := if t.isCollection then iprepLookup chain d a else none
    invalidatedBy := inv }

/-- `metadata.attrs[a] = spec`: an existing key keeps its position -/
def upsert (m : List RAttr) (r : RAttr) : List RAttr :=
  if m.any (·.spec.name == r.spec.name) then m.map (fun x => if x.spec.name == r.spec.name then r else x)
  else m ++ [r]

/-- is `a` a key of `attr_types` (`[self.key, *managed_attrs]`)? -/
def Decl.typed? (d : Decl) (a : Nat) : Bool :=
  d.managed.contains a || d.key == .named a

/-- the inherited `Attr`s this class does not type itself: kept, or rebuilt with the inherited type when the class
body gives them a new value -/
def inheritStep (chain : List RClass) (d : Decl) (ra : RAttr) : RAttr :=
  if d.typed? ra.spec.name then ra
  else match d.bodyOf ra.spec.name with
    | .absent => ra
    | b =>
      { spec := buildSpec chain d ra.spec.name ra.spec.ty (if b.redeclared then [] else ra.spec.invalidatedBy)
        owner := if b.redeclared then d.id else ra.owner }

def parentOf (chain : List RClass) : RClass := chain.head?.getD { id := 0 }

/-- a plain subclass: its class-body values are what `lookup_default_value` and `getattr` find first -/
def overrideStep (d : Decl) (ra : RAttr) : RAttr :=
  match d.bodyOf ra.spec.name with
  | .value v => { ra with spec := { ra.spec with default := some v, classAttr := some v } }
  | _ => ra

/-- `spec_class.bootstrap(spec_cls)` given the (bootstrapped) ancestors, nearest first -/
def bootstrap (chain : List RClass) (d : Decl) : RClass :=
  let P := parentOf chain
  if !d.isSpec then
    { id := d.id, attrs := P.attrs.map (overrideStep d), key := P.key, ovf := P.ovf
      supers := chain.map (·.id), anns := d.ownAnns
      ns := d.entries.filterMap (fun e => e.body.after.map (fun c => (e.name, c)))
      preps := d.entries.filterMap (fun e => e.prep.map (fun p => (e.name, p)))
      ipreps := d.entries.filterMap (fun e => e.itemPrep.map (fun p => (e.name, p))) }
  else
    let step1 := P.attrs.map (inheritStep chain d)
    let step2 := d.managed.foldl
      (fun m a => upsert m { spec := buildSpec chain d a (attrType chain d a), owner := d.id }) step1
    let step3 := match d.key with
      | .named k =>
        if step2.any (·.spec.name == k) then step2
        else step2 ++ [{ spec := buildSpec chain d k (attrType chain d k), owner := d.id }]
      | _ => step2
    { id := d.id, attrs := step3
      key := match d.key with
        | .inherit => P.key
        | .disabled => none
        | .named k => some k
      ovf := match d.ovf with
        | some o => some o
        | none => P.ovf
      supers := chain.map (·.id)
      anns := d.ownAnns ++ (step3.filter (fun r => r.owner == d.id && (dictGet d.ownAnns r.spec.name).isNone)).map
        (fun r => (r.spec.name, r.spec.ty))
      ns := d.entries.filterMap (fun e => e.body.after.map (fun c => (e.name, c)))
      preps := d.entries.filterMap (fun e => e.prep.map (fun p => (e.name, p)))
      ipreps := d.entries.filterMap (fun e => e.itemPrep.map (fun p => (e.name, p))) }

def RClass.attr? (R : RClass) (a : Nat) : Option AttrSpec := (R.attrs.find? (·.spec.name == a)).map (·.spec)

/-- `InitMethod.init`: the attributes owned by the root-most class first (metadata order within one owner); the
overflow attribute is not initialised by the loop -/
def RClass.initOrder (R : RClass) : List Nat :=
  ((R.supers.reverse ++ [R.id]).flatMap (fun X => (R.attrs.filter (·.owner == X)).map (·.spec.name))).filter
    (fun a => R.ovf != some a)

/-- the class table entry the value-level model (`Model/C05.lean`, `Model/C03.lean`) works with -/
def RClass.toSpec (R : RClass) : ClassSpec :=
  { id := R.id, attrs := R.attrs.map (·.spec), initOrder := R.initOrder, key := R.key, supers := R.supers }

/-! ## a program: class statements in definition order -/

/-- the bootstrapped ancestors of a class with base `b`, nearest first (`RClass.supers` names all of them) -/
def chainOf (W : List RClass) : Option Nat → List RClass
  | none => []
  | some b =>
    match W.find? (·.id == b) with
    | none => []
    | some R => R :: R.supers.filterMap (fun s => W.find? (·.id == s))

/-- bootstrap `d` against the world `W` of classes bootstrapped so far -/
def bootIn (W : List RClass) (d : Decl) : RClass := bootstrap (chainOf W d.base) d

/-- eager bootstrap, in definition order -/
def bootAll (ds : List Decl) : List RClass := ds.foldl (fun W d => W ++ [bootIn W d]) []

/-- lazy bootstrap: the first use of class `c` (instantiation, or a look at `__spec_class__`) bootstraps it; `bootstrap`
begins by looking at `__spec_class__` of the base class, which bootstraps that one first, and so on (`n` bounds the
depth of the recursion; with too little of it the class is left as it is) -/
def useClass (ds : List Decl) : Nat → List RClass → Nat → List RClass
  | 0, W, _ => W
  | n+1, W, c =>
    if W.any (·.id == c) then W
    else match ds.find? (·.id == c) with
      | none => W
      | some d =>
        let W' := match d.base with
          | some b => useClass ds n W b
          | none => W
        if (match d.base with
            | some b => W'.any (·.id == b)
            | none => true) then W' ++ [bootIn W' d] else W'

/-- a history of first uses, in any order -/
def runUses (ds : List Decl) (n : Nat) (us : List Nat) : List RClass := us.foldl (useClass ds n) []

/-! ## the constructor of a class that collects extra keywords -/

/-- `InitMethod.init` of a class with `init_overflow_attr`: after every other attribute, the overflow attribute
receives the dict of the extra keywords (`{}` here: the histories of this property pass none) -/
def constructB (E : Env) (ovf : Option Nat) (n c : Nat) (kw : Kw) : Except Err Val :=
  match construct E n c kw with
  | .error e => .error e
  | .ok v =>
    match ovf with
    | some o => .ok (v.setField o (.dict .nil))
    | none => .ok v

end SpecVerif.C03Boot
