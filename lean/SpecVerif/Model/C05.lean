import SpecVerif.Model.Py
/-!
# C05 — value-level Impl model of the scalar and top-level helpers

Mirrors, function by function (after the `fix:` commits in /repo):

* `spec_classes/utils/type_checking.py : check_type`           → `conforms`
* `spec_classes/utils/mutation.py     : mutate_value`          → `mutateValue` (the eight numbered steps, in order)
* `spec_classes/utils/mutation.py     : prepare_attr_value`    → `prepareAttrValue`
* `spec_classes/utils/mutation.py     : mutate_attr`           → `mutateAttrV`
* `spec_classes/collections/base.py   : CollectionAttrMutator.prepare / add_items` → `collPrepare`, `addItems*`
* `spec_classes/methods/core.py       : InitMethod.init`       → `construct`
* `spec_classes/methods/core.py       : SetAttrMethod`         → `setAttrV`
* `spec_classes/methods/core.py       : DelAttrMethod`         → `delAttrV`
* `spec_classes/methods/scalar.py     : with_/update_/transform_/reset_<attr>` → `withAttr`, `updateAttr`, `transformAttr`, `resetAttr`
* `spec_classes/methods/toplevel.py   : update/transform/reset` → `updateTop`, `transformTop`, `resetTop`

Value level: no object identities. The single bit of identity the property
talks about ("the receiver itself is returned") is kept in `Ref`.
`copy.deepcopy` is the identity on values. User callbacks (preparers, item
preparers, transforms) are arbitrary pure total functions.

Recursion (`setattr` on a nested value prepares a value, which may construct a
nested instance, whose constructor assigns attributes, …) is by fuel; running
out of fuel is Python's `RecursionError` (a `RuntimeError`). Every theorem
holds for every amount of fuel.

Core Lean only.
-/
namespace SpecVerif.C05
open SpecVerif.Py

/-! ## Values -/

inductive Sent | missing | empty | unchanged
  deriving DecidableEq, Repr

/-- Immutable scalars. `flt t` is the float `t / 2`; `str n` is the n-th string of
the harness' string table (`upper n = n + 1000` for `n < 900`; 999 is `""`). -/
inductive Scalar
  | none | bool (b : Bool) | int (n : Int) | flt (t : Int) | str (s : Nat) | sent (k : Sent)
  deriving DecidableEq, Repr

mutual
inductive Val
  | sc (s : Scalar)
  | list (xs : Vals)
  | set (xs : Vals)                 -- duplicate free, insertion ordered (printed sorted)
  | dict (kvs : KVs)                -- insertion ordered
  | inst (c : Nat) (fs : Flds)      -- instance of spec class `c`; a field holding MISSING is "not set"
inductive Vals | nil | cons (v : Val) (vs : Vals)
inductive KVs | nil | cons (k : Val) (v : Val) (rest : KVs)
inductive Flds | nil | cons (a : Nat) (v : Val) (rest : Flds)
end
deriving instance DecidableEq for Val, Vals, KVs, Flds

instance exceptDecEq {ε α : Type} [DecidableEq ε] [DecidableEq α] : DecidableEq (Except ε α)
  | .ok a, .ok b => if h : a = b then isTrue (by rw [h]) else isFalse (by intro h'; cases h'; exact h rfl)
  | .error a, .error b => if h : a = b then isTrue (by rw [h]) else isFalse (by intro h'; cases h'; exact h rfl)
  | .ok _, .error _ => isFalse (by intro h; cases h)
  | .error _, .ok _ => isFalse (by intro h; cases h)

abbrev MISSING : Val := .sc (.sent .missing)
abbrev EMPTY : Val := .sc (.sent .empty)
abbrev UNCHANGED : Val := .sc (.sent .unchanged)
abbrev NONE : Val := .sc .none

/-- `value is MISSING or value is EMPTY or value is UNCHANGED` -/
def Val.isSent : Val → Bool
  | .sc (.sent _) => true
  | _ => false

def Vals.toList : Vals → List Val
  | .nil => []
  | .cons v vs => v :: vs.toList
def Vals.ofList : List Val → Vals
  | [] => .nil
  | v :: vs => .cons v (Vals.ofList vs)
def Vals.all (p : Val → Bool) : Vals → Bool
  | .nil => true
  | .cons v vs => p v && vs.all p
def Vals.mem (x : Val) : Vals → Bool
  | .nil => false
  | .cons v vs => decide (v = x) || vs.mem x
def Vals.snoc : Vals → Val → Vals
  | .nil, x => .cons x .nil
  | .cons v vs, x => .cons v (vs.snoc x)
def Vals.isEmpty : Vals → Bool
  | .nil => true
  | _ => false

def KVs.all (p : Val → Val → Bool) : KVs → Bool
  | .nil => true
  | .cons k v r => p k v && r.all p
def KVs.get? (k : Val) : KVs → Option Val
  | .nil => none
  | .cons k' v r => if k' = k then some v else r.get? k
/-- `d[k] = v` (replace in place, else append: insertion order) -/
def KVs.set (k v : Val) : KVs → KVs
  | .nil => .cons k v .nil
  | .cons k' v' r => if k' = k then .cons k' v r else .cons k' v' (r.set k v)
def KVs.keys : KVs → Vals
  | .nil => .nil
  | .cons k _ r => .cons k r.keys
def KVs.toList : KVs → List (Val × Val)
  | .nil => []
  | .cons k v r => (k, v) :: r.toList
def KVs.isEmpty : KVs → Bool
  | .nil => true
  | _ => false

/-- `getattr(obj, a, MISSING)` on the instance dictionary. -/
def Flds.get (a : Nat) : Flds → Val
  | .nil => MISSING
  | .cons a' v r => if a' = a then v else r.get a
/-- `obj.__dict__[a] = v` -/
def Flds.set (a : Nat) (v : Val) : Flds → Flds
  | .nil => .cons a v .nil
  | .cons a' v' r => if a' = a then .cons a' v r else .cons a' v' (r.set a v)
def Flds.toList : Flds → List (Nat × Val)
  | .nil => []
  | .cons a v r => (a, v) :: r.toList

/-- `value.__dict__.get(a, MISSING)` on any value. -/
def Val.getAttr (a : Nat) : Val → Val
  | .inst _ fs => fs.get a
  | _ => MISSING

/-- raw `obj.__dict__[a] = v` on an instance value (identity on other values) -/
def Val.setField (obj : Val) (a : Nat) (v : Val) : Val :=
  match obj with
  | .inst c fs => .inst c (fs.set a v)
  | x => x

/-! ## Annotations and the class table (data) -/

inductive Ty
  | any | int | str | bool | float | none
  | lit (choices : List Scalar)
  | union (a b : Ty)                 -- `Optional[t]` = `union t none`; n-ary unions nest to the right
  | list (t : Ty) | set (t : Ty) | dict (k v : Ty)
  | spec (c : Nat)
  /-- a validated type (`validated(...)`, `bounded(...)`): the base annotation and the index of the
  value predicate in `Env.pred` -/
  | valid (base : Ty) (p : Nat)
  /-- the abstract collection generics `MutableSequence[t]`, `MutableSet[t]`, `MutableMapping[k, v]`
  (and, by the same token, every container annotation other than `List/Set/Dict/Tuple[...]`, e.g.
  `KeyedList[...]`): `check_type` looks at the container class only, and the class itself cannot be
  instantiated (`type_instantiate` raises TypeError) -/
  | mseq (t : Ty) | mset (t : Ty) | mmap (k v : Ty)
  deriving DecidableEq, Repr

structure AttrSpec where
  name : Nat
  ty : Ty
  /-- the default `lookup_default_value(type(self))` yields for this class (`none`: no default) -/
  default : Option Val := none
  /-- preparer (`_prepare_<attr>`), an index into `Env.prep` -/
  prep : Option Nat := none
  /-- item preparer (`_prepare_<item>`), an index into `Env.prep` -/
  itemPrep : Option Nat := none
  /-- what `getattr(obj, name)` finds on the class when the instance dictionary has no entry
  (a default written in the class body; `none` for factories and for no default) -/
  classAttr : Option Val := none
  /-- `invalidated_by`: writing one of these attributes deletes this one (back to its default) -/
  invalidatedBy : List Nat := []
  deriving DecidableEq

structure ClassSpec where
  id : Nat
  /-- `__spec_class__.attrs`, in metadata order -/
  attrs : List AttrSpec
  /-- attribute names in the order `InitMethod.init` assigns them (parents' attributes first) -/
  initOrder : List Nat
  key : Option Nat := none
  /-- the spec classes this class derives from (for `isinstance`) -/
  supers : List Nat := []

structure Env where
  classes : List ClassSpec
  /-- the preparer pool: `prep id instance value` (pure, total) -/
  prep : Nat → Val → Val → Val
  /-- the validators of validated types (pure, total predicates on values) -/
  pred : Nat → Val → Bool := fun _ _ => true

def Env.cls? (E : Env) (c : Nat) : Option ClassSpec := E.classes.find? (·.id == c)
def ClassSpec.attr? (cs : ClassSpec) (a : Nat) : Option AttrSpec := cs.attrs.find? (·.name == a)
def Env.attr? (E : Env) (c a : Nat) : Option AttrSpec := (E.cls? c).bind (·.attr? a)
/-- `isinstance(<instance of d>, c)` for spec classes -/
def Env.isSub (E : Env) (d c : Nat) : Bool :=
  d == c || (match E.cls? d with | some cs => cs.supers.contains c | none => false)

def AttrSpec.defaultVal (sp : AttrSpec) : Val := sp.default.getD MISSING

/-- `getattr(value, a, MISSING)`: the instance dictionary, then the class attribute. -/
def Env.getAttr (E : Env) (obj : Val) (a : Nat) : Val :=
  match obj with
  | .inst c fs =>
    if fs.get a = MISSING then
      match E.attr? c a with
      | some sp => sp.classAttr.getD MISSING
      | none => MISSING
    else fs.get a
  | _ => MISSING

/-- Python `==` between scalars as far as `value in Literal.__args__` needs it
(`True == 1`, `1.0 == 1`). -/
def Scalar.pyEq : Scalar → Scalar → Bool
  | .bool a, .int n => (if a then 1 else 0) == n
  | .int n, .bool a => (if a then 1 else 0) == n
  | .flt t, .int n => t == 2 * n
  | .int n, .flt t => t == 2 * n
  | .bool a, .flt t => t == (if a then 2 else 0)
  | .flt t, .bool a => t == (if a then 2 else 0)
  | a, b => a == b

/-- `check_type(value, attr_type)` on the modelled annotations. -/
def conforms (E : Env) : Ty → Val → Bool
  | .any, _ => true
  | .int, .sc (.int _) => true
  | .int, .sc (.bool _) => true
  | .str, .sc (.str _) => true
  | .bool, .sc (.bool _) => true
  | .float, .sc (.flt _) => true
  | .float, .sc (.int _) => true
  | .float, .sc (.bool _) => true
  | .none, .sc .none => true
  | .lit cs, .sc s => cs.any (fun c => c.pyEq s)
  | .union a b, v => conforms E a v || conforms E b v
  | .list t, .list xs => xs.all (conforms E t)
  | .set t, .set xs => xs.all (conforms E t)
  | .dict k v, .dict kvs => kvs.all (fun k' v' => conforms E k k' && conforms E v v')
  | .spec c, .inst d _ => E.isSub d c
  | .valid b p, v => conforms E b v && E.pred p v
  | .mseq _, .list _ => true          -- `isinstance(value, MutableSequence)`: the items are not looked at
  | .mset _, .set _ => true
  | .mmap _ _, .dict _ => true
  | _, _ => false

/-- `attr_spec.is_collection` (`type_match(type, MutableSequence / MutableMapping / MutableSet)`) -/
def Ty.isCollection : Ty → Bool
  | .list _ | .set _ | .dict _ _ => true
  | .mseq _ | .mset _ | .mmap _ _ => true
  | _ => false

/-- the annotation is a container class `check_type` does not look inside and `type_instantiate` cannot create -/
def Ty.isAbstract : Ty → Bool
  | .mseq _ | .mset _ | .mmap _ _ => true
  | _ => false

/-- `get_collection_item_type` -/
def Ty.itemTy : Ty → Ty
  | .list t | .set t => t
  | .dict _ v => v
  | .mseq t | .mset t => t
  | .mmap _ v => v
  | _ => .any

/-- direct spec-class members (`get_spec_class_for_type` on each union member) -/
def Ty.specMembers : Ty → List Nat
  | .spec c => [c]
  | .union a b => a.specMembers ++ b.specMembers
  | _ => []

/-- What `attr_spec.constructor` (`spec_type_polymorphic or type`) does when called. -/
inductive Ctor
  | spec (c : Nat)          -- a spec class
  | builtin (dflt : Val)    -- `int`, `str`, `bool`, `float`, `NoneType`: `T()`; keywords are a TypeError
  | coll (empty : Val)      -- `List[..]` &c.: `.__origin__()` when stripped, TypeError when called as `List[int](**kw)`
  | uncallable              -- `Union`, `Literal`, `Any`: TypeError
  | noinst                  -- a validated type: "should not be instantiated", RuntimeError
  deriving DecidableEq

def Ty.ctor : Ty → Ctor
  | .spec c => .spec c
  | .union a b => match a.specMembers ++ b.specMembers with
    | [c] => .spec c
    | _ => .uncallable
  | .int => .builtin (.sc (.int 0))
  | .str => .builtin (.sc (.str 999))
  | .bool => .builtin (.sc (.bool false))
  | .float => .builtin (.sc (.flt 0))
  | .none => .builtin NONE
  | .list _ => .coll (.list .nil)
  | .set _ => .coll (.set .nil)
  | .dict _ _ => .coll (.dict .nil)
  | .lit _ => .uncallable
  | .any => .uncallable
  | .valid _ _ => .noinst
  | .mseq _ => .uncallable            -- `collections.abc.MutableSequence()`: "Can't instantiate abstract class"
  | .mset _ => .uncallable
  | .mmap _ _ => .uncallable

/-- the class whose attributes the generated helper accepts as keywords
(`with_spec_attrs_for(attr_spec.type)`: only when the annotation itself is a spec class) -/
def Ty.kwClass : Ty → Option Nat
  | .spec c => some c
  | _ => Option.none

/-! ## Keyword arguments and callbacks -/

abbrev Kw := List (Nat × Val)
abbrev Tr := Val → Val
abbrev KwT := List (Nat × Tr)

def Kw.get? (kw : Kw) (a : Nat) : Option Val := (kw.find? (·.1 == a)).map (·.2)

/-- a dict used as `**kwargs`: every key must be a string (naming an attribute) -/
def KVs.asKw : KVs → Option Kw
  | .nil => some []
  | .cons (.sc (.str a)) v r => (r.asKw).map ((a, v) :: ·)
  | .cons _ _ _ => none

/-- iteration `for item in items` (only what the pools can produce; a `str` yields 1-char strings, modelled as one opaque string) -/
def iterate : Val → Option Vals
  | .list xs => some xs
  | .set xs => some xs
  | .dict kvs => some kvs.keys
  | .sc (.str s) => some (if s == 999 then .nil else .cons (.sc (.str 998)) .nil)
  | _ => none

/-- The arguments of `mutate_value` other than `old_value` (`constructor` and
`expected_type` are always given together and both derive from the annotation). -/
structure MV where
  new : Val := MISSING
  replace : Bool := false
  prepare : Option Tr := none
  attrs : Kw := []
  ty : Option Ty := none
  transform : Option Tr := none
  attrTransforms : KwT := []

def classOf : Val → Option Nat
  | .inst c _ => some c
  | _ => none

/-- the managed attribute `a` of the receiver's class (helpers exist only for those) -/
def specOf (E : Env) (recv : Val) (a : Nat) : Option AttrSpec :=
  (classOf recv).bind (fun c => E.attr? c a)

/-- `delattr(obj, d)` of a dependant during invalidation: back to its default (dependants carry no preparer
in the modelled families; a default that does not conform would raise and is not modelled) -/
def resetDependant (E : Env) (obj : Val) (d : Nat) : Val :=
  match specOf E obj d with
  | none => obj
  | some sp =>
    if sp.defaultVal = MISSING then obj.setField d MISSING
    else if conforms E sp.ty sp.defaultVal then obj.setField d sp.defaultVal
    else obj

/-- `d` is declared `invalidated_by=[…, a, …]` -/
def dependsOn (E : Env) (obj : Val) (d a : Nat) : Bool :=
  match specOf E obj d with
  | some sp => sp.invalidatedBy.contains a && d != a
  | none => false

/-- `invalidate_attrs(obj, a)`: every dependant of `a` is deleted, then its own dependants, and so on -/
def invalidateAux (E : Env) (names : List Nat) : Nat → Val → Nat → Val
  | 0, obj, _ => obj
  | k+1, obj, a =>
    names.foldl (fun acc d =>
      if dependsOn E acc d a then invalidateAux E names k (resetDependant E acc d) d else acc) obj

def Env.invalidate (E : Env) (obj : Val) (a : Nat) : Val :=
  match obj with
  | .inst c _ =>
    match E.cls? c with
    | some cs => invalidateAux E (cs.attrs.map (·.name)) cs.attrs.length obj a
    | none => obj
  | _ => obj

/-- `mutate_attr`'s own work on a value: sentinel short-circuit, type check, store, invalidate the
dependants (unless `skip_invalidation`, as during construction). -/
def mutateAttrV (E : Env) (skip : Bool) (obj : Val) (sp : AttrSpec) (v : Val) : Except Err Val :=
  if v.isSent then .ok obj
  else if !conforms E sp.ty v then .error .typeError
  else .ok (if skip then obj.setField sp.name v else E.invalidate (obj.setField sp.name v) sp.name)

/-- required positional key missing from the call -/
def keyMissing (cs : ClassSpec) (kw : Kw) : Bool :=
  match cs.key with
  | none => false
  | some k => match cs.attr? k with
    | none => false
    | some sp => sp.default.isNone && (kw.get? k).isNone

/-- the value `InitMethod.init` assigns to an attribute: the keyword, else the class default -/
def initValue (sp : AttrSpec) (kw : Kw) : Val :=
  match kw.get? sp.name with
  | some v => if v = MISSING then sp.defaultVal else v
  | none => sp.defaultVal

def allMissing (attrs : List AttrSpec) : Flds :=
  match attrs with
  | [] => .nil
  | sp :: r => .cons sp.name MISSING (allMissing r)

/-- an optional callback applied -/
def applyOpt (f : Option Tr) (v : Val) : Val :=
  match f with
  | some f => f v
  | none => v

/-! ## The stages of `mutate_value`

The recursive callees (`construct`, `setattr` on a nested value) are parameters,
so that each numbered step of `mutate_value` is a definition of its own.  -/

/-- steps (1) and (2): which value is taken, and the preparer (suppressed for the old value) -/
def mvValue (old : Val) (p : MV) : Val :=
  let useNew := p.new != MISSING && p.new != EMPTY
  let value := if useNew then p.new else if !p.replace then old else MISSING
  let prepare := if useNew || p.replace then p.prepare else none
  applyOpt prepare value

/-- steps (3) a dict as constructor arguments, else (4) construct when MISSING; also returns `used_attrs` -/
def mvConstruct (E : Env) (ctor : Nat → Kw → Except Err Val) (p : MV) (value : Val) :
    Except Err (Val × List Nat) :=
  match p.ty, value with
  | some ty, .dict kvs =>
    if !conforms E ty (.dict .nil) then
      match kvs.asKw with
      | none => .error .typeError
      | some dkw =>
        match ty.ctor with
        | .spec c => (ctor c (dkw ++ p.attrs)).map (·, [])
        | .builtin d => if dkw.isEmpty && p.attrs.isEmpty then .ok (d, []) else .error .typeError
        | .coll _ => .error .typeError
        | .uncallable => .error .typeError
        | .noinst => .error .runtimeError
    else .ok (value, [])
  | some ty, v =>
    if v = MISSING then
      match ty.ctor with
      | .spec c =>
        let used := match E.cls? c with
          | some cs => (p.attrs.filter (fun kv => (cs.attr? kv.1).isSome)).map (·.1)
          | none => []
        (ctor c (p.attrs.filter (fun kv => used.contains kv.1 && kv.2 != MISSING))).map (·, used)
      | .builtin d => .ok (d, [])
      | .coll e => .ok (e, [])
      | .uncallable => .error .typeError
      | .noinst => .error .runtimeError
    else .ok (v, [])
  | none, v => .ok (v, [])

/-- step (5): the remaining attributes are assigned one by one -/
def mvAttrs (set : Val → Nat → Val → Except Err Val) (used : List Nat) (attrs : Kw) (value : Val) :
    Except Err Val :=
  if attrs.isEmpty then .ok value
  else if value = NONE || value = MISSING then .error .valueError
  else attrs.foldlM (fun acc kv =>
        if used.contains kv.1 || kv.2 = MISSING then .ok acc else set acc kv.1 kv.2) value

/-- step (6) -/
def mvTransform (p : MV) (value : Val) : Val := applyOpt p.transform value

/-- step (7) -/
def mvAttrTransforms (E : Env) (set : Val → Nat → Val → Except Err Val) (kt : KwT) (value : Val) :
    Except Err Val :=
  kt.foldlM (fun acc af =>
      let tv := af.2 (E.getAttr acc af.1)
      if tv = MISSING then .ok acc else set acc af.1 tv) value

/-- the empty collection of an annotation (`type_instantiate`) -/
def emptyOf : Ty → Val
  | .list _ => .list .nil
  | .set _ => .set .nil
  | _ => .dict .nil

/-- `if self.collection is None or self.collection is MISSING: self.collection = self._create_collection()` -/
def normNone (ty : Ty) (v : Val) : Val :=
  if v = NONE || v = MISSING then emptyOf ty else v

/-- truthiness of the incoming collection -/
def nonEmptyColl : Val → Bool
  | .list xs => !xs.isEmpty
  | .set xs => !xs.isEmpty
  | .dict kvs => !kvs.isEmpty
  | _ => true

/-- adding items to a set one by one -/
def dedupVals : Vals → Vals → Vals
  | .nil, acc => acc
  | .cons x xs, acc => dedupVals xs (if acc.mem x then acc else acc.snoc x)

/-! ## The recursive knot -/

mutual

/-- `mutate_value(old_value, new_value=…, replace=…, prepare=…, attrs=…, constructor=…,
expected_type=…, transform=…, attr_transforms=…)`, steps 1–8 in order. -/
def mutateValue (E : Env) : Nat → Val → MV → Except Err Val
  | 0, _, _ => .error .runtimeError
  | n+1, old, p =>
    if p.new = UNCHANGED then .ok old else
    match mvConstruct E (construct E n) p (mvValue old p) with
    | .error e => .error e
    | .ok (value, used) =>
      match mvAttrs (setAttrV E n false) used p.attrs value with
      | .error e => .error e
      | .ok value => mvAttrTransforms E (setAttrV E n false) p.attrTransforms (mvTransform p value)

/-- `setattr(value, a, v)`: the generated `__setattr__` of spec classes
(`prepare_attr_value` + `mutate_attr(inplace=True)`), `AttributeError` on other values. -/
def setAttrV (E : Env) : Nat → Bool → Val → Nat → Val → Except Err Val
  | 0, _, _, _, _ => .error .runtimeError
  | n+1, skip, .inst c fs, a, v =>
    match E.attr? c a with
    | none => .ok (if v.isSent then .inst c fs else .inst c (fs.set a v))
    | some sp =>
      match prepareAttrValue E n (.inst c fs) sp v [] with
      | .error e => .error e
      | .ok pv => mutateAttrV E skip (.inst c fs) sp pv
  | _, _, _, _, _ => .error .attributeError

/-- `prepare_attr_value(attr_spec, instance, value, attrs)` -/
def prepareAttrValue (E : Env) : Nat → Val → AttrSpec → Val → Kw → Except Err Val
  | 0, _, _, _, _ => .error .runtimeError
  | n+1, inst, sp, v, attrs =>
    if v = UNCHANGED then .ok UNCHANGED       -- nothing to prepare: the current value is to be kept
    else match mutateValue E n MISSING
        { new := v, prepare := sp.prep.map (fun p => E.prep p inst), ty := some sp.ty, attrs := attrs } with
    | .error e => .error e
    | .ok v => if sp.ty.isCollection then collPrepare E n inst sp v else .ok v

/-- `CollectionAttrMutator.prepare()` (with `add_items` / `_prepare_items`). -/
def collPrepare (E : Env) : Nat → Val → AttrSpec → Val → Except Err Val
  | 0, _, _, _ => .error .runtimeError
  | n+1, inst, sp, v =>
    if sp.ty.isAbstract then
      -- `_create_collection()` raises TypeError for an abstract container class, so only a value that already is
      -- an instance of the class gets through (no None / MISSING, no rebuild, no item preparer); its items are
      -- then re-inserted one by one through the checking inserter (`elif self.collection: self._prepare_items()`):
      -- this pass is the only thing that looks at the items of such a container
      if v = NONE || v = MISSING then .error .typeError
      else if !conforms E sp.ty v then .error .typeError
      else if !nonEmptyColl v then .ok v
      else if sp.itemPrep.isSome then .error .typeError
      else match sp.ty, v with
        -- `self.add_items(self.collection)`: every entry is re-inserted (`replace=True`: the entry it overwrites
        -- plays no part) through the checking inserter
        | .mmap kt vt, .dict kvs => addItemsDict E n inst sp kt vt kvs .nil
        | .mset _, .set xs => (prepItems E n inst sp xs .nil).map fun ys => .set (dedupVals ys .nil)
        | _, .list xs => (prepItems E n inst sp xs .nil).map .list
        | _, _ => .error .typeError
    else
    let v := normNone sp.ty v
    if !conforms E sp.ty v || (nonEmptyColl v && sp.itemPrep.isSome) then
      match sp.ty with
      | .dict kt vt =>
        match v with
        | .dict kvs => addItemsDict E n inst sp kt vt kvs .nil
        | _ => .error .typeError
      | .set _ =>
        match iterate v with
        | none => .error .typeError
        | some items => (addItemsSeq E n inst sp items .nil).map fun ys => .set (dedupVals ys .nil)
      | _ =>
        match iterate v with
        | none => .error .typeError
        | some items => (addItemsSeq E n inst sp items .nil).map .list
    else .ok v        -- `_prepare_items` re-inserts every (conforming) item unchanged

/-- `_prepare_items` of sequences and sets: `transform_item(index | value, self.prepare_item)` for every item, i.e.
`mutate_value(old_item, transform=prepare_item, constructor=item_constructor, expected_type=item_type)` (the
default `prepare_item` is the identity when there is no item preparer), then the checking `_inserter` puts the
result back in place. -/
def prepItems (E : Env) : Nat → Val → AttrSpec → Vals → Vals → Except Err Vals
  | 0, _, _, _, _ => .error .runtimeError
  | _, _, _, .nil, acc => .ok acc
  | n+1, inst, sp, .cons x xs, acc =>
    match mutateValue E n x { ty := some sp.ty.itemTy, transform := some (fun v => v) } with
    | .error e => .error e
    | .ok y =>
      if !conforms E sp.ty.itemTy y then .error .valueError
      else prepItems E n inst sp xs (acc.snoc y)

/-- `add_items` of sequences and sets: `add_item(item)` for every item
(`mutate_value(MISSING, new_value=item, prepare=prepare_item, replace=True, …)`, then the
checking `_inserter`). -/
def addItemsSeq (E : Env) : Nat → Val → AttrSpec → Vals → Vals → Except Err Vals
  | 0, _, _, _, _ => .error .runtimeError
  | _, _, _, .nil, acc => .ok acc
  | n+1, inst, sp, .cons x xs, acc =>
    match mutateValue E n MISSING
        { new := x, replace := true, prepare := sp.itemPrep.map (fun p => E.prep p inst),
          ty := some sp.ty.itemTy } with
    | .error e => .error e
    | .ok y =>
      if !conforms E sp.ty.itemTy y then .error .valueError
      else addItemsSeq E n inst sp xs (acc.snoc y)

/-- `add_items` of mappings -/
def addItemsDict (E : Env) : Nat → Val → AttrSpec → Ty → Ty → KVs → KVs → Except Err Val
  | 0, _, _, _, _, _, _ => .error .runtimeError
  | _, _, _, _, _, .nil, acc => .ok (.dict acc)
  | n+1, inst, sp, kt, vt, .cons k x r, acc =>
    match mutateValue E n ((acc.get? k).getD MISSING)
        { new := x, replace := true, prepare := sp.itemPrep.map (fun p => E.prep p inst),
          ty := some vt } with
    | .error e => .error e
    | .ok y =>
      if !conforms E vt y then .error .valueError
      else if !conforms E kt k then .error .valueError
      else addItemsDict E n inst sp kt vt r (acc.set k y)

/-- `InitMethod.init`: keyword check by the generated signature, then every
attribute in initialisation order gets the keyword value or the class default
through `__setattr__`. -/
def construct (E : Env) : Nat → Nat → Kw → Except Err Val
  | 0, _, _ => .error .runtimeError
  | n+1, c, kw =>
    match E.cls? c with
    | none => .error .typeError
    | some cs =>
      if kw.any (fun kv => (cs.attr? kv.1).isNone) then .error .typeError
      else if keyMissing cs kw then .error .typeError
      else cs.initOrder.foldlM (fun acc a =>
          match cs.attr? a with
          | none => .ok acc
          | some sp =>
            if initValue sp kw = MISSING then .ok acc else setAttrV E n true acc a (initValue sp kw))
        (.inst c (allMissing cs.attrs))

end

/-! ## The helpers -/

/-- What a helper call did: returned the receiver itself, returned another object, or raised. -/
inductive Ref
  | receiver
  | fresh (v : Val)
  | raised (e : Err)
  deriving DecidableEq

/-- Observable outcome of a call: the receiver's state afterwards and what was returned / raised. -/
structure Outcome where
  recv : Val
  ret : Ref
  deriving DecidableEq

/-- the state of the returned object -/
def Outcome.result (o : Outcome) : Val :=
  match o.ret with
  | .receiver => o.recv
  | .fresh v => v
  | .raised _ => o.recv

/-- `mutate_attr(obj, attr, value, inplace)` on the receiver: returns `obj` untouched on a
sentinel; otherwise type check, copy unless `inplace`, store. -/
def mutateAttr (E : Env) (recv : Val) (sp : AttrSpec) (v : Val) (inplace : Bool) : Except Err Outcome :=
  if v.isSent then .ok ⟨recv, .receiver⟩
  else if !conforms E sp.ty v then .error .typeError
  else if inplace then .ok ⟨E.invalidate (recv.setField sp.name v) sp.name, .receiver⟩
  else .ok ⟨recv, .fresh (E.invalidate (recv.setField sp.name v) sp.name)⟩

/-- the keyword check of the generated wrapper (`validate_attrs`): keywords are
accepted only for the attributes of the annotation's spec class -/
def kwOk (E : Env) (ty : Ty) (names : List Nat) : Bool :=
  names.isEmpty ||
    (match ty.kwClass with
     | none => false
     | some c => match E.cls? c with
       | none => false
       | some cs => names.all (fun a => (cs.attr? a).isSome))

/-- `WithAttrMethod.with_attr` -/
def withAttr (E : Env) (n : Nat) (recv : Val) (sp : AttrSpec) (v : Val) (kw : Kw) (inplace cond : Bool) :
    Except Err Outcome :=
  if !kwOk E sp.ty (kw.map (·.1)) then .error .typeError
  else if !cond then .ok ⟨recv, .receiver⟩
  else match prepareAttrValue E n recv sp v kw with
    | .error e => .error e
    | .ok pv => mutateAttr E recv sp pv inplace

/-- `UpdateAttrMethod.update_attr` -/
def updateAttr (E : Env) (n : Nat) (recv : Val) (sp : AttrSpec) (v : Val) (kw : Kw) (inplace cond : Bool) :
    Except Err Outcome :=
  if !kwOk E sp.ty (kw.map (·.1)) then .error .typeError
  else if !cond || (v = UNCHANGED && kw.isEmpty) then .ok ⟨recv, .receiver⟩
  else match mutateValue E n (E.getAttr recv sp.name) { new := v, ty := some sp.ty, attrs := kw } with
    | .error e => .error e
    | .ok u => withAttr E n recv sp u [] inplace true

/-- `TransformAttrMethod.transform_attr` -/
def transformAttr (E : Env) (n : Nat) (recv : Val) (sp : AttrSpec) (f : Option Tr) (kt : KwT)
    (inplace cond : Bool) : Except Err Outcome :=
  if !kwOk E sp.ty (kt.map (·.1)) then .error .typeError
  else if !cond then .ok ⟨recv, .receiver⟩
  else match mutateValue E n (E.getAttr recv sp.name) { transform := f, ty := some sp.ty, attrTransforms := kt } with
    | .error e => .error e
    | .ok u => withAttr E n recv sp u [] inplace true

/-- the generated `__delattr__` on a value: back to the class default, run through
`prepare_attr_value` and the type check as the constructor does; without a default the raw
`del` (AttributeError when nothing is set). -/
def delAttrV (E : Env) (n : Nat) (obj : Val) (sp : AttrSpec) : Except Err Val :=
  if sp.defaultVal = MISSING then
    (if obj.getAttr sp.name = MISSING then .error .attributeError
     else .ok (E.invalidate (obj.setField sp.name MISSING) sp.name))
  else match prepareAttrValue E n obj sp sp.defaultVal [] with
    | .error e => .error e
    | .ok pv => mutateAttrV E false obj sp pv

def outcomeOf (recv new : Val) (inplace : Bool) : Outcome :=
  if inplace then ⟨new, .receiver⟩ else ⟨recv, .fresh new⟩

/-- `ResetAttrMethod.reset_attr` -/
def resetAttr (E : Env) (n : Nat) (recv : Val) (sp : AttrSpec) (inplace cond : Bool) : Except Err Outcome :=
  if !cond then .ok ⟨recv, .receiver⟩
  else (delAttrV E n recv sp).map fun v => outcomeOf recv v inplace

/-- the keyword check of the generated top-level wrappers: attributes of the receiver's class -/
def kwTopOk (E : Env) (recv : Val) (names : List Nat) : Bool :=
  match classOf recv with
  | some c => kwOk E (.spec c) names
  | none => names.isEmpty

/-- `UpdateMethod.update`: `mutate_value(old_value=self, new_value=…, attrs=…, inplace=…)` -/
def updateTop (E : Env) (n : Nat) (recv : Val) (v : Val) (kw : Kw) (inplace cond : Bool) :
    Except Err Outcome :=
  if !kwTopOk E recv (kw.map (·.1)) then .error .typeError
  else if !cond then .ok ⟨recv, .receiver⟩
  else match mutateValue E n recv { new := v, attrs := kw } with
    | .error e => .error e
    | .ok u =>
      if v = UNCHANGED || ((v = MISSING || v = EMPTY) && kw.isEmpty) then .ok ⟨recv, .receiver⟩
      else if v = MISSING || v = EMPTY then .ok (outcomeOf recv u inplace)
      else .ok ⟨recv, .fresh u⟩

/-- `TransformMethod.transform`; a supplied `_transform` returns a new object. -/
def transformTop (E : Env) (n : Nat) (recv : Val) (f : Option Tr) (kt : KwT) (inplace cond : Bool) :
    Except Err Outcome :=
  if !kwTopOk E recv (kt.map (·.1)) then .error .typeError
  else if !cond then .ok ⟨recv, .receiver⟩
  else match mutateValue E n recv { transform := f, attrTransforms := kt } with
    | .error e => .error e
    | .ok u =>
      match f with
      | some _ => .ok ⟨recv, .fresh u⟩
      | none => if kt.isEmpty then .ok ⟨recv, .receiver⟩ else .ok (outcomeOf recv u inplace)

/-- `ResetMethod.reset`: every attribute in metadata order, `AttributeError` swallowed.
Another error stops the loop (second component); the caller discards the partial state
(the copy is dropped / `_rollback_on_error` restores the instance dictionary). -/
def resetAllV (E : Env) (n : Nat) : Val → List AttrSpec → Val × Option Err
  | obj, [] => (obj, none)
  | obj, sp :: rest =>
    match delAttrV E n obj sp with
    | .ok v => resetAllV E n v rest
    | .error .attributeError => resetAllV E n obj rest
    | .error e => (obj, some e)

/-- `reset(_inplace=…, _if=…)`; all-or-nothing in both forms. -/
def resetTop (E : Env) (n : Nat) (recv : Val) (inplace cond : Bool) : Outcome :=
  if !cond then ⟨recv, .receiver⟩
  else match classOf recv with
    | none => ⟨recv, .raised .attributeError⟩
    | some c => match E.cls? c with
      | none => ⟨recv, .raised .attributeError⟩
      | some cs =>
        match resetAllV E n recv cs.attrs with
        | (v, none) => outcomeOf recv v inplace
        | (_, some e) => ⟨recv, .raised e⟩

/-! ## Operations -/

inductive Op
  | withA (a : Nat) (v : Val) (kw : Kw)
  | updateA (a : Nat) (v : Val) (kw : Kw)
  | transformA (a : Nat) (f : Option Tr) (kt : KwT)
  | resetA (a : Nat)
  | setattr (a : Nat) (v : Val)
  | delattr (a : Nat)
  | update (v : Val) (kw : Kw)
  | transform (f : Option Tr) (kt : KwT)
  | reset

structure Call where
  op : Op
  inplace : Bool := false
  cond : Bool := true

/-- a call that raised before touching the receiver -/
def lift (recv : Val) : Except Err Outcome → Outcome
  | .ok o => o
  | .error e => ⟨recv, .raised e⟩

/-- One API call on the receiver. Every helper either succeeds or raises with the receiver
as it was (copy-before-write / roll-back). -/
def run (E : Env) (n : Nat) (recv : Val) (c : Call) : Outcome :=
  match c.op with
  | .withA a v kw => match specOf E recv a with
    | none => ⟨recv, .raised .attributeError⟩
    | some sp => lift recv (withAttr E n recv sp v kw c.inplace c.cond)
  | .updateA a v kw => match specOf E recv a with
    | none => ⟨recv, .raised .attributeError⟩
    | some sp => lift recv (updateAttr E n recv sp v kw c.inplace c.cond)
  | .transformA a f kt => match specOf E recv a with
    | none => ⟨recv, .raised .attributeError⟩
    | some sp => lift recv (transformAttr E n recv sp f kt c.inplace c.cond)
  | .resetA a => match specOf E recv a with
    | none => ⟨recv, .raised .attributeError⟩
    | some sp => lift recv (resetAttr E n recv sp c.inplace c.cond)
  | .setattr a v => match specOf E recv a with
    | none => ⟨recv, .raised .attributeError⟩
    | some _ => lift recv ((setAttrV E (n+1) false recv a v).map fun r => ⟨r, .receiver⟩)
  | .delattr a => match specOf E recv a with
    | none => ⟨recv, .raised .attributeError⟩
    | some sp => lift recv ((delAttrV E n recv sp).map fun r => ⟨r, .receiver⟩)
  | .update v kw => lift recv (updateTop E n recv v kw c.inplace c.cond)
  | .transform f kt => lift recv (transformTop E n recv f kt c.inplace c.cond)
  | .reset => resetTop E n recv c.inplace c.cond


/-! ## Spec: a direct transcription of the documentation

`docsite/docs/usage/methods/scalars.md`, `toplevel.md` and the doc-string of
`SetAttrMethod`/`DelAttrMethod`, in the documentation's own vocabulary:

* "`with_<attr>(v)` sets `<attr>` to `v`"                        → `assign`: `s[a := prepared v]`, type checked
* "keywords … direct mutation of the attributes of the nested spec class" → `build` (a freshly built nested
  instance) when no value is given, `merge` (successive assignments) into a given value
* "`update_<attr>` … incrementally updated rather than replaced"     → `merge` into the existing nested value
* "`transform_<attr>` applies a function to the current value …, stores the result" → `assign (f old)`
* "`reset_<attr>` … back to the default value provided by the class (or MISSING)" → the default, as the constructor assigns it
* "`a.x = v` is equivalent to `a.with_x(v, _inplace=True)`", deleting = resetting
* `update` / `transform` / `reset`: the same for several attributes at once
* `_if=False`, MISSING, UNCHANGED: no-op returning the receiver (property text)
* storing a value (`mutateAttr`) includes what `invalidated_by` documents: every dependant of the written
  attribute is back at its default afterwards, also when the written value equals the old one

Two primitives are taken from the object model and not re-specified: calling a
class (`construct`) and assigning an attribute of a *nested* value (`setAttrV`);
`setAttrV_is_assign` (Props) shows the latter is `assign` again.
`Doc.apply E m` describes `run E (m+2)` (fuel is a device of the model only).
-/
namespace Spec

def isDict : Val → Bool
  | .dict _ => true
  | _ => false

/-- the attribute's preparer, for instance `obj` -/
def prep (E : Env) (sp : AttrSpec) (obj v : Val) : Val :=
  match sp.prep with
  | some p => E.prep p obj v
  | none => v

/-- a dict given where the annotation does not admit a dict: its entries are constructor keywords -/
def castDict (E : Env) (m : Nat) (ty : Ty) (v : Val) : Except Err Val :=
  match v with
  | .dict kvs =>
    if conforms E ty (.dict .nil) then .ok v
    else match kvs.asKw with
      | none => .error .typeError
      | some dkw => match ty.ctor with
        | .spec c => construct E m c dkw
        | .builtin d => if dkw.isEmpty then .ok d else .error .typeError
        | .coll _ => .error .typeError
        | .uncallable => .error .typeError
        | .noinst => .error .runtimeError
  | v => .ok v

/-- "the prepared v": preparer, dict → nested instance, collection normalisation -/
def prepared (E : Env) (m : Nat) (obj : Val) (sp : AttrSpec) (v : Val) : Except Err Val :=
  match castDict E m sp.ty (prep E sp obj v) with
  | .error e => .error e
  | .ok v2 => if sp.ty.isCollection then collPrepare E (m+1) obj sp v2 else .ok v2

/-- `recv[a := prepared v]`, type checked, on the receiver or on a copy -/
def assign (E : Env) (m : Nat) (recv : Val) (sp : AttrSpec) (v : Val) (inplace : Bool) : Except Err Outcome :=
  match prepared E m recv sp v with
  | .error e => .error e
  | .ok pv => mutateAttr E recv sp pv inplace

/-- the same on a value -/
def assignV (E : Env) (m : Nat) (obj : Val) (sp : AttrSpec) (v : Val) : Except Err Val :=
  match prepared E m obj sp v with
  | .error e => .error e
  | .ok pv => mutateAttrV E false obj sp pv

/-- merge keywords into a nested value: successive attribute assignments (a MISSING keyword is skipped);
there is nothing to merge into `None` / no value -/
def merge (E : Env) (n : Nat) (base : Val) (kw : Kw) : Except Err Val :=
  if kw.isEmpty then .ok base
  else if base = NONE || base = MISSING then .error .valueError
  else kw.foldlM (fun acc kv => if kv.2 = MISSING then .ok acc else setAttrV E n false acc kv.1 kv.2) base

/-- the same with transforms of the attributes' current values -/
def mergeT (E : Env) (n : Nat) (base : Val) (kt : KwT) : Except Err Val :=
  kt.foldlM (fun acc af =>
      let tv := af.2 (E.getAttr acc af.1)
      if tv = MISSING then .ok acc else setAttrV E n false acc af.1 tv) base

/-- a freshly built nested instance -/
def build (E : Env) (n : Nat) (c : Nat) (kw : Kw) : Except Err Val :=
  construct E n c (kw.filter (fun kv => kv.2 != MISSING))

def noop (recv : Val) : Outcome := ⟨recv, .receiver⟩

/-- the nested value `update_<a>(v, **kw)` hands to the assignment -/
def updateNested (E : Env) (m : Nat) (recv : Val) (sp : AttrSpec) (v : Val) (kw : Kw) : Except Err Val :=
  let base := if v.isSent then E.getAttr recv sp.name else v
  if base = MISSING then
    match sp.ty.kwClass with
    | some c => build E (m+1) c kw
    | none => .ok base
  else merge E (m+1) base kw

/-- the value `transform_<a>(f, **kt)` hands to the assignment -/
def transformNested (E : Env) (m : Nat) (recv : Val) (sp : AttrSpec) (f : Option Tr) (kt : KwT) :
    Except Err Val :=
  let cur := E.getAttr recv sp.name
  let base : Except Err Val :=
    if cur = MISSING then
      match sp.ty.kwClass with
      | some c => build E (m+1) c []
      | none => .ok cur
    else .ok cur
  match base with
  | .error e => .error e
  | .ok b => mergeT E (m+1) (applyOpt f b) kt

namespace Doc

def withA (E : Env) (m : Nat) (recv : Val) (sp : AttrSpec) (v : Val) (kw : Kw) (inplace cond : Bool) : Outcome :=
  if !kwOk E sp.ty (kw.map (·.1)) then ⟨recv, .raised .typeError⟩
  else if !cond then noop recv
  else if v.isSent && (kw.isEmpty || v = UNCHANGED) then noop recv
  else if kw.isEmpty then lift recv (assign E m recv sp v inplace)
  else if v.isSent then
    match sp.ty.kwClass with
    | none => ⟨recv, .raised .typeError⟩
    | some c => match build E m c kw with
      | .error e => ⟨recv, .raised e⟩
      | .ok nested => lift recv (mutateAttr E recv sp nested inplace)
  else match merge E m (prep E sp recv v) kw with
    | .error e => ⟨recv, .raised e⟩
    | .ok nested => lift recv (mutateAttr E recv sp nested inplace)

def updateA (E : Env) (m : Nat) (recv : Val) (sp : AttrSpec) (v : Val) (kw : Kw) (inplace cond : Bool) : Outcome :=
  if !kwOk E sp.ty (kw.map (·.1)) then ⟨recv, .raised .typeError⟩
  else if !cond then noop recv
  else if v.isSent && (kw.isEmpty || v = UNCHANGED) then noop recv
  else match updateNested E m recv sp v kw with
    | .error e => ⟨recv, .raised e⟩
    | .ok nested => lift recv (assign E m recv sp nested inplace)

def transformA (E : Env) (m : Nat) (recv : Val) (sp : AttrSpec) (f : Option Tr) (kt : KwT)
    (inplace cond : Bool) : Outcome :=
  if !kwOk E sp.ty (kt.map (·.1)) then ⟨recv, .raised .typeError⟩
  else if !cond then noop recv
  else match transformNested E m recv sp f kt with
    | .error e => ⟨recv, .raised e⟩
    | .ok new => if new.isSent then noop recv else lift recv (assign E m recv sp new inplace)

def resetV (E : Env) (m : Nat) (obj : Val) (sp : AttrSpec) : Except Err Val :=
  if sp.defaultVal = MISSING then
    (if obj.getAttr sp.name = MISSING then .error .attributeError
     else .ok (E.invalidate (obj.setField sp.name MISSING) sp.name))
  else assignV E m obj sp sp.defaultVal

def resetA (E : Env) (m : Nat) (recv : Val) (sp : AttrSpec) (inplace cond : Bool) : Outcome :=
  if !cond then noop recv
  else match resetV E m recv sp with
    | .error e => ⟨recv, .raised e⟩
    | .ok v => outcomeOf recv v inplace

def update (E : Env) (m : Nat) (recv : Val) (v : Val) (kw : Kw) (inplace cond : Bool) : Outcome :=
  if !kwTopOk E recv (kw.map (·.1)) then ⟨recv, .raised .typeError⟩
  else if !cond then noop recv
  else if v = UNCHANGED then noop recv
  else if v.isSent then
    (if kw.isEmpty then noop recv
     else match merge E (m+1) recv kw with
      | .error e => ⟨recv, .raised e⟩
      | .ok u => outcomeOf recv u inplace)
  else match merge E (m+1) v kw with
    | .error e => ⟨recv, .raised e⟩
    | .ok u => ⟨recv, .fresh u⟩

def transform (E : Env) (m : Nat) (recv : Val) (f : Option Tr) (kt : KwT) (inplace cond : Bool) : Outcome :=
  if !kwTopOk E recv (kt.map (·.1)) then ⟨recv, .raised .typeError⟩
  else if !cond then noop recv
  else match f with
    | none =>
      if kt.isEmpty then noop recv
      else match mergeT E (m+1) recv kt with
        | .error e => ⟨recv, .raised e⟩
        | .ok u => outcomeOf recv u inplace
    | some f => match mergeT E (m+1) (f recv) kt with
      | .error e => ⟨recv, .raised e⟩
      | .ok u => ⟨recv, .fresh u⟩

/-- all attributes back to their defaults, in declaration order (an attribute that has no
default and no value is skipped); a default that cannot be assigned aborts the whole reset -/
def resetAll (E : Env) (m : Nat) : Val → List AttrSpec → Val × Option Err
  | obj, [] => (obj, none)
  | obj, sp :: rest =>
    match resetV E m obj sp with
    | .ok v => resetAll E m v rest
    | .error .attributeError => resetAll E m obj rest
    | .error e => (obj, some e)

def reset (E : Env) (m : Nat) (recv : Val) (inplace cond : Bool) : Outcome :=
  if !cond then noop recv
  else match classOf recv with
    | none => ⟨recv, .raised .attributeError⟩
    | some c => match E.cls? c with
      | none => ⟨recv, .raised .attributeError⟩
      | some cs =>
        match resetAll E m recv cs.attrs with
        | (v, none) => outcomeOf recv v inplace
        | (_, some e) => ⟨recv, .raised e⟩

/-- What the documentation says about one call (`run E (m+2)` is the implementation). -/
def apply (E : Env) (m : Nat) (recv : Val) (c : Call) : Outcome :=
  match c.op with
  | .withA a v kw => match specOf E recv a with
    | none => ⟨recv, .raised .attributeError⟩
    | some sp => withA E m recv sp v kw c.inplace c.cond
  | .updateA a v kw => match specOf E recv a with
    | none => ⟨recv, .raised .attributeError⟩
    | some sp => updateA E m recv sp v kw c.inplace c.cond
  | .transformA a f kt => match specOf E recv a with
    | none => ⟨recv, .raised .attributeError⟩
    | some sp => transformA E m recv sp f kt c.inplace c.cond
  | .resetA a => match specOf E recv a with
    | none => ⟨recv, .raised .attributeError⟩
    | some sp => resetA E m recv sp c.inplace c.cond
  | .setattr a v => match specOf E recv a with
    | none => ⟨recv, .raised .attributeError⟩
    | some sp => withA E m recv sp v [] true true       -- `obj.a = v` is `obj.with_a(v, _inplace=True)`
  | .delattr a => match specOf E recv a with
    | none => ⟨recv, .raised .attributeError⟩
    | some sp => resetA E m recv sp true true           -- `del obj.a` is `obj.reset_a(_inplace=True)`
  | .update v kw => update E m recv v kw c.inplace c.cond
  | .transform f kt => transform E m recv f kt c.inplace c.cond
  | .reset => reset E m recv c.inplace c.cond

end Doc

/-- `v` can be handed to the assignment of `sp` as an ordinary value: it is no sentinel and the
preparer does not answer MISSING (which the code reads as "construct the annotation", finding D16). -/
def AssignOk (E : Env) (sp : AttrSpec) (obj v : Val) : Prop :=
  v.isSent = false ∧ prep E sp obj v ≠ MISSING

/-- The calls the documentation describes (everything else is either the open finding about
MISSING/EMPTY or undocumented: UNCHANGED together with keywords in `update_<a>`, a dict of constructor
arguments together with keywords,
a transform of an attribute that holds no value, preparers answering MISSING). -/
def Documented (E : Env) (m : Nat) (recv : Val) (c : Call) : Prop :=
  match c.op with
  | .withA a v kw => ∀ sp, specOf E recv a = some sp →
      (kw = [] → AssignOk E sp recv v ∨ v = UNCHANGED) ∧
      (kw ≠ [] → v.isSent = false → prep E sp recv v ≠ MISSING ∧ isDict (prep E sp recv v) = false)
  | .updateA a v kw => ∀ sp, specOf E recv a = some sp →
      (v = UNCHANGED → kw = []) ∧ (kw = [] → v.isSent = false ∨ v = UNCHANGED) ∧
      (∀ base, base = (if v.isSent then E.getAttr recv sp.name else v) →
        (isDict base = true → conforms E sp.ty (.dict .nil) = true) ∧
        (base = MISSING → sp.ty.kwClass.isSome)) ∧
      (∀ u, updateNested E m recv sp v kw = .ok u → AssignOk E sp recv u)
  | .transformA a f kt => ∀ sp, specOf E recv a = some sp →
      (isDict (E.getAttr recv sp.name) = true → conforms E sp.ty (.dict .nil) = true) ∧
      (E.getAttr recv sp.name = MISSING → sp.ty.kwClass.isSome) ∧
      (∀ u, transformNested E m recv sp f kt = .ok u →
        AssignOk E sp recv u ∨ u = UNCHANGED)
  | .resetA a => ∀ sp, specOf E recv a = some sp →
      sp.defaultVal ≠ MISSING → AssignOk E sp recv sp.defaultVal
  | .setattr a v => ∀ sp, specOf E recv a = some sp →
      AssignOk E sp recv v ∨ v = UNCHANGED
  | .delattr a => ∀ sp, specOf E recv a = some sp →
      sp.defaultVal ≠ MISSING → AssignOk E sp recv sp.defaultVal
  | .update _ _ => True
  | .transform _ _ => True
  | .reset => ∀ c cs, classOf recv = some c → E.cls? c = some cs →
      ∀ sp ∈ cs.attrs, sp.defaultVal ≠ MISSING → ∀ obj, AssignOk E sp obj sp.defaultVal

end Spec

end SpecVerif.C05
