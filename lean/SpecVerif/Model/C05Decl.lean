import SpecVerif.Model.C05
/-!
# C05 — where the preparer of an attribute comes from (bootstrap)

`Model/C05.lean` takes the class table (`AttrSpec.prep`, `AttrSpec.itemPrep`) as data. This file models how
`spec_classes/spec_class.py : spec_class.bootstrap / build_attr_spec` and `types/attr.py : Attr.from_attr_value`
ARRIVE at that entry from what the class bodies of a hierarchy say, for ONE attribute `a` and ONE of its two callbacks
(the preparer `_prepare_<a>` / `@<a>.preparer`, or the item preparer `_prepare_<item>` / `@<a>.item_preparer`;
the code treats both alike):

* a class body may mention the attribute not at all, re-default it with a plain value (`a = 3`), (re-)annotate it
  (`a: int`, `a: int = 3`), or give an `Attr(...)` / `dataclasses.field(...)` object — and an `Attr` object may carry a
  callback registered with the decorator (`Body`);
* a class body may define the conventionally named method (`Layer.method`);
* a class is decorated with `@spec_class` (bootstrapped) or is a plain subclass (never bootstrapped: it lives on the
  metadata of its nearest spec ancestor) (`Layer.spec`).

`bootstrap` walks the hierarchy root first, as `bootstrap` runs for the parents first:

* `getattr(spec_cls, "_prepare_<a>", MISSING)` finds the NEAREST definition in the MRO (`Res.meth`);
* a spec class whose body does not mention the attribute inherits the parent's `Attr` object untouched (so a method
  defined in such a class — or in a plain subclass — is never looked at);
* a spec class that merely re-defaults the attribute (`a = 3`) builds a new `Attr` from the plain value, gives it the
  method found by name and — since /repo 62b86d6 — otherwise carries `prepare` / `prepare_item` over from the inherited
  `Attr` ("the rest of the inherited configuration still applies"; `stepLegacy` is the code before that commit);
* a spec class whose body mentions the attribute otherwise builds a new `Attr`: a deep copy of the `Attr` object of the body
  (decorator registrations included) or a fresh one, and THEN `if preparer: attr_spec.prepare = preparer` — the method
  beats the decorator (`Res.entry`: what `type(self).__spec_class__.attrs[a].prepare` is; `__setattr__`, the generated
  `__init__`, `__delattr__` and the top-level `update` read it there);
* the generated `with_/update_/transform_<a>` helpers are registered only by the class that OWNS the attribute
  (annotation or `Attr` object in its body) and close over the `Attr` built there; a spec subclass that merely
  re-defaults keeps the inherited helpers (`Res.helper`: the callback of that CLOSURE).  Since /repo a169c24
  `WithAttrMethod.with_attr` (through which `update_<a>` and `transform_<a>` store as well) first does
  `attr_spec = self.__spec_class__.attrs.get(attr_spec.name, attr_spec)`: the helpers prepare with the entry of the
  INSTANCE's class (`Res.helperPrep`), the closure only names the attribute.  `Res.helper` is kept as the model of the
  code before that commit (`legacyCoherent`, the legacy counter-model in `Props/C05.lean`).

Core Lean only.
-/
namespace SpecVerif.C05.Decl

/-- what one class body says about the attribute -/
inductive Body
  /-- nothing -/
  | absent
  /-- a plain value without annotation (`a = 3`): the default is overridden, the owner stays -/
  | value
  /-- an annotation, with or without a plain value (`a: int`, `a: int = 3`): this class owns the attribute -/
  | annotated
  /-- an `Attr(...)` (or `dataclasses.field(...)`) object, annotated or not: this class owns the attribute;
  `deco` = the callback registered with `@<a>.preparer` / `@<a>.item_preparer` on that object -/
  | attr (deco : Option Nat)
  deriving DecidableEq, Repr

def Body.deco : Body → Option Nat
  | .attr d => d
  | _ => none

/-- this class takes over the attribute (its helpers are generated anew) -/
def Body.owns : Body → Bool
  | .annotated => true
  | .attr _ => true
  | _ => false

structure Layer where
  /-- decorated with `@spec_class` -/
  spec : Bool
  body : Body
  /-- `_prepare_<a>` defined in this class body -/
  method : Option Nat := none
  deriving DecidableEq, Repr

/-- a class that leaves the attribute's metadata alone: a plain subclass, or a spec class not mentioning it -/
def Layer.untouched (L : Layer) : Bool := !L.spec || L.body == .absent

structure Res where
  /-- `getattr(cls, "_prepare_<a>", MISSING)` -/
  meth : Option Nat := none
  /-- `cls.__spec_class__.attrs[a].prepare` -/
  entry : Option Nat := none
  /-- `.prepare` of the `Attr` the generated `with_/update_/transform_<a>` close over (what they prepared with before
  /repo a169c24) -/
  helper : Option Nat := none
  deriving DecidableEq, Repr

/-- what the generated `with_/update_/transform_<a>` prepare with (since /repo a169c24):
`self.__spec_class__.attrs.get(name, <closure>).prepare` — the attribute is managed, so the entry of `type(self)` -/
def Res.helperPrep (r : Res) : Option Nat := r.entry

/-- nearest definition wins -/
def orElse (a b : Option Nat) : Option Nat :=
  match a with
  | some x => some x
  | none => b

/-- one class of the hierarchy (its parents are done) -/
def step (s : Res) (L : Layer) : Res :=
  let meth := orElse L.method s.meth
  if !L.spec then { s with meth := meth }
  else match L.body with
    | .absent => { s with meth := meth }
    | .value => { s with meth := meth, entry := orElse meth s.entry }
    | .annotated => { meth := meth, entry := meth, helper := meth }
    | .attr d => { meth := meth, entry := orElse meth d, helper := orElse meth d }

def bootstrapFrom (s : Res) (ls : List Layer) : Res := ls.foldl step s

/-- the same before /repo 62b86d6: the `Attr` rebuilt for a plain re-default got the method found by name and nothing
else — a callback registered by decorator on the inherited `Attr` was lost (kept as the legacy counter-model) -/
def stepLegacy (s : Res) (L : Layer) : Res :=
  if L.spec && L.body == .value then { s with meth := orElse L.method s.meth, entry := orElse L.method s.meth }
  else step s L

def bootstrapLegacy (ls : List Layer) : Res := ls.foldl stepLegacy {}

/-- the hierarchy root first; the last layer is the class of the receiver -/
def bootstrap (ls : List Layer) : Res := bootstrapFrom {} ls

/-! ### the closed form (nearest class first) -/

/-- the nearest `_prepare_<a>` method, classes given NEAREST FIRST -/
def nearestMethod : List Layer → Option Nat
  | [] => none
  | L :: above => orElse L.method (nearestMethod above)

/-- `type(self).__spec_class__.attrs[a].prepare`, classes given NEAREST FIRST: the nearest method visible from the
nearest spec class that mentions the attribute; else, when that class merely re-defaults, what its parent has; else the
decorator registration of its own `Attr` -/
def entrySpec : List Layer → Option Nat
  | [] => none
  | L :: above =>
    if L.untouched then entrySpec above
    else if L.body == .value then orElse (nearestMethod (L :: above)) (entrySpec above)
    else orElse (nearestMethod (L :: above)) L.body.deco

/-- the same for the helpers: the nearest spec class that OWNS the attribute decides -/
def helperSpec : List Layer → Option Nat
  | [] => none
  | L :: above =>
    if L.spec && L.body.owns then orElse (nearestMethod (L :: above)) L.body.deco
    else helperSpec above

/-! ### legacy (before /repo a169c24): when the helpers' closure and `__setattr__` prepared alike -/

/-- every spec class that merely re-defaults the attribute finds, by `getattr`, the callback its inherited helpers use -/
def coherentFrom (s : Res) : List Layer → Bool
  | [] => true
  | L :: r =>
    (if L.spec && L.body == .value then orElse L.method s.meth == s.helper else true) && coherentFrom (step s L) r

def coherent (ls : List Layer) : Bool := coherentFrom {} ls

/-! ### into the class table -/

def setPrep (item : Bool) (p : Option Nat) (sp : AttrSpec) : AttrSpec :=
  if item then { sp with itemPrep := p } else { sp with prep := p }

/-- the class table with the entry of attribute `a` of class `c` replaced by what `bootstrap` computes -/
def applyDecl (classes : List ClassSpec) (c a : Nat) (item : Bool) (ls : List Layer) : List ClassSpec :=
  classes.map fun cs =>
    if cs.id == c then
      { cs with attrs := cs.attrs.map fun sp => if sp.name == a then setPrep item (bootstrap ls).entry sp else sp }
    else cs

end SpecVerif.C05.Decl
