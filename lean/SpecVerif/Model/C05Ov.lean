import SpecVerif.Model.C05
/-!
# C05 — constructors that take `**kwargs` (`init_overflow_attr`) and the constructor-argument memo

`Model/C05.lean` models nested spec classes whose generated `__init__` has a fixed signature.  This file adds

* `spec_classes/utils/mutation.py : _get_function_args` with its per-function memo
  (`function.__spec_class_args__`)                              → `Sig`, `argsOf`, `getFunctionArgs`, `runArgs`
* spec classes declared with `init_overflow_attr=<o>`: the generated `__init__` (and every helper that
  accepts the attributes of such a class as keywords) ends in `**<o>`:
  - `methods/core.py : InitMethod.init` (extra keywords are collected, in call order, into the dict stored
    in `<o>` after every other attribute was initialised)           → `construct`
  - `utils/mutation.py : mutate_value`, step 4 (`used_attrs` = every keyword when the constructor takes
    `**kwargs`, so all of them go to the constructor and none is assigned afterwards) → `mvConstruct`
  - `utils/method_builder.py : with_spec_attrs_for` (the wrapper accepts any keyword)   → `kwOk`, `kwTopOk`

The definitions of `Model/C05.lean` are left as they are (C03 builds on them); the recursive knot
`mutate_value → constructor → __setattr__ → prepare_attr_value → mutate_value` is tied a second time with the
overflow table `ov : class id → overflow attribute` as a parameter.  `Props.C05.ov_conservative` shows that the
two knots coincide when no class has an overflow attribute, so every theorem about `run` carries over.
Items of collection attributes are prepared by the overflow-free knot (`collPrepare`): collections of
overflow-class items are not modelled.

Core Lean only.
-/
namespace SpecVerif.C05.Ov
open SpecVerif.Py SpecVerif.C05

/-! ## `_get_function_args` and its memo -/

/-- What `_get_function_args` finds out about a constructor. -/
inductive Sig
  /-- a builtin type (`int`, `dict`, …): nothing is passed by keyword -/
  | builtin
  /-- a class without an `__init__` of its own (`object.__init__`; also a spec class that is not bootstrapped yet) -/
  | objectInit
  /-- a signature without `**kwargs`: its parameter names -/
  | fixed (ps : List Nat)
  /-- a signature ending in `**kwargs` (named parameters `ps`) -/
  | varkw (ps : List Nat)
  deriving DecidableEq

/-- the keywords the constructor takes, as a function of the signature and of the keywords of THIS call -/
def argsOf : Sig → List Nat → List Nat
  | .builtin, _ => []
  | .objectInit, _ => []
  | .fixed ps, _ => ps
  | .varkw _, attrs => attrs

/-- `function.__spec_class_args__` of every function that has one -/
abbrev Memo := List (Nat × List Nat)

def Memo.get? (m : Memo) (f : Nat) : Option (List Nat) := (m.find? (·.1 == f)).map (·.2)

/-- `_get_function_args(function, attrs)`: builtin / `object.__init__` first, then the memo, then the
signature; the answer for a `**kwargs` signature depends on the call and is NOT stored. -/
def getFunctionArgs (sigs : Nat → Sig) (memo : Memo) (f : Nat) (attrs : List Nat) : List Nat × Memo :=
  match sigs f with
  | .builtin => ([], memo)
  | .objectInit => ([], memo)
  | .varkw _ =>
    (match memo.get? f with
     | some ps => (ps, memo)
     | none => (attrs, memo))
  | .fixed ps =>
    (match memo.get? f with
     | some qs => (qs, memo)
     | none => (ps, (f, ps) :: memo))

/-- a history of calls `(function, keywords of the call)` from a given memo: the answers, in order -/
def runArgs (sigs : Nat → Sig) : Memo → List (Nat × List Nat) → List (List Nat)
  | _, [] => []
  | memo, (f, attrs) :: rest =>
    let r := getFunctionArgs sigs memo f attrs
    r.1 :: runArgs sigs r.2 rest

/-! ## overflow classes -/

/-- `__spec_class__.init_overflow_attr` of every class that has one -/
abbrev OvMap := Nat → Option Nat

/-- the signature of the generated `__init__` of spec class `c` (`self` left out) -/
def ctorSig (E : Env) (ov : OvMap) (c : Nat) : Sig :=
  match E.cls? c with
  | none => .fixed []
  | some cs =>
    match ov c with
    | none => .fixed (cs.attrs.map (·.name))
    | some o => .varkw ((cs.attrs.map (·.name)).filter (· != o))

/-- a keyword the generated `__init__` of `cs` puts into the overflow dict: not a managed attribute, or the
overflow attribute itself -/
def isExtra (cs : ClassSpec) (o : Option Nat) (kv : Nat × Val) : Bool :=
  match o with
  | none => false
  | some o => (cs.attr? kv.1).isNone || kv.1 == o

/-- keywords as the dict `{name: value, …}` (call order) -/
def kwDict : Kw → KVs
  | [] => .nil
  | (a, v) :: r => .cons (.sc (.str a)) v (kwDict r)

/-- `{**attrs, **value}`: the keywords of the call in call order, overridden by the entries of the dict, followed
by the dict's own keys -/
def pyMergeKw (attrs dkw : Kw) : Kw :=
  attrs.map (fun kv => (kv.1, (dkw.get? kv.1).getD kv.2)) ++ dkw.filter (fun kv => (attrs.get? kv.1).isNone)

/-- steps (3)–(4) of `mutate_value` for a constructor that takes `**kwargs`: (3) a dict is cast by calling
`constructor(**{**attrs, **value})`; (4) a MISSING value is built from every keyword of the call (`used_attrs` = all
of them: nothing is left to be assigned afterwards).  Every other constructor: `SpecVerif.C05.mvConstruct`. -/
def mvConstruct (E : Env) (ov : OvMap) (ctor : Nat → Kw → Except Err Val) (p : MV) (value : Val) :
    Except Err (Val × List Nat) :=
  match p.ty with
  | some ty =>
    match ty.ctor with
    | .spec c =>
      if (ov c).isSome then
        match value with
        | .dict kvs =>
          if !conforms E ty (.dict .nil) then
            match kvs.asKw with
            | none => .error .typeError
            | some dkw => (ctor c (pyMergeKw p.attrs dkw)).map (·, [])
          else .ok (value, [])
        | v =>
          if v = MISSING then
            (ctor c (p.attrs.filter (fun kv => kv.2 != MISSING))).map (·, p.attrs.map (·.1))
          else .ok (v, [])
      else SpecVerif.C05.mvConstruct E ctor p value
    | _ => SpecVerif.C05.mvConstruct E ctor p value
  | none => SpecVerif.C05.mvConstruct E ctor p value

mutual

/-- `mutate_value`, steps 1–8 (as `SpecVerif.C05.mutateValue`, with overflow-aware construction) -/
def mutateValue (E : Env) (ov : OvMap) : Nat → Val → MV → Except Err Val
  | 0, _, _ => .error .runtimeError
  | n+1, old, p =>
    if p.new = UNCHANGED then .ok old else
    match mvConstruct E ov (construct E ov n) p (mvValue old p) with
    | .error e => .error e
    | .ok (value, used) =>
      match mvAttrs (setAttrV E ov n false) used p.attrs value with
      | .error e => .error e
      | .ok value => mvAttrTransforms E (setAttrV E ov n false) p.attrTransforms (mvTransform p value)

/-- the generated `__setattr__` -/
def setAttrV (E : Env) (ov : OvMap) : Nat → Bool → Val → Nat → Val → Except Err Val
  | 0, _, _, _, _ => .error .runtimeError
  | n+1, skip, .inst c fs, a, v =>
    match E.attr? c a with
    | none => .ok (if v.isSent then .inst c fs else .inst c (fs.set a v))
    | some sp =>
      match prepareAttrValue E ov n (.inst c fs) sp v [] with
      | .error e => .error e
      | .ok pv => mutateAttrV E skip (.inst c fs) sp pv
  | _, _, _, _, _ => .error .attributeError

/-- `prepare_attr_value` (collection items: the overflow-free `collPrepare`) -/
def prepareAttrValue (E : Env) (ov : OvMap) : Nat → Val → AttrSpec → Val → Kw → Except Err Val
  | 0, _, _, _, _ => .error .runtimeError
  | n+1, inst, sp, v, attrs =>
    if v = UNCHANGED then .ok UNCHANGED
    else match mutateValue E ov n MISSING
        { new := v, prepare := sp.prep.map (fun p => E.prep p inst), ty := some sp.ty, attrs := attrs } with
    | .error e => .error e
    | .ok v => if sp.ty.isCollection then collPrepare E n inst sp v else .ok v

/-- `InitMethod.init`.  Without an overflow attribute an unknown keyword is a TypeError of the generated
signature; with one, every attribute but the overflow attribute is initialised from its keyword or default, and
then the extra keywords are stored, as a dict, in the overflow attribute (`skip_invalidation=True`). -/
def construct (E : Env) (ov : OvMap) : Nat → Nat → Kw → Except Err Val
  | 0, _, _ => .error .runtimeError
  | n+1, c, kw =>
    match E.cls? c with
    | none => .error .typeError
    | some cs =>
      if kw.any (fun kv => (cs.attr? kv.1).isNone && !isExtra cs (ov c) kv) then .error .typeError
      else if keyMissing cs kw then .error .typeError
      else
        match (cs.initOrder.foldlM (m := Except Err) (fun (acc : Val) a =>
          match cs.attr? a with
          | none => .ok acc
          | some sp =>
            if some a == ov c then .ok acc
            else if initValue sp kw = MISSING then .ok acc else setAttrV E ov n true acc a (initValue sp kw))
          (.inst c (allMissing cs.attrs)) : Except Err Val) with
        | .error e => .error e
        | .ok obj =>
          match ov c with
          | none => .ok obj
          | some o => setAttrV E ov n true obj o (.dict (kwDict (kw.filter (isExtra cs (some o)))))

end

/-! ## the helpers (as in `Model/C05.lean`, over the overflow-aware knot) -/

/-- the keyword check of the generated wrapper: any keyword goes when the annotation's class collects
extra keywords -/
def kwOk (E : Env) (ov : OvMap) (ty : Ty) (names : List Nat) : Bool :=
  SpecVerif.C05.kwOk E ty names ||
    (match ty.kwClass with
     | none => false
     | some c => (ov c).isSome && (E.cls? c).isSome)

def withAttr (E : Env) (ov : OvMap) (n : Nat) (recv : Val) (sp : AttrSpec) (v : Val) (kw : Kw) (inplace cond : Bool) :
    Except Err Outcome :=
  if !kwOk E ov sp.ty (kw.map (·.1)) then .error .typeError
  else if !cond then .ok ⟨recv, .receiver⟩
  else match prepareAttrValue E ov n recv sp v kw with
    | .error e => .error e
    | .ok pv => mutateAttr E recv sp pv inplace

def updateAttr (E : Env) (ov : OvMap) (n : Nat) (recv : Val) (sp : AttrSpec) (v : Val) (kw : Kw) (inplace cond : Bool) :
    Except Err Outcome :=
  if !kwOk E ov sp.ty (kw.map (·.1)) then .error .typeError
  else if !cond || (v = UNCHANGED && kw.isEmpty) then .ok ⟨recv, .receiver⟩
  else match mutateValue E ov n (E.getAttr recv sp.name) { new := v, ty := some sp.ty, attrs := kw } with
    | .error e => .error e
    | .ok u => withAttr E ov n recv sp u [] inplace true

def transformAttr (E : Env) (ov : OvMap) (n : Nat) (recv : Val) (sp : AttrSpec) (f : Option Tr) (kt : KwT)
    (inplace cond : Bool) : Except Err Outcome :=
  if !kwOk E ov sp.ty (kt.map (·.1)) then .error .typeError
  else if !cond then .ok ⟨recv, .receiver⟩
  else match mutateValue E ov n (E.getAttr recv sp.name) { transform := f, ty := some sp.ty, attrTransforms := kt } with
    | .error e => .error e
    | .ok u => withAttr E ov n recv sp u [] inplace true

def delAttrV (E : Env) (ov : OvMap) (n : Nat) (obj : Val) (sp : AttrSpec) : Except Err Val :=
  if sp.defaultVal = MISSING then
    (if obj.getAttr sp.name = MISSING then .error .attributeError
     else .ok (E.invalidate (obj.setField sp.name MISSING) sp.name))
  else match prepareAttrValue E ov n obj sp sp.defaultVal [] with
    | .error e => .error e
    | .ok pv => mutateAttrV E false obj sp pv

def resetAttr (E : Env) (ov : OvMap) (n : Nat) (recv : Val) (sp : AttrSpec) (inplace cond : Bool) : Except Err Outcome :=
  if !cond then .ok ⟨recv, .receiver⟩
  else (delAttrV E ov n recv sp).map fun v => outcomeOf recv v inplace

def kwTopOk (E : Env) (ov : OvMap) (recv : Val) (names : List Nat) : Bool :=
  match classOf recv with
  | some c => kwOk E ov (.spec c) names
  | none => names.isEmpty

def updateTop (E : Env) (ov : OvMap) (n : Nat) (recv : Val) (v : Val) (kw : Kw) (inplace cond : Bool) :
    Except Err Outcome :=
  if !kwTopOk E ov recv (kw.map (·.1)) then .error .typeError
  else if !cond then .ok ⟨recv, .receiver⟩
  else match mutateValue E ov n recv { new := v, attrs := kw } with
    | .error e => .error e
    | .ok u =>
      if v = UNCHANGED || ((v = MISSING || v = EMPTY) && kw.isEmpty) then .ok ⟨recv, .receiver⟩
      else if v = MISSING || v = EMPTY then .ok (outcomeOf recv u inplace)
      else .ok ⟨recv, .fresh u⟩

def transformTop (E : Env) (ov : OvMap) (n : Nat) (recv : Val) (f : Option Tr) (kt : KwT) (inplace cond : Bool) :
    Except Err Outcome :=
  if !kwTopOk E ov recv (kt.map (·.1)) then .error .typeError
  else if !cond then .ok ⟨recv, .receiver⟩
  else match mutateValue E ov n recv { transform := f, attrTransforms := kt } with
    | .error e => .error e
    | .ok u =>
      match f with
      | some _ => .ok ⟨recv, .fresh u⟩
      | none => if kt.isEmpty then .ok ⟨recv, .receiver⟩ else .ok (outcomeOf recv u inplace)

def resetAllV (E : Env) (ov : OvMap) (n : Nat) : Val → List AttrSpec → Val × Option Err
  | obj, [] => (obj, none)
  | obj, sp :: rest =>
    match delAttrV E ov n obj sp with
    | .ok v => resetAllV E ov n v rest
    | .error .attributeError => resetAllV E ov n obj rest
    | .error e => (obj, some e)

def resetTop (E : Env) (ov : OvMap) (n : Nat) (recv : Val) (inplace cond : Bool) : Outcome :=
  if !cond then ⟨recv, .receiver⟩
  else match classOf recv with
    | none => ⟨recv, .raised .attributeError⟩
    | some c => match E.cls? c with
      | none => ⟨recv, .raised .attributeError⟩
      | some cs =>
        match resetAllV E ov n recv cs.attrs with
        | (v, none) => outcomeOf recv v inplace
        | (_, some e) => ⟨recv, .raised e⟩

/-- One API call on the receiver, for a class table with overflow classes. -/
def run (E : Env) (ov : OvMap) (n : Nat) (recv : Val) (c : Call) : Outcome :=
  match c.op with
  | .withA a v kw => match specOf E recv a with
    | none => ⟨recv, .raised .attributeError⟩
    | some sp => lift recv (withAttr E ov n recv sp v kw c.inplace c.cond)
  | .updateA a v kw => match specOf E recv a with
    | none => ⟨recv, .raised .attributeError⟩
    | some sp => lift recv (updateAttr E ov n recv sp v kw c.inplace c.cond)
  | .transformA a f kt => match specOf E recv a with
    | none => ⟨recv, .raised .attributeError⟩
    | some sp => lift recv (transformAttr E ov n recv sp f kt c.inplace c.cond)
  | .resetA a => match specOf E recv a with
    | none => ⟨recv, .raised .attributeError⟩
    | some sp => lift recv (resetAttr E ov n recv sp c.inplace c.cond)
  | .setattr a v => match specOf E recv a with
    | none => ⟨recv, .raised .attributeError⟩
    | some _ => lift recv ((setAttrV E ov (n+1) false recv a v).map fun r => ⟨r, .receiver⟩)
  | .delattr a => match specOf E recv a with
    | none => ⟨recv, .raised .attributeError⟩
    | some sp => lift recv ((delAttrV E ov n recv sp).map fun r => ⟨r, .receiver⟩)
  | .update v kw => lift recv (updateTop E ov n recv v kw c.inplace c.cond)
  | .transform f kt => lift recv (transformTop E ov n recv f kt c.inplace c.cond)
  | .reset => resetTop E ov n recv c.inplace c.cond

end SpecVerif.C05.Ov
