import SpecVerif.Model.C05Proto
import SpecVerif.Model.C05Ov
/-!
The line protocol of `Drivers/C05.lean`: everything of `C05Proto` plus

  `ovf <class> <attr>`                      class `<class>` was declared with `init_overflow_attr=<attr>`
  `sig <f> builtin|object`                  what `_get_function_args` finds out about constructor `<f>`
  `sig <f> fixed|varkw <k> <name>…`
  `args <f> <k> <name>…`                    `_get_function_args(<f>, {names})` from the current memo; prints the
                                            answer (sorted, duplicate free) and keeps the new memo

A class table without overflow classes is evaluated by `SpecVerif.C05.run` / `construct` (the definitions the
theorems of `Props/C05.lean` were first stated for), one with overflow classes by `SpecVerif.C05.Ov.run` /
`Ov.construct` (`Props.C05.ov_conservative`: they agree on the former).
Not imported by any theorem module.
-/
open SpecVerif.Py SpecVerif.C05

namespace C05Driver

structure StO where
  st : St := {}
  ov : List (Nat × Nat) := []
  sigs : List (Nat × Ov.Sig) := []
  memo : Ov.Memo := []

def StO.ovMap (s : StO) : Ov.OvMap := fun c => (s.ov.find? (·.1 == c)).map (·.2)
def StO.sigOf (s : StO) : Nat → Ov.Sig := fun f => ((s.sigs.find? (·.1 == f)).map (·.2)).getD .objectInit

def insertNat (n : Nat) : List Nat → List Nat
  | [] => [n]
  | m :: r => if n < m then n :: m :: r else if n == m then m :: r else m :: insertNat n r
def sortNats (xs : List Nat) : List Nat := xs.foldl (fun acc n => insertNat n acc) []

def pSig : P Ov.Sig
  | "builtin" :: r => some (.builtin, r)
  | "object" :: r => some (.objectInit, r)
  | "fixed" :: r => do let (k, r) ← pNat r; let (ps, r) ← pNats k r; pure (.fixed ps, r)
  | "varkw" :: r => do let (k, r) ← pNat r; let (ps, r) ← pNats k r; pure (.varkw ps, r)
  | _ => none

def handleO (s : StO) (line : String) : StO × String :=
  match (line.trimAscii.toString.splitOn " ").filter (· ≠ "") with
  | ["reset"] => ({}, "ok")
  | "ovf" :: r =>
    match (do let (c, r) ← pNat r; let (o, _) ← pNat r; pure (c, o)) with
    | some (c, o) => ({ s with ov := (c, o) :: s.ov }, "ok")
    | none => (s, "bad-op")
  | "sig" :: r =>
    match (do let (f, r) ← pNat r; let (sg, _) ← pSig r; pure (f, sg)) with
    | some (f, sg) => ({ s with sigs := (f, sg) :: s.sigs }, "ok")
    | none => (s, "bad-op")
  | "args" :: r =>
    match (do let (f, r) ← pNat r; let (k, r) ← pNat r; let (ns, _) ← pNats k r; pure (f, ns)) with
    | some (f, ns) =>
      let res := Ov.getFunctionArgs s.sigOf s.memo f ns
      ({ s with memo := res.2 }, " ".intercalate ("args" :: (sortNats res.1).map toString))
    | none => (s, "bad-op")
  | ts =>
    if s.ov.isEmpty then
      let (st', out) := handle s.st line
      ({ s with st := st' }, out)
    else
      match ts with
      | "new" :: r =>
        match (do let (c, r) ← pNat r; let (kw, _) ← pKw r; pure (c, kw)) with
        | none => (s, "bad-op")
        | some (c, kw) =>
          match Ov.construct s.st.env s.ovMap FUEL c kw with
          | .ok v => ({ s with st := { s.st with recv := v, dead := false } }, "ok ;; " ++ showVal v)
          | .error e => ({ s with st := { s.st with recv := NONE, dead := true } }, "err " ++ e.name ++ " ;; N")
      | "class" :: _ =>
        let (st', out) := handle s.st line
        ({ s with st := st' }, out)
      | "pdecl" :: _ =>
        let (st', out) := handle s.st line
        ({ s with st := st' }, out)
      | ts =>
        match parseCall ts with
        | none => (s, "bad-op")
        | some (call, adopt) =>
          if s.st.dead then (s, "err AttributeError ;; N")
          else
            let (st', out) := showRes s.st adopt (Ov.run s.st.env s.ovMap FUEL s.st.recv call)
            ({ s with st := st' }, out)

partial def loopO (h : IO.FS.Stream) (out : IO.FS.Stream) (s : StO) : IO Unit := do
  let line ← h.getLine
  if line.isEmpty then return ()
  let (s', o) := handleO s line
  out.putStrLn o
  loopO h out s'

end C05Driver
