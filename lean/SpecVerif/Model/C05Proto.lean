import SpecVerif.Model.C05
import SpecVerif.Model.C05Decl
/-!
The line protocol shared by `Drivers/C05.lean` and `Drivers/C03.lean`: callback pools,
parser and canonical printer (see the protocol description in `Drivers/C05.lean`).
Not imported by any theorem module; `partial` is used for parsing only.
-/
open SpecVerif.Py SpecVerif.C05

namespace C05Driver

/-! ### pools (interpreted identically in harness/corr_C05.py) -/

def strUpper (n : Nat) : Nat := if n < 900 then n + 1000 else n

def prepPool (classes : List ClassSpec) (id : Nat) (inst : Val) (v : Val) : Val :=
  match id, v with
  | 0, .sc (.int n) => .sc (.int (2 * n))
  | 1, .sc (.int n) => .sc (.int (if n < 0 then 0 else n))
  | 2, .sc (.str s) => .sc (.str (strUpper s))
  | 3, .sc (.int n) => if 0 ≤ n && n < 700 then .sc (.str (100 + n.toNat)) else v
  | 4, .sc (.int n) => match ({ classes := classes, prep := fun _ _ v => v } : Env).getAttr inst 0 with
    | .sc (.int m) => .sc (.int (n + m))
    | _ => v
  | 5, .sc (.int n) => .dict (.cons (.sc (.str 0)) (.sc (.int n)) .nil)
  | 6, .sc (.int n) => if n % 7 == 6 then .sc (.str 100) else v
  | 7, .sc .none => .sc (.int 0)
  | _, _ => v

/-- validators of the validated types of the harness (`sc_values.VALIDATORS`) -/
def predPool (id : Nat) (v : Val) : Bool :=
  match id, v with
  | 0, .sc (.int n) => 0 ≤ n                       -- bounded(int, ge=0)
  | 0, .sc (.bool _) => true
  | 1, .sc (.int n) => 0 < n && n ≤ 10             -- bounded(int, gt=0, le=10)
  | 1, .sc (.bool b) => b
  | 2, .sc (.str s) => s != 999                    -- validated(non-empty str)
  | 3, .sc (.int n) => n % 2 == 0                  -- validated(even int, not bool)
  | _, _ => false

inductive TrTok
  | inc | dbl | neg | up | idt | cst (v : Val) | app (v : Val)

def TrTok.fn : TrTok → Tr
  | .inc => fun v => match v with
    | .sc (.int n) => .sc (.int (n + 1))
    | .sc (.bool b) => .sc (.int (if b then 2 else 1))
    | .sc (.flt t) => .sc (.flt (t + 2))
    | v => v
  | .dbl => fun v => match v with
    | .sc (.int n) => .sc (.int (2 * n))
    | v => v
  | .neg => fun v => match v with
    | .sc (.int n) => .sc (.int (-n))
    | v => v
  | .up => fun v => match v with
    | .sc (.str s) => .sc (.str (strUpper s))
    | v => v
  | .idt => id
  | .cst c => fun _ => c
  | .app x => fun v => match v with
    | .list xs => .list (xs.snoc x)
    | .set xs => .set (if xs.mem x then xs else xs.snoc x)
    | v => v

/-! ### parsing -/

abbrev P (α : Type) := List String → Option (α × List String)

def pNat : P Nat
  | t :: r => t.toNat?.map (·, r)
  | [] => none

def pOptNat : P (Option Nat)
  | "_" :: r => some (none, r)
  | t :: r => t.toNat?.map (fun n => (some n, r))
  | [] => none

def pScalarTok (t : String) : Option Scalar :=
  if t == "N" then some .none
  else if t == "T" then some (.bool true)
  else if t == "F" then some (.bool false)
  else if t == "M" then some (.sent .missing)
  else if t == "E" then some (.sent .empty)
  else if t == "U" then some (.sent .unchanged)
  else if t.startsWith "i" then (t.drop 1).toString.toInt?.map .int
  else if t.startsWith "f" then (t.drop 1).toString.toInt?.map .flt
  else if t.startsWith "s" then (t.drop 1).toString.toNat?.map .str
  else none

mutual
partial def pVal : P Val
  | "L" :: r => do let (k, r) ← pNat r; let (xs, r) ← pVals k r; pure (.list xs, r)
  | "S" :: r => do let (k, r) ← pNat r; let (xs, r) ← pVals k r; pure (.set xs, r)
  | "D" :: r => do let (k, r) ← pNat r; let (xs, r) ← pKVs k r; pure (.dict xs, r)
  | "I" :: r => do
      let (c, r) ← pNat r; let (k, r) ← pNat r; let (fs, r) ← pFlds k r; pure (.inst c fs, r)
  | t :: r => (pScalarTok t).map (fun s => (.sc s, r))
  | [] => none
partial def pVals : Nat → P Vals
  | 0, r => some (.nil, r)
  | k+1, r => do let (v, r) ← pVal r; let (vs, r) ← pVals k r; pure (.cons v vs, r)
partial def pKVs : Nat → P KVs
  | 0, r => some (.nil, r)
  | k+1, r => do
      let (a, r) ← pVal r; let (v, r) ← pVal r; let (vs, r) ← pKVs k r; pure (.cons a v vs, r)
partial def pFlds : Nat → P Flds
  | 0, r => some (.nil, r)
  | k+1, r => do
      let (a, r) ← pNat r; let (v, r) ← pVal r; let (vs, r) ← pFlds k r; pure (.cons a v vs, r)
end

partial def pScalars : Nat → P (List Scalar)
  | 0, r => some ([], r)
  | k+1, t :: r => do let s ← pScalarTok t; let (ss, r) ← pScalars k r; pure (s :: ss, r)
  | _, [] => none

partial def pTy : P Ty
  | "any" :: r => some (.any, r)
  | "int" :: r => some (.int, r)
  | "str" :: r => some (.str, r)
  | "bool" :: r => some (.bool, r)
  | "float" :: r => some (.float, r)
  | "none" :: r => some (.none, r)
  | "lit" :: r => do let (k, r) ← pNat r; let (ss, r) ← pScalars k r; pure (.lit ss, r)
  | "union" :: r => do let (a, r) ← pTy r; let (b, r) ← pTy r; pure (.union a b, r)
  | "list" :: r => do let (a, r) ← pTy r; pure (.list a, r)
  | "set" :: r => do let (a, r) ← pTy r; pure (.set a, r)
  | "dict" :: r => do let (a, r) ← pTy r; let (b, r) ← pTy r; pure (.dict a b, r)
  | "spec" :: r => do let (c, r) ← pNat r; pure (.spec c, r)
  | "valid" :: r => do let (p, r) ← pNat r; let (b, r) ← pTy r; pure (.valid b p, r)
  | "mseq" :: r => do let (a, r) ← pTy r; pure (.mseq a, r)
  | "mset" :: r => do let (a, r) ← pTy r; pure (.mset a, r)
  | "mmap" :: r => do let (a, r) ← pTy r; let (b, r) ← pTy r; pure (.mmap a b, r)
  | _ => none

def pTr : P (Option TrTok)
  | "_" :: r => some (none, r)
  | "inc" :: r => some (some .inc, r)
  | "dbl" :: r => some (some .dbl, r)
  | "neg" :: r => some (some .neg, r)
  | "up" :: r => some (some .up, r)
  | "idt" :: r => some (some .idt, r)
  | "cst" :: r => do let (v, r) ← pVal r; pure (some (.cst v), r)
  | "app" :: r => do let (v, r) ← pVal r; pure (some (.app v), r)
  | _ => none

partial def pKwN : Nat → P Kw
  | 0, r => some ([], r)
  | k+1, r => do let (a, r) ← pNat r; let (v, r) ← pVal r; let (kw, r) ← pKwN k r; pure ((a, v) :: kw, r)
def pKw : P Kw := fun r => do let (k, r) ← pNat r; pKwN k r

partial def pKwTN : Nat → P KwT
  | 0, r => some ([], r)
  | k+1, r => do
      let (a, r) ← pNat r; let (t, r) ← pTr r; let t ← t
      let (kw, r) ← pKwTN k r; pure ((a, t.fn) :: kw, r)
def pKwT : P KwT := fun r => do let (k, r) ← pNat r; pKwTN k r

partial def pNats : Nat → P (List Nat)
  | 0, r => some ([], r)
  | k+1, r => do let (a, r) ← pNat r; let (as, r) ← pNats k r; pure (a :: as, r)

def pOptVal : P (Option Val)
  | "_" :: r => some (none, r)
  | r => (pVal r).map (fun (v, r) => (some v, r))

partial def pAttrs : Nat → P (List AttrSpec)
  | 0, r => some ([], r)
  | k+1, r => do
      let (name, r) ← pNat r; let (ty, r) ← pTy r; let (d, r) ← pOptVal r
      let (p, r) ← pOptNat r; let (ip, r) ← pOptNat r; let (ca, r) ← pOptVal r
      let (ni, r) ← pNat r; let (inv, r) ← pNats ni r
      let (as, r) ← pAttrs k r
      pure ({ name := name, ty := ty, default := d, prep := p, itemPrep := ip, classAttr := ca,
              invalidatedBy := inv } :: as, r)

def pClass : P ClassSpec := fun r => do
  let (id, r) ← pNat r; let (key, r) ← pOptNat r
  let (ns, r) ← pNat r; let (sups, r) ← pNats ns r
  let (ni, r) ← pNat r; let (init, r) ← pNats ni r
  let (na, r) ← pNat r; let (attrs, r) ← pAttrs na r
  pure ({ id := id, attrs := attrs, initOrder := init, key := key, supers := sups }, r)

/-! ### printing (canonical: set elements sorted, fields by attribute id, unset fields omitted) -/

def insertSorted (s : String) : List String → List String
  | [] => [s]
  | t :: r => if s ≤ t then s :: t :: r else t :: insertSorted s r
def sortStrs (xs : List String) : List String := xs.foldl (fun acc s => insertSorted s acc) []

def showScalar : Scalar → String
  | .none => "N" | .bool true => "T" | .bool false => "F"
  | .int n => s!"i{n}" | .flt t => s!"f{t}" | .str s => s!"s{s}"
  | .sent .missing => "M" | .sent .empty => "E" | .sent .unchanged => "U"

def insertFld (p : Nat × String) : List (Nat × String) → List (Nat × String)
  | [] => [p]
  | q :: r => if p.1 ≤ q.1 then p :: q :: r else q :: insertFld p r

mutual
partial def showVal : Val → String
  | .sc s => showScalar s
  | .list xs => "[" ++ ",".intercalate (xs.toList.map showVal) ++ "]"
  | .set xs => "{" ++ ",".intercalate (sortStrs (xs.toList.map showVal)) ++ "}"
  | .dict kvs => "{" ++ ",".intercalate (kvs.toList.map fun (k, v) => showVal k ++ ":" ++ showVal v) ++ "}"
  | .inst c fs =>
    let fl := (fs.toList.filter (fun p => p.2 != MISSING)).map (fun p => (p.1, showVal p.2))
    let fl := fl.foldl (fun acc p => insertFld p acc) []
    s!"C{c}(" ++ ",".intercalate (fl.map fun (a, s) => s!"{a}={s}") ++ ")"
end

/-! ### the loop -/

structure St where
  env : Env := { classes := [], prep := prepPool [], pred := predPool }
  recv : Val := NONE
  dead : Bool := false      -- construction failed: every later call is reported as AttributeError

def FUEL : Nat := 60

structure Flags where
  inplace : Bool
  cond : Bool
  adopt : Bool

def pFlags : P Flags
  | t :: r => some ({ inplace := t.contains 'i', cond := !t.contains 'n', adopt := t.contains 'a' }, r)
  | [] => none

def showRes (st : St) (adopt : Bool) (o : Outcome) : St × String :=
  let line := (match o.ret with
    | .receiver => "self"
    | .fresh v => "new " ++ showVal v
    | .raised e => "err " ++ e.name) ++ " ;; " ++ showVal o.recv
  let recv' := match o.ret, adopt with
    | .fresh (.inst c fs), true => .inst c fs
    | _, _ => o.recv
  ({ st with recv := recv' }, line)

def parseCall (ts : List String) : Option (Call × Bool) :=
  match ts with
  | "with" :: r => do
      let (f, r) ← pFlags r; let (a, r) ← pNat r; let (v, r) ← pVal r; let (kw, _) ← pKw r
      pure ({ op := .withA a v kw, inplace := f.inplace, cond := f.cond }, f.adopt)
  | "upd" :: r => do
      let (f, r) ← pFlags r; let (a, r) ← pNat r; let (v, r) ← pVal r; let (kw, _) ← pKw r
      pure ({ op := .updateA a v kw, inplace := f.inplace, cond := f.cond }, f.adopt)
  | "tra" :: r => do
      let (f, r) ← pFlags r; let (a, r) ← pNat r; let (t, r) ← pTr r; let (kt, _) ← pKwT r
      pure ({ op := .transformA a (t.map (·.fn)) kt, inplace := f.inplace, cond := f.cond }, f.adopt)
  | "rst" :: r => do
      let (f, r) ← pFlags r; let (a, _) ← pNat r
      pure ({ op := .resetA a, inplace := f.inplace, cond := f.cond }, f.adopt)
  | "set" :: r => do
      let (a, r) ← pNat r; let (v, _) ← pVal r
      pure ({ op := .setattr a v, inplace := true }, false)
  | "del" :: r => do
      let (a, _) ← pNat r
      pure ({ op := .delattr a, inplace := true }, false)
  | "UPD" :: r => do
      let (f, r) ← pFlags r; let (v, r) ← pVal r; let (kw, _) ← pKw r
      pure ({ op := .update v kw, inplace := f.inplace, cond := f.cond }, f.adopt)
  | "TRA" :: r => do
      let (f, r) ← pFlags r; let (t, r) ← pTr r; let (kt, _) ← pKwT r
      pure ({ op := .transform (t.map (·.fn)) kt, inplace := f.inplace, cond := f.cond }, f.adopt)
  | "RST" :: r => do
      let (f, _) ← pFlags r
      pure ({ op := .reset, inplace := f.inplace, cond := f.cond }, f.adopt)
  | _ => none

/-! ### `pdecl`: the entry of one preparer / item preparer, computed by `Decl.bootstrap` from the class bodies

  `pdecl <class> <attr> p|i <n> (<s|p> <-|v|a|A> <decorator id|_> <method id|_>)…`   layers root first:
  spec / plain class; body says nothing / plain value / annotation / `Attr(...)` object; the callback registered with
  the decorator on that object; the `_prepare_<…>` method of the body.  The entry (`prep` for `p`, `itemPrep` for `i`)
  of `<attr>` in the table of `<class>` is REPLACED by `(Decl.bootstrap layers).entry` — which is also what the
  generated helpers prepare with (`Res.helperPrep`, /repo a169c24).  Answers `ok`. -/

def pBody (deco : Option Nat) : String → Option SpecVerif.C05.Decl.Body
  | "-" => some .absent
  | "v" => some .value
  | "a" => some .annotated
  | "A" => some (.attr deco)
  | _ => none

partial def pLayers : Nat → P (List SpecVerif.C05.Decl.Layer)
  | 0, r => some ([], r)
  | k+1, sp :: b :: r => do
      let (d, r) ← pOptNat r; let (m, r) ← pOptNat r
      let body ← pBody d b
      let (ls, r) ← pLayers k r
      pure ({ spec := sp == "s", body := body, method := m } :: ls, r)
  | _, _ => none

def handlePdecl (st : St) (r : List String) : St × String :=
  match (do
    let (c, r) ← pNat r; let (a, r) ← pNat r
    let (which, r) ← (match r with | w :: r => some (w, r) | [] => none)
    let (n, r) ← pNat r; let (ls, r) ← pLayers n r
    if r.isEmpty then pure (c, a, which == "i", ls) else none) with
  | none => (st, "bad-op")
  | some (c, a, item, ls) =>
    let cl := SpecVerif.C05.Decl.applyDecl st.env.classes c a item ls
    ({ st with env := { classes := cl, prep := prepPool cl, pred := predPool } },
     "ok")

def handle (st : St) (line : String) : St × String :=
  match (line.trimAscii.toString.splitOn " ").filter (· ≠ "") with
  | ["reset"] => ({}, "ok")
  | "pdecl" :: r => handlePdecl st r
  | "class" :: r =>
    match pClass r with
    | some (cs, []) =>
      let cl := st.env.classes ++ [cs]
      ({ st with env := { classes := cl, prep := prepPool cl, pred := predPool } }, "ok")
    | _ => (st, "bad-class")
  | "new" :: r =>
    match (do let (c, r) ← pNat r; let (kw, _) ← pKw r; pure (c, kw)) with
    | none => (st, "bad-op")
    | some (c, kw) =>
      match construct st.env FUEL c kw with
      | .ok v => ({ st with recv := v, dead := false }, "ok ;; " ++ showVal v)
      | .error e => ({ st with recv := NONE, dead := true }, "err " ++ e.name ++ " ;; N")
  | ts =>
    match parseCall ts with
    | none => (st, "bad-op")
    | some (call, adopt) =>
      if st.dead then (st, "err AttributeError ;; N")
      else showRes st adopt (run st.env FUEL st.recv call)

partial def loop (h : IO.FS.Stream) (out : IO.FS.Stream) (st : St) : IO Unit := do
  let line ← h.getLine
  if line.isEmpty then return ()
  let (st', o) := handle st line
  out.putStrLn o
  loop h out st'

end C05Driver

