import SpecVerif.Model.Py
import SpecVerif.Model.C13
/-!
# C06 — element helpers of list / dict / set attributes

Two layers, both executable, core Lean only.

* **SPEC** (`firstIdx`, `pyDictSet`, `pyDictDel`, `pySetAdd`, together with
  `Py.pyIdx`, `Py.pyInsert`, `List.set`, `List.eraseIdx`, `List.erase`): the
  plain Python containers the property text refers to. A `dict` is an
  insertion-ordered association list, a `set` a duplicate-free list.
* **IMPL**: `spec_classes/collections/{base,sequences,mappings,sets}.py` and the
  element level of `utils/mutation.py:mutate_value`, function by function, with
  the same branch order and the same error class at the same point:
  `prepareItem`, `mutateItem`, `seqExtractor/seqInserter/seqAddItem/
  seqTransformItem/seqRemoveItem`, `mapExtractor/…`, `setExtractor/…`, and the
  generated helpers `with_/update_/transform_/without_<singular>`
  (`methods/collections/*.py`) as `step`.

Elements are Python values of a small universe: ints, strs and instances of
three spec classes: an unkeyed one with fields `b : str`, `a : int`
(`obj false (.s b) a`), one keyed by `key : str` (`obj true (.s key) a`) and one
keyed by `key : int` (`obj true (.i key) a`), each with a second field `a : int`.
`KeyedList` is the C13 model; a `KeyedSet` is modelled here by its `_dict`.
-/
namespace SpecVerif.C06
open SpecVerif.Py

/-! ## Values, item types, attribute configuration -/

/-- the first field of a spec-class element: a str (`b` / `key`) or an int (`key`) -/
inductive Key
  | s (s : String)
  | i (n : Int)
  deriving DecidableEq, Repr, Inhabited

inductive Val
  | int (n : Int)
  | str (s : String)
  | obj (keyed : Bool) (k : Key) (a : Int)
  deriving DecidableEq, Repr, Inhabited

/-- element types: `int`, `str`, the unkeyed spec class, the str-keyed and the
int-keyed spec class -/
inductive ItemTy | int | str | spec | kspec | ikspec
  deriving DecidableEq, Repr

/-- `check_type(v, item_type)` -/
def okItem : ItemTy → Val → Bool
  | .int, .int _ => true
  | .str, .str _ => true
  | .spec, .obj false (.s _) _ => true
  | .kspec, .obj true (.s _) _ => true
  | .ikspec, .obj true (.i _) _ => true
  | _, _ => false

inductive Family | list | dict | set | klist | kset
  deriving DecidableEq, Repr

/-- What the mutators read off `attr_spec`. -/
structure AttrCfg where
  fam   : Family
  item  : ItemTy
  /-- declared key type of a `Dict[K, V]` (checked by `MappingMutator._inserter`) -/
  keyTy : Option ItemTy := none
  /-- `attr_spec.prepare_item` (a user callback; never called on MISSING here) -/
  prep  : Option (Val → Val) := none

/-! ## SPEC: plain Python containers -/

/-- `xs.index(v)`: first position holding an equal value. -/
def firstIdx (xs : List Val) (v : Val) : Option Nat := xs.findIdx? (fun y => y == v)

abbrev PyDict := List (Val × Val)

/-- `k in d` -/
def pyDictHas (d : PyDict) (k : Val) : Bool := d.any (fun p => p.1 == k)
/-- `d.get(k, MISSING)` -/
def pyDictGet (d : PyDict) (k : Val) : Option Val := (d.find? (fun p => p.1 == k)).map (·.2)
/-- `d[k] = v`: an existing key keeps its position, a new key goes last. -/
def pyDictSet : PyDict → Val → Val → PyDict
  | [], k, v => [(k, v)]
  | (k', v') :: d, k, v => if k' == k then (k', v) :: d else (k', v') :: pyDictSet d k v
/-- `del d[k]` -/
def pyDictDel (d : PyDict) (k : Val) : PyDict := d.filter (fun p => !(p.1 == k))
/-- `s.add(x)` on a duplicate-free list. -/
def pySetAdd (xs : List Val) (x : Val) : List Val := if xs.contains x then xs else xs ++ [x]

/-! ## IMPL: item level (`prepare_item`, `mutate_value`) -/

/-- keyword arguments `key=/b=` and `a=` of the helpers of spec-class elements
(`none` = not passed). -/
structure Attrs where
  k : Option Key := none
  a : Option Int := none
  deriving DecidableEq, Repr

def Attrs.isEmpty (x : Attrs) : Bool := x.k.isNone && x.a.isNone

/-- keyword *transforms* of `transform_<singular>`. -/
structure AttrTfs where
  k : Option (Key → Key) := none
  a : Option (Int → Int) := none

/-- `CollectionAttrMutator.prepare_item`: item preparer, then promotion of a
bare key to a keyed spec-class element (`item_spec_type(key)`). -/
def prepareItem (c : AttrCfg) (v : Option Val) : Option Val :=
  match v with
  | none => none
  | some x =>
    let y := match c.prep with | some p => p x | none => x
    match y with
    | .str s => if c.item = .kspec then some (.obj true (.s s) 0) else some (.str s)
    | .int n => if c.item = .ikspec then some (.obj true (.i n) 0) else some (.int n)
    | y => some y

/-- a str / an int -/
def Key.isStr : Key → Bool
  | .s _ => true
  | .i _ => false

/-- `setattr(value, attr, v)` for every passed keyword (step 5 of `mutate_value`);
the spec class type-checks the assignment (`key=`/`b=` must keep its declared
type: TypeError). -/
def applyAttrs (v : Val) (at_ : Attrs) : Except Err Val :=
  if at_.isEmpty then .ok v else
  match v with
  | .obj kd k a =>
    match at_.k with
    | some k' => if k'.isStr == k.isStr then .ok (.obj kd k' (at_.a.getD a)) else .error .typeError
    | none => .ok (.obj kd k (at_.a.getD a))
  | _ => .error .attributeError

/-- step 4 of `mutate_value`: `constructor(**attrs)` (`int()`, `str()`, or the
spec class, whose key is a required argument). -/
def construct : ItemTy → Attrs → Except Err Val
  | .int, at_ => applyAttrs (.int 0) at_
  | .str, at_ => applyAttrs (.str "") at_
  | .spec, at_ =>
    match at_.k with
    | none => .ok (.obj false (.s "") (at_.a.getD 0))
    | some k => if k.isStr then .ok (.obj false k (at_.a.getD 0)) else .error .typeError
  | .kspec, at_ =>
    match at_.k with
    | none => .error .typeError
    | some k => if k.isStr then .ok (.obj true k (at_.a.getD 0)) else .error .typeError
  | .ikspec, at_ =>
    match at_.k with
    | none => .error .typeError
    | some k => if k.isStr then .error .typeError else .ok (.obj true k (at_.a.getD 0))

/-- step 7 of `mutate_value`. -/
def applyAttrTfs (v : Val) (tf : AttrTfs) : Except Err Val :=
  match tf.k, tf.a with
  | none, none => .ok v
  | fk, fa =>
    match v with
    | .obj kd k a =>
      .ok (.obj kd (match fk with | some f => f k | none => k) (match fa with | some f => f a | none => a))
    | _ => .error .attributeError

/-- `mutate_value(old_value=old, new_value=new, prepare=self.prepare_item, attrs=…,
constructor=item_constructor, transform=…, attr_transforms=…, replace=…)`.
`none` is `MISSING`. -/
def mutateItem (c : AttrCfg) (old new : Option Val) (replace : Bool) (at_ : Attrs)
    (tf : Option (Val → Val)) (atf : AttrTfs) : Except Err Val :=
  let value : Option Val :=
    match new with
    | some v => prepareItem c (some v)
    | none => if replace then prepareItem c none else old
  match (match value with
         | some v => applyAttrs v at_
         | none => construct c.item at_) with
  | .error e => .error e
  | .ok v => applyAttrTfs (match tf with | some f => f v | none => v) atf

/-! ## IMPL: `SequenceMutator` (list and KeyedList) -/

/-- `KeyedBase.key` on the element universe. -/
def keyOf : Val → Val
  | .obj true (.s k) _ => .str k
  | .obj true (.i n) _ => .int n
  | v => v

/-- `_validate_item` of a `KeyedList[KS, str]` / `KeyedList[KI, int]` (and of the
keyed sets): the mutator's `_inserter` has already checked the precise element
type, so the container-level check only has to tell keyed elements from others. -/
def keyedOk (v : Val) : Bool := okItem .kspec v || okItem .ikspec v

/-- the KeyedList configuration for C13's model. -/
def klCfg : C13.Cfg Val Val :=
  { key := keyOf, okItem := keyedOk, asKey := fun _ => none }

inductive SeqC
  | plain (xs : List Val)
  | keyed (l : C13.KL Val Val)

/-- the list of elements, in order -/
def SeqC.items : SeqC → List Val
  | .plain xs => xs
  | .keyed l => l.list

/-- `self.collection[i]` -/
def seqGet : SeqC → Val → Except Err Val
  | .plain xs, .int n =>
    match pyIdx xs.length n with
    | none => .error .indexError
    | some k => match xs[k]? with
      | none => .error .indexError
      | some x => .ok x
  | .plain _, _ => .error .typeError
  | .keyed l, .int n => C13.getIdx l n
  | .keyed l, k => C13.getKey l k

/-- `self.collection.index(v)` -/
def seqIndexOf (s : SeqC) (v : Val) : Option Nat := firstIdx s.items v

/-- `self.collection.append(x)` -/
def seqAppend : SeqC → Val → Except Err SeqC
  | .plain xs, x => .ok (.plain (xs ++ [x]))
  | .keyed l, x =>
    match C13.append klCfg l x with
    | .error e => .error e
    | .ok l' => .ok (.keyed l')

/-- `self.collection.insert(i, x)` -/
def seqInsert : SeqC → Val → Val → Except Err SeqC
  | .plain xs, .int n, x => .ok (.plain (pyInsert xs n x))
  | .plain _, _, _ => .error .typeError
  | .keyed l, .int n, x =>
    match C13.insertAt klCfg l n x with
    | .error e => .error e
    | .ok l' => .ok (.keyed l')
  | .keyed l, _, x =>
    match C13.validateNew klCfg l x with
    | .error e => .error e
    | .ok () => .error .typeError

/-- `self.collection[i] = x` -/
def seqSet : SeqC → Val → Val → Except Err SeqC
  | .plain xs, .int n, x =>
    match pyIdx xs.length n with
    | none => .error .indexError
    | some k => .ok (.plain (xs.set k x))
  | .plain _, _, _ => .error .typeError
  | .keyed l, .int n, x =>
    match C13.setIdx klCfg l n x with
    | .error e => .error e
    | .ok l' => .ok (.keyed l')
  | .keyed l, k, x =>
    match C13.setKey klCfg l k x with
    | .error e => .error e
    | .ok l' => .ok (.keyed l')

/-- `del self.collection[i]` -/
def seqDel : SeqC → Val → Except Err SeqC
  | .plain xs, .int n =>
    match pyIdx xs.length n with
    | none => .error .indexError
    | some k => .ok (.plain (xs.eraseIdx k))
  | .plain _, _ => .error .typeError
  | .keyed l, .int n =>
    match C13.delIdx klCfg l n with
    | .error e => .error e
    | .ok l' => .ok (.keyed l')
  | .keyed l, k =>
    match C13.delKey klCfg l k with
    | .error e => .error e
    | .ok l' => .ok (.keyed l')

/-- the by-index defaulting rule: `by_index = not check_type(arg, item_type)`
when unspecified. -/
def byIndexOf (c : AttrCfg) (byIndex : Option Bool) (v : Val) : Bool :=
  match byIndex with
  | some b => b
  | none => !okItem c.item v

/-- `SequenceMutator._extractor`; returns `(index, old_item)`, `none` is Python
`None` for the index and `MISSING` for the item. -/
def seqExtractor (c : AttrCfg) (s : SeqC) (voi : Option Val) (raiseIfMissing : Bool)
    (byIndex : Option Bool) : Except Err (Option Val × Option Val) :=
  match voi with
  | none => .ok (none, none)
  | some v =>
    if byIndexOf c byIndex v then
      match seqGet s v with
      | .ok x => .ok (some v, some x)
      | .error .indexError => if raiseIfMissing then .error .indexError else .ok (some v, none)
      | .error e => .error e
    else
      match seqIndexOf s v with
      | some k => .ok (some (.int (Int.ofNat k)), some v)
      | none => if raiseIfMissing then .error .valueError else .ok (none, some v)

/-- `SequenceMutator._inserter` -/
def seqInserter (c : AttrCfg) (s : SeqC) (index : Option Val) (item : Val) (insert : Bool) :
    Except Err SeqC :=
  if !okItem c.item item then .error .valueError
  else match index with
    | none => seqAppend s item
    | some i => if insert then seqInsert s i item else seqSet s i item

/-- `SequenceMutator.add_item` through `_mutate_collection` -/
def seqAddItem (c : AttrCfg) (s : SeqC) (item : Option Val) (at_ : Attrs) (voi : Option Val)
    (byIndex : Option Bool) (insert replace : Bool) : Except Err SeqC :=
  match seqExtractor c s voi (voi.isSome && !insert) byIndex with
  | .error e => .error e
  | .ok (idx, old) =>
    match mutateItem c old item replace at_ none {} with
    | .error e => .error e
    | .ok y => seqInserter c s idx y insert

/-- `SequenceMutator.transform_item` -/
def seqTransformItem (c : AttrCfg) (s : SeqC) (voi : Val) (tf : Option (Val → Val))
    (byIndex : Option Bool) (atf : AttrTfs) : Except Err SeqC :=
  match seqExtractor c s (some voi) true byIndex with
  | .error e => .error e
  | .ok (idx, old) =>
    match mutateItem c old none false {} tf atf with
    | .error e => .error e
    | .ok y => seqInserter c s idx y false

/-- `SequenceMutator.remove_item` -/
def seqRemoveItem (c : AttrCfg) (s : SeqC) (voi : Val) (byIndex : Option Bool) : Except Err SeqC :=
  match seqExtractor c s (some voi) true byIndex with
  | .error e => .error e
  | .ok (none, _) => .ok s
  | .ok (some i, _) => seqDel s i

/-! ## IMPL: `MappingMutator` -/

/-- `MappingMutator._extractor` -/
def mapExtractor (d : PyDict) (k : Val) (raiseIfMissing : Bool) : Except Err (Val × Option Val) :=
  if raiseIfMissing && !pyDictHas d k then .error .keyError else .ok (k, pyDictGet d k)

/-- `len(type_args) == 2 and not check_type(index, type_args[0])` -/
def keyBad (c : AttrCfg) (k : Val) : Bool :=
  match c.keyTy with
  | some t => !okItem t k
  | none => false

/-- `MappingMutator._inserter` (value type, then key type, then `d[k] = item`) -/
def mapInserter (c : AttrCfg) (d : PyDict) (k : Val) (item : Val) : Except Err PyDict :=
  if !okItem c.item item then .error .valueError
  else if keyBad c k then .error .valueError
  else .ok (pyDictSet d k item)

/-- `MappingMutator.add_item` -/
def mapAddItem (c : AttrCfg) (d : PyDict) (k : Val) (value : Option Val) (at_ : Attrs)
    (replace requirePre : Bool) : Except Err PyDict :=
  match mapExtractor d k requirePre with
  | .error e => .error e
  | .ok (idx, old) =>
    match mutateItem c old value replace at_ none {} with
    | .error e => .error e
    | .ok y => mapInserter c d idx y

/-- `MappingMutator.transform_item` -/
def mapTransformItem (c : AttrCfg) (d : PyDict) (k : Val) (tf : Option (Val → Val))
    (atf : AttrTfs) : Except Err PyDict :=
  match mapExtractor d k true with
  | .error e => .error e
  | .ok (idx, old) =>
    match mutateItem c old none false {} tf atf with
    | .error e => .error e
    | .ok y => mapInserter c d idx y

/-- `MappingMutator.remove_item` -/
def mapRemoveItem (d : PyDict) (k : Val) : Except Err PyDict :=
  match mapExtractor d k true with
  | .error e => .error e
  | .ok (idx, _) => .ok (pyDictDel d idx)

/-! ## IMPL: `SetMutator` (set and KeyedSet) -/

inductive SetC
  | plain (xs : List Val)
  | keyed (d : PyDict)

/-- the elements -/
def SetC.items : SetC → List Val
  | .plain xs => xs
  | .keyed d => d.map (·.2)

/-- `v in self.collection` (`KeyedSet.__contains__`: as a key, then as an item) -/
def setContains : SetC → Val → Bool
  | .plain xs, v => xs.contains v
  | .keyed d, v => pyDictHas d v || pyDictHas d (keyOf v)

/-- `KeyedSet.__getitem__` -/
def ksetLookup (d : PyDict) (v : Val) : Option Val :=
  match pyDictGet d v with
  | some x => some x
  | none => pyDictGet d (keyOf v)

/-- `self.collection.discard(v)` -/
def setDiscard : SetC → Val → SetC
  | .plain xs, v => .plain (xs.erase v)
  | .keyed d, v =>
    if pyDictHas d v then .keyed (pyDictDel d v)
    else if pyDictHas d (keyOf v) then .keyed (pyDictDel d (keyOf v))
    else .keyed d

/-- `self.collection.add(x)` -/
def setAdd : SetC → Val → Except Err SetC
  | .plain xs, x => .ok (.plain (pySetAdd xs x))
  | .keyed d, x =>
    if !keyedOk x then .error .typeError else .ok (.keyed (pyDictSet d (keyOf x) x))

/-- `self.collection.remove(v)` -/
def setRemove (s : SetC) (v : Val) : Except Err SetC :=
  if setContains s v then .ok (setDiscard s v) else .error .keyError

/-- `SetMutator._extractor` (`voi = none` is `MISSING`, which is in no set) -/
def setExtractor (s : SetC) (voi : Option Val) (raiseIfMissing : Bool) :
    Except Err (Option Val × Option Val) :=
  match voi with
  | none => if raiseIfMissing then .error .valueError else .ok (none, none)
  | some v =>
    if !setContains s v then
      (if raiseIfMissing then .error .valueError else .ok (some v, none))
    else match s with
      | .plain _ => .ok (some v, some v)
      | .keyed d => match ksetLookup d v with
        | some x => .ok (some v, some x)
        | none => .error .keyError

/-- `SetMutator._inserter` -/
def setInserter (c : AttrCfg) (s : SetC) (index : Option Val) (item : Val) (replace : Bool) :
    Except Err SetC :=
  if !okItem c.item item then .error .valueError
  else match index with
    | some i => if replace then setAdd (setDiscard s i) item else setAdd s item
    | none => setAdd s item

/-- `SetMutator.add_item` (the inserter is used with its default `replace=True`) -/
def setAddItem (c : AttrCfg) (s : SetC) (item : Option Val) (voi : Option Val) (replace : Bool)
    (at_ : Attrs) : Except Err SetC :=
  match setExtractor s voi voi.isSome with
  | .error e => .error e
  | .ok (idx, old) =>
    match mutateItem c old item replace at_ none {} with
    | .error e => .error e
    | .ok y => setInserter c s idx y true

/-- `SetMutator.transform_item` -/
def setTransformItem (c : AttrCfg) (s : SetC) (voi : Val) (tf : Option (Val → Val))
    (atf : AttrTfs) : Except Err SetC :=
  match setExtractor s (some voi) true with
  | .error e => .error e
  | .ok (idx, old) =>
    match mutateItem c old none false {} tf atf with
    | .error e => .error e
    | .ok y => setInserter c s idx y true

/-- `SetMutator.remove_item` -/
def setRemoveItem (s : SetC) (voi : Val) : Except Err SetC :=
  match setExtractor s (some voi) true with
  | .error e => .error e
  | .ok (none, _) => .ok s
  | .ok (some k, _) => setRemove s k

/-! ## The generated helpers -/

inductive Coll
  | seq (s : SeqC)
  | map (d : PyDict)
  | set (s : SetC)

/-- `_create_collection` = `type_instantiate(attr_spec.type)` -/
def create (c : AttrCfg) : Coll :=
  match c.fam with
  | .list => .seq (.plain [])
  | .klist => .seq (.keyed C13.KL.empty)
  | .dict => .map []
  | .set => .set (.plain [])
  | .kset => .set (.keyed [])

/-- One call of an element helper. For a mapping `index` / `voi` is the key and
`item` / `new` the value; for a set `index` is unused. -/
inductive Op
  | with_ (item : Option Val) (index : Option Val) (insert : Bool) (at_ : Attrs)
  | update (voi : Val) (new : Option Val) (byIndex : Option Bool) (at_ : Attrs)
  | transform (voi : Val) (tf : Option (Val → Val)) (byIndex : Option Bool) (atf : AttrTfs)
  | without (voi : Val) (byIndex : Option Bool)

def liftSeq : Except Err SeqC → Except Err Coll
  | .ok s => .ok (.seq s) | .error e => .error e
def liftMap : Except Err PyDict → Except Err Coll
  | .ok s => .ok (.map s) | .error e => .error e
def liftSet : Except Err SetC → Except Err Coll
  | .ok s => .ok (.set s) | .error e => .error e

/-- `with_/update_/transform_/without_<singular>` on a *present* collection. -/
def stepColl (c : AttrCfg) : Coll → Op → Except Err Coll
  | .seq s, .with_ item index insert at_ =>
    liftSeq (seqAddItem c s item at_ index (some true) insert true)
  | .seq s, .update voi new bi at_ => liftSeq (seqAddItem c s new at_ (some voi) bi false false)
  | .seq s, .transform voi tf bi atf => liftSeq (seqTransformItem c s voi tf bi atf)
  | .seq s, .without voi bi => liftSeq (seqRemoveItem c s voi bi)
  | .map _, .with_ _ none _ _ => .error .valueError
  | .map d, .with_ value (some k) _ at_ => liftMap (mapAddItem c d k value at_ true false)
  | .map d, .update k new _ at_ => liftMap (mapAddItem c d k new at_ false true)
  | .map d, .transform k tf _ atf => liftMap (mapTransformItem c d k tf atf)
  | .map d, .without k _ => liftMap (mapRemoveItem d k)
  | .set s, .with_ item _ _ at_ => liftSet (setAddItem c s item none true at_)
  | .set s, .update voi new _ at_ => liftSet (setAddItem c s new (some voi) false at_)
  | .set s, .transform voi tf _ atf => liftSet (setTransformItem c s voi tf atf)
  | .set s, .without voi _ => liftSet (setRemoveItem s voi)

/-- A helper call on the attribute (`none` = never assigned): every mutator
entry point first creates a missing collection. -/
def step (c : AttrCfg) (st : Option Coll) (op : Op) : Except Err Coll :=
  stepColl c (st.getD (create c)) op

/-- The helper with its `_if` flag; on an exception the attribute is unchanged
(the harness keeps the old state). -/
def helper (c : AttrCfg) (st : Option Coll) (op : Op) (if_ : Bool) : Except Err (Option Coll) :=
  if !if_ then .ok st
  else match step c st op with
    | .ok coll => .ok (some coll)
    | .error e => .error e

end SpecVerif.C06
