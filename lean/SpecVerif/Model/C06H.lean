import SpecVerif.Model.C06
/-!
# C06 — the element helpers on objects with identity, and on instances that do not
keep the attribute in their `__dict__`

`Model/C06.lean` is a function of the container's *content*. Two things lie below
that abstraction, and both are modelled here (core Lean only, executable, run by
`Drivers/C06.lean`):

* **Identity of the elements.** A list attribute holds *references*; the same
  spec-class object may sit at several positions (`[d] * 3`, two in-place
  `with_<s>(x)`), `copy.deepcopy` keeps that sharing (its memo), and
  `mutate_value` must therefore never edit an element it was handed: it copies
  it first (`protect_via_deepcopy`) unless the object is its own (`mutate_safe`).
  `Heap`, `view`, `deepcopyRefs`, `mutateItemH` (= `mutate_value` with the copy
  decisions), `hSeqExtractor / hSeqInserter / hSeqAddItem / hSeqTransformItem /
  hSeqRemoveItem` (= `SequenceMutator` on a plain list of references),
  `hSeqHelper` (= the generated helper: lift, deep copy unless `_inplace`, edit).
  The parameter `ip` is the `inplace=` argument `_mutate_collection` passes to
  `mutate_value`: the library passes `False`; `true` is the counter-model of
  "the items of a freshly copied container are private" (seeded change C06-r4s2).
* **Where the instance keeps the attribute.** `CollectionAttrMutator.__init__`
  lifts the container with `getattr(instance, name, MISSING)` and `mutate_attr`
  stores the result with `setattr`: `Inst.read` / `Inst.write` for an attribute
  in the instance `__dict__`, behind a property / alias with a backing slot, or
  computed by an overridable (cached or uncached) `spec_property`; `helperI` is
  the generated helper on such an instance. `readOwnDict` is the counter-model
  "only an attribute that is masked *in the declaring class* is read through
  `getattr`" (seeded change C06-r4s1).
-/
namespace SpecVerif.C06
open SpecVerif.Py

/-! ## Objects with identity -/

/-- the objects allocated so far; a reference is a position -/
abbrev Heap := List Val

/-- the current value of object `r` -/
def cell (hp : Heap) (r : Nat) : Val := hp.getD r (.int 0)

/-- the content a list of references shows -/
def view (hp : Heap) (refs : List Nat) : List Val := refs.map (cell hp)

/-- `copy.deepcopy(collection)`: one new object per *distinct* old object (the memo),
so positions that shared an object share the copy. -/
def dcGo (hp : Heap) : List Nat → List (Nat × Nat) → Heap → Heap × List Nat
  | [], _, acc => (acc, [])
  | r :: rs, memo, acc =>
    match memo.lookup r with
    | some r' => ((dcGo hp rs memo acc).1, r' :: (dcGo hp rs memo acc).2)
    | none =>
      ((dcGo hp rs ((r, acc.length) :: memo) (acc ++ [cell hp r])).1,
        acc.length :: (dcGo hp rs ((r, acc.length) :: memo) (acc ++ [cell hp r])).2)

def deepcopyRefs (hp : Heap) (refs : List Nat) : Heap × List Nat := dcGo hp refs [] hp

/-- `prepare_item` on an object: the item preparer / the promotion of a bare key
build another object; otherwise the object itself goes on. -/
def hPrepare (c : AttrCfg) (hp : Heap) (r : Nat) : Heap × Nat :=
  match prepareItem c (some (cell hp r)) with
  | some v => if v = cell hp r then (hp, r) else (hp ++ [v], hp.length)
  | none => (hp, r)

/-- steps 1–5 of `mutate_value`: the chosen object, or a newly constructed one,
with the keywords set — on a copy unless the object is ours (`mutate_safe`).
Returns the heap, the object and `mutate_safe`. -/
def hBase (c : AttrCfg) (hp : Heap) (old new : Option Nat) (replace : Bool) (at_ : Attrs)
    (ip : Bool) : Except Err (Heap × Nat × Bool) :=
  let chosen : Heap × Option Nat :=
    match new with
    | some r => ((hPrepare c hp r).1, some (hPrepare c hp r).2)
    | none => if replace then (hp, none) else (hp, old)
  match chosen.2 with
  | none =>
    match construct c.item at_ with
    | .error e => .error e
    | .ok v => .ok (chosen.1 ++ [v], chosen.1.length, true)
  | some r =>
    if at_.isEmpty then .ok (chosen.1, r, ip)
    else match applyAttrs (cell chosen.1 r) at_ with
      | .error e => .error e  -- (`_rollback_on_error` restores the object)
      | .ok v => if ip then .ok (chosen.1.set r v, r, true) else .ok (chosen.1 ++ [v], chosen.1.length, true)

/-- step 6 of `mutate_value`: the callback's result is an object of its own (the
callbacks of the pool never edit their argument). -/
def hCallback (hp : Heap) (r : Nat) (tf : Option (Val → Val)) : Heap × Nat :=
  match tf with
  | none => (hp, r)
  | some f => (hp ++ [f (cell hp r)], hp.length)

/-- step 7 of `mutate_value`: keyword transforms are applied on a copy unless `mutate_safe`. -/
def hAttrTfs (hp : Heap) (r : Nat) (safe : Bool) (atf : AttrTfs) : Except Err (Heap × Nat) :=
  match atf.k, atf.a with
  | none, none => .ok (hp, r)
  | _, _ =>
    match applyAttrTfs (cell hp r) atf with
    | .error e => .error e
    | .ok v => if safe then .ok (hp.set r v, r) else .ok (hp ++ [v], hp.length)

/-- steps 6–7 of `mutate_value` -/
def hFinish (hp : Heap) (r : Nat) (safe : Bool) (tf : Option (Val → Val)) (atf : AttrTfs) :
    Except Err (Heap × Nat) :=
  hAttrTfs (hCallback hp r tf).1 (hCallback hp r tf).2 safe atf

/-- `mutate_value(old_value=old, new_value=new, …, inplace=ip)` on objects. -/
def mutateItemH (c : AttrCfg) (hp : Heap) (old new : Option Nat) (replace : Bool) (at_ : Attrs)
    (tf : Option (Val → Val)) (atf : AttrTfs) (ip : Bool) : Except Err (Heap × Nat) :=
  match hBase c hp old new replace at_ ip with
  | .error e => .error e
  | .ok (hp', r, safe) => hFinish hp' r safe tf atf

/-! ## `SequenceMutator` on a plain list of references -/

/-- `self.collection[i]` -/
def hSeqGet (refs : List Nat) : Val → Except Err Nat
  | .int n =>
    match pyIdx refs.length n with
    | none => .error .indexError
    | some k => match refs[k]? with
      | none => .error .indexError
      | some r => .ok r
  | _ => .error .typeError

/-- `SequenceMutator._extractor`: by value the *caller's* object is handed on. -/
def hSeqExtractor (c : AttrCfg) (hp : Heap) (refs : List Nat) (voi : Option Nat)
    (raiseIfMissing : Bool) (byIndex : Option Bool) : Except Err (Option Val × Option Nat) :=
  match voi with
  | none => .ok (none, none)
  | some a =>
    if byIndexOf c byIndex (cell hp a) then
      match hSeqGet refs (cell hp a) with
      | .ok r => .ok (some (cell hp a), some r)
      | .error .indexError => if raiseIfMissing then .error .indexError else .ok (some (cell hp a), none)
      | .error e => .error e
    else
      match firstIdx (view hp refs) (cell hp a) with
      | some k => .ok (some (.int (Int.ofNat k)), some a)
      | none => if raiseIfMissing then .error .valueError else .ok (none, some a)

/-- `SequenceMutator._inserter` -/
def hSeqInserter (c : AttrCfg) (hp : Heap) (refs : List Nat) (index : Option Val) (r : Nat)
    (insert : Bool) : Except Err (List Nat) :=
  if !okItem c.item (cell hp r) then .error .valueError
  else match index with
    | none => .ok (refs ++ [r])
    | some (.int n) =>
      if insert then .ok (pyInsert refs n r)
      else match pyIdx refs.length n with
        | none => .error .indexError
        | some k => .ok (refs.set k r)
    | some _ => .error .typeError

/-- `CollectionAttrMutator._mutate_collection` with the sequence extractor / inserter -/
def hMutateSeq (c : AttrCfg) (hp : Heap) (refs : List Nat) (voi : Option Nat) (requirePre : Bool)
    (byIndex : Option Bool) (item : Option Nat) (replace : Bool) (at_ : Attrs)
    (tf : Option (Val → Val)) (atf : AttrTfs) (insert ip : Bool) : Except Err (Heap × List Nat) :=
  match hSeqExtractor c hp refs voi requirePre byIndex with
  | .error e => .error e
  | .ok (idx, old) =>
    match mutateItemH c hp old item replace at_ tf atf ip with
    | .error e => .error e
    | .ok (hp', r) =>
      match hSeqInserter c hp' refs idx r insert with
      | .error e => .error e
      | .ok refs' => .ok (hp', refs')

/-- `SequenceMutator.add_item` -/
def hSeqAddItem (c : AttrCfg) (hp : Heap) (refs : List Nat) (item : Option Nat) (at_ : Attrs)
    (voi : Option Nat) (byIndex : Option Bool) (insert replace ip : Bool) :
    Except Err (Heap × List Nat) :=
  hMutateSeq c hp refs voi (voi.isSome && !insert) byIndex item replace at_ none {} insert ip

/-- `SequenceMutator.transform_item` -/
def hSeqTransformItem (c : AttrCfg) (hp : Heap) (refs : List Nat) (voi : Nat)
    (tf : Option (Val → Val)) (byIndex : Option Bool) (atf : AttrTfs) (ip : Bool) :
    Except Err (Heap × List Nat) :=
  hMutateSeq c hp refs (some voi) true byIndex none false {} tf atf false ip

/-- `SequenceMutator.remove_item` -/
def hSeqRemoveItem (c : AttrCfg) (hp : Heap) (refs : List Nat) (voi : Nat) (byIndex : Option Bool) :
    Except Err (List Nat) :=
  match hSeqExtractor c hp refs (some voi) true byIndex with
  | .error e => .error e
  | .ok (none, _) => .ok refs
  | .ok (some (.int n), _) =>
    match pyIdx refs.length n with
    | none => .error .indexError
    | some k => .ok (refs.eraseIdx k)
  | .ok (some _, _) => .error .typeError

/-- a helper call whose element / address arguments are objects -/
inductive HOp
  | with_ (item : Option Nat) (index : Option Nat) (insert : Bool) (at_ : Attrs)
  | update (voi : Nat) (new : Option Nat) (byIndex : Option Bool) (at_ : Attrs)
  | transform (voi : Nat) (tf : Option (Val → Val)) (byIndex : Option Bool) (atf : AttrTfs)
  | without (voi : Nat) (byIndex : Option Bool)

/-- the call as `Model/C06.lean` sees it: the arguments' values -/
def HOp.toOp (hp : Heap) : HOp → Op
  | .with_ item index insert at_ => .with_ (item.map (cell hp)) (index.map (cell hp)) insert at_
  | .update voi new bi at_ => .update (cell hp voi) (new.map (cell hp)) bi at_
  | .transform voi tf bi atf => .transform (cell hp voi) tf bi atf
  | .without voi bi => .without (cell hp voi) bi

/-- the argument objects exist -/
def HOp.inBounds (n : Nat) : HOp → Prop
  | .with_ item index _ _ => (∀ r, item = some r → r < n) ∧ (∀ r, index = some r → r < n)
  | .update voi new _ _ => voi < n ∧ (∀ r, new = some r → r < n)
  | .transform voi _ _ _ => voi < n
  | .without voi _ => voi < n

/-- `with_/update_/transform_/without_<singular>` on a present plain list -/
def hSeqStep (c : AttrCfg) (hp : Heap) (refs : List Nat) (ip : Bool) : HOp → Except Err (Heap × List Nat)
  | .with_ item index insert at_ => hSeqAddItem c hp refs item at_ index (some true) insert true ip
  | .update voi new bi at_ => hSeqAddItem c hp refs new at_ (some voi) bi false false ip
  | .transform voi tf bi atf => hSeqTransformItem c hp refs voi tf bi atf ip
  | .without voi bi =>
    match hSeqRemoveItem c hp refs voi bi with
    | .error e => .error e
    | .ok refs' => .ok (hp, refs')

/-- the edited container is what the attribute holds afterwards -/
def someRefs : Except Err (Heap × List Nat) → Except Err (Heap × Option (List Nat))
  | .error e => .error e
  | .ok (hp', refs') => .ok (hp', some refs')

/-- The generated helper on a list attribute holding `st` (`none` = MISSING): the
container is deep-copied unless `_inplace`, a missing one is created, then edited. -/
def hSeqHelper (c : AttrCfg) (hp : Heap) (st : Option (List Nat)) (op : HOp) (if_ inplace ip : Bool) :
    Except Err (Heap × Option (List Nat)) :=
  if !if_ then .ok (hp, st)
  else
    let start : Heap × List Nat :=
      match st with
      | none => (hp, [])
      | some refs => if inplace then (hp, refs) else deepcopyRefs hp refs
    someRefs (hSeqStep c start.1 start.2 ip op)

/-! ## `MappingMutator` on a dict whose values are references

Keys are strs / ints (immutable): their value is all there is to them. -/

abbrev RDict := List (Val × Nat)

/-- the content a dict of references shows -/
def viewD (hp : Heap) (d : RDict) : PyDict := d.map fun p => (p.1, cell hp p.2)

/-- `d.get(k, MISSING)` -/
def rDictGet (d : RDict) (k : Val) : Option Nat := (d.find? (fun p => p.1 == k)).map (·.2)
/-- `d[k] = r`: an existing key keeps its position, a new key goes last -/
def rDictSet : RDict → Val → Nat → RDict
  | [], k, r => [(k, r)]
  | (k', r') :: d, k, r => if k' == k then (k', r) :: d else (k', r') :: rDictSet d k r
/-- `del d[k]` -/
def rDictDel (d : RDict) (k : Val) : RDict := d.filter (fun p => !(p.1 == k))

/-- `copy.deepcopy(d)`: the values are copied like the elements of a list (shared values stay shared) -/
def deepcopyD (hp : Heap) (d : RDict) : Heap × RDict :=
  ((deepcopyRefs hp (d.map (·.2))).1, (d.map (·.1)).zip (deepcopyRefs hp (d.map (·.2))).2)

/-- `MappingMutator._extractor` -/
def hMapExtractor (d : RDict) (k : Val) (raiseIfMissing : Bool) : Except Err (Val × Option Nat) :=
  if raiseIfMissing && !(d.any (fun p => p.1 == k)) then .error .keyError else .ok (k, rDictGet d k)

/-- `MappingMutator._inserter` -/
def hMapInserter (c : AttrCfg) (hp : Heap) (d : RDict) (k : Val) (r : Nat) : Except Err RDict :=
  if !okItem c.item (cell hp r) then .error .valueError
  else if keyBad c k then .error .valueError
  else .ok (rDictSet d k r)

/-- `_mutate_collection` with the mapping extractor / inserter -/
def hMutateMap (c : AttrCfg) (hp : Heap) (d : RDict) (k : Val) (requirePre : Bool) (item : Option Nat)
    (replace : Bool) (at_ : Attrs) (tf : Option (Val → Val)) (atf : AttrTfs) (ip : Bool) :
    Except Err (Heap × RDict) :=
  match hMapExtractor d k requirePre with
  | .error e => .error e
  | .ok (idx, old) =>
    match mutateItemH c hp old item replace at_ tf atf ip with
    | .error e => .error e
    | .ok (hp', r) =>
      match hMapInserter c hp' d idx r with
      | .error e => .error e
      | .ok d' => .ok (hp', d')

/-- `MappingMutator.remove_item` -/
def hMapRemoveItem (d : RDict) (k : Val) : Except Err RDict :=
  match hMapExtractor d k true with
  | .error e => .error e
  | .ok (idx, _) => .ok (rDictDel d idx)

/-- `with_/update_/transform_/without_<singular>` on a present dict (`index` / `voi` is the key object) -/
def hMapStep (c : AttrCfg) (hp : Heap) (d : RDict) (ip : Bool) : HOp → Except Err (Heap × RDict)
  | .with_ _ none _ _ => .error .valueError
  | .with_ value (some k) _ at_ => hMutateMap c hp d (cell hp k) false value true at_ none {} ip
  | .update k new _ at_ => hMutateMap c hp d (cell hp k) true new false at_ none {} ip
  | .transform k tf _ atf => hMutateMap c hp d (cell hp k) true none false {} tf atf ip
  | .without k _ =>
    match hMapRemoveItem d (cell hp k) with
    | .error e => .error e
    | .ok d' => .ok (hp, d')

def someDict : Except Err (Heap × RDict) → Except Err (Heap × Option RDict)
  | .error e => .error e
  | .ok (hp', d') => .ok (hp', some d')

/-- The generated helper on a dict attribute holding `st` (`none` = MISSING). -/
def hMapHelper (c : AttrCfg) (hp : Heap) (st : Option RDict) (op : HOp) (if_ inplace ip : Bool) :
    Except Err (Heap × Option RDict) :=
  if !if_ then .ok (hp, st)
  else
    let start : Heap × RDict :=
      match st with
      | none => (hp, [])
      | some d => if inplace then (hp, d) else deepcopyD hp d
    someDict (hMapStep c start.1 start.2 ip op)

/-! ## Where the instance keeps the attribute -/

/-- how the class of the instance resolves the attribute name -/
inductive Store
  /-- no descriptor: the instance `__dict__` -/
  | dict
  /-- a data descriptor with a backing slot of its own (property / spec_property with a
  setter, Alias override or pass-through target) -/
  | slot
  /-- an overridable `spec_property`: the `__dict__` entry if there is one, else the
  getter's value (stored under the attribute's name when `cache`) -/
  | computed (cache : Bool)
  deriving DecidableEq, Repr

structure Inst (κ : Type) where
  store : Store := .dict
  /-- `instance.__dict__[name]` -/
  own : Option κ := none
  /-- the descriptor's backing slot -/
  back : Option κ := none
  /-- what the getter of a computed attribute returns -/
  dflt : Option κ := none

/-- `getattr(instance, name, MISSING)` and the instance afterwards -/
def Inst.read {κ : Type} (i : Inst κ) : Option κ × Inst κ :=
  match i.store with
  | .dict => (i.own, i)
  | .slot => (i.back, i)
  | .computed cache =>
    match i.own with
    | some v => (some v, i)
    | none => (i.dflt, if cache then { i with own := i.dflt } else i)

/-- `setattr(instance, name, v)` -/
def Inst.write {κ : Type} (i : Inst κ) (v : κ) : Inst κ :=
  match i.store with
  | .dict => { i with own := some v }
  | .slot => { i with back := some v }
  | .computed _ => { i with own := some v }

/-- what the attribute shows -/
def Inst.observe {κ : Type} (i : Inst κ) : Option κ := i.read.1

/-- The generated helper on an instance: `_if`, lift with `getattr`, edit (a copy of)
the container, store with `setattr` on (a copy of) the instance. -/
def helperI (c : AttrCfg) (i : Inst Coll) (op : Op) (if_ : Bool) : Except Err (Inst Coll) :=
  if !if_ then .ok i
  else match step c i.read.1 op with
    | .ok coll => .ok (i.read.2.write coll)
    | .error e => .error e

/-- counter-model (C06-r4s1): the container is lifted with `getattr` only when the
attribute is masked in the class that declares it, else from the instance `__dict__`. -/
def readOwnDict {κ : Type} (declaredMasked : Bool) (i : Inst κ) : Option κ :=
  if declaredMasked then i.read.1 else i.own

end SpecVerif.C06
