import SpecVerif.Model.Py
/-!
# C09 — Impl model of the generated constructor of a spec class

Mirrors, step for step,

* `spec_classes/spec_class.py`: `SpecClassMetadata.for_class` (metadata taken from the
  first decorated class of `mro()[1:]`, attributes inherited from `reversed(__bases__)`
  with ordered-dict `update`), `spec_class.bootstrap` (managed attributes, the
  re-defaulting loop that keeps the owner, re-declaration that takes ownership,
  `build_attr_spec` with `Attr`/`Field` lifting, key, `init_overflow_attr`, `post_init`);
* `spec_classes/types/attr.py`: `lookup_default_value`, `default_value`, `has_default`;
* `spec_classes/utils/method_builder.py` + `InitMethod.build_method`: the generated
  signature `(self[, key[=MISSING]], **kwargs)` with `validate_attrs` (switched off
  when an overflow attribute exists);
* `spec_classes/methods/core.py`: `InitMethod.init` — parents loop over
  `reversed(spec_cls.mro()[1:])`, own-attribute loop, overflow, `__post_init__`;
* hand-written constructors of the documented shape
  `def __init__(self, a=d, …): self.a = f(a); …`.

The class table is data. The MRO of every class is an INPUT (C3 linearisation is
trusted; the harness reads `cls.__mro__`). Attribute types are per attribute *name* (the
generator keeps the annotation of a name fixed). Preparers are per CLASS: a class body may define
`_prepare_<attr>` / `_prepare_<item>` methods (`ClassDef.preps` / `ClassDef.itemPreps`, a function id
each); `build_attr_spec` captures what `getattr(spec_cls, "_prepare_<attr>")` shows at the moment the
`Attr` is built (`AttrSpec.prep` / `AttrSpec.prepItem`), an inherited `Attr` that the subclass body does
not mention is handed down as it is, and `__setattr__` prepares with the `Attr` of the INSTANCE's
metadata (`prepareVal`). The model is a pure function of the class table: no class's metadata depends
on which other classes exist or were used before (`Props.C09.bootstrapAll_prefix`,
`Props.C09.construct_ignores_later_classes`).
Events: `ctor c` (constructor body of class `c` entered), `set a` (`mutate_attr`
entered for attribute `a` with a non-MISSING value), `post c` (`__post_init__`
defined by `c` ran).
-/
namespace SpecVerif.C09
open SpecVerif.Py

abbrev Name := String
abbrev Cls := String

/-- Attribute values (no identities). `missing` is the `MISSING` sentinel / "no value". -/
inductive Val
  | missing
  | int (n : Int)
  | str (s : String)
  | list (xs : List Int)
  deriving DecidableEq, Repr, Inhabited

inductive Ty | int | str | any | dict | ints   -- `dict`: `Dict[str, Any]` of the overflow attribute (no `Val` conforms)
  deriving DecidableEq, Repr, Inhabited        -- `ints`: `List[int]` (a collection attribute: items are prepared one by one)

/-- `check_type(value, type)` for the scalar annotations of the grammar. -/
def conforms : Ty → Val → Bool
  | .any, _ => true
  | .int, .int _ => true
  | .str, .str _ => true
  | .ints, .list _ => true
  | _, _ => false

/-- Preparer function `n` of the grammar on ints: id 0 = none; id `n+1` maps `i ≥ 100` to
`i % 100 + 1000 * n` and is the identity below 100 (declared defaults are fixed points). -/
def prepInt : Nat → Int → Int
  | 0, i => i
  | n + 1, i => if i ≥ 100 then i % 100 + 1000 * (n : Int) else i

def prepTag : Nat → String
  | 1 => "ma" | 2 => "mb" | 3 => "mc" | _ => "md"

/-- Preparers `_prepare_<a>` of the grammar (function id `n`; 0 = no preparer): `prepInt n` on ints,
`"mm" ↦ prepTag n` on strings, identity elsewhere. -/
def applyPrep : Nat → Val → Val
  | 0, v => v
  | n + 1, .int i => .int (prepInt (n + 1) i)
  | n + 1, .str s => if s = "mm" then .str (prepTag (n + 1)) else .str s
  | _, v => v

/-- Collection preparation of a `List[int]` attribute: the incoming iterable is rebuilt item by item, each
item through the item preparer `_prepare_<item>` (function id `n`); the empty string is an empty iterable. -/
def applyItemPrep (ty : Ty) (n : Nat) (v : Val) : Val :=
  match ty, v with
  | .ints, .list xs => .list (xs.map (prepInt n))
  | .ints, .str s => if s = "" then .list [] else .str s
  | _, v => v

/-- `f` of a hand-written constructor `self.a = f(a)`: 0 = `a`, 1 = `a + 1`, 2 = `100`. -/
def applyF : Nat → Val → Except Err Val
  | 0, v => .ok v
  | 1, .int n => .ok (.int (n + 1))
  | 1, _ => .error .typeError
  | _, _ => .ok (.int 100)

/-- An entry of a class body `__dict__` for an attribute name. -/
inductive Slot
  | lit (v : Val)                                  -- plain value (`missing` = the sentinel)
  | attrObj (default factory : Val) (init : Bool)  -- `Attr(...)` / `dataclasses.field(...)`
  deriving DecidableEq, Repr, Inhabited

structure Decl where
  name : Name
  ann : Bool             -- in the class body's `__annotations__`
  body : Option Slot     -- assignment in the class body
  deriving DecidableEq, Repr, Inhabited

structure HandParam where
  name : Name
  dflt : Option Val      -- `none` = required parameter
  f : Nat
  deriving DecidableEq, Repr, Inhabited

structure ClassDef where
  name : Cls
  bases : List Cls
  mro : List Cls                    -- `cls.__mro__` without `object`; starts with `name`
  spec : Bool                       -- decorated with `@spec_class`
  keyArg : Option (Option Name)     -- `none` = not given (MISSING); `some none` = `key=None`
  ovfArg : Option (Option Name)     -- same for `init_overflow_attr`
  decls : List Decl
  hand : Option (List HandParam)    -- hand-written `__init__`
  post : Bool                       -- defines `__post_init__`
  preps : List (Name × Nat) := []       -- `def _prepare_<attr>` in the body: attribute name ↦ function id
  itemPreps : List (Name × Nat) := []   -- `def _prepare_<item>` in the body, keyed by the COLLECTION attribute's name
  deriving Repr, Inhabited

structure AttrSpec where
  default : Val
  factory : Val          -- the factory's product; `missing` = no `default_factory`
  init : Bool
  owner : Cls
  prep : Nat := 0        -- `Attr.prepare`: id of the `_prepare_<attr>` captured when the Attr was built (0 = None)
  prepItem : Nat := 0    -- `Attr.prepare_item`
  deriving DecidableEq, Repr, Inhabited

def AttrSpec.hasDefault (s : AttrSpec) : Bool := s.default != .missing || s.factory != .missing
/-- `Attr.default_value` -/
def AttrSpec.defaultValue (s : AttrSpec) : Val := if s.factory != .missing then s.factory else s.default

structure Meta where
  owner : Cls
  key : Option Name
  ovf : Option Name
  attrs : List (Name × AttrSpec)   -- insertion-ordered dict
  post : Option Cls                -- class whose `__post_init__` was found by `getattr`
  deriving DecidableEq, Repr, Inhabited

structure ClsInfo where
  cdef : ClassDef
  dict : List (Name × Val)         -- class `__dict__` restricted to attribute names, after lifting
  «meta» : Option Meta             -- `cls.__dict__["__spec_class__"]`
  deriving Repr, Inhabited

structure Env where
  tys : List (Name × Ty)
  classes : List ClsInfo           -- definition order
  deriving Repr, Inhabited

/-! ### association lists as insertion-ordered dicts -/

def assoc {β : Type} (d : List (Name × β)) (a : Name) : Option β :=
  match d with
  | [] => none
  | (k, v) :: r => if k = a then some v else assoc r a

def hasName {β : Type} (d : List (Name × β)) (a : Name) : Bool := (assoc d a).isSome

/-- `d[a] = v` : replace in place when present, append otherwise. -/
def dictSet {β : Type} (d : List (Name × β)) (a : Name) (v : β) : List (Name × β) :=
  match d with
  | [] => [(a, v)]
  | (k, w) :: r => if k = a then (k, v) :: r else (k, w) :: dictSet r a v

/-- `d.update(e)` -/
def dictUpdate {β : Type} (d e : List (Name × β)) : List (Name × β) :=
  e.foldl (fun acc p => dictSet acc p.1 p.2) d

/-- `d.pop(a)` (the remaining dict) -/
def dictErase {β : Type} (d : List (Name × β)) (a : Name) : List (Name × β) :=
  match d with
  | [] => []
  | (k, w) :: r => if k = a then dictErase r a else (k, w) :: dictErase r a

def Env.ty (env : Env) (a : Name) : Ty := (assoc env.tys a).getD .any

def findCls (cs : List ClsInfo) (c : Cls) : Option ClsInfo := cs.find? (fun i => i.cdef.name = c)
def Env.info (env : Env) (c : Cls) : Option ClsInfo := findCls env.classes c
def mroOf (cs : List ClsInfo) (c : Cls) : List Cls := ((findCls cs c).map (·.cdef.mro)).getD []
def dictOf (cs : List ClsInfo) (c : Cls) : List (Name × Val) := ((findCls cs c).map (·.dict)).getD []
def metaOf (cs : List ClsInfo) (c : Cls) : Option Meta := (findCls cs c).bind (·.«meta»)

/-- First class of a list of classes that is decorated, with its metadata. -/
def firstSpec (cs : List ClsInfo) : List Cls → Option Meta
  | [] => none
  | k :: r => match metaOf cs k with
    | some m => some m
    | none => firstSpec cs r

/-- `getattr(c, "__spec_class__", None)` : the metadata of the first decorated class of `c`'s MRO. -/
def specMetaOf (cs : List ClsInfo) (c : Cls) : Option Meta := firstSpec cs (mroOf cs c)

/-- `getattr(cls, a, MISSING)` over class `__dict__`s along an MRO. -/
def classGetattr (cs : List ClsInfo) : List Cls → Name → Val
  | [], _ => .missing
  | k :: r, a => match assoc (dictOf cs k) a with
    | some v => v
    | none => classGetattr cs r a

/-! ### bootstrap -/

def Slot.lift : Slot → Val
  | .lit v => v
  | .attrObj d _ _ => d

def bodyDict (cd : ClassDef) : List (Name × Slot) :=
  cd.decls.filterMap (fun d => d.body.map (fun s => (d.name, s)))

/-- `getattr(k, "_prepare_<a>", MISSING)` over the DECLARED class bodies along an MRO: the function id of
the first definition (0 = none). `sel` picks the attribute preparers or the item preparers. -/
def prepAlong (cs : List ClsInfo) (sel : ClassDef → List (Name × Nat)) : List Cls → Name → Nat
  | [], _ => 0
  | k :: r, a => match (findCls cs k).bind (fun i => assoc (sel i.cdef) a) with
    | some n => n
    | none => prepAlong cs sel r a

/-- `getattr(spec_cls, "_prepare_<a>", MISSING)` while `spec_cls = cd` is being bootstrapped (its own body
first, then the classes of its MRO). -/
def classPrep (cs : List ClsInfo) (cd : ClassDef) (sel : ClassDef → List (Name × Nat)) (a : Name) : Nat :=
  match assoc (sel cd) a with
  | some n => n
  | none => prepAlong cs sel cd.mro.tail a

/-- `build_attr_spec(spec_cls, attr, …, owner=owner)` : the value is looked up with
`getattr(spec_cls, attr, MISSING)` (own body first, then the already bootstrapped
parents along the MRO); the preparer and the item preparer are what `getattr(spec_cls, "_prepare_…")`
shows NOW (later subclasses that define another `_prepare_…` do not change this Attr). -/
def buildSpec (cs : List ClsInfo) (cd : ClassDef) (a : Name) (owner : Option Cls) : AttrSpec :=
  let p := classPrep cs cd (·.preps) a
  let q := classPrep cs cd (·.itemPreps) a
  match assoc (bodyDict cd) a with
  | some (.attrObj d f i) => { default := d, factory := f, init := i, owner := cd.name, prep := p, prepItem := q }
  | some (.lit v) => { default := v, factory := .missing, init := true, owner := owner.getD cd.name,
                       prep := p, prepItem := q }
  | none => { default := classGetattr cs cd.mro.tail a, factory := .missing, init := true,
              owner := owner.getD cd.name, prep := p, prepItem := q }

def dedupNames : List Name → List Name
  | [] => []
  | a :: r => a :: (dedupNames r).filter (· != a)

/-- Names of `managed_attrs` (annotated in the body, then the decorator's overflow attribute). -/
def managedNames (cd : ClassDef) : List Name :=
  dedupNames ((cd.decls.filter (·.ann)).map (·.name) ++
    (match cd.ovfArg with | some (some o) => [o] | _ => []))

/-- `getattr(spec_cls, "__post_init__", None)` -/
def findPost (cs : List ClsInfo) (cd : ClassDef) : Option Cls :=
  if cd.post then some cd.name
  else cd.mro.tail.find? (fun k => ((findCls cs k).map (·.cdef.post)).getD false)

/-- `SpecClassMetadata.for_class` + `spec_class.bootstrap` for a decorated class. -/
def bootstrapMeta (cs : List ClsInfo) (cd : ClassDef) : Meta :=
  let src := firstSpec cs cd.mro.tail
  let inherited : List (Name × AttrSpec) :=
    match src with
    | none => []
    | some _ => cd.bases.reverse.foldl
        (fun acc p => match specMetaOf cs p with
          | some pm => dictUpdate acc pm.attrs
          | none => acc) []
  let key := match cd.keyArg with | some k => k | none => src.bind (·.key)
  let ovf := match cd.ovfArg with | some o => o | none => src.bind (·.ovf)
  let managed := managedNames cd
  let typed := (match cd.keyArg with | some (some k) => [k] | _ => []) ++ managed
  let body := bodyDict cd
  -- inherited attributes whose default is overridden in the body keep their owner
  let attrs1 := inherited.map (fun p =>
    if typed.contains p.1 then p
    else match assoc body p.1 with
      | some (.attrObj _ _ _) => (p.1, buildSpec cs cd p.1 (some p.2.owner))
      | some (.lit _) => (p.1, { buildSpec cs cd p.1 (some p.2.owner) with init := p.2.init })
      | none => p)
  let attrs2 := dictUpdate attrs1 (managed.map (fun a => (a, buildSpec cs cd a none)))
  let attrs3 := match cd.keyArg with
    | some (some k) => if hasName attrs2 k then attrs2 else attrs2 ++ [(k, buildSpec cs cd k none)]
    | _ => attrs2
  { owner := cd.name, key := key, ovf := ovf, attrs := attrs3, post := findPost cs cd }

def bootstrapClass (cs : List ClsInfo) (cd : ClassDef) : ClsInfo :=
  { cdef := cd
    dict := (bodyDict cd).map (fun p => (p.1, p.2.lift))
    «meta» := if cd.spec then some (bootstrapMeta cs cd) else none }

/-- Bootstrap a whole table in definition order (parents precede subclasses). -/
def bootstrapAll (defs : List ClassDef) : List ClsInfo :=
  defs.foldl (fun cs cd => cs ++ [bootstrapClass cs cd]) []

/-! ### construction -/

inductive Ev
  | ctor (c : Cls)
  | set (a : Name) (v : Val)
  | setOvf (a : Name)
  | post (c : Cls)
  deriving DecidableEq, Repr, Inhabited

abbrev Kw := List (Name × Val)

structure St where
  fields : List (Name × Val)     -- instance `__dict__` (ordinary managed attributes)
  ovf : Option Kw                -- value of the overflow attribute, once assigned
  trace : List Ev
  deriving DecidableEq, Repr, Inhabited

def St.empty : St := ⟨[], none, []⟩

/-- State after a step, and the exception that ended it (if any). -/
abbrev Res := St × Option Err

def St.emit (s : St) (e : Ev) : St := { s with trace := s.trace ++ [e] }

/-- `prepare_attr_value(attr_spec, self, v)` with `attr_spec = type(self).__spec_class__.attrs.get(a)`: the
preparer of the INSTANCE's metadata, then (collection attributes) the item preparer on every item. -/
def prepareVal (env : Env) (im : Meta) (a : Name) (v : Val) : Val :=
  match assoc im.attrs a with
  | none => v
  | some sp => applyItemPrep (env.ty a) sp.prepItem (applyPrep sp.prep v)

/-- What the collection preparation of a `List[int]` attribute raises for a value that is not a list:
a non-iterable gives `TypeError`, a (non-empty) string is iterated and its first character rejected
(`ValueError`). -/
def collReject : Val → Option Err
  | .list _ => none
  | .str _ => some .valueError
  | _ => some .typeError

/-- `self.<a> = v` through the generated `__setattr__`: prepare, enter `mutate_attr`
(no-op on MISSING), type check, write. -/
def setAttr (env : Env) (im : Meta) (s : St) (a : Name) (v : Val) : Res :=
  let v' := prepareVal env im a v
  if v' = .missing then (s, none)
  else if env.ty a = .dict then (s, some .typeError)   -- collection preparation rejects it before `mutate_attr`
  else if env.ty a = .ints && (collReject v').isSome then (s, (collReject v'))
  else
    let s' := s.emit (.set a v')
    if conforms (env.ty a) v' then ({ s' with fields := dictSet s'.fields a v' }, none)
    else (s', some .typeError)

/-- `Attr.lookup_default_value(type(self))` : walk the instance class's MRO. -/
def lookupDefault (cs : List ClsInfo) (sp : AttrSpec) (a : Name) : List Cls → Val
  | [] => .missing
  | k :: r =>
    if k = sp.owner then sp.defaultValue
    else match assoc (dictOf cs k) a with
      | some v => v
      | none => lookupDefault cs sp a r

/-- `kwargs.get(a, MISSING)` -/
def kwGet (kw : Kw) (a : Name) : Val := (assoc kw a).getD .missing

/-- Names accepted by `validate_attrs` of the generated constructor of a class. -/
def validNames (m : Meta) : List Name :=
  (m.attrs.filter (fun p => p.2.init && some p.1 != m.key && some p.1 != m.ovf)).map (·.1)

/-- `validate_attrs(kwargs)` fails (it is only compiled in when there is no overflow attribute). -/
def invalidKw (m : Meta) (kw : Kw) : Bool :=
  m.ovf.isNone && kw.any (fun p => !(validNames m).contains p.1)

/-- The value bound to the key parameter `kn[=MISSING]`. -/
def keyValue (m : Meta) (kn : Name) (pos : List Val) (kw : Kw) : Except Err Val :=
  match pos with
  | v :: _ => if hasName kw kn then .error .typeError else .ok v      -- "multiple values for argument"
  | [] => match assoc kw kn with
    | some v => .ok v
    | none =>
      let sp := (assoc m.attrs kn).getD { default := .missing, factory := .missing, init := true, owner := m.owner }
      if sp.hasDefault then .ok .missing else .error .typeError        -- "missing required argument"

/-- Binding of a call `k.__init__(self, *pos, **kw)` to the generated signature
`(self[, key[=MISSING]], **kwargs)` followed by `validate_attrs`; the result is the
`kwargs` handed to `InitMethod.init`. All failures are `TypeError`. -/
def bindGenerated (m : Meta) (pos : List Val) (kw : Kw) : Except Err Kw :=
  match m.key with
  | none =>
    if pos.length > 0 then .error .typeError
    else if invalidKw m kw then .error .typeError
    else .ok kw
  | some kn =>
    if pos.length > 1 then .error .typeError
    else match keyValue m kn pos kw with
      | .error e => .error e
      | .ok v =>
        if invalidKw m (dictErase kw kn) then .error .typeError
        else .ok ((kn, v) :: dictErase kw kn)

/-- The loop over `instance_metadata.attrs` of `InitMethod.init` for `spec_cls = k`. -/
def ownLoop (env : Env) (im : Meta) (mroC : List Cls) (k : Cls) (kw : Kw) :
    List (Name × AttrSpec) → St → Res
  | [], s => (s, none)
  | (a, sp) :: r, s =>
    if !sp.init || sp.owner != k || some a == im.ovf then ownLoop env im mroC k kw r s
    else
      let v := kwGet kw a
      let v := if v = .missing then lookupDefault env.classes sp a mroC else v
      if v = .missing then ownLoop env im mroC k kw r s
      else match setAttr env im s a v with
        | (s', none) => ownLoop env im mroC k kw r s'
        | e => e

/-- Binding + body of a hand-written constructor `def __init__(self, p=d, …): self.p = f(p) …`. -/
def bindHand (params : List HandParam) (pos : List Val) (kw : Kw) : Except Err (List (HandParam × Val)) :=
  if pos.length > params.length then .error .typeError
  else if kw.any (fun p => !(params.map (·.name)).contains p.1) then .error .typeError
  else
    let rec go (ps : List HandParam) (pos : List Val) : Except Err (List (HandParam × Val)) :=
      match ps, pos with
      | [], _ => .ok []
      | p :: ps, v :: pos =>
        if hasName kw p.name then .error .typeError
        else match go ps pos with
          | .ok r => .ok ((p, v) :: r)
          | .error e => .error e
      | p :: ps, [] =>
        match assoc kw p.name, p.dflt with
        | some v, _ => (go ps []).map (fun r => (p, v) :: r)
        | none, some d => (go ps []).map (fun r => (p, d) :: r)
        | none, none => .error .typeError
    go params pos

def handBody (env : Env) (im : Meta) : List (HandParam × Val) → St → Res
  | [], s => (s, none)
  | (p, v) :: r, s =>
    match applyF p.f v with
    | .error e => (s, some e)
    | .ok w => match setAttr env im s p.name w with
      | (s', none) => handBody env im r s'
      | e => e

def callHand (env : Env) (im : Meta) (k : Cls) (params : List HandParam) (pos : List Val) (kw : Kw) (s : St) : Res :=
  match bindHand params pos kw with
  | .error e => (s, some e)
  | .ok bound => handBody env im bound (s.emit (.ctor k))

/-- First class of an MRO that is decorated (the class whose `__init__` is found). -/
def firstSpecCls (cs : List ClsInfo) : List Cls → Option ClsInfo
  | [] => none
  | k :: r => match findCls cs k with
    | some i => if i.«meta».isSome then some i else firstSpecCls cs r
    | none => firstSpecCls cs r

/-- `parent.__init__(self, **pk)` from inside the constructor of the instance's spec class. -/
def callParent (env : Env) (im : Meta) (mroC : List Cls) (p : Cls) (pk : Kw) (s : St) : Res :=
  match firstSpecCls env.classes (mroOf env.classes p) with
  | none => (s, none)        -- `object.__init__` (not reached: the parent has metadata)
  | some i =>
    match i.cdef.hand with
    | some params => callHand env im i.cdef.name params [] pk s
    | none =>
      match i.«meta» with
      | none => (s, none)
      | some m =>
        match bindGenerated m [] pk with
        | .error e => (s, some e)
        | .ok kwargs =>
          if im.owner = i.cdef.name then (s.emit (.ctor i.cdef.name), some .runtimeError)  -- unbounded recursion
          else ownLoop env im mroC i.cdef.name kwargs im.attrs (s.emit (.ctor i.cdef.name))

/-- The inner loop over `parent_metadata.attrs` building `parent_kwargs` and popping `kwargs`. -/
def buildPk (cs : List ClsInfo) (im : Meta) (mroC : List Cls) (p : Cls) :
    List (Name × AttrSpec) → Kw → Kw → Except Err (Kw × Kw)
  | [], kw, pk => .ok (kw, pk)
  | (a, _) :: r, kw, pk =>
    match assoc im.attrs a with
    | none => .error .keyError
    | some isp =>
      if isp.owner != p then buildPk cs im mroC p r kw pk
      else if !isp.init then buildPk cs im mroC p r kw pk
      else if some a == im.ovf then buildPk cs im mroC p r kw pk   -- collected once by the owner's overflow step
      else match assoc kw a with
        | some v => buildPk cs im mroC p r (dictErase kw a) (dictSet pk a v)
        | none =>
          let d := lookupDefault cs isp a mroC
          if d != .missing then buildPk cs im mroC p r kw (dictSet pk a d)
          else buildPk cs im mroC p r kw pk

/-- `if parent_metadata.key and parent_metadata.key not in parent_kwargs: parent_kwargs[key] = MISSING` -/
def addKeyMissing (pk : Kw) : Option Name → Kw
  | some kn => if hasName pk kn then pk else dictSet pk kn .missing
  | none => pk

/-- `for parent in reversed(spec_cls.mro()[1:])` -/
def parentsLoop (env : Env) (im : Meta) (mroC : List Cls) : List Cls → Kw → St → Kw × Res
  | [], kw, s => (kw, (s, none))
  | p :: ps, kw, s =>
    match metaOf env.classes p with      -- `parent.__dict__.get("__spec_class__")`
    | none => parentsLoop env im mroC ps kw s
    | some pm =>
      match buildPk env.classes im mroC p pm.attrs kw [] with
      | .error e => (kw, (s, some e))
      | .ok (kw', pk) =>
        match callParent env im mroC p (addKeyMissing pk pm.key) s with
        | (s', none) => parentsLoop env im mroC ps kw' s'
        | r => (kw', r)

/-- `getattr(type(self), "__post_init__", None)`: the first class of the instance's MRO that defines the hook. -/
def postOf (env : Env) (mroC : List Cls) : Option Cls :=
  mroC.find? (fun k => ((findCls env.classes k).map (·.cdef.post)).getD false)

/-- `InitMethod.init(spec_cls = k, self, **kwargs)` when `k` is the instance metadata's owner. -/
def initOwner (env : Env) (im : Meta) (mroC : List Cls) (k : ClsInfo) (kwargs : Kw) (s : St) : Res :=
  let s := s.emit (.ctor k.cdef.name)
  match parentsLoop env im mroC k.cdef.mro.tail.reverse kwargs s with
  | (_, (s', some e)) => (s', some e)
  | (kw', (s', none)) =>
    match ownLoop env im mroC k.cdef.name kw' im.attrs s' with
    | (s'', some e) => (s'', some e)
    | (s'', none) =>
      let s3 := match im.ovf with
        | some o =>
          { (s''.emit (.setOvf o)) with
            ovf := some (kw'.filter (fun p =>
              match assoc im.attrs p.1 with
              | none => true
              | some sp => !sp.init || p.1 == o)) }
        | none => s''
      let s4 := match postOf env mroC with
        | some pc => s3.emit (.post pc)
        | none => s3
      (s4, none)

/-- `c(*pos, **kw)` -/
def construct (env : Env) (c : Cls) (pos : List Val) (kw : Kw) : Res :=
  let mroC := mroOf env.classes c
  match firstSpecCls env.classes mroC with
  | none => (St.empty, some .typeError)          -- no spec class in the MRO: outside the model
  | some k =>
    match k.«meta» with
    | none => (St.empty, some .typeError)
    | some im =>
      match k.cdef.hand with
      | some params => callHand env im k.cdef.name params pos kw St.empty
      | none =>
        match bindGenerated im pos kw with
        | .error e => (St.empty, some e)
        | .ok kwargs => initOwner env im mroC k kwargs St.empty

/-- What `getattr(inst, a, MISSING)` shows: instance `__dict__`, then the class MRO. -/
def attrValue (env : Env) (c : Cls) (s : St) (a : Name) : Val :=
  match assoc s.fields a with
  | some v => v
  | none => classGetattr env.classes (mroOf env.classes c) a

/-! ### Spec and well-formedness -/

/-- Body slot of attribute `a` as declared in class `k`. -/
def declSlot (cs : List ClsInfo) (k : Cls) (a : Name) : Option Slot :=
  (findCls cs k).bind (fun i => assoc (bodyDict i.cdef) a)

/-- The default a declaration gives (`some missing` = declared, explicitly without default). -/
def declDefault : Option Slot → Option Val
  | some (.lit v) => some v
  | some (.attrObj d f _) => some (if f != .missing then f else d)
  | none => none

/-- SPEC: the nearest default along an MRO — the first class whose body assigns the name. -/
def nearestDefault (cs : List ClsInfo) (mro : List Cls) (a : Name) : Val :=
  (mro.findSome? fun k => declDefault (declSlot cs k a)).getD .missing

/-- The instance's spec class (whose constructor runs) and its metadata. -/
def instInfo (env : Env) (c : Cls) : Option ClsInfo := firstSpecCls env.classes (mroOf env.classes c)
def instMeta (env : Env) (c : Cls) : Option Meta := (instInfo env c).bind (·.«meta»)

/-- Class `k` is decorated and its body declares `a` as a managed attribute: an annotation, an
`Attr(...)`/`field(...)` object (which takes ownership even without annotation), or the overflow attribute. -/
def declares (cs : List ClsInfo) (k : Cls) (a : Name) : Bool :=
  match findCls cs k with
  | some i => i.cdef.spec && (i.cdef.decls.any (fun d => d.name == a &&
        (d.ann || (match d.body with | some (.attrObj _ _ _) => true | _ => false))) ||
      i.cdef.ovfArg == some (some a))
  | none => false

/-- Class `k` is decorated and its body mentions `a` — declares it (`declares`) or merely assigns a class-level
value: bootstrapping `k` builds a NEW `Attr` for `a` (and looks the preparers up again, on `k`). A decorated
class whose body does not mention `a` hands the inherited `Attr` down as it is. -/
def rebuilds (cs : List ClsInfo) (k : Cls) (a : Name) : Bool :=
  declares cs k a ||
    (match findCls cs k with
     | some i => i.cdef.spec && (assoc (bodyDict i.cdef) a).isSome
     | none => false)

/-- SPEC of the preparer in force for attribute `a` on instances of a class with MRO `mroC`: the
`_prepare_<a>` visible (by attribute lookup over the declared bodies) from the nearest class along the MRO
that (re)builds the attribute; 0 = none. `sel` = `(·.preps)` / `(·.itemPreps)`. -/
def declaredPrep (cs : List ClsInfo) (sel : ClassDef → List (Name × Nat)) (mroC : List Cls) (a : Name) : Nat :=
  match mroC.find? (fun kk => rebuilds cs kk a) with
  | some b => prepAlong cs sel (mroOf cs b) a
  | none => 0

/-- STRICT clause about preparers: the instance metadata's `Attr` carries the declared preparers. -/
def wfPrep (cs : List ClsInfo) (mroC : List Cls) (p : Name × AttrSpec) : Bool :=
  p.2.prep == declaredPrep cs (·.preps) mroC p.1 && p.2.prepItem == declaredPrep cs (·.itemPreps) mroC p.1

/-- When the default lookup reaches the owner, the Attr carries what the owner's body declares, or (for an
annotation-only declaration) the nearest default of the rest of the MRO. -/
def ownerClause (cs : List ClsInfo) (sp : AttrSpec) (a : Name) (rest : List Cls) : Bool :=
  match declSlot cs sp.owner a with
  | some (.attrObj d f _) => sp.default == d && sp.factory == f
  | some (.lit v) => sp.default == v && sp.factory == .missing
  | none => sp.factory == .missing && sp.default == nearestDefault cs rest a

/-- Per-attribute clauses of `wfCall`. -/
def wfAttr (strict : Bool) (cs : List ClsInfo) (mroC mroK : List Cls) (k0 : Cls) (p : Name × AttrSpec) : Bool :=
  let a := p.1
  let sp := p.2
  let o := sp.owner
  -- ownership is truthful: the owner is the class itself or a decorated ancestor that lists the attribute
  (o == k0 || (mroK.tail.contains o &&
      (match metaOf cs o with | some om => hasName om.attrs a | none => false))) &&
  -- STRICT (what the open finding KF-C09-diamond-second-parent and the two readings violate):
  -- the owner is the nearest declaring class along the MRO, whose `init` option the Attr carries
  (!strict || (mroC.find? (fun kk => declares cs kk a) == some o)) &&
  (!strict || (sp.init == (match declSlot cs o a with | some (.attrObj _ _ i) => i | _ => true))) &&
  -- defaults are coherent with the declarations (only init-enabled attributes are resolved by the constructor)
  (!strict || !sp.init || (
    mroC.contains o &&
    -- no declared factory is hidden in a class that precedes the owner
    (mroC.takeWhile (· != o)).all (fun kk =>
      match declSlot cs kk a with | some (.attrObj _ f _) => f == .missing | _ => true) &&
    -- when the walk reaches the owner, the Attr carries what the owner's body (or the rest of the MRO) declares
    (!(mroC.takeWhile (· != o)).all (fun kk => (declSlot cs kk a).isNone) ||
      ownerClause cs sp a (mroC.dropWhile (· != o)).tail)))

/-- The explicit, decidable well-formedness predicate of a call `c(...)` (structural clauses relating the
bootstrapped metadata to the declared class table; evaluated by the driver for every generated call).
`strictAttr` adds the per-attribute coherence clauses, `strictKey` the clause about the static key signature. -/
def wfCallG (strictAttr strictKey : Bool) (env : Env) (c : Cls) : Bool :=
  let cs := env.classes
  let mroC := mroOf cs c
  match instInfo env c with
  | none => false
  | some k =>
    match k.«meta» with
    | none => false
    | some im =>
      let k0 := k.cdef.name
      let mroK := k.cdef.mro
      im.owner == k0 && mroK.head? == some k0 &&
      decide mroK.Nodup && decide mroC.Nodup &&
      decide (im.attrs.map (·.1)).Nodup &&
      decide (cs.map (·.cdef.name)).Nodup &&
      -- every class of both MROs is in the table and its `__dict__` is its lifted body
      (mroC ++ mroK).all (fun kk => match findCls cs kk with
        | some i => i.dict == (bodyDict i.cdef).map (fun q => (q.1, q.2.lift))
        | none => false) &&
      -- the attributes of every decorated ancestor are known to the instance metadata
      mroK.tail.all (fun p => match metaOf cs p with
        | some pm => pm.owner == p && pm.attrs.all (fun q => hasName im.attrs q.1) &&
                     decide (pm.attrs.map (·.1)).Nodup && (mroOf cs p).head? == some p
        | none => true) &&
      im.attrs.all (wfAttr strictAttr cs mroC mroK k0) &&
      -- the key is a managed, init-enabled attribute other than the overflow attribute, and the static
      -- signature agrees with the MRO about whether it has a default
      (match im.key with
       | none => true
       | some kn => match assoc im.attrs kn with
         | some sp => sp.init && im.ovf != some kn &&
                      -- STRICT (what the open finding KF-C09-plain-subclass-key-default violates)
                      (!strictKey || (sp.hasDefault == (nearestDefault cs mroC kn != .missing)))
         | none => false) &&
      -- STRICT: every init-enabled attribute is prepared by the preparers the hierarchy declares for it
      (!strictAttr || im.attrs.all (fun p => !p.2.init || wfPrep cs mroC p))

/-- Full well-formedness (hypothesis of the `_partial` theorems). -/
def wfCall (env : Env) (c : Cls) : Bool := wfCallG true true env c
/-- Well-formedness without the clauses that the two open findings (and the two readings) violate. -/
def wfCore (env : Env) (c : Cls) : Bool := wfCallG false false env c

/-- The instance's own spec class has a generated constructor (its parents may have hand-written ones). -/
def topGenerated (env : Env) (c : Cls) : Bool :=
  match instInfo env c with
  | none => false
  | some k => k.cdef.hand.isNone

/-- All constructors involved are generated ones (no hand-written `__init__` in the spec class's MRO). -/
def allGenerated (env : Env) (c : Cls) : Bool :=
  match instInfo env c with
  | none => false
  | some k => k.cdef.hand.isNone && k.cdef.mro.all (fun p => match findCls env.classes p with
      | some i => i.cdef.hand.isNone
      | none => true)

end SpecVerif.C09
