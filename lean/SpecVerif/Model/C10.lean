import SpecVerif.Model.Py
/-!
# C10 — Impl model of `__eq__`, `__deepcopy__`, `__init__`, re-construction and `__repr__` of spec classes

Mirrors `spec_classes/methods/core.py`:

* `EqMethod.eq`   — `isinstance(other, type(self))`, then the attributes in metadata order, skipping
  `compare=False`, reading both sides with `getattr(·, attr, MISSING)`, a pair of bound methods is compared
  by `__func__` only, everything else by Python's `!=`;
* Python's `==` dispatch (`pyEq`) — the reflected operand first when the right operand's class is a proper
  subclass of the left one's; `EqMethod.eq` never returns `NotImplemented`;
* `DeepCopyMethod.deepcopy` — per `__dict__` entry: a method bound to `self` is re-bound to the copy,
  `do_not_copy` attributes are shared, everything else is deep-copied (a method bound to another object is
  re-bound to that object's copy, functions/classes/modules are atomic);
* `InitMethod.init` (`construct`) — for the class that owns the instance's metadata: the constructor of every
  parent spec class, base-most first, called with the keyword arguments of the attributes that parent owns
  (`parentKwargs`: the caller's value, copied unless `do_not_copy`, whatever the value is; else the instance's
  default when there is one), each assigning the attributes it owns (`initOwn`), then the attributes owned by
  the class itself; plain subclasses use the constructor of their nearest spec ancestor with their own defaults
  (`lookup_default_value(type(self))`). A keyword argument that is not passed and one passed as `MISSING`
  (what the key gets when it is not given) are both `missing`. Not modelled: the init-overflow attribute,
  `__post_init__`, overridden parent constructors;
* re-construction `type(x)(**{a: x.a for init-enabled a with a value})` THROUGH that constructor
  (`reconstruct`), with the attribute-wise specification `rcFields`/`specFields` it is proved to refine;
* an instance's OWN state (`__dict__`: one entry per attribute, `missing` = none) and what `getattr` shows for it
  (`showS`): the entry, else what the class shows (`dflt`); for an attribute backed by a `spec_property` of the same
  name (`AttrInfo.prop`: cache / overridable flags and the getter — a constant or another attribute of the instance)
  the entry when there is one and the property honours it (an assigned override or the memoised result —
  `spec_property.__get__`), else the getter's result; `DeepCopyMethod.deepcopy` copies ENTRIES (`dcFields` on the
  stored state, `copyShows`), the constructor stores entries (`initFields`, `storedSpec`) and `construct` is what
  `getattr` shows for them;
* `==` between an instance that refers to itself (`selfRef` = the nearest enclosing instance: `x.a = x`, `[x]`,
  `{"k": x}`) and a finite value (`cEq`, by structural recursion on the finite operand, either operand order;
  `pyEqC`);
* `ReprMethod.repr` — the attributes with `repr=True` in metadata order, each child rendered as `<self>`,
  `<bound method f of self>`, `<bound method f of …>`, a compact nested instance `Cls(key=…, ...)`, `MISSING`
  or a plain value.

Values are finite trees (a mutual inductive, structural recursion throughout, so `decide` evaluates the
model). An instance carries its class id and one value per attribute of its class, positionally, in metadata
order (`missing` when `getattr` finds nothing); subclasses extend the attribute list of their parent.
`selfRef` marks "the instance itself" (self-referential structures are in scope for `repr` only).
-/
namespace SpecVerif.C10
open SpecVerif.Py

mutual
inductive Val
  | none
  | int (n : Int)
  | str (s : String)
  | flt (n : Int)                    -- the float `n + 0.5` (never equal to an int; no NaN)
  | list (xs : Vals)
  | dict (kvs : KVs)                 -- keys sorted (canonical form of an unordered comparison)
  | set (xs : Vals)                  -- elements sorted
  | inst (cls : Nat) (fs : Vals)     -- spec-class instance: class id, one value per attribute
  | bound (owner : Option Nat) (fn : Nat)   -- bound method: `none` = bound to the holder itself
  | func (id : Nat)
  | cls (id : Nat)
  | mod (id : Nat)
  | missing                          -- the MISSING sentinel / no value
  | selfRef                          -- the enclosing instance itself (repr only)
inductive Vals
  | nil
  | cons (v : Val) (r : Vals)
inductive KVs
  | nil
  | cons (k : Val) (v : Val) (r : KVs)
end

/-- What the getter of a `spec_property` that backs an attribute returns: a constant, or another (plain) attribute
of the instance (`return self.<attribute j>`). -/
inductive Getter
  | const (v : Val)
  | sameAs (j : Nat)

/-- `spec_property(cache=…, overridable=…)` backing an attribute of the same name. -/
structure PropInfo where
  cache : Bool
  overridable : Bool
  getter : Getter

structure AttrInfo where
  name : String
  compare : Bool
  repr : Bool
  init : Bool
  doNotCopy : Bool
  dflt : Val            -- what a fresh instance shows for the attribute when nothing is passed (`missing` = nothing);
                        -- for an init-enabled attribute this is `Attr.lookup_default_value(type(self))`
  owner : Nat := 0      -- `Attr.owner`: id of the spec class that declared (or re-annotated) the attribute
  prop : Option PropInfo := none   -- the attribute is backed by a `spec_property` (then `dflt` is `missing`: the
                        -- default is masked, `lookup_default_value` answers MISSING; `init` additionally says that the
                        -- property accepts an assigned value)

structure ClassInfo where
  name : String
  parent : Option Nat           -- direct base class (single inheritance in this grammar)
  attrs : List AttrInfo         -- metadata order
  key : Option Nat              -- index of the key attribute
  spec : Bool := true           -- decorated with `@spec_class` (own metadata and constructor); a plain subclass
                                -- inherits the metadata and the constructor of its nearest spec ancestor

abbrev Table := List ClassInfo

def Table.attrs (T : Table) (c : Nat) : List AttrInfo := (T[c]?.map (·.attrs)).getD []
def Table.cname (T : Table) (c : Nat) : String := (T[c]?.map (·.name)).getD "?"

/-- `issubclass(c, d)` by walking the parent chain (fuel = table size). -/
def isSubFuel (T : Table) : Nat → Nat → Nat → Bool
  | 0, c, d => c == d
  | fuel + 1, c, d =>
    c == d || (match T[c]? with
      | some ci => (match ci.parent with
        | some p => isSubFuel T fuel p d
        | none => false)
      | none => false)

def isSub (T : Table) (c d : Nat) : Bool := isSubFuel T T.length c d
def isProperSub (T : Table) (c d : Nat) : Bool := c != d && isSub T c d

def Val.isBound : Val → Bool
  | .bound _ _ => true
  | _ => false

def Val.isMissing : Val → Bool
  | .missing => true
  | _ => false

mutual
/-- Python's `==` on values (`!=` is its negation for every type involved). -/
def vEq (T : Table) (v w : Val) : Bool :=
  match v, w with
  | .none, .none => true
  | .int a, .int b => a == b
  | .str a, .str b => a == b
  | .flt a, .flt b => a == b
  | .list xs, .list ys => valsEq T xs ys
  | .dict xs, .dict ys => kvsEq T xs ys
  | .set xs, .set ys => valsEq T xs ys
  | .inst c1 f1, .inst c2 f2 =>
    -- `x == y`: the reflected `y.__eq__(x)` first when type(y) is a proper subclass of type(x)
    if isProperSub T c2 c1 then isSub T c1 c2 && fieldsEq T (T.attrs c2) f1 f2
    else isSub T c2 c1 && fieldsEq T (T.attrs c1) f1 f2
  | .bound o f, .bound p g => o == p && f == g          -- method.__eq__: same `__self__`, same function
  | .func a, .func b => a == b
  | .cls a, .cls b => a == b
  | .mod a, .mod b => a == b
  | .missing, .missing => true
  | .selfRef, .selfRef => true
  | _, _ => false
termination_by structural v
def valsEq (T : Table) (xs ys : Vals) : Bool :=
  match xs, ys with
  | .nil, .nil => true
  | .cons v r, .cons w s => vEq T v w && valsEq T r s
  | _, _ => false
termination_by structural xs
def kvsEq (T : Table) (xs ys : KVs) : Bool :=
  match xs, ys with
  | .nil, .nil => true
  | .cons k v r, .cons l w s => vEq T k l && vEq T v w && kvsEq T r s
  | _, _ => false
termination_by structural xs
/-- The attribute loop of `EqMethod.eq` over the attributes `as` of `self` (fields positional; a field list
shorter than the attribute list does not occur for well-formed instances). -/
def fieldsEq (T : Table) (as : List AttrInfo) (xs ys : Vals) : Bool :=
  match as, xs, ys with
  | [], _, _ => true
  | a :: as, .cons v r, .cons w s =>
    (!a.compare ||
      (match v, w with
       | .bound _ f, .bound _ g => f == g        -- `inspect.ismethod` on both: compare `__func__`
       | _, _ => vEq T v w)) && fieldsEq T as r s
  | a :: as, .cons v r, .nil =>                   -- `getattr(other, attr, MISSING)`
    (!a.compare || vEq T v .missing) && fieldsEq T as r .nil
  | _ :: _, .nil, _ => true
termination_by structural xs
end

/-- `x == y` for two values (instances dispatch as Python does). -/
def pyEq (T : Table) (x y : Val) : Bool := vEq T x y

/-- What `EqMethod.eq` compares for one attribute. -/
def attrEq (T : Table) (v w : Val) : Bool :=
  match v, w with
  | .bound _ f, .bound _ g => f == g
  | _, _ => vEq T v w

/-! ### deepcopy -/

/-- Offset given to the identities of objects that `copy.deepcopy` duplicates. -/
def copyOffset : Nat := 1000

mutual
/-- `copy.deepcopy(v)` of a value reachable from an instance being copied. -/
def dcVal : Val → Val
  | .list xs => .list (dcVals xs)
  | .dict kvs => .dict (dcKVs kvs)
  | .set xs => .set (dcVals xs)
  | .inst c fs => .inst c (dcVals fs)            -- nested instance: its own `__deepcopy__`
  | .bound (some o) f => .bound (some (o + copyOffset)) f   -- re-bound to the copy of its owner
  | v => v                                       -- scalars, functions, classes, modules (atomic), self-bound
def dcVals : Vals → Vals
  | .nil => .nil
  | .cons v r => .cons (dcVal v) (dcVals r)
def dcKVs : KVs → KVs
  | .nil => .nil
  | .cons k v r => .cons k (dcVal v) (dcKVs r)
end

/-- `DeepCopyMethod.deepcopy` attribute by attribute. -/
def dcFields : List AttrInfo → Vals → Vals
  | _, .nil => .nil
  | [], .cons v r => .cons (dcVal v) (dcFields [] r)
  | a :: as, .cons v r =>
    (match v with
     | .bound none f => Vals.cons (.bound none f) (dcFields as r)   -- re-bound to the new instance
     | _ => if a.doNotCopy then Vals.cons v (dcFields as r) else Vals.cons (dcVal v) (dcFields as r))

def deepcopy (T : Table) : Val → Val
  | .inst c fs => .inst c (dcFields (T.attrs c) fs)
  | v => dcVal v

/-! ### the constructor (`InitMethod.init`) -/

def hdV : Vals → Val
  | .nil => .missing
  | .cons v _ => v

def tlV : Vals → Vals
  | .nil => .nil
  | .cons _ r => r

/-- `value if do_not_copy else protect_via_deepcopy(value)`. -/
def protect (a : AttrInfo) (v : Val) : Val := if a.doNotCopy then v else dcVal v

def Table.isSpec (T : Table) (c : Nat) : Bool := (T[c]?.map (·.spec)).getD false

/-- `cls.mro()[1:]` (single inheritance): the proper ancestors, nearest first (fuel = table size). -/
def ancestorsFuel (T : Table) : Nat → Nat → List Nat
  | 0, _ => []
  | fuel + 1, c =>
    match T[c]? with
    | some ci => (match ci.parent with
      | some p => p :: ancestorsFuel T fuel p
      | none => [])
    | none => []

def ancestors (T : Table) (c : Nat) : List Nat := ancestorsFuel T T.length c

/-- The class whose metadata/constructor an instance of `c` uses (`self.__spec_class__.owner`): `c` itself when
it is a spec class, else its nearest spec ancestor. -/
def metaOf (T : Table) (c : Nat) : Nat :=
  if T.isSpec c then c else (((ancestors T c).filter (T.isSpec ·)).head?).getD c

/-- `reversed(spec_cls.mro()[1:])` restricted to classes with their own `__spec_class__`: the spec ancestors of the
metadata owner, base-most first. -/
def specParents (T : Table) (m : Nat) : List Nat := ((ancestors T m).filter (T.isSpec ·)).reverse

/-- First loop of `InitMethod.init` for one parent spec class `p`: the keyword arguments forwarded to
`p.__init__` (positional here; `missing` = not passed). Keyword arguments `kw`: `missing` = not passed. -/
def parentKwargs (p : Nat) : List AttrInfo → Vals → Vals
  | [], _ => .nil
  | a :: as, kw =>
    .cons
      (if a.owner != p then .missing                  -- `instance_attr_spec.owner is not parent: continue`
       else if !a.init then .missing                  -- not accepted by the parent constructor
       else if (hdV kw).isMissing then a.dflt         -- not in kwargs: the instance default, when there is one
       else protect a (hdV kw))                       -- `attr in kwargs`: popped, copied unless do_not_copy
      (parentKwargs p as (tlV kw))

/-- Second loop of `InitMethod.init` running as `spec_cls = p`: assigns the init-enabled attributes owned by
`p`. `top` = `instance_metadata.owner is spec_cls` (only then are passed values copied here). `cur` = the
values assigned so far (`missing` = nothing assigned). -/
def initOwn (p : Nat) (top : Bool) : List AttrInfo → Vals → Vals → Vals
  | [], _, _ => .nil
  | a :: as, kw, cur =>
    .cons
      (if !a.init || a.owner != p then hdV cur
       else if (hdV kw).isMissing then                -- `lookup_default_value`; nothing is assigned when MISSING
         (if a.dflt.isMissing then hdV cur else a.dflt)
       else if top then protect a (hdV kw) else hdV kw)
      (initOwn p top as (tlV kw) (tlV cur))

/-- The loop over the parent spec classes: `parent.__init__(self, **parent_kwargs)` for each, base-most first
(inside, `instance_metadata.owner is spec_cls` is false, so only the second loop runs). -/
def initParents : List Nat → List AttrInfo → Vals → Vals → Vals
  | [], _, _, cur => cur
  | p :: ps, as, kw, cur => initParents ps as kw (initOwn p false as (parentKwargs p as kw) cur)

def allMissing : List AttrInfo → Vals
  | [] => .nil
  | _ :: as => .cons .missing (allMissing as)

/-- What `getattr(x, a, MISSING)` shows after construction: the assigned value, else what the class shows. -/
def viewFields : List AttrInfo → Vals → Vals
  | [], _ => .nil
  | a :: as, cur =>
    .cons (if (hdV cur).isMissing then a.dflt else hdV cur) (viewFields as (tlV cur))

/-! ### an instance's own state (`__dict__`) and what `getattr` shows for it -/

def nthVal : Vals → Nat → Val
  | .nil, _ => .missing
  | .cons v _, 0 => v
  | .cons _ r, n + 1 => nthVal r n

/-- `getattr` of a plain attribute `j` of a stored state: the `__dict__` entry, else what the class shows. -/
def plainAt (as : List AttrInfo) (st : Vals) (j : Nat) : Val :=
  match as[j]? with
  | none => .missing
  | some a => if (nthVal st j).isMissing then a.dflt else nthVal st j

/-- `fget(instance)`. -/
def getterValue (as : List AttrInfo) (st : Vals) : Getter → Val
  | .const v => v
  | .sameAs j => plainAt as st j

/-- The property honours an entry in `__dict__` (`spec_property.__get__`: `(overridable or cache) and name in __dict__`). -/
def AttrInfo.storable (a : AttrInfo) : Bool :=
  match a.prop with
  | none => true
  | some p => p.overridable || p.cache

/-- `getattr(x, a, MISSING)` for one attribute of the stored state `st` (entry `sv` of the attribute itself):
a plain attribute shows its entry, else what the class shows; a property-backed one shows its entry (an assigned
override or the memoised result) when there is one and the property honours it, else what the getter returns. -/
def shownAttr (as : List AttrInfo) (st : Vals) (a : AttrInfo) (sv : Val) : Val :=
  match a.prop with
  | none => if sv.isMissing then a.dflt else sv
  | some p => if (p.overridable || p.cache) && !sv.isMissing then sv else getterValue as st p.getter

def showFrom (as0 : List AttrInfo) (st0 : Vals) : List AttrInfo → Vals → Vals
  | [], _ => .nil
  | a :: as, st => .cons (shownAttr as0 st0 a (hdV st)) (showFrom as0 st0 as (tlV st))

/-- What `getattr` shows, attribute by attribute, for the stored state `st` (for tables without property-backed
attributes this is `viewFields`). -/
def showS (as : List AttrInfo) (st : Vals) : Vals := showFrom as st as st

/-- `copy.deepcopy(x)` on the stored state (entry by entry: `dcFields`), as `getattr` then shows the copy. -/
def copyShows (T : Table) (c : Nat) (st : Vals) : Vals := showS (T.attrs c) (dcFields (T.attrs c) st)

/-- `InitMethod.init` for an instance of class `c` (metadata owner `m = metaOf T c`; the attribute specs and
defaults are those seen by `c`): parents' constructors base-most first, then the own attributes. -/
def initFields (T : Table) (c : Nat) (kw : Vals) : Vals :=
  let m := metaOf T c
  let as := T.attrs c
  initOwn m true as kw (initParents (specParents T m) as kw (allMissing as))

/-- `type(x)(**kw)` as `getattr` then shows it, attribute by attribute. -/
def construct (T : Table) (c : Nat) (kw : Vals) : Vals := showS (T.attrs c) (initFields T c kw)

/-- Every init-enabled attribute is owned by the metadata owner or by one of its spec ancestors (so that
exactly the constructors that are run assign it). -/
def ownersOk (T : Table) (c : Nat) : Bool :=
  (T.attrs c).all (fun a => !a.init || a.owner == metaOf T c || (specParents T (metaOf T c)).contains a.owner)

/-- SPEC of the constructor, attribute by attribute: a passed value is shown (copied unless `do_not_copy`)
whatever it is and whichever class of the chain owns the attribute; otherwise the default is shown. -/
def shown (a : AttrInfo) (kv : Val) : Val :=
  if a.init then (if kv.isMissing then a.dflt else protect a kv) else a.dflt

/-- SPEC of what the constructor stores, attribute by attribute: the passed value (copied unless `do_not_copy`),
else the default; nothing for attributes that are not init-enabled. -/
def storedSlot (a : AttrInfo) (kv : Val) : Val :=
  if a.init then (if kv.isMissing then a.dflt else protect a kv) else .missing

def storedSpec : List AttrInfo → Vals → Vals
  | [], _ => .nil
  | a :: as, kw => .cons (storedSlot a (hdV kw)) (storedSpec as (tlV kw))

/-- SPEC of what the new instance shows (for a plain attribute: `shown a kv`, theorem `specFields_plain`). -/
def specFields (as : List AttrInfo) (kw : Vals) : Vals := showS as (storedSpec as kw)

/-! ### re-construction from own attribute values -/

/-- Identity given to the original instance when one of its bound methods is handed to the new instance. -/
def origId : Nat := 999

/-- `{a: getattr(x, a) for init-enabled a that has a value}` (positional; `missing` = not passed). A method
bound to `x` itself is, for the new instance, a method bound to another object. -/
def ownValue (a : AttrInfo) (v : Val) : Val :=
  if a.init then (match v with
    | .bound none f => .bound (some origId) f
    | v => v)
  else .missing

def ownValues : List AttrInfo → Vals → Vals
  | [], _ => .nil
  | _ :: as, .nil => .cons .missing (ownValues as .nil)
  | a :: as, .cons v r => .cons (ownValue a v) (ownValues as r)

/-- SPEC of re-construction (what the theorems about `==` are proved on; `reconstruct_refines`). -/
def rcFields (as : List AttrInfo) (fs : Vals) : Vals := specFields as (ownValues as fs)

/-- `type(x)(**own values)` through the constructor model. -/
def reconstruct (T : Table) : Val → Val
  | .inst c fs => .inst c (construct T c (ownValues (T.attrs c) fs))
  | v => v

/-- Re-construction can restore the instance: every compared attribute is either passed to the constructor
(init-enabled and holding a value; a property-backed one must honour the stored value) or is a plain attribute that
already shows what a fresh instance shows. -/
def reconstructible (T : Table) : List AttrInfo → Vals → Bool
  | [], _ => true
  | _ :: _, .nil => false
  | a :: as, .cons v r =>
    (!a.compare || (a.init && !v.isMissing && a.storable) || (a.prop.isNone && attrEq T a.dflt v))
      && reconstructible T as r

/-! ### repr -/

/-- How `object_repr` renders a direct attribute value (skeleton). -/
inductive Kind
  | self | boundSelf (fn : Nat) | boundOther (fn : Nat) | compact (cls : Nat) (keyMissing : Option Bool)
  | missing | value
  deriving DecidableEq, Repr

def kindOf (T : Table) : Val → Kind
  | .selfRef => .self
  | .bound none f => .boundSelf f
  | .bound (some _) f => .boundOther f
  | .inst c fs =>
    .compact c (match (T[c]?.bind (·.key)) with
      | some i => some (match nthVal fs i with | .missing => true | _ => false)
      | none => none)
  | .missing => .missing
  | _ => .value

/-- `ReprMethod.repr`: the `repr=True` attributes in metadata order with the rendering of each value. -/
def reprEntries (T : Table) : List AttrInfo → Vals → List (String × Kind)
  | [], _ => []
  | a :: as, .nil => (if a.repr then [(a.name, Kind.missing)] else []) ++ reprEntries T as .nil
  | a :: as, .cons v r => (if a.repr then [(a.name, kindOf T v)] else []) ++ reprEntries T as r

/-- `repr(x)`: class name and entries; total (`none` only for a non-instance, which has Python's own repr). -/
def reprOf (T : Table) : Val → Option (String × List (String × Kind))
  | .inst c fs => some (T.cname c, reprEntries T (T.attrs c) fs)
  | _ => none

/-! ### well-formedness of values -/

def lenV : Vals → Nat
  | .nil => 0
  | .cons _ r => lenV r + 1

mutual
/-- Every instance node carries exactly one value per attribute of its class. -/
def wfVal (T : Table) : Val → Bool
  | .list xs => wfVals T xs
  | .dict kvs => wfKVs T kvs
  | .set xs => wfVals T xs
  | .inst c fs => lenV fs == (T.attrs c).length && wfVals T fs
  | _ => true
def wfVals (T : Table) : Vals → Bool
  | .nil => true
  | .cons v r => wfVal T v && wfVals T r
def wfKVs (T : Table) : KVs → Bool
  | .nil => true
  | .cons k v r => wfVal T k && wfVal T v && wfKVs T r
end

mutual
/-- Acyclic values in which bound methods occur only directly as attribute values of instances (not
inside lists, dicts or sets) — the scope of the copy/equality theorems. -/
def okVal : Val → Bool
  | .list xs => okElems xs
  | .dict kvs => okKVs kvs
  | .set xs => okElems xs
  | .inst _ fs => okFields fs
  | .selfRef => false
  | _ => true
/-- container elements: no bound methods -/
def okElems : Vals → Bool
  | .nil => true
  | .cons v r => !v.isBound && okVal v && okElems r
def okKVs : KVs → Bool
  | .nil => true
  | .cons k v r => !k.isBound && okVal k && !v.isBound && okVal v && okKVs r
/-- instance fields: bound methods allowed -/
def okFields : Vals → Bool
  | .nil => true
  | .cons v r => okVal v && okFields r
end

/-! ### `==` when ONE operand refers back to itself

`x.a = x` (or `[x]`, `{"k": x}`) is written `selfRef` inside the fields of `x`: the nearest enclosing instance.
Python's `==` between such an `x` and a FINITE value terminates: every step descends into the finite operand. So
the comparison is defined by structural recursion on the finite operand `w`; `v` is the corresponding value on the
cyclic side, `self` the instance that `selfRef` inside `v` denotes. `flip = false`: Python evaluates `v == w`
(`EqMethod.eq` runs with `self` on the cyclic side); `flip = true`: `w == v`. (`EqMethod.eq` treats IDENTICAL values
as equal before calling `!=`; a value of the cyclic operand is never identical to one of a finite tree.) -/

/-- What a value met on the cyclic side denotes. -/
def resolve (self v : Val) : Val :=
  match v with
  | .selfRef => self
  | v => v

mutual
def cEq (T : Table) (flip : Bool) (self v w : Val) : Bool :=
  match w with
  | .list ys => (match v with | .list xs => cVals T flip self xs ys | _ => false)
  | .dict ys => (match v with | .dict xs => cKVs T flip self xs ys | _ => false)
  | .set ys => (match v with | .set xs => cVals T flip self xs ys | _ => false)
  | .inst c2 f2 =>
    (match resolve self v with
     | .inst c1 f1 =>
       if flip then     -- `w == x`: CPython tries the reflected `x.__eq__(w)` first when type(x) is a proper subclass
         (if isProperSub T c1 c2 then isSub T c2 c1 && cFields T true (.inst c1 f1) (T.attrs c1) f1 f2
          else isSub T c1 c2 && cFields T true (.inst c1 f1) (T.attrs c2) f1 f2)
       else             -- `x == w`
         (if isProperSub T c2 c1 then isSub T c1 c2 && cFields T false (.inst c1 f1) (T.attrs c2) f1 f2
          else isSub T c2 c1 && cFields T false (.inst c1 f1) (T.attrs c1) f1 f2)
     | _ => false)
  | w => if flip then vEq T w v else vEq T v w       -- scalars, bound methods, functions, …: no recursion
termination_by structural w
def cVals (T : Table) (flip : Bool) (self : Val) (xs ys : Vals) : Bool :=
  match xs, ys with
  | .nil, .nil => true
  | .cons v r, .cons w s => cEq T flip self v w && cVals T flip self r s
  | _, _ => false
termination_by structural ys
def cKVs (T : Table) (flip : Bool) (self : Val) (xs ys : KVs) : Bool :=
  match xs, ys with
  | .nil, .nil => true
  | .cons k v r, .cons l w s =>
    (if flip then vEq T l k else vEq T k l) && cEq T flip self v w && cKVs T flip self r s
  | _, _ => false
termination_by structural ys
/-- The attribute loop of `EqMethod.eq` with the fields `xs` of the cyclic operand and `ys` of the finite one. -/
def cFields (T : Table) (flip : Bool) (self : Val) (as : List AttrInfo) (xs ys : Vals) : Bool :=
  match as, xs, ys with
  | [], _, _ => true
  | a :: as, .cons v r, .cons w s =>
    (!a.compare ||
      (match v, w with
       | .bound _ f, .bound _ g => if flip then g == f else f == g
       | _, _ => cEq T flip self v w)) && cFields T flip self as r s
  -- (field lists shorter than the attribute list do not occur for well-formed instances: as `fieldsEq`)
  | a :: as, .cons v r, .nil => if flip then true else fieldsEq T (a :: as) (.cons v r) .nil
  | a :: as, .nil, ys => if flip then fieldsEq T (a :: as) ys .nil else true
termination_by structural ys
end

mutual
/-- No `selfRef` anywhere: a finite tree. -/
def closed : Val → Bool
  | .list xs => closedVals xs
  | .dict kvs => closedKVs kvs
  | .set xs => closedVals xs
  | .inst _ fs => closedVals fs
  | .selfRef => false
  | _ => true
def closedVals : Vals → Bool
  | .nil => true
  | .cons v r => closed v && closedVals r
def closedKVs : KVs → Bool
  | .nil => true
  | .cons k v r => closed k && closed v && closedKVs r
end

mutual
/-- The value is, or holds in a list / set / as a dict value, the enclosing instance itself. -/
def reaches : Val → Bool
  | .selfRef => true
  | .list xs => reachesVals xs
  | .set xs => reachesVals xs
  | .dict kvs => reachesKVs kvs
  | _ => false
def reachesVals : Vals → Bool
  | .nil => false
  | .cons v r => reaches v || reachesVals r
def reachesKVs : KVs → Bool
  | .nil => false
  | .cons _ v r => reaches v || reachesKVs r
end

/-- `x == y` as the driver evaluates it: through `cEq` with the operand that refers to itself on the cyclic side
(`pyEqC = pyEq` on finite trees: `pyEqC_closed`). Two operands that BOTH refer to themselves are outside. -/
def pyEqC (T : Table) (x y : Val) : Bool :=
  if !closed y && closed x then cEq T true .none y x else cEq T false .none x y

/-- Parents are defined before their subclasses (hence `issubclass` is antisymmetric). -/
def wfTable (T : Table) : Bool :=
  (List.range T.length).all (fun c => match T[c]? with
    | some ci => (match ci.parent with | some p => decide (p < c) | none => true)
    | none => true)

end SpecVerif.C10
