import SpecVerif.Model.C10
/-!
# C10 — (a) the ORDER of the attributes in a spec class's metadata, (b) comparisons / repr / copies that may be ABORTED

(a) `spec_class.bootstrap` (`spec_classes/spec_class.py`) assembles `metadata.attrs`, an ordered dict whose key order is
*the* declaration order used by `__repr__`, `__eq__` and the constructor signature: the inherited attributes
(`SpecClassMetadata.for_class`), then `metadata.attrs.update({attr: … for attr in managed_attrs})` where
`managed_attrs` = the class body's annotations (not private, not in `attrs_skip`; only when `inherit_annotations`)
followed by `self.attrs` = `{**attrs, **attrs_typed, **{init_overflow_attr: …}}`, then the key when it is not managed.
`metaOrder` mirrors this on the level of dict key orders (`addKey` = `d[k] = …`: an existing key keeps its position);
`declOrder` is the declaration-order SPECIFICATION (inherited / annotated in the body, in body order / named by the
decorator only / key) it is proved to equal.

(b) `EqMethod.eq` (`spec_classes/methods/core.py`) meets attribute values whose own comparison raises
(`decimal.Decimal('sNaN')`, arrays with an ambiguous truth value, …) and attributes whose read raises (a property getter
raising something other than `AttributeError`); `ReprMethod.repr` meets values whose `__repr__` raises,
`DeepCopyMethod.deepcopy` values whose `__deepcopy__` raises. `Slot` adds such objects (`Boom`) and raising reads next to
the values of the tree model; `eqO` / `reprO` / `copyO` are the OUTCOMES (a result, or `raised`) of the three methods,
step for step as the code runs; `runH` runs a HISTORY of assignments and (possibly aborted) operations over a heap of
instances. The code keeps no state of its own between two calls, so neither does the model: whatever was aborted
before, the outcome of an operation is a function of the attribute values the operands have at that moment.
-/
namespace SpecVerif.C10

/-! ### (a) metadata assembly: the order of `__spec_class__.attrs` -/

/-- `d[k] = …` on the key order of an ordered dict: an existing key keeps its position, a new one goes to the end. -/
def addKey (acc : List String) (x : String) : List String := if acc.contains x then acc else acc ++ [x]

/-- `d.update({k: … for k in xs})` / `{k: … for k in xs}` (with `init = []`) on the key order. -/
def dictKeys (init xs : List String) : List String := xs.foldl addKey init

/-- The decorator options and the class body, as far as the ORDER of the attributes goes. -/
structure DecoOpts where
  annotations : List String      -- `spec_cls.__annotations__`: the annotations of the class body, in body order
  attrs : List String            -- `attrs=[…]` in the order given
  typed : List String            -- keys of `attrs_typed={…}`
  skipGiven : Bool               -- `attrs_skip is not MISSING`
  skipNames : List String       -- `attrs_skip`
  overflow : Option String       -- `init_overflow_attr`
  key : Option String            -- `key`

def isPrivate (a : String) : Bool := a.toList.head? == some '_'      -- `attr.startswith("_")`

/-- `self.inherit_annotations = not (attrs or attrs_typed) or attrs_skip is not MISSING`. -/
def DecoOpts.inheritAnn (o : DecoOpts) : Bool := !(!o.attrs.isEmpty || !o.typed.isEmpty) || o.skipGiven

/-- What the decorator names, in the order of its options. -/
def DecoOpts.namedRaw (o : DecoOpts) : List String := o.attrs ++ o.typed ++ o.overflow.toList

/-- `self.attrs = {**{a: Any for a in attrs}, **attrs_typed, **({init_overflow_attr: …} if … else {})}` (keys). -/
def DecoOpts.named (o : DecoOpts) : List String := dictKeys [] o.namedRaw

/-- The annotations that are managed: `if self.inherit_annotations:` those not private and not in `attrs_skip`. -/
def DecoOpts.managedAnn (o : DecoOpts) : List String :=
  if o.inheritAnn then o.annotations.filter (fun a => !isPrivate a && !o.skipNames.contains a) else []

/-- `managed_attrs`: "starting with those defined as annotations on the class, and then those manually annotated". -/
def DecoOpts.managed (o : DecoOpts) : List String := o.managedAnn ++ o.named

/-- Key order of `metadata.attrs` after `bootstrap`: the inherited attributes, updated with one spec per managed
attribute (a dict comprehension over `managed_attrs`), plus the key attribute when it is not among them. -/
def metaOrder (inherited : List String) (o : DecoOpts) : List String :=
  let m := dictKeys inherited (dictKeys [] o.managed)
  match o.key with
  | some k => addKey m k
  | none => m

/-- First occurrences, in order. -/
def firsts : List String → List String
  | [] => []
  | x :: xs => x :: (firsts xs).filter (fun y => y != x)

/-- SPEC — declaration order: the inherited attributes in the parent's order; then the attributes the class body
annotates (and that are managed) in BODY order, whether or not a decorator option names them as well; then the
attributes only the decorator names, in the order of its options (`attrs`, `attrs_typed`, `init_overflow_attr`); then the
key when nothing else declares it. -/
def declOrder (inherited : List String) (o : DecoOpts) : List String :=
  let annNew := o.managedAnn.filter (fun a => !inherited.contains a)
  let namedNew := firsts (o.namedRaw.filter (fun a => !inherited.contains a && !o.managedAnn.contains a))
  let body := inherited ++ annNew ++ namedNew
  match o.key with
  | some k => if body.contains k then body else body ++ [k]
  | none => body

/-! ### (b) operations that may be aborted by an exception raised from a value or a getter -/

/-- An object outside the value grammar whose own methods may raise (`id` = its identity). -/
structure Boom where
  id : Nat
  eqRaises : Bool          -- `==` / `!=` with it raise (unless the other operand decides first)
  reprRaises : Bool        -- `repr()` of it raises
  copyRaises : Bool        -- `copy.deepcopy()` of it raises

/-- What `getattr(x, attr, MISSING)` gives for one attribute: a value of the tree model, an object whose methods may
raise, or an exception (a property getter raising something other than `AttributeError`). -/
inductive Slot
  | val (v : Val)
  | boom (b : Boom)
  | getterRaises

inductive Outcome
  | ok (b : Bool)
  | raised
  deriving DecidableEq, Repr

/-- The left operand's `__ne__` answers by itself, whatever the right operand is: `EqMethod.eq` and the MISSING
sentinel's `__eq__` never return `NotImplemented` (every other value of the grammar defers to an operand of a
class it does not know, whose reflected method then runs). -/
def Val.decidesAlone : Val → Bool
  | .inst _ _ => true
  | .missing => true
  | _ => false

/-- One turn of the attribute loop of `EqMethod.eq` for a compared attribute: both reads (`getattr(self, …)` first),
the pair of bound methods by function, `value_self is not value_other and value_self != value_other`.
`ok true` = equal (the loop goes on), `ok false` = differs (`return False`). -/
def slotCmp (T : Table) : Slot → Slot → Outcome
  | .getterRaises, _ => .raised
  | _, .getterRaises => .raised
  | .val v, .val w => .ok (attrEq T v w)
  | .boom a, .boom b =>
    if a.id == b.id then .ok true             -- identical: `value_self is value_other`
    else if a.eqRaises then .raised           -- the left operand's `__ne__` runs first
    else .ok false                            -- (it compares by identity)
  | .boom a, .val _ => if a.eqRaises then .raised else .ok false
  | .val v, .boom b => if v.decidesAlone then .ok false else if b.eqRaises then .raised else .ok false

/-- The attribute loop of `EqMethod.eq` (`ls` = the values of `self`, `rs` = those of `other`; a value list shorter
than the attribute list reads MISSING, as `fieldsEq`). -/
def fieldsO (T : Table) : List AttrInfo → List Slot → List Slot → Outcome
  | [], _, _ => .ok true
  | _ :: _, [], _ => .ok true
  | a :: as, l :: ls, [] =>
    if !a.compare then fieldsO T as ls []
    else (match slotCmp T l (.val .missing) with
      | .ok true => fieldsO T as ls []
      | o => o)
  | a :: as, l :: ls, r :: rs =>
    if !a.compare then fieldsO T as ls rs
    else (match slotCmp T l r with
      | .ok true => fieldsO T as ls rs
      | o => o)

/-- `x == y` for instances of classes `c1`, `c2` under CPython's dispatch (the reflected `y.__eq__(x)` first when
`type(y)` is a proper subclass of `type(x)`; `EqMethod.eq` never returns `NotImplemented`). -/
def eqO (T : Table) (c1 : Nat) (ls : List Slot) (c2 : Nat) (rs : List Slot) : Outcome :=
  if isProperSub T c2 c1 then (if isSub T c1 c2 then fieldsO T (T.attrs c2) rs ls else .ok false)
  else (if isSub T c2 c1 then fieldsO T (T.attrs c1) ls rs else .ok false)

def liftVals : Vals → List Slot
  | .nil => []
  | .cons v r => .val v :: liftVals r

def Slot.reprRaises : Slot → Bool
  | .val _ => false
  | .boom b => b.reprRaises
  | .getterRaises => true

def slotKind (T : Table) : Slot → Kind
  | .val v => kindOf T v
  | _ => .value

/-- The attributes `ReprMethod.repr` reads and renders: those with `repr=True`, in metadata order. -/
def reprSlots : List AttrInfo → List Slot → List (String × Slot)
  | [], _ => []
  | a :: as, [] => (if a.repr then [(a.name, Slot.val .missing)] else []) ++ reprSlots as []
  | a :: as, s :: ss => (if a.repr then [(a.name, s)] else []) ++ reprSlots as ss

/-- `repr(x)`: `none` = raised (a read or the `__repr__` of a value raised), else the class name and the entries. -/
def reprO (T : Table) (c : Nat) (ss : List Slot) : Option (String × List (String × Kind)) :=
  let es := reprSlots (T.attrs c) ss
  if es.any (fun e => e.2.reprRaises) then none
  else some (T.cname c, es.map (fun e => (e.1, slotKind T e.2)))

/-- `copy.deepcopy(x)` raises: some entry that is copied (not `do_not_copy`) is an object whose `__deepcopy__` raises. -/
def copyRaises : List AttrInfo → List Slot → Bool
  | _, [] => false
  | [], s :: ss => (match s with | .boom b => b.copyRaises | _ => false) || copyRaises [] ss
  | a :: as, s :: ss => (match s with | .boom b => !a.doNotCopy && b.copyRaises | _ => false) || copyRaises as ss

/-! #### histories -/

/-- One step of a history over a heap of instances. -/
inductive HOp
  | put (i : Nat) (c : Nat) (ss : List Slot)    -- the attributes of object `i` (of class `c`) now have these values
  | cmp (i j : Nat)                              -- `x_i == x_j`
  | repr (i : Nat)
  | copy (i : Nat)                               -- `copy.deepcopy(x_i)` (the copy is dropped)

def HOp.isPut : HOp → Bool
  | .put _ _ _ => true
  | _ => false

abbrev Heap := List (Nat × Nat × List Slot)

def Heap.find (h : Heap) (i : Nat) : Option (Nat × List Slot) := (h.find? (·.1 == i)).map (·.2)

inductive HOut
  | none                                                  -- an assignment / an unknown object
  | cmp (o : Outcome)
  | repr (r : Option (String × List (String × Kind)))
  | copy (raised : Bool)

/-- The heap after one step: only assignments change it — an operation, completed or aborted, leaves nothing behind. -/
def heapStep (h : Heap) : HOp → Heap
  | .put i c ss => (i, c, ss) :: h
  | _ => h

/-- What one step answers on the heap it meets. -/
def outStep (T : Table) (h : Heap) : HOp → HOut
  | .put _ _ _ => .none
  | .cmp i j =>
    (match h.find i, h.find j with
     | some (c1, ls), some (c2, rs) => .cmp (eqO T c1 ls c2 rs)
     | _, _ => .none)
  | .repr i =>
    (match h.find i with
     | some (c, ss) => .repr (reprO T c ss)
     | none => .none)
  | .copy i =>
    (match h.find i with
     | some (c, ss) => .copy (copyRaises (T.attrs c) ss)
     | none => .none)

def heapAfter (h : Heap) (ops : List HOp) : Heap := ops.foldl heapStep h

/-- The answers of a whole history, step by step. -/
def runH (T : Table) : Heap → List HOp → List HOut
  | _, [] => []
  | h, op :: ops => outStep T h op :: runH T (heapStep h op) ops

end SpecVerif.C10
