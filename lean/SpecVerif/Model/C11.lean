import SpecVerif.Model.Py
/-!
# C11 — Impl model of cache / attribute invalidation in spec-classes

Mirrors, step for step:

* `spec_class.bootstrap` (spec_class.py), the part that assembles
  `metadata.attrs` along the class hierarchy: `effSpec` (`scratchSpec` for
  annotated names, `overrideSpec` for inherited managed names overridden
  without annotation: a plain default keeps the parent's `invalidated_by`, a
  property's own declaration wins over the parent's).
* `SpecClassMetadata.invalidation_map` (spec_class.py): `invPairs` walks
  `metadata.attrs` (`effManaged`) and then the binding declarations
  most-derived-first with a `seen` set and adds, for every
  declared `invalidated_by` key (a name or `'*'`), the pair (key, dependant).
  The walk starts at the metadata *owner* (the first spec class of the MRO):
  members of undecorated subclasses in front of it are not visited
  (`Tbl.code`); `Tbl.full` is the table the property text asks for.
* `invalidate_attrs` (utils/mutation.py): `invalidate`, with the `_visited`
  set threaded through the "nothing to delete" branch (members of it are skipped
  before `delattr` is tried) and a fresh one for every
  successful `delattr` (which re-enters through `__delattr__`/`mutate_attr`).
* `mutate_attr` (type check, raw write, invalidation), `__setattr__`,
  `__delattr__` (reset to the default through `mutate_attr`, or raw delete +
  `invalidate_attrs`), `spec_property.__get__/__set__/__delete__`, the scalar
  helpers `with_/update_/transform_/reset_<a>`, element helpers, top-level
  `update/transform/reset`, the constructor (`skip_invalidation=True`).

The instance `__dict__` is `Dict V := Name → Option (Tag × V)`. The tag is
ghost state: `cache` marks a value written by `spec_property.__get__`, `user`
everything written through an assignment (attribute values and property
overrides). The code cannot tell them apart and neither does any model
function except `nc` (the "cache-free" view handed to getters).

Core Lean only.
-/
namespace SpecVerif.C11
open SpecVerif.Py

abbrev Name := Nat

/-- A key of the invalidation map: an attribute name or the `'*'` wildcard. -/
inductive Key
  | star
  | nm (n : Name)
  deriving DecidableEq, Repr, Inhabited

/-- What a class-level declaration of a name is. -/
inductive Kind (V : Type)
  /-- annotated attribute of a spec class (managed); `dflt` = the default a new instance gets -/
  | attr (dflt : Option V)
  /-- no annotation: plain instance attribute, optionally with a class-level value -/
  | plain (cls : Option V)
  /-- `spec_property(cache=, overridable=)`; `annotated` = also listed in the annotations (managed, masked) -/
  | prop (cache overridable annotated : Bool)
  deriving Repr

/-- How the class body writes the declaration (only matters for `Kind.attr`). -/
inductive Form
  /-- `n: T` / `n: T = v` (annotated, plain value or nothing) — for `plain`/`prop` kinds: as the kind says -/
  | std
  /-- `n: T = Attr(default=…, invalidated_by=…)` (annotated; the class keeps the default or the `MISSING` sentinel) -/
  | viaAttr
  /-- `n = Attr(default=…, invalidated_by=…)` WITHOUT annotation: redeclaration of an inherited managed attribute -/
  | bareAttr
  deriving DecidableEq, Repr, Inhabited

structure Member (V : Type) where
  name  : Name
  kind  : Kind V
  invBy : List Key
  form  : Form

structure ClassDecl (V : Type) where
  /-- decorated with `@spec_class` -/
  spec    : Bool
  members : List (Member V)

inductive Tag
  | user
  | cache
  deriving DecidableEq, Repr

abbrev Dict (V : Type) := Name → Option (Tag × V)

def Dict.empty {V : Type} : Dict V := fun _ => none
def dset {V : Type} (s : Dict V) (n : Name) (x : Tag × V) : Dict V :=
  fun m => if m = n then some x else s m
def derase {V : Type} (s : Dict V) (n : Name) : Dict V :=
  fun m => if m = n then none else s m

/-- The instance's non-cache state: what a getter may depend on. -/
def nc {V : Type} (s : Dict V) : Name → Option V :=
  fun n => match s n with
    | some (.user, v) => some v
    | _ => none

/-- Resolved class table (what the dynamic semantics consults). -/
structure RTbl (V : Type) where
  names        : List Name
  /-- Python attribute resolution on `type(self)` -/
  kind         : Name → Kind V
  /-- `name in metadata.attrs` -/
  managed      : Name → Bool
  /-- `list(metadata.attrs)` -/
  managedNames : List Name
  /-- `metadata.invalidation_map.get(key, set())` -/
  invMap       : Key → List Name
  /-- property getters: pure functions of the non-cache state -/
  getter       : Name → (Name → Option V) → V
  /-- `check_type(value, attr_spec.type)` -/
  okType       : Name → V → Bool
  /-- `attr_spec.constructor()`: what `transform_<a>` starts from when the attribute is missing -/
  ctor0        : Name → Option V

variable {V : Type}

/-- set → list without duplicates -/
def dedup : List Name → List Name
  | [] => []
  | x :: xs => if x ∈ xs then dedup xs else x :: dedup xs

/-- The default `__delattr__` resets a managed, unmasked attribute to. -/
def dfltOf (R : RTbl V) (n : Name) : Option V :=
  if R.managed n then
    match R.kind n with
    | .attr d => d
    | _ => none
  else none

/-- `invalidation_map.get(attr) | invalidation_map.get('*')` minus `attr` itself. -/
def depList (R : RTbl V) (a : Name) : List Name :=
  (dedup (R.invMap (.nm a) ++ R.invMap .star)).filter (fun d => d != a)

abbrev InvRes (V : Type) := Option (List Name × Dict V)

/-- One iteration of the loop of `invalidate_attrs`. A dependant that is already in `_visited`
(the attribute whose mutation started the call, or anything found to hold no value) is skipped
BEFORE `delattr` is tried (fix 0ce7c4e); otherwise `delattr(obj, d)`.
`rec` is `invalidate_attrs` itself (one unit of fuel less). -/
def invStep (R : RTbl V) (rec : Name → List Name → Dict V → InvRes V)
    (d : Name) (acc : List Name × Dict V) : InvRes V :=
  if d ∈ acc.1 then some acc else
  match dfltOf R d with
  | some v =>
    -- `__delattr__`: managed with a default => `mutate_attr(d, default)` => write, then invalidate (new `_visited`)
    (rec d [d] (dset acc.2 d (.user, v))).map (fun r => (acc.1, r.2))
  | none =>
    if (acc.2 d).isSome then
      -- raw delete succeeded; `__delattr__` then calls `invalidate_attrs(self, d)` (new `_visited`)
      (rec d [d] (derase acc.2 d)).map (fun r => (acc.1, r.2))
    else
      -- AttributeError: nothing to delete, but dependants of `d` may be stale
      rec d (d :: acc.1) acc.2

def invFold (R : RTbl V) (rec : Name → List Name → Dict V → InvRes V) :
    List Name → List Name × Dict V → InvRes V
  | [], acc => some acc
  | d :: ds, acc =>
    match invStep R rec d acc with
    | none => none
    | some acc' => invFold R rec ds acc'

/-- `invalidate_attrs(obj, a, map, _visited)`; `none` = fuel exhausted
(Python: unbounded recursion, `RecursionError`). -/
def invalidate (R : RTbl V) : Nat → Name → List Name → Dict V → InvRes V
  | 0 => fun _ _ _ => none
  | fuel + 1 => fun a vis s => invFold R (invalidate R fuel) (depList R a) (vis, s)

/-- Enough fuel for every well-formed table (`Props.C11.invalidate_total`). -/
def RTbl.fuel (R : RTbl V) : Nat :=
  (R.names.length + 1) * (R.names.length + 1) * (R.names.length + 1) + 1

def invalidateTop (R : RTbl V) (a : Name) (s : Dict V) : Option (Dict V) :=
  (invalidate R R.fuel a [a] s).map (·.2)

/-- raw `setattr` followed by the invalidation hook (`mutate_attr` after its checks). -/
def rawMutate (R : RTbl V) (a : Name) (v : V) (s : Dict V) : Except Err (Dict V) :=
  match R.kind a with
  | .prop _ false _ => .error .attributeError      -- `spec_property.__set__`: not overridable, no setter
  | _ =>
    match invalidateTop R a (dset s a (.user, v)) with
    | some s' => .ok s'
    | none => .error .runtimeError

/-- `mutate_attr(obj, a, v, inplace=True, type_check=tc)` (copying is done by the caller). -/
def mutateAttr (R : RTbl V) (a : Name) (v : V) (tc : Bool) (s : Dict V) : Except Err (Dict V) :=
  if tc && R.managed a && !R.okType a v then .error .typeError
  else rawMutate R a v s

/-- `__delattr__`. -/
def delAttr (R : RTbl V) (a : Name) (s : Dict V) : Except Err (Dict V) :=
  match dfltOf R a with
  | some d => rawMutate R a d s
  | none =>
    if (s a).isSome then
      match invalidateTop R a (derase s a) with
      | some s' => .ok s'
      | none => .error .runtimeError
    else .error .attributeError

structure ReadRes (V : Type) where
  val   : Except Err V
  st    : Dict V
  calls : List Name

/-- `getattr(obj, n)`. -/
def readAttr (R : RTbl V) (n : Name) (s : Dict V) : ReadRes V :=
  match R.kind n with
  | .prop cache ovr _ =>
    match (if ovr || cache then s n else none) with
    | some (_, v) => ⟨.ok v, s, []⟩
    | none =>
      let v := R.getter n (nc s)
      ⟨.ok v, if cache then dset s n (.cache, v) else s, [n]⟩
  | .attr _ =>
    match s n with
    | some (_, v) => ⟨.ok v, s, []⟩
    | none => ⟨.error .attributeError, s, []⟩
  | .plain cls =>
    match s n with
    | some (_, v) => ⟨.ok v, s, []⟩
    | none =>
      match cls with
      | some v => ⟨.ok v, s, []⟩
      | none => ⟨.error .attributeError, s, []⟩

/-- The API entry points. `inplace` is a separate argument of `step`. -/
inductive Op (V : Type)
  | read (n : Name)
  | setattr (n : Name) (v : V)
  | delattr (n : Name)
  | withAttr (n : Name) (v : V)                       -- with_<n>(v)
  | updateAttr (n : Name) (v : V)                     -- update_<n>(v)
  | transformAttr (n : Name) (f : Option V → Except Err V) -- transform_<n>(f); `none` = MISSING
  | resetAttr (n : Name)                              -- reset_<n>()
  | elem (n : Name) (f : Option V → Except Err V)     -- element helpers: new collection, then mutate_attr(type_check=False)
  | update (kvs : List (Name × V))                    -- update(**kvs)
  | transform (kfs : List (Name × (Option V → Except Err V)))  -- transform(**kfs)
  | reset                                             -- reset()

/-- `read`, `setattr`, `delattr` always act on the receiver. -/
def Op.alwaysInPlace : Op V → Bool
  | .read _ | .setattr _ _ | .delattr _ => true
  | _ => false

structure StepRes (V : Type) where
  /-- the receiver afterwards -/
  self  : Dict V
  /-- the returned instance (the receiver itself for in-place operations) -/
  res   : Except Err (Dict V)
  val   : Option V
  calls : List Name

def optVal (r : ReadRes V) : Option V :=
  match r.val with
  | .ok v => some v
  | .error _ => none

/-- `update(**kvs)`: `setattr(value, k, v)` in order. -/
def updateFold (R : RTbl V) : List (Name × V) → Dict V → Except Err (Dict V)
  | [], s => .ok s
  | (k, v) :: rest, s =>
    if !R.managed k then .error .typeError else
    match mutateAttr R k v true s with
    | .error e => .error e
    | .ok s' => updateFold R rest s'

/-- `transform(**kfs)`: `setattr(value, k, f(getattr(value, k, MISSING)))` in order. -/
def transformFold (R : RTbl V) :
    List (Name × (Option V → Except Err V)) → Dict V → List Name → Except Err (Dict V) × List Name
  | [], s, cs => (.ok s, cs)
  | (k, f) :: rest, s, cs =>
    if !R.managed k then (.error .typeError, cs) else
    let r := readAttr R k s
    match f (optVal r) with
    | .error e => (.error e, cs ++ r.calls)
    | .ok v =>
      match mutateAttr R k v true r.st with
      | .error e => (.error e, cs ++ r.calls)
      | .ok s' => transformFold R rest s' (cs ++ r.calls)

/-- `reset()`: `delattr` of every managed attribute, `AttributeError` ignored. -/
def resetFold (R : RTbl V) : List Name → Dict V → Except Err (Dict V)
  | [], s => .ok s
  | a :: rest, s =>
    match delAttr R a s with
    | .ok s' => resetFold R rest s'
    | .error .attributeError => resetFold R rest s
    | .error e => .error e

/-- `_protect_if_unchanged` (methods/scalar.py) of `update_<a>` / `transform_<a>`: on a copy-on-write
call the new value is compared with `getattr(receiver, a, MISSING)` before it is stored — a property
getter runs on the receiver (and fills its cache). In place nothing is looked up. -/
def peek (R : RTbl V) (n : Name) (inplace : Bool) (s : Dict V) : Dict V × List Name :=
  if inplace then (s, []) else ((readAttr R n s).st, (readAttr R n s).calls)

/-- common tail of the helpers: in place the receiver becomes the result -/
def finish (inplace : Bool) (self : Dict V) (r : Except Err (Dict V)) (calls : List Name) : StepRes V :=
  match r with
  | .error e => ⟨self, .error e, none, calls⟩
  | .ok s' => ⟨if inplace then s' else self, .ok s', none, calls⟩

/-- One API call on an instance whose `__dict__` is `s`. For a copy-on-write
call (`inplace = false`) `res` is the new instance and `self` the receiver. -/
def step (R : RTbl V) (s : Dict V) (op : Op V) (inplace : Bool) : StepRes V :=
  let fin := finish inplace
  match op with
  | .read n =>
    let r := readAttr R n s
    match r.val with
    | .ok v => ⟨r.st, .ok r.st, some v, r.calls⟩
    | .error e => ⟨r.st, .error e, none, r.calls⟩
  | .setattr n v =>
    match mutateAttr R n v true s with
    | .ok s' => ⟨s', .ok s', none, []⟩
    | .error e => ⟨s, .error e, none, []⟩
  | .delattr n =>
    match delAttr R n s with
    | .ok s' => ⟨s', .ok s', none, []⟩
    | .error e => ⟨s, .error e, none, []⟩
  | .withAttr n v =>
    if !R.managed n then ⟨s, .error .attributeError, none, []⟩ else
    fin s (mutateAttr R n v true s) []
  | .updateAttr n v =>
    if !R.managed n then ⟨s, .error .attributeError, none, []⟩ else
    -- `update_<n>(v)` = `with_<n>(_protect_if_unchanged(v))`: the receiver's current value is looked up first
    let p := peek R n inplace s
    fin p.1 (mutateAttr R n v true p.1) p.2
  | .transformAttr n f =>
    if !R.managed n then ⟨s, .error .attributeError, none, []⟩ else
    -- the old value is read on the receiver (fills its cache), then `with_<n>`
    let r := readAttr R n s
    let old := match optVal r with
      | some v => some v
      | none => R.ctor0 n        -- `mutate_value`: MISSING + constructor => default-constructed value
    match f old with
    | .error e => ⟨r.st, .error e, none, r.calls⟩
    | .ok v =>
      -- `_protect_if_unchanged`: looked up once more (an un-cached property's getter runs again)
      let p := peek R n inplace r.st
      fin p.1 (mutateAttr R n v true p.1) (r.calls ++ p.2)
  | .resetAttr n =>
    if !R.managed n then ⟨s, .error .attributeError, none, []⟩ else
    fin s (delAttr R n s) []
  | .elem n f =>
    if !R.managed n then ⟨s, .error .attributeError, none, []⟩ else
    match f ((s n).map (·.2)) with
    | .error e => ⟨s, .error e, none, []⟩
    | .ok v => fin s (mutateAttr R n v false s) []
  | .update kvs => fin s (updateFold R kvs s) []
  | .transform kfs =>
    let r := transformFold R kfs s []
    fin s r.1 r.2
  | .reset => fin s (resetFold R R.managedNames s) []

/-! ## Several instances (copy-on-write results become new instances) -/

abbrev World (V : Type) := List (Dict V)

structure WRes (V : Type) where
  world : World V
  out   : Except Err (Option V × Option Nat)
  calls : List Name

def wstep (R : RTbl V) (w : World V) (i : Nat) (op : Op V) (inplace : Bool) : WRes V :=
  match w[i]? with
  | none => ⟨w, .error .indexError, []⟩
  | some s =>
    let r := step R s op (inplace || op.alwaysInPlace)
    let w1 := w.set i r.self
    match r.res with
    | .error e => ⟨w1, .error e, r.calls⟩
    | .ok s' =>
      if inplace || op.alwaysInPlace then ⟨w1, .ok (r.val, none), r.calls⟩
      else ⟨w1 ++ [s'], .ok (r.val, some w1.length), r.calls⟩

/-! ## Constructor (`InitMethod.init`): every write with `skip_invalidation=True` -/

def lookupKw (kw : List (Name × V)) (n : Name) : Option V :=
  match kw.find? (fun p => p.1 == n) with
  | some p => some p.2
  | none => none

def constructFold (R : RTbl V) (kw : List (Name × V)) : List Name → Dict V → Except Err (Dict V)
  | [], s => .ok s
  | n :: rest, s =>
    match lookupKw kw n with
    | some v =>
      if !R.okType n v then .error .typeError else
      match R.kind n with
      | .prop _ false _ => .error .attributeError
      | _ => constructFold R kw rest (dset s n (.user, v))
    | none =>
      match dfltOf R n with
      | some d => constructFold R kw rest (dset s n (.user, d))
      | none => constructFold R kw rest s

def construct (R : RTbl V) (kw : List (Name × V)) : Except Err (Dict V) :=
  if kw.any (fun p => !R.managed p.1) then .error .typeError
  else constructFold R kw R.managedNames Dict.empty

/-! ## Building the table as `spec_class.bootstrap` / `SpecClassMetadata` do

`metadata.attrs` of a spec class is assembled class by class (`bootstrap`, base classes first):

* a name annotated in the class body gets a spec built from scratch by `build_attr_spec`
  (`scratchSpec`): `invalidated_by` of the `Attr(...)`, else of the class-level value found by
  `getattr(cls, name)` when that is a `spec_property` (`__spec_class_invalidated_by__`);
* an inherited managed name whose value is overridden in the body WITHOUT annotation keeps the
  inherited configuration where the body says nothing: a new plain default keeps the parent's
  `invalidated_by`; a `spec_property` keeps it only when it declares none of its own — its own
  declaration wins; `n = Attr(...)` is a redeclaration (nothing inherited);
* a name not mentioned in the body keeps the inherited spec; an undecorated class never rebuilds an
  entry, but a value / property it puts over a managed name is what instances see (`plainOverride`):
  its `invalidated_by` is lost (open finding KF-C11-plain-middle-override).

`SpecClassMetadata.invalidation_map` = `invalidated_by` of every `metadata.attrs` entry, then the
`__spec_class_invalidated_by__` members of the classes of `owner.mro()` for names that are not in
`metadata.attrs`, first class whose `__dict__` binds the name wins (`seen_attributes`). -/

structure Tbl (V : Type) where
  /-- most derived class first -/
  mro    : List (ClassDecl V)
  getter : Name → (Name → Option V) → V
  okType : Name → V → Bool
  ctor0  : Name → Option V

def declsOf (cs : List (ClassDecl V)) : List (Member V) := cs.flatMap (·.members)

/-- classes from the metadata owner on: `metadata.owner.mro()` -/
def ownerMro (cs : List (ClassDecl V)) : List (ClassDecl V) := cs.dropWhile (fun c => !c.spec)

def lookupMember (ds : List (Member V)) (n : Name) : Option (Member V) :=
  ds.find? (fun m => m.name == n)

/-- The (invalidator, dependant) pairs, first declaration of a name wins (`seen_attributes`). -/
def invPairs : List (Member V) → List Name → List (Key × Name)
  | [], _ => []
  | m :: ms, seen =>
    if m.name ∈ seen then invPairs ms seen
    else m.invBy.map (fun k => (k, m.name)) ++ invPairs ms (m.name :: seen)

def invMapOf (ds : List (Member V)) (k : Key) : List Name :=
  ((invPairs ds []).filter (fun p => p.1 == k)).map (·.2)

/-- the name is in the `__annotations__` of the class body that declares it -/
def Member.annotated (m : Member V) : Bool :=
  match m.kind with
  | .attr _ => m.form != .bareAttr
  | .prop _ _ ann => ann
  | .plain _ => false

/-- the class body binds a class-level value under the name (`name in cls.__dict__` after bootstrap) -/
def Member.binds (m : Member V) : Bool :=
  match m.kind with
  | .attr (some _) => true
  | .attr none => m.form != .std      -- `Attr(...)` without default leaves the `MISSING` sentinel on the class
  | .plain c => c.isSome
  | .prop _ _ _ => true

/-- the declarations that bind a class-level value, in attribute-resolution order -/
def bindingDecls (cs : List (ClassDecl V)) : List (Member V) := (declsOf cs).filter (·.binds)

/-- `getattr(cls, n, MISSING)`: the first binding declaration along the MRO -/
def clsVal (ds : List (Member V)) (n : Name) : Option (Member V) :=
  ds.find? (fun m => m.name == n && m.binds)

/-- An entry of `metadata.attrs`, as far as this property is concerned. -/
structure Eff (V : Type) where
  /-- `.attr default` or `.prop cache overridable true` (masked) -/
  kind  : Kind V
  invBy : List Key

/-- `if not spec.invalidated_by: spec.invalidated_by = fallback` -/
def ownOr (own fallback : List Key) : List Key := if own.isEmpty then fallback else own

/-- `build_attr_spec` for a name annotated in the class body (`m`); `rest` = declarations of the
ancestors, where `getattr(cls, name)` continues when the body binds no value. -/
def scratchSpec (m : Member V) (rest : List (Member V)) : Eff V :=
  match m.kind with
  | .prop c o _ => ⟨.prop c o true, m.invBy⟩
  | .plain v => ⟨.attr v, m.invBy⟩
  | .attr (some v) => ⟨.attr (some v), m.invBy⟩
  | .attr none =>
    if m.form != .std then ⟨.attr none, m.invBy⟩ else
    match clsVal rest m.name with
    | none => ⟨.attr none, m.invBy⟩
    | some m' =>
      match m'.kind with
      | .prop c o _ => ⟨.prop c o true, ownOr m.invBy m'.invBy⟩   -- `n: T` over an inherited property
      | .attr d => ⟨.attr d, m.invBy⟩                              -- inherited class-level default
      | .plain d => ⟨.attr d, m.invBy⟩

/-- The inherited spec `sp` of a name whose value the body overrides without annotating it
(`bootstrap`, "Update inherited `Attr` specifications"). -/
def overrideSpec (m : Member V) (sp : Eff V) : Eff V :=
  match m.kind with
  | .attr d => ⟨.attr d, m.invBy⟩                                  -- `n = Attr(...)`: redeclared, nothing inherited
  | .plain none => sp                                              -- not in the class `__dict__`
  | .plain (some v) => ⟨.attr (some v), sp.invBy⟩                  -- new default, inherited `invalidated_by`
  | .prop c o _ => ⟨.prop c o true, ownOr m.invBy sp.invBy⟩        -- own declaration wins, else inherited

/-- An UNDECORATED class between the spec classes that overrides an inherited managed name. The
`metadata.attrs` entry is not rebuilt (`attr not in spec_cls.__dict__` for every spec class below),
but attribute resolution and `Attr.lookup_default_value(type(self))` find the declaration: a plain
value is the default a new instance gets (and `__delattr__` resets to), a property masks the
attribute. Its `invalidated_by` never reaches the invalidation map (`honour = false`: the name is
in `seen_attributes`, the member scan skips it) — the property text asks for `honour = true`. -/
def plainOverride (honour : Bool) (m : Member V) (sp : Eff V) : Eff V :=
  match m.kind with
  | .plain (some v) => ⟨.attr (some v), sp.invBy⟩
  | .prop c o _ => ⟨.prop c o true, if honour then ownOr m.invBy sp.invBy else sp.invBy⟩
  | _ => sp                          -- not bound (`.plain none`); `Attr`/annotations in an undecorated class: not modelled

/-- What an instance of the class at the head of `cs` (most derived first) sees of a managed name:
`cls.__spec_class__.attrs.get(n)` (its `invalidated_by`) together with the kind / default that
attribute resolution and `lookup_default_value` find. `honour` = let the `invalidated_by` of a
property declared by an undecorated class count (what the property text asks; the library: `false`). -/
def effSpec (honour : Bool) : List (ClassDecl V) → Name → Option (Eff V)
  | [], _ => none
  | c :: rest, n =>
    match lookupMember c.members n with
    | none => effSpec honour rest n
    | some m =>
      if !c.spec then (effSpec honour rest n).map (plainOverride honour m)
      else if m.annotated then some (scratchSpec m (declsOf rest))
      else (effSpec honour rest n).map (overrideSpec m)

def effMember (n : Name) (sp : Eff V) : Member V := ⟨n, sp.kind, sp.invBy, .std⟩

/-- `metadata.attrs` as a list of effective declarations. -/
def effManaged (honour : Bool) (cs : List (ClassDecl V)) : List (Member V) :=
  (dedup ((declsOf cs).map (·.name))).filterMap (fun n => (effSpec honour cs n).map (effMember n))

/-- What `invalidation_map` scans: `metadata.attrs`, then the binding members of `owner.mro()`
(names of `metadata.attrs` are in `seen_attributes` from the start: `invPairs` lets the first win). -/
def effOwn (honour : Bool) (cs : List (ClassDecl V)) : List (Member V) :=
  effManaged honour (ownerMro cs) ++ bindingDecls (ownerMro cs)

/-- The same with the members of the undecorated subclasses in front of the owner (attribute
resolution on `type(self)`; the declarations the property text speaks about). -/
def effAll (honour : Bool) (cs : List (ClassDecl V)) : List (Member V) :=
  bindingDecls (cs.takeWhile (fun c => !c.spec)) ++ effOwn honour cs

/-- `invDecls`: the declarations scanned for `invalidated_by`. -/
def Tbl.resolveWith (T : Tbl V) (invDecls : List (Member V)) : RTbl V :=
  let managed := fun n => (effSpec false (ownerMro T.mro) n).isSome
  { names := dedup ((declsOf T.mro).map (·.name))
    kind := fun n => match lookupMember (effAll false T.mro) n with
      | some m => m.kind
      | none => .plain none
    managed := managed
    managedNames :=
      (dedup ((declsOf (ownerMro T.mro).reverse).map (·.name)).reverse).reverse.filter managed
    invMap := invMapOf invDecls
    getter := T.getter
    okType := T.okType
    ctor0 := T.ctor0 }

/-- What the library does: the map is computed from `metadata.attrs` and `metadata.owner.mro()`;
declarations of undecorated classes count only for names that are not in `metadata.attrs`. -/
def Tbl.code (T : Tbl V) : RTbl V := T.resolveWith (effOwn false T.mro)

/-- What the property asks for: every declared dependant of the instance's type. -/
def Tbl.full (T : Tbl V) : RTbl V := T.resolveWith (effAll true T.mro)

end SpecVerif.C11
