import SpecVerif.Model.Py
/-!
# C12 — Impl model of `spec_classes.types.spec_property` (`spec_property`, `classproperty`)

Mirrors `spec_property.__get__/__set__/__delete__` and
`classproperty.__get__/__set__/__delete__` branch by branch, plus the thin
layer a spec class puts in front of the descriptor (`SetAttrMethod` →
`prepare_attr_value` → `mutate_attr` → raw `setattr`; `DelAttrMethod` → raw
`delattr` for a masked attribute).

The host flags of the configuration (is the instance a spec-class instance, is
the attribute managed, does it have a preparer) are what `type(instance)` says;
section "class layouts" (`resolve`, `resolveMI`) computes them from the
inheritance hierarchy the way `spec_class.bootstrap` does for one attribute.

Generic over the value type `Val` (decidable equality). Everything the
descriptor does not decide itself is a parameter (`World`):

* `getter n`   — `fget(instance)` on underlying state `n` (a counter that the
                 `bump` operation advances): a value or a raised exception class
* `preparer`   — the attribute's `_prepare_<attr>` method: a value, or a raised exception class
* `conforms`   — `check_type(value, attr_spec.type)`
* `construct`  — `attr_spec.constructor()` (what `mutate_value` builds for `MISSING`): a value, or the exception
                 the annotation's constructor raises (`typing.Union()` / `typing.Any()` raise TypeError)
* `missing/empty/unchanged` — the three sentinels

The *specification* state machine (`Spec`, ghost state `override`/`cached`)
written from the property text is in the second half of each section; the
theorems of `Props/C12.lean` relate the two.
-/
namespace SpecVerif.C12
open SpecVerif.Py

/-! ## Shared vocabulary -/

structure World (Val : Type) where
  getter    : Nat → Except Err Val
  preparer  : Val → Except Err Val
  conforms  : Val → Bool
  construct : Except Err Val
  missing   : Val
  empty     : Val
  unchanged : Val

/-- The property's options and where it lives. All fields are independent
booleans; the theorems quantify over the whole structure. -/
structure Cfg where
  overridable  : Bool
  cache        : Bool
  hasSetter    : Bool          -- `fset is not None`
  hasDeleter   : Bool          -- `fdel is not None`
  onSpecClass  : Bool          -- `getattr(instance, "__spec_class__", None)` is truthy
  managed      : Bool          -- `attr_name in spec_metadata.attrs` (annotated attribute)
  hasPreparer  : Bool          -- `attr_spec.prepare is not None`
  hasGetter    : Bool          -- `fget is not None`
  allowAttrErr : Bool          -- `allow_attribute_error`
  deriving DecidableEq, Repr

/-- Result of one access. `nested` is `NestedAttributeError`. -/
inductive Out (Val : Type)
  | val (v : Val)
  | done
  | err (e : Err)
  | nested
  deriving DecidableEq, Repr

/-- Calls of the user's custom accessors, in order. -/
inductive Acc (Val : Type)
  | fset (v : Val)
  | fdel
  deriving DecidableEq, Repr

inductive Op (Val : Type)
  | read
  | assign (v : Val)
  | delete
  | bump
  deriving DecidableEq, Repr

/-- `slot` is `instance.__dict__.get(attr_name)`; `under` the state the getter
reads; `log` the custom accessor calls so far. -/
structure St (Val : Type) where
  slot  : Option Val
  under : Nat
  log   : List (Acc Val)
  deriving DecidableEq, Repr

def St.init {Val : Type} : St Val := ⟨none, 0, []⟩

variable {Val : Type} [DecidableEq Val]

/-- `value is MISSING or value is EMPTY or value is UNCHANGED` -/
def isSentinel (w : World Val) (v : Val) : Bool :=
  decide (v = w.missing) || decide (v = w.empty) || decide (v = w.unchanged)

/-- `prepare_attr_value(attr_spec, instance, value)` for a scalar attribute:
`if value is UNCHANGED: return UNCHANGED`, then
`mutate_value(old_value=MISSING, new_value=value, prepare=…, constructor=…)`:
* `if new_value is not MISSING and new_value is not EMPTY: value = new_value`
  `elif not replace: value = old_value; prepare = None`
* `if prepare is not None: value = prepare(value)`   (an exception of the preparer propagates)
* `elif value is MISSING and constructor is not None: value = constructor()`   (which may raise as well)

Which values reach the preparer is decided by the two `is` tests above and by nothing else: `None`, `False`, `0`,
`""`, `[]` are real values and are prepared like any other. -/
def prepareAttrValue (w : World Val) (c : Cfg) (v : Val) : Except Err Val :=
  if v = w.unchanged then .ok w.unchanged
  else
    match (if v ≠ w.missing ∧ v ≠ w.empty then (if c.hasPreparer then w.preparer v else .ok v)
           else .ok w.missing) with
    | .error e => .error e
    | .ok value => if value = w.missing then w.construct else .ok value

/-- Lines 253–277 of `spec_property.__get__`: no getter → AttributeError; the
getter's exception (AttributeError re-raised as NestedAttributeError when
`allow_attribute_error` is off); on a spec class with the attribute managed,
`prepare_attr_value` (whose exception propagates as it is: it runs outside the
`try` around the getter) then `check_type`, `ValueError` when non-conforming. -/
def getterChecked (w : World Val) (c : Cfg) (n : Nat) : Out Val :=
  if c.hasGetter = false then .err .attributeError
  else
    match w.getter n with
    | .error e =>
      if e = .attributeError ∧ c.allowAttrErr = false then .nested else .err e
    | .ok v =>
      if c.onSpecClass && c.managed then
        match prepareAttrValue w c v with
        | .error e => .err e
        | .ok v' => if w.conforms v' then .val v' else .err .valueError
      else .val v

/-- `spec_property.__get__(instance, owner)` with `instance is not None`. -/
def pget (w : World Val) (c : Cfg) (s : St Val) : St Val × Out Val :=
  -- `if (self.overridable or self.cache) and self.attr_name in instance.__dict__`
  match (if c.overridable || c.cache then s.slot else none) with
  | some v => (s, .val v)
  | none =>
    match getterChecked w c s.under with
    | .val v =>
      -- `if self.cache and value is not MISSING and … EMPTY and … UNCHANGED`
      (if c.cache && !isSentinel w v then { s with slot := some v } else s, .val v)
    | o => (s, o)

/-- `spec_property.__set__(instance, value)`. -/
def pset (c : Cfg) (s : St Val) (v : Val) : St Val × Out Val :=
  if c.hasSetter = false then
    if c.overridable then ({ s with slot := some v }, .done)
    else (s, .err .attributeError)
  else ({ s with log := s.log ++ [.fset v] }, .done)

/-- `spec_property.__delete__(instance)`. -/
def pdelete (c : Cfg) (s : St Val) : St Val × Out Val :=
  if c.hasDeleter = false then
    if (c.overridable || c.cache) && s.slot.isSome then ({ s with slot := none }, .done)
    else (s, .err .attributeError)
  else ({ s with log := s.log ++ [.fdel] }, .done)

/-- `obj.x = v`. On a plain class this is the descriptor's `__set__`. On a spec
class `SetAttrMethod.__setattr__` runs first: the value goes through
`prepare_attr_value` when the attribute is managed; `mutate_attr` returns
without doing anything for a sentinel, raises `TypeError` for a managed
attribute whose (prepared) value fails `check_type`, and only then performs
the raw `setattr`, which reaches `__set__`. -/
def assign (w : World Val) (c : Cfg) (s : St Val) (v : Val) : St Val × Out Val :=
  if c.onSpecClass = false then pset c s v
  else
    match (if c.managed then prepareAttrValue w c v else .ok v) with
    | .error e => (s, .err e)          -- the preparer raised: nothing was touched yet
    | .ok v' =>
      if isSentinel w v' then (s, .done)
      else if c.managed && !w.conforms v' then (s, .err .typeError)
      else pset c s v'

/-- One operation. `del obj.x` on a spec class: the attribute is masked by a
data descriptor, so `DelAttrMethod` performs the raw `delattr` (→ `__delete__`)
and then `invalidate_attrs`, which has nothing to do without an invalidation map. -/
def step (w : World Val) (c : Cfg) (s : St Val) : Op Val → St Val × Out Val
  | .read => pget w c s
  | .assign v => assign w c s v
  | .delete => pdelete c s
  | .bump => ({ s with under := s.under + 1 }, .done)

/-- Run a sequence from a state; final state and every output, in order. -/
def run (w : World Val) (c : Cfg) : St Val → List (Op Val) → St Val × List (Out Val)
  | s, [] => (s, [])
  | s, op :: ops =>
    let r := step w c s op
    let rest := run w c r.1 ops
    (rest.1, r.2 :: rest.2)

/-! ## Specification machine of `spec_property` (from the property text)

Ghost state: the user `override` (set by a successful assignment, removed by a
deletion) and the value `cached` since the last deletion. -/

structure Ghost (Val : Type) where
  override : Option Val
  cached   : Option Val
  under    : Nat
  log      : List (Acc Val)
  deriving DecidableEq, Repr

def Ghost.init {Val : Type} : Ghost Val := ⟨none, none, 0, []⟩

/-- What the host class hands to the property on `obj.x = v` (the spec-class
assignment layer is the subject of other properties; here it is the
environment): rejected with an error, silently ignored, or delivered. -/
inductive Delivery (Val : Type)
  | reject (e : Err)
  | noop
  | deliver (v : Val)
  deriving DecidableEq, Repr

def delivered (w : World Val) (c : Cfg) (v : Val) : Delivery Val :=
  if c.onSpecClass = false then .deliver v
  else
    match (if c.managed then prepareAttrValue w c v else .ok v) with
    | .error e => .reject e
    | .ok v' =>
      if isSentinel w v' then .noop
      else if c.managed && !w.conforms v' then .reject .typeError
      else .deliver v'

namespace Spec

/-- "returns the user override if one is set, otherwise the value cached since
the last deletion when caching is on, otherwise the getter's result on current
state" (prepared and type-checked on a spec class). A freshly computed value
is remembered when caching is on (sentinels never are). -/
def read (w : World Val) (c : Cfg) (g : Ghost Val) : Ghost Val × Out Val :=
  match g.override, g.cached with
  | some v, _ => (g, .val v)
  | none, some v => (g, .val v)
  | none, none =>
    match getterChecked w c g.under with
    | .val v => (if c.cache && !isSentinel w v then { g with cached := some v } else g, .val v)
    | o => (g, o)

/-- "assignment raises AttributeError and changes nothing when the property is
neither overridable nor has a setter"; a custom setter is called instead of
storing; otherwise the value becomes the override (replacing any cache). -/
def assign (w : World Val) (c : Cfg) (g : Ghost Val) (v : Val) : Ghost Val × Out Val :=
  match delivered w c v with
  | .reject e => (g, .err e)
  | .noop => (g, .done)
  | .deliver v' =>
    if c.hasSetter then ({ g with log := g.log ++ [.fset v'] }, .done)
    else if c.overridable then ({ g with override := some v', cached := none }, .done)
    else (g, .err .attributeError)

/-- "deletion removes the override or cache or raises when there is none"; a
custom deleter is called instead. -/
def delete (c : Cfg) (g : Ghost Val) : Ghost Val × Out Val :=
  if c.hasDeleter then ({ g with log := g.log ++ [.fdel] }, .done)
  else if g.override.isSome || g.cached.isSome then
    ({ g with override := none, cached := none }, .done)
  else (g, .err .attributeError)

def step (w : World Val) (c : Cfg) (g : Ghost Val) : Op Val → Ghost Val × Out Val
  | .read => read w c g
  | .assign v => assign w c g v
  | .delete => delete c g
  | .bump => ({ g with under := g.under + 1 }, .done)

def run (w : World Val) (c : Cfg) : Ghost Val → List (Op Val) → Ghost Val × List (Out Val)
  | g, [] => (g, [])
  | g, op :: ops =>
    let r := step w c g op
    let rest := run w c r.1 ops
    (rest.1, r.2 :: rest.2)

end Spec

/-! ## The instance as a whole: copies and the copy-on-write helpers

A spec-class instance is more than the property's slot: the copy-on-write helpers
(`with_<attr>`, `update_<attr>`, `reset_<attr>`, `copy.deepcopy`) produce NEW
instances through the generated `__deepcopy__` (`DeepCopyMethod.deepcopy`,
`methods/core.py`), which walks `self.__dict__` entry by entry — the slot of a
`spec_property` (its override or cached value) is one of the entries, the state
the getter reads and the other attributes are the others. `Obj` adds the
instance-dict entry of ONE other managed attribute `y` to the protocol state;
`OOp` adds the operations that replace the instance by a copy. -/

/-- The other attribute `y` of the host (`y: int = 0` on every decorated class). -/
structure Other (Val : Type) where
  dflt      : Val          -- the class-level default (`reset_y()` / construction)
  construct : Val          -- `attr_spec.constructor()` of `y` (what MISSING / EMPTY become)
  conforms  : Val → Bool   -- `check_type(value, <type of y>)`

structure Obj (Val : Type) where
  st    : St Val
  other : Option Val       -- `instance.__dict__.get("y")`
  deriving DecidableEq, Repr

/-- A fresh instance: `y` has its default on a spec class (the generated `__init__` stores it),
and does not exist on a plain class. -/
def Obj.init (c : Cfg) (y : Other Val) : Obj Val :=
  ⟨St.init, if c.onSpecClass then some y.dflt else none⟩

inductive OOp (Val : Type)
  | prop (op : Op Val)     -- an operation of the property protocol on the current instance
  | copy                   -- `obj = copy.deepcopy(obj)`
  | withOther (v : Val)    -- `obj = obj.with_y(v)` / `obj.update_y(v)`: helper of ANOTHER attribute
  | resetOther             -- `obj = obj.reset_y()`
  | setOther (v : Val)     -- `obj.y = v` (in place)
  | withSelf (v : Val)     -- `obj = obj.with_x(v)`: copy-on-write assignment of the property
  | resetSelf              -- `obj = obj.reset_x()`: copy-on-write deletion
  deriving DecidableEq, Repr

/-- `DeepCopyMethod.deepcopy`: `new = cls.__new__(cls)`, then for EVERY entry of `self.__dict__`
`new.__dict__[attr] = protect_via_deepcopy(value, memo)` — the slot of the property, the state the getter reads, the
accessor log and `y` alike (no entry is `do_not_copy`, none is a bound method, the class is not `do_not_copy`).
Written entry by entry on purpose. -/
def deepcopyObj (o : Obj Val) : Obj Val :=
  { st := { slot := o.st.slot, under := o.st.under, log := o.st.log }, other := o.other }

/-- `prepare_attr_value` for `y` (no preparer): UNCHANGED stays, MISSING / EMPTY are constructed. -/
def prepareOther (w : World Val) (y : Other Val) (v : Val) : Val :=
  if v = w.unchanged then v else if v = w.missing ∨ v = w.empty then y.construct else v

/-- `mutate_attr(obj, "y", value, inplace)` on a spec-class instance: a sentinel returns `obj` itself; an
ill-typed value raises TypeError before anything is copied; otherwise the instance (or its deep copy) gets
the value. Third component: the result is a NEW instance. -/
def mutateOther (w : World Val) (y : Other Val) (o : Obj Val) (v : Val) (inplace : Bool) :
    Obj Val × Out Val × Bool :=
  if isSentinel w v then (o, .done, false)
  else if !y.conforms v then (o, .err .typeError, false)
  else if inplace then ({ o with other := some v }, .done, false)
  else ({ deepcopyObj o with other := some v }, .done, true)

/-- `obj.with_x(v)` where `x` is the property: `WithAttrMethod.with_attr` → `prepare_attr_value` →
`mutate_attr(inplace=False)`: sentinel → `obj` itself; ill-typed → TypeError; else `copy.deepcopy(obj)` and the raw
`setattr` on the copy, which reaches `__set__`; if that raises, the exception propagates and the caller is left with
the original. -/
def withSelf (w : World Val) (c : Cfg) (o : Obj Val) (v : Val) : Obj Val × Out Val × Bool :=
  match prepareAttrValue w c v with
  | .error e => (o, .err e, false)
  | .ok v' =>
    if isSentinel w v' then (o, .done, false)
    else if !w.conforms v' then (o, .err .typeError, false)
    else
      let o' := deepcopyObj o
      match pset c o'.st v' with
      | (st', .done) => ({ o' with st := st' }, .done, true)
      | (_, out) => (o, out, false)

/-- `obj.reset_x()`: `copy.deepcopy(obj)`, then `delattr(copy, "x")` (→ `__delete__`, the attribute being masked by
the descriptor); an exception propagates. -/
def resetSelf (c : Cfg) (o : Obj Val) : Obj Val × Out Val × Bool :=
  let o' := deepcopyObj o
  match pdelete c o'.st with
  | (st', .done) => ({ o' with st := st' }, .done, true)
  | (_, out) => (o, out, false)

/-- One operation on the current instance: the instance afterwards (a new one when the third component says so;
the old one then still exists, unchanged — the model is pure), and the result. The helpers of `y` exist on
spec-class instances only, those of `x` only where `x` is a managed attribute (otherwise: AttributeError from the
attribute lookup). -/
def ostep (w : World Val) (c : Cfg) (y : Other Val) (o : Obj Val) : OOp Val → Obj Val × Out Val × Bool
  | .prop op => let r := step w c o.st op; ({ o with st := r.1 }, r.2, false)
  | .copy => (deepcopyObj o, .done, true)
  | .withOther v =>
    if c.onSpecClass then mutateOther w y o (prepareOther w y v) false else (o, .err .attributeError, false)
  | .resetOther =>
    -- `copy.deepcopy(self)`, then `delattr(copy, "y")`: `DelAttrMethod` stores the (prepared) default
    if c.onSpecClass then ({ deepcopyObj o with other := some y.dflt }, .done, true)
    else (o, .err .attributeError, false)
  | .setOther v =>
    if c.onSpecClass then mutateOther w y o (prepareOther w y v) true
    else ({ o with other := some v }, .done, false)      -- plain class: ordinary instance attribute
  | .withSelf v =>
    if c.onSpecClass && c.managed then withSelf w c o v else (o, .err .attributeError, false)
  | .resetSelf =>
    if c.onSpecClass && c.managed then resetSelf c o else (o, .err .attributeError, false)

def orun (w : World Val) (c : Cfg) (y : Other Val) : Obj Val → List (OOp Val) → Obj Val × List (Out Val)
  | o, [] => (o, [])
  | o, op :: ops =>
    let r := ostep w c y o op
    let rest := orun w c y r.1 ops
    (rest.1, r.2.1 :: rest.2)

/-- What an instance-level operation is in terms of the property protocol: operations of the protocol themselves,
the copy-on-write forms of assignment and deletion (where they exist), and nothing at all for copies and for
everything that concerns another attribute. -/
def project (c : Cfg) : OOp Val → Option (Op Val)
  | .prop op => some op
  | .withSelf v => if c.onSpecClass && c.managed then some (.assign v) else none
  | .resetSelf => if c.onSpecClass && c.managed then some .delete else none
  | _ => none

/-! ## Where the property lives: class layouts

`spec_property.__get__` asks the *instance* for its spec-class metadata
(`getattr(instance, "__spec_class__", None)` and `attr_name in metadata.attrs`),
never the class that happens to declare the descriptor. The three host flags of
`Cfg` (`onSpecClass`, `managed`, `hasPreparer`) are therefore a function of the
whole inheritance chain of `type(instance)`. `resolve` mirrors, for the one
attribute `x`, what `spec_class.bootstrap` / `SpecClassMetadata.for_class` /
`build_attr_spec` compute while the chain is decorated base-first:

* a class that is not decorated inherits `__spec_class__` from the nearest
  decorated ancestor (plain attribute lookup);
* a decorated class starts from a copy of the inherited `attrs`; `x` is (re)built
  with `build_attr_spec(spec_cls, …)` when `x` is in the class's OWN
  `__annotations__`, or when `x` is already managed and `x in spec_cls.__dict__`
  (the class itself declares the property); otherwise the inherited `Attr` is kept;
* `build_attr_spec` sets `attr_spec.prepare` iff `getattr(spec_cls, "_prepare_x")`
  resolves, i.e. iff the class or any ancestor defines it. -/

/-- One class of a linear inheritance chain, as far as attribute `x` goes. -/
structure ClassDesc where
  spec      : Bool     -- decorated with `@spec_class`
  declares  : Bool     -- the `spec_property` object is in the class's own `__dict__["x"]`
  annotates : Bool     -- `x` is in the class's own `__annotations__`
  prep      : Bool     -- the class body defines `_prepare_x`
  deriving DecidableEq, Repr

/-- What `type(instance)` says about `x`. -/
structure Resolved where
  onSpecClass : Bool   -- `getattr(instance, "__spec_class__", None)` is truthy
  managed     : Bool   -- `"x" in metadata.attrs`
  hasPreparer : Bool   -- `metadata.attrs["x"].prepare is not None`
  deriving DecidableEq, Repr

def Resolved.none : Resolved := ⟨false, false, false⟩

/-- Walk state: the metadata visible so far and whether `_prepare_x` resolves by
attribute lookup on the class reached so far. -/
def resolveStep (st : Resolved × Bool) (k : ClassDesc) : Resolved × Bool :=
  let pv := st.2 || k.prep
  if k.spec then
    if k.annotates || (st.1.managed && k.declares) then (⟨true, true, pv⟩, pv)
    else (⟨true, st.1.managed, st.1.hasPreparer⟩, pv)
  else (st.1, pv)

def resolveFrom (st : Resolved × Bool) (l : List ClassDesc) : Resolved × Bool :=
  l.foldl resolveStep st

/-- The chain is listed base first, `type(instance)` last. -/
def resolve (l : List ClassDesc) : Resolved := (resolveFrom (Resolved.none, false) l).1

/-- Multiple inheritance: two independent base chains (each base first) joined
by a class `leaf(Ltop, Rtop)`. `a`, `b` are the walk states at the top of the
left and of the right chain.
* `leaf` decorated: `SpecClassMetadata.for_class` starts from the attrs of the
  right base updated with those of the left base (`for parent in
  reversed(spec_cls.__bases__)`), so `x` comes from the left chain if that
  manages it, else from the right one;
* `leaf` not decorated: `__spec_class__` is found by plain attribute lookup along
  the MRO, i.e. the left chain's metadata if it has any, else the right chain's.
`_prepare_x` resolves on `leaf` if it resolves on either base. -/
def joinBases (a b : Resolved × Bool) (leaf : ClassDesc) : Resolved × Bool :=
  let inherited : Resolved :=
    if leaf.spec then
      ⟨a.1.onSpecClass || b.1.onSpecClass, a.1.managed || b.1.managed,
       if a.1.managed then a.1.hasPreparer else b.1.hasPreparer⟩
    else if a.1.onSpecClass then a.1 else b.1
  resolveStep (inherited, a.2 || b.2) leaf

/-- `type(instance)` is the last class of `leaf :: tail`; `leaf` has the two bases `L.getLast`, `R.getLast`. -/
def resolveMI (L R : List ClassDesc) (leaf : ClassDesc) (tail : List ClassDesc) : Resolved :=
  (resolveFrom (joinBases (resolveFrom (Resolved.none, false) L) (resolveFrom (Resolved.none, false) R) leaf)
    tail).1

/-- The options given to the `spec_property` constructor / decorator chain. -/
structure Opts where
  overridable  : Bool
  cache        : Bool
  hasSetter    : Bool
  hasDeleter   : Bool
  hasGetter    : Bool
  allowAttrErr : Bool
  deriving DecidableEq, Repr

/-- The configuration a descriptor with options `o` runs under on instances of
the last class of chain `l`. Where in the chain the descriptor is declared
enters only through `resolve` (the rebuild rule above). -/
def cfgOf (o : Opts) (r : Resolved) : Cfg :=
  { overridable := o.overridable, cache := o.cache, hasSetter := o.hasSetter,
    hasDeleter := o.hasDeleter, onSpecClass := r.onSpecClass, managed := r.managed,
    hasPreparer := r.hasPreparer, hasGetter := o.hasGetter, allowAttrErr := o.allowAttrErr }

def layoutCfg (o : Opts) (l : List ClassDesc) : Cfg := cfgOf o (resolve l)

/-! ## `classproperty` -/

structure CCfg where
  overridable  : Bool
  cache        : Bool
  perSubclass  : Bool          -- `cache_per_subclass`
  hasSetter    : Bool
  hasDeleter   : Bool
  hasGetter    : Bool
  allowAttrErr : Bool
  deriving DecidableEq, Repr

/-- The getter is a classmethod: its result may depend on the class it is
invoked on and on the underlying (class-level) state. -/
structure CWorld (Cls Val : Type) where
  getter : Cls → Nat → Except Err Val

/-- How the attribute is reached: on a class of the hierarchy, or on an
instance whose type is that class. -/
inductive Target (Cls : Type)
  | cls (k : Cls)
  | inst (k : Cls)
  deriving DecidableEq, Repr

/-- `objtype` in `__get__`; `if not inspect.isclass(obj): obj = type(obj)` in
`__set__`/`__delete__`. -/
def Target.type {Cls : Type} : Target Cls → Cls
  | .cls k => k
  | .inst k => k

inductive CAcc (Cls Val : Type)
  | fset (k : Cls) (v : Val)
  | fdel (k : Cls)
  deriving DecidableEq, Repr

inductive COp (Cls Val : Type)
  | read (t : Target Cls)
  | assign (t : Target Cls) (v : Val)
  | delete (t : Target Cls)
  | bump
  deriving DecidableEq, Repr

/-- `cache` is the descriptor's `_cache` dict (keys: `None` or a class). -/
structure CSt (Cls Val : Type) where
  cache : Option Cls → Option Val
  under : Nat
  log   : List (CAcc Cls Val)

def CSt.init {Cls Val : Type} : CSt Cls Val := ⟨fun _ => none, 0, []⟩

variable {Cls : Type} [DecidableEq Cls]

/-- `_cache_key(objtype)`: `objtype if self.cache_per_subclass else None`. -/
def cacheKey (c : CCfg) (k : Cls) : Option Cls := if c.perSubclass then some k else none

/-- dict update / deletion -/
def upd (m : Option Cls → Option Val) (key : Option Cls) (x : Option Val) :
    Option Cls → Option Val :=
  fun k => if k = key then x else m k

/-- getter invocation part of `classproperty.__get__`. -/
def cgetter (w : CWorld Cls Val) (c : CCfg) (k : Cls) (n : Nat) : Out Val :=
  if c.hasGetter = false then .err .attributeError
  else
    match w.getter k n with
    | .error e =>
      if e = .attributeError ∧ c.allowAttrErr = false then .nested else .err e
    | .ok v => .val v

/-- `classproperty.__get__(obj, objtype)` (attribute access always supplies `objtype`). -/
def cget (w : CWorld Cls Val) (c : CCfg) (s : CSt Cls Val) (t : Target Cls) :
    CSt Cls Val × Out Val :=
  let key := cacheKey c t.type
  match s.cache key with
  | some v => (s, .val v)
  | none =>
    match cgetter w c t.type s.under with
    | .val v => (if c.cache then { s with cache := upd s.cache key (some v) } else s, .val v)
    | o => (s, o)

/-- `classproperty.__set__(obj, value)`. -/
def cset (c : CCfg) (s : CSt Cls Val) (t : Target Cls) (v : Val) : CSt Cls Val × Out Val :=
  if c.hasSetter = false then
    if c.overridable then ({ s with cache := upd s.cache (cacheKey c t.type) (some v) }, .done)
    else (s, .err .attributeError)
  else ({ s with log := s.log ++ [.fset t.type v] }, .done)

/-- `classproperty.__delete__(obj)`. -/
def cdelete (c : CCfg) (s : CSt Cls Val) (t : Target Cls) : CSt Cls Val × Out Val :=
  if c.hasDeleter = false then
    if (s.cache (cacheKey c t.type)).isSome then
      ({ s with cache := upd s.cache (cacheKey c t.type) none }, .done)
    else (s, .err .attributeError)
  else ({ s with log := s.log ++ [.fdel t.type] }, .done)

def cstep (w : CWorld Cls Val) (c : CCfg) (s : CSt Cls Val) : COp Cls Val → CSt Cls Val × Out Val
  | .read t => cget w c s t
  | .assign t v => cset c s t v
  | .delete t => cdelete c s t
  | .bump => ({ s with under := s.under + 1 }, .done)

def crun (w : CWorld Cls Val) (c : CCfg) :
    CSt Cls Val → List (COp Cls Val) → CSt Cls Val × List (Out Val)
  | s, [] => (s, [])
  | s, op :: ops =>
    let r := cstep w c s op
    let rest := crun w c r.1 ops
    (rest.1, r.2 :: rest.2)

/-! ### Specification machine of `classproperty`: one protocol state per key -/

structure CGhost (Cls Val : Type) where
  override : Option Cls → Option Val
  cached   : Option Cls → Option Val
  under    : Nat
  log      : List (CAcc Cls Val)

def CGhost.init {Cls Val : Type} : CGhost Cls Val := ⟨fun _ => none, fun _ => none, 0, []⟩

namespace CSpec

def read (w : CWorld Cls Val) (c : CCfg) (g : CGhost Cls Val) (t : Target Cls) :
    CGhost Cls Val × Out Val :=
  let key := cacheKey c t.type
  match g.override key, g.cached key with
  | some v, _ => (g, .val v)
  | none, some v => (g, .val v)
  | none, none =>
    match cgetter w c t.type g.under with
    | .val v => (if c.cache then { g with cached := upd g.cached key (some v) } else g, .val v)
    | o => (g, o)

def assign (c : CCfg) (g : CGhost Cls Val) (t : Target Cls) (v : Val) :
    CGhost Cls Val × Out Val :=
  let key := cacheKey c t.type
  if c.hasSetter then ({ g with log := g.log ++ [.fset t.type v] }, .done)
  else if c.overridable then
    ({ g with override := upd g.override key (some v), cached := upd g.cached key none }, .done)
  else (g, .err .attributeError)

def delete (c : CCfg) (g : CGhost Cls Val) (t : Target Cls) : CGhost Cls Val × Out Val :=
  let key := cacheKey c t.type
  if c.hasDeleter then ({ g with log := g.log ++ [.fdel t.type] }, .done)
  else if (g.override key).isSome || (g.cached key).isSome then
    ({ g with override := upd g.override key none, cached := upd g.cached key none }, .done)
  else (g, .err .attributeError)

def step (w : CWorld Cls Val) (c : CCfg) (g : CGhost Cls Val) :
    COp Cls Val → CGhost Cls Val × Out Val
  | .read t => read w c g t
  | .assign t v => assign c g t v
  | .delete t => delete c g t
  | .bump => ({ g with under := g.under + 1 }, .done)

def run (w : CWorld Cls Val) (c : CCfg) :
    CGhost Cls Val → List (COp Cls Val) → CGhost Cls Val × List (Out Val)
  | g, [] => (g, [])
  | g, op :: ops =>
    let r := step w c g op
    let rest := run w c r.1 ops
    (rest.1, r.2 :: rest.2)

end CSpec

end SpecVerif.C12
