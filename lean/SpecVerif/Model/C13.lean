import SpecVerif.Model.Py
/-!
# C13 — Impl model of `spec_classes.types.keyed.KeyedList`

Mirrors `keyed.py` (after the `fix:` commits) method by method: the container
keeps BOTH `_list` and `_dict` (an insertion-ordered association list, because
a Python dict is insertion ordered), and every method, including the
`MutableSequence` mixins CPython derives from the primitives, is written in
terms of the same primitives the Python code uses.

Generic over the item type `α` and key type `κ`; parameters:
* `key : α → κ`             the key function (`KeyedBase.key`)
* `okItem : α → Bool`       `_validate_item` on a parameterised `KeyedList[T, K]`
                            (item type and key type checks both raise TypeError);
                            constantly `true` on an unparameterised list
* `asKey : α → Option κ`    an *item* value used where a key is expected
                            (`value in self._dict` inside `__contains__`)
-/
namespace SpecVerif.C13
open SpecVerif.Py

structure KL (α κ : Type) where
  list : List α
  dict : List (κ × α)
  deriving Repr

structure Cfg (α κ : Type) where
  key    : α → κ
  okItem : α → Bool
  asKey  : α → Option κ

variable {α κ : Type} [DecidableEq α] [DecidableEq κ]

def KL.empty : KL α κ := ⟨[], []⟩

/-- `k in self._dict` -/
def hasKey (d : List (κ × α)) (k : κ) : Bool := d.any (fun p => p.1 == k)
/-- `self._dict.get(k)` -/
def dictGet (d : List (κ × α)) (k : κ) : Option α := (d.find? (fun p => p.1 == k)).map (·.2)
/-- `del self._dict[k]` -/
def dictDel (d : List (κ × α)) (k : κ) : List (κ × α) := d.filter (fun p => !(p.1 == k))
/-- `self._dict[k] = v` for a key that is absent (appends: insertion order). -/
def dictAdd (d : List (κ × α)) (k : κ) (v : α) : List (κ × α) := d ++ [(k, v)]

/-- `_validate_item` followed by the duplicate-key test of `insert`. -/
def validateNew (c : Cfg α κ) (l : KL α κ) (x : α) : Except Err Unit :=
  if !c.okItem x then .error .typeError
  else if hasKey l.dict (c.key x) then .error .valueError
  else .ok ()

/-- `KeyedList.insert(index, value)` -/
def insertAt (c : Cfg α κ) (l : KL α κ) (i : Int) (x : α) : Except Err (KL α κ) :=
  match validateNew c l x with
  | .error e => .error e
  | .ok () => .ok ⟨pyInsert l.list i x, dictAdd l.dict (c.key x) x⟩

/-- `KeyedList.__init__(sequence)`: successive `insert(len, item)`. -/
def ofList (c : Cfg α κ) : List α → KL α κ → Except Err (KL α κ)
  | [], l => .ok l
  | x :: xs, l =>
    match insertAt c l (Int.ofNat l.list.length) x with
    | .error e => .error e
    | .ok l' => ofList c xs l'

/-- `self._list[i]` -/
def getIdx (l : KL α κ) (i : Int) : Except Err α :=
  match pyIdx l.list.length i with
  | none => .error .indexError
  | some k => match l.list[k]? with
    | none => .error .indexError
    | some x => .ok x

/-- `self._dict[k]` -/
def getKey (l : KL α κ) (k : κ) : Except Err α :=
  match dictGet l.dict k with
  | none => .error .keyError
  | some x => .ok x

/-- `index_for_key` : membership test on the dict, then a linear scan of the list. -/
def indexForKey (c : Cfg α κ) (l : KL α κ) (k : κ) : Except Err Nat :=
  if hasKey l.dict k then
    match l.list.findIdx? (fun x => c.key x == k) with
    | some i => .ok i
    | none => .error .keyError
  else .error .keyError

/-- `__delitem__(int)`: `value = self._list.pop(i); del self._dict[self.key(value)]` -/
def delIdx (c : Cfg α κ) (l : KL α κ) (i : Int) : Except Err (KL α κ) :=
  match pyIdx l.list.length i with
  | none => .error .indexError
  | some k => match l.list[k]? with
    | none => .error .indexError
    | some x => .ok ⟨l.list.eraseIdx k, dictDel l.dict (c.key x)⟩

/-- `__delitem__(key)` -/
def delKey (c : Cfg α κ) (l : KL α κ) (k : κ) : Except Err (KL α κ) :=
  match indexForKey c l k with
  | .error e => .error e
  | .ok i => delIdx c l (Int.ofNat i)

/-- `__setitem__(int, value)` (fixed version: validate first, replace in place). -/
def setIdx (c : Cfg α κ) (l : KL α κ) (i : Int) (x : α) : Except Err (KL α κ) :=
  match pyIdx l.list.length i with
  | none => .error .indexError
  | some k => match l.list[k]? with
    | none => .error .indexError
    | some old =>
      if !c.okItem x then .error .typeError
      else if c.key x != c.key old && hasKey l.dict (c.key x) then .error .valueError
      else .ok ⟨l.list.set k x, dictAdd (dictDel l.dict (c.key old)) (c.key x) x⟩

/-- `__setitem__(key, value)` -/
def setKey (c : Cfg α κ) (l : KL α κ) (k : κ) (x : α) : Except Err (KL α κ) :=
  match indexForKey c l k with
  | .error e => .error e
  | .ok i => setIdx c l (Int.ofNat i) x

/-- `append(v)` = `insert(len(self), v)` (MutableSequence mixin). -/
def append (c : Cfg α κ) (l : KL α κ) (x : α) : Except Err (KL α κ) :=
  insertAt c l (Int.ofNat l.list.length) x

/-- staging loop of the overridden `extend`: validates every incoming item
against the current dict and the items staged so far. -/
def stage (c : Cfg α κ) (l : KL α κ) : List α → List (κ × α) → Except Err (List (κ × α))
  | [], st => .ok st
  | x :: xs, st =>
    if !c.okItem x then .error .typeError
    else if hasKey l.dict (c.key x) || hasKey st (c.key x) then .error .valueError
    else stage c l xs (dictAdd st (c.key x) x)

/-- `extend(values)` / `+=` (all-or-nothing). -/
def extend (c : Cfg α κ) (l : KL α κ) (xs : List α) : Except Err (KL α κ) :=
  match stage c l xs [] with
  | .error e => .error e
  | .ok st => .ok ⟨l.list ++ st.map (·.2), l.dict ++ st⟩

/-- `pop(i)` = `v = self[i]; del self[i]; return v` -/
def pop (c : Cfg α κ) (l : KL α κ) (i : Int) : Except Err (α × KL α κ) :=
  match getIdx l i with
  | .error e => .error e
  | .ok v => match delIdx c l i with
    | .error e => .error e
    | .ok l' => .ok (v, l')

/-- `Sequence.index(value)`: first position holding an equal item. -/
def indexOf (l : KL α κ) (x : α) : Except Err Nat :=
  match l.list.findIdx? (fun y => y == x) with
  | some i => .ok i
  | none => .error .valueError

/-- `remove(value)` = `del self[self.index(value)]` -/
def remove (c : Cfg α κ) (l : KL α κ) (x : α) : Except Err (KL α κ) :=
  match indexOf l x with
  | .error e => .error e
  | .ok i => delIdx c l (Int.ofNat i)

/-- `reverse()` (overridden: reverses `_list` only). -/
def reverse (l : KL α κ) : KL α κ := ⟨l.list.reverse, l.dict⟩

/-- `clear()`: `while True: self.pop()` until IndexError; fuel = length. -/
def clear (c : Cfg α κ) (l : KL α κ) : KL α κ :=
  go l.list.length l
where
  go : Nat → KL α κ → KL α κ
    | 0, l => l
    | n + 1, l => match pop c l (-1) with
      | .error _ => l
      | .ok (_, l') => go n l'

/-- `__contains__(value)` for an item argument. -/
def containsItem (c : Cfg α κ) (l : KL α κ) (x : α) : Bool :=
  (match c.asKey x with
   | some k => hasKey l.dict k
   | none => false) || l.list.contains x

/-- `__contains__(value)` for a key argument that equals no item. -/
def containsKey (l : KL α κ) (k : κ) : Bool := hasKey l.dict k

/-- `count(value)` -/
def count (l : KL α κ) (x : α) : Nat := l.list.count x

/-- `self + other` : `type(self)([*self._list, *other], key=self._key)`; the
result is an unparameterised KeyedList, so `okItem` is not consulted. -/
def add (c : Cfg α κ) (l : KL α κ) (xs : List α) : Except Err (KL α κ) :=
  ofList { c with okItem := fun _ => true } (l.list ++ xs) KL.empty

/-- `other + self` -/
def radd (c : Cfg α κ) (l : KL α κ) (xs : List α) : Except Err (KL α κ) :=
  ofList { c with okItem := fun _ => true } (xs ++ l.list) KL.empty

/-- `self[a:b]` : `type(self)(self._list[a:b], self.key)` -/
def getSlice (c : Cfg α κ) (l : KL α κ) (a b : Option Int) : Except Err (KL α κ) :=
  ofList { c with okItem := fun _ => true } (pySlice l.list a b) KL.empty

/-! ## Operation alphabet and step function -/

inductive Op (α κ : Type)
  | getIdx (i : Int) | getKey (k : κ) | getSlice (a b : Option Int)
  | setIdx (i : Int) (x : α) | setKey (k : κ) (x : α) | setSlice
  | delIdx (i : Int) | delKey (k : κ) | delSlice
  | insert (i : Int) (x : α) | append (x : α) | extend (xs : List α) | iadd (xs : List α)
  | pop (i : Option Int) | remove (x : α) | reverse | clear
  | add (xs : List α) | radd (xs : List α)
  | containsItem (x : α) | containsKey (k : κ) | index (x : α) | count (x : α)
  | get (k : κ) | indexForKey (k : κ) | len | iter | keys | items | eqList (xs : List α)
  deriving Repr

/-- What an operation returns (besides the new state). -/
inductive Out (α κ : Type)
  | none | item (x : α) | optItem (x : Option α) | nat (n : Nat) | bool (b : Bool)
  | items (xs : List α) | keys (ks : List κ) | pairs (ps : List (κ × α))
  | err (e : Err)
  deriving Repr

def step (c : Cfg α κ) (l : KL α κ) : Op α κ → KL α κ × Out α κ
  | .getIdx i => (l, match getIdx l i with | .ok x => .item x | .error e => .err e)
  | .getKey k => (l, match getKey l k with | .ok x => .item x | .error e => .err e)
  | .getSlice a b => (l, match getSlice c l a b with | .ok r => .items r.list | .error e => .err e)
  | .setIdx i x => match setIdx c l i x with | .ok l' => (l', .none) | .error e => (l, .err e)
  | .setKey k x => match setKey c l k x with | .ok l' => (l', .none) | .error e => (l, .err e)
  | .setSlice => (l, .err .runtimeError)
  | .delIdx i => match delIdx c l i with | .ok l' => (l', .none) | .error e => (l, .err e)
  | .delKey k => match delKey c l k with | .ok l' => (l', .none) | .error e => (l, .err e)
  | .delSlice => (l, .err .runtimeError)
  | .insert i x => match insertAt c l i x with | .ok l' => (l', .none) | .error e => (l, .err e)
  | .append x => match append c l x with | .ok l' => (l', .none) | .error e => (l, .err e)
  | .extend xs => match extend c l xs with | .ok l' => (l', .none) | .error e => (l, .err e)
  | .iadd xs => match extend c l xs with | .ok l' => (l', .none) | .error e => (l, .err e)
  | .pop i => match pop c l (i.getD (-1)) with | .ok (v, l') => (l', .item v) | .error e => (l, .err e)
  | .remove x => match remove c l x with | .ok l' => (l', .none) | .error e => (l, .err e)
  | .reverse => (reverse l, .none)
  | .clear => (clear c l, .none)
  | .add xs => (l, match add c l xs with | .ok r => .items r.list | .error e => .err e)
  | .radd xs => (l, match radd c l xs with | .ok r => .items r.list | .error e => .err e)
  | .containsItem x => (l, .bool (containsItem c l x))
  | .containsKey k => (l, .bool (containsKey l k))
  | .index x => (l, match indexOf l x with | .ok i => .nat i | .error e => .err e)
  | .count x => (l, .nat (count l x))
  | .get k => (l, .optItem (dictGet l.dict k))
  | .indexForKey k => (l, match indexForKey c l k with | .ok i => .nat i | .error e => .err e)
  | .len => (l, .nat l.list.length)
  | .iter => (l, .items l.list)
  | .keys => (l, .keys (l.dict.map (·.1)))
  | .items => (l, .pairs l.dict)
  | .eqList xs => (l, .bool (l.list == xs))

/-- Run an operation sequence, collecting the outputs. -/
def run (c : Cfg α κ) (l : KL α κ) : List (Op α κ) → KL α κ × List (Out α κ)
  | [] => (l, [])
  | op :: ops =>
    let (l', o) := step c l op
    let (l'', os) := run c l' ops
    (l'', o :: os)

/-! ## Item equality that is not identity

`Sequence.index`, `Sequence.count`, `Sequence.__contains__`, `remove`
(= `del self[self.index(v)]`) and `list.__eq__` compare items with Python `==`
(`v is value or v == value`). That relation need not be structural and need not
respect keys: `1 == 1.0 == True` while their `repr` keys differ, objects whose
`__eq__` ignores the keyed field, `(1, p) == (1.0, p)`. `eqv stored arg` is that
relation (stored item on the left, as CPython evaluates it). `step` above is the
instance where `==` is identity; `stepE` is the model the driver runs. Nothing
that goes *by key* (`l[k]`, `get`, `index_for_key`, `l[k] = v`, `del l[k]`,
`keys`, `items`, the duplicate tests) ever consults `eqv`. -/

/-- `Sequence.index(value)`: first position whose item is `==` to the argument. -/
def indexOfE (eqv : α → α → Bool) (l : KL α κ) (x : α) : Except Err Nat :=
  match l.list.findIdx? (fun y => eqv y x) with
  | some i => .ok i
  | none => .error .valueError

/-- `remove(value)` = `del self[self.index(value)]`: deletes the first *equal* item and
the key of THAT item (not the key of the argument). -/
def removeE (c : Cfg α κ) (eqv : α → α → Bool) (l : KL α κ) (x : α) : Except Err (KL α κ) :=
  match indexOfE eqv l x with
  | .error e => .error e
  | .ok i => delIdx c l (Int.ofNat i)

/-- `__contains__(value)`: dict test through `asKey`, then `Sequence.__contains__`. -/
def containsItemE (c : Cfg α κ) (eqv : α → α → Bool) (l : KL α κ) (x : α) : Bool :=
  (match c.asKey x with
   | some k => hasKey l.dict k
   | none => false) || l.list.any (fun y => eqv y x)

/-- `Sequence.count(value)` -/
def countE (eqv : α → α → Bool) (l : KL α κ) (x : α) : Nat := l.list.countP (fun y => eqv y x)

/-- `self._list == other`: same length and pairwise `==`. -/
def listEqv (eqv : α → α → Bool) : List α → List α → Bool
  | [], [] => true
  | a :: as, b :: bs => eqv a b && listEqv eqv as bs
  | _, _ => false

/-- One operation with item equality `eqv`. -/
def stepE (c : Cfg α κ) (eqv : α → α → Bool) (l : KL α κ) : Op α κ → KL α κ × Out α κ
  | .remove x => match removeE c eqv l x with | .ok l' => (l', .none) | .error e => (l, .err e)
  | .index x => (l, match indexOfE eqv l x with | .ok i => .nat i | .error e => .err e)
  | .count x => (l, .nat (countE eqv l x))
  | .containsItem x => (l, .bool (containsItemE c eqv l x))
  | .eqList xs => (l, .bool (listEqv eqv l.list xs))
  | op => step c l op

def runE (c : Cfg α κ) (eqv : α → α → Bool) (l : KL α κ) : List (Op α κ) → KL α κ × List (Out α κ)
  | [] => (l, [])
  | op :: ops =>
    let (l', o) := stepE c eqv l op
    let (l'', os) := runE c eqv l' ops
    (l'', o :: os)

/-! ## Type parameters (`KeyedList[T, K]`)

`_validate_item` on a parameterised container is two calls of `check_type`: the item against `T`,
then `self.key(item)` against `K`; either failing raises TypeError. `okT` / `okK` are the verdicts of
those two calls (any predicates: `Union`, `Optional`, `Literal`, `Dict[str, Any]`, `Tuple[...]`,
bounded types, … — the model does not look inside). -/

/-- configuration of `KeyedList[T, K](key=key)` -/
def typedCfg (key : α → κ) (okT : α → Bool) (okK : κ → Bool) (asKey : α → Option κ) : Cfg α κ :=
  { key := key, okItem := fun x => okT x && okK (key x), asKey := asKey }

/-- the same container without type parameters -/
def Cfg.untyped (c : Cfg α κ) : Cfg α κ := { c with okItem := fun _ => true }

/-- the items an operation tries to put INTO the container (the only ones `_validate_item` ever sees;
`+`, `radd` and slices build an unparameterised container and validate nothing) -/
def Op.incoming : Op α κ → List α
  | .setIdx _ x => [x]
  | .setKey _ x => [x]
  | .insert _ x => [x]
  | .append x => [x]
  | .extend xs => xs
  | .iadd xs => xs
  | _ => []

end SpecVerif.C13
