import SpecVerif.Model.C13
/-!
# C13 — two KeyedLists at once: operations whose operand is itself a KeyedList

`Model/C13.lean` models one container and operations whose arguments are plain
items / plain lists of items. The library code is also reached with a *second
KeyedList* as the argument: `a.extend(b)`, `a += b`, `a + b`, `a == b`,
`KeyedList(b, key=...)`, `a.extend(b[i:j])`, `a.extend(a)`. The second
container has its own key function, its own type parameters and its own key
index, and NONE of them may leak into the first one: `keyed.py` only ever
iterates the operand (`list(values)`, `[*self._list, *other]`, `for item in
sequence`), i.e. it sees `b._list` in order and nothing else; `__eq__` reads
`other._list`.

This file adds

* `construct`   — `KeyedList[T, K](xs, key=…)` exactly as CPython runs it: `__init__`
                  inserts every item while `_type` is still the bare class (no type
                  checks; a duplicate key raises ValueError), then the
                  `__orig_class__` setter validates every stored item (TypeError).
* `Pair`, `OpP`, `stepP`, `runP` — a machine with two registers (`main`, `other`),
                  each with its own `Cfg`; every single-container operation on either
                  register (`OpP.on`), plus the cross operations, in both directions.
* `lower`       — the single-container operation (argument = a plain list of items)
                  that a cross operation amounts to; `Props/C13.lean` proves
                  `stepP` = `stepE` of the lowered operation (`stepP_lower`).
* `extendFast`  — the tempting shortcut "the operand is already validated and indexed:
                  take over its index"; `Props/C13.lean` proves when it is sound and
                  exhibits the failure when the two key functions differ.
-/
namespace SpecVerif.C13
open SpecVerif.Py

variable {α κ : Type} [DecidableEq α] [DecidableEq κ]

/-- `KeyedList[T, K](xs, key=…)` / `KeyedList(xs, key=…)`.
`typing.Generic` first calls the bare class (`__init__`: successive inserts with
`_type = KeyedList`, so only duplicate keys can fail) and then sets
`__orig_class__`, whose setter runs `_validate_item` on every stored item. So a
duplicate key ANYWHERE wins over a wrong type anywhere. -/
def construct (c : Cfg α κ) (xs : List α) : Except Err (KL α κ) :=
  match ofList { c with okItem := fun _ => true } xs KL.empty with
  | .error e => .error e
  | .ok l => if l.list.all c.okItem then .ok l else .error .typeError

/-- Which of the two containers. -/
inductive Side
  | main | other
  deriving DecidableEq, Repr

def Side.flip : Side → Side
  | .main => .other
  | .other => .main

/-- Two containers alive at the same time. -/
structure Pair (α κ : Type) where
  main : KL α κ
  other : KL α κ
  deriving Repr

/-- Their configurations (key function, type parameters, item-as-key). -/
structure Cfg2 (α κ : Type) where
  main : Cfg α κ
  other : Cfg α κ

def Pair.get (p : Pair α κ) : Side → KL α κ
  | .main => p.main
  | .other => p.other

def Pair.set (p : Pair α κ) : Side → KL α κ → Pair α κ
  | .main, l => { p with main := l }
  | .other, l => { p with other := l }

def Cfg2.get (c : Cfg2 α κ) : Side → Cfg α κ
  | .main => c.main
  | .other => c.other

/-- Operations of the two-container machine. `s` is always the RECEIVER (the object whose
method runs); the operand is the container on the other side, `s.flip`. -/
inductive OpP (α κ : Type)
  /-- any single-container operation on one side -/
  | on (s : Side) (op : Op α κ)
  /-- `s.extend(operand)` -/
  | extendFrom (s : Side)
  /-- `s += operand` -/
  | iaddFrom (s : Side)
  /-- `s.extend(s)` / `s += s` -/
  | extendSelf (s : Side)
  /-- `s.extend(operand[a:b])` (the slice is a new KeyedList with the operand's key function) -/
  | extendFromSlice (s : Side) (a b : Option Int)
  /-- `s + operand` (`s.__add__`) -/
  | addFrom (s : Side)
  /-- `list(operand) + s` (`s.__radd__`) -/
  | raddFrom (s : Side)
  /-- `s == operand` -/
  | eqFrom (s : Side)
  /-- a new container with `s`'s key function and type parameters built from the operand:
  `KeyedList[T, K](operand, key=s.key)` -/
  | ctorFrom (s : Side)
  deriving Repr

/-- Result of a two-container operation: an ordinary output, or a NEW container (`+`, constructor). -/
inductive OutP (α κ : Type)
  | out (o : Out α κ)
  | kl (r : KL α κ)
  deriving Repr

/-- The receiver of an operation. -/
def OpP.receiver : OpP α κ → Side
  | .on s _ | .extendFrom s | .iaddFrom s | .extendSelf s | .extendFromSlice s _ _
  | .addFrom s | .raddFrom s | .eqFrom s | .ctorFrom s => s

/-- One step of the two-container machine. Mirrors `keyed.py`: the operand is only ever
*iterated* (`list(values)` in `extend`, `[*self._list, *other]` in `__add__`, `for item in
sequence` in `__init__`; `Sequence.__iter__` walks `operand[0], operand[1], …` = `operand._list`)
or, for `==`, replaced by its `_list`. -/
def stepP (c : Cfg2 α κ) (eqv : α → α → Bool) (p : Pair α κ) : OpP α κ → Pair α κ × OutP α κ
  | .on s op =>
    let r := stepE (c.get s) eqv (p.get s) op
    (p.set s r.1, .out r.2)
  | .extendFrom s =>
    match extend (c.get s) (p.get s) (p.get s.flip).list with
    | .ok l' => (p.set s l', .out .none)
    | .error e => (p, .out (.err e))
  | .iaddFrom s =>
    match extend (c.get s) (p.get s) (p.get s.flip).list with
    | .ok l' => (p.set s l', .out .none)
    | .error e => (p, .out (.err e))
  | .extendSelf s =>
    match extend (c.get s) (p.get s) (p.get s).list with
    | .ok l' => (p.set s l', .out .none)
    | .error e => (p, .out (.err e))
  | .extendFromSlice s a b =>
    match getSlice (c.get s.flip) (p.get s.flip) a b with
    | .error e => (p, .out (.err e))
    | .ok sl =>
      match extend (c.get s) (p.get s) sl.list with
      | .ok l' => (p.set s l', .out .none)
      | .error e => (p, .out (.err e))
  | .addFrom s =>
    (p, match add (c.get s) (p.get s) (p.get s.flip).list with
        | .ok r => .kl r
        | .error e => .out (.err e))
  | .raddFrom s =>
    (p, match radd (c.get s) (p.get s) (p.get s.flip).list with
        | .ok r => .kl r
        | .error e => .out (.err e))
  | .eqFrom s => (p, .out (.bool (listEqv eqv (p.get s).list (p.get s.flip).list)))
  | .ctorFrom s =>
    (p, match construct (c.get s) (p.get s.flip).list with
        | .ok r => .kl r
        | .error e => .out (.err e))

def runP (c : Cfg2 α κ) (eqv : α → α → Bool) (p : Pair α κ) : List (OpP α κ) → Pair α κ × List (OutP α κ)
  | [] => (p, [])
  | op :: ops =>
    let r := stepP c eqv p op
    let rs := runP c eqv r.1 ops
    (rs.1, r.2 :: rs.2)

/-- The single-container operation, with a PLAIN LIST of items as its argument, that a cross
operation amounts to (`none` for the constructor, which has no receiver state). -/
def lower (p : Pair α κ) : OpP α κ → Option (Op α κ)
  | .on _ op => some op
  | .extendFrom s => some (.extend (p.get s.flip).list)
  | .iaddFrom s => some (.iadd (p.get s.flip).list)
  | .extendSelf s => some (.extend (p.get s).list)
  | .extendFromSlice s a b => some (.extend (pySlice (p.get s.flip).list a b))
  | .addFrom s => some (.add (p.get s.flip).list)
  | .raddFrom s => some (.radd (p.get s.flip).list)
  | .eqFrom s => some (.eqList (p.get s.flip).list)
  | .ctorFrom _ => none

/-- An `OutP` seen through the single-container output type: a new container shows its list. -/
def OutP.flat : OutP α κ → Out α κ
  | .out o => o
  | .kl r => .items r.list

/-- The NEW container an operation builds, if it builds one (`+`, slices): the correspondence
compares its key index too, not only its items (`Props/C13.lean`: `newContainer_step` ties it to
the `items` output of `step`, `coh_newContainer` proves it coherent). -/
def newContainer (c : Cfg α κ) (l : KL α κ) : Op α κ → Option (Except Err (KL α κ))
  | .add xs => some (add c l xs)
  | .radd xs => some (radd c l xs)
  | .getSlice a b => some (getSlice c l a b)
  | _ => none

/-- The shortcut that is NOT in `keyed.py`: "the operand is a KeyedList, so its items are already
validated and indexed — look for collisions between the two indexes and take the operand's
index over". `Props/C13.lean`: sound when both containers use the same configuration and the
operand's index is in list order (`extendFast_sound`); wrong as soon as the key functions
differ (`extendFast_unsound`). -/
def extendFast (l o : KL α κ) : Except Err (KL α κ) :=
  if o.dict.any (fun q => hasKey l.dict q.1) then .error .valueError
  else .ok ⟨l.list ++ o.list, l.dict ++ o.dict⟩

end SpecVerif.C13
