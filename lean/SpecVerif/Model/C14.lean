import SpecVerif.Model.Py
/-!
# C14 — Impl model of `spec_classes.types.keyed.KeyedSet`

Mirrors `keyed.py` (class `KeyedSet` + `KeyedBase._validate_item`) method by
method and the `Set`/`MutableSet` mixins of CPython 3.12 `_collections_abc.py`
that `KeyedSet` inherits (`| & - ^ <= < >= > isdisjoint |= &= -= ^= remove pop
clear`), written over the same primitives the Python code uses
(`add / discard / __contains__ / __iter__ / __len__ / _from_iterable`).

One type `α` of *values* (everything that can be passed as an argument: items,
keys used as arguments, junk) and one type `κ` of dictionary keys. The storage
is an insertion-ordered association list (a Python dict): overwriting a key
keeps its position.

`Cfg` is what a `KeyedSet` carries besides its contents:
* `keyOf x`    `KeyedBase.key(x)` (explicit key function, spec-class key or the
               hashable value itself); may raise (`TypeError` for an unhashable
               non-spec value, whatever a user key function raises)
* `asKey x`    the value `x` used *directly* as a dictionary key
               (`x in self._dict`); `none` when no key can equal it (this includes
               unhashable values, for which the code swallows `TypeError`)
* `hashable x` `hash(x)` succeeds (only `get` and built-in-set membership need it)
* `typed`      `hasattr(self._type, "__args__")`  (a parameterised `KeyedSet[T, K]`)
* `okItem`, `okKey`   `check_type(item, T)`, `check_type(key, K)`
-/
namespace SpecVerif.C14
open SpecVerif.Py

structure Cfg (α κ : Type) where
  keyOf    : α → Except Err κ
  asKey    : α → Option κ
  hashable : α → Bool
  typed    : Bool
  okItem   : α → Bool
  okKey    : κ → Bool

/-- A `KeyedSet` instance: `_key`/`_type` (in `cfg`), `enforce_item_equivalence`, `_dict`. -/
structure KS (α κ : Type) where
  cfg     : Cfg α κ
  enforce : Bool
  dict    : List (κ × α)

variable {α κ : Type} [DecidableEq α] [DecidableEq κ]

/-! ## Python dict fragments -/

/-- `k in d` -/
def hasKey (d : List (κ × α)) (k : κ) : Bool := d.any (fun p => p.1 == k)
/-- `d.get(k)` -/
def dictGet (d : List (κ × α)) (k : κ) : Option α := (d.find? (fun p => p.1 == k)).map (·.2)
/-- `del d[k]` -/
def dictDel (d : List (κ × α)) (k : κ) : List (κ × α) := d.filter (fun p => !(p.1 == k))
/-- `d[k] = v`: overwrite in place (position kept) or append. -/
def dictSet (d : List (κ × α)) (k : κ) (v : α) : List (κ × α) :=
  if hasKey d k then d.map (fun p => if p.1 == k then (p.1, v) else p) else d ++ [(k, v)]
/-- `d1 == d2` for dicts: same size, every key of `d1` bound to an equal value in `d2`. -/
def dictEq (d1 d2 : List (κ × α)) : Bool :=
  d1.length == d2.length && d1.all (fun p => dictGet d2 p.1 == some p.2)

/-! ## KeyedSet primitives -/

/-- a new, empty set that identifies items like `s` does
(`type(self)(key=self._key, enforce_item_equivalence=…)` + `new._type = self._type`). -/
def KS.emptyLike (s : KS α κ) : KS α κ := { s with dict := [] }

def KS.iter (s : KS α κ) : List α := s.dict.map (·.2)
def KS.keys (s : KS α κ) : List κ := s.dict.map (·.1)
def KS.len (s : KS α κ) : Nat := s.dict.length

/-- `KeyedBase._validate_item`: key extraction, then (parameterised sets only)
item type check, then key type check; both raise `TypeError`. -/
def validate (c : Cfg α κ) (x : α) : Except Err κ :=
  match c.keyOf x with
  | .error e => .error e
  | .ok k =>
    if c.typed then
      if !c.okItem x then .error .typeError
      else if !c.okKey k then .error .typeError
      else .ok k
    else .ok k

/-- `KeyedSet.add` -/
def add (s : KS α κ) (x : α) : Except Err (KS α κ) :=
  match validate s.cfg x with
  | .error e => .error e
  | .ok k =>
    if s.enforce && hasKey s.dict k && (dictGet s.dict k != some x) then .error .valueError
    else .ok { s with dict := dictSet s.dict k x }

/-- first `try` block of `__contains__`/`discard`/`__getitem__`:
`item_or_key in self._dict` with `TypeError` swallowed. -/
def inDict (s : KS α κ) (x : α) : Option κ :=
  match s.cfg.asKey x with
  | some k => if hasKey s.dict k then some k else none
  | none => none

/-- second `try` block of `__contains__`/`discard`: the argument as an item.
`TypeError` from the key function is swallowed, other exceptions propagate. -/
def itemMatch (s : KS α κ) (x : α) : Except Err (Option κ) :=
  match s.cfg.keyOf x with
  | .error .typeError => .ok none
  | .error e => .error e
  | .ok k =>
    if hasKey s.dict k && (!s.enforce || dictGet s.dict k == some x) then .ok (some k) else .ok none

/-- `KeyedSet.__contains__` -/
def contains (s : KS α κ) (x : α) : Except Err Bool :=
  match inDict s x with
  | some _ => .ok true
  | none => match itemMatch s x with
    | .error e => .error e
    | .ok r => .ok r.isSome

/-- `KeyedSet.discard` -/
def discard (s : KS α κ) (x : α) : Except Err (KS α κ) :=
  match inDict s x with
  | some k => .ok { s with dict := dictDel s.dict k }
  | none => match itemMatch s x with
    | .error e => .error e
    | .ok none => .ok s
    | .ok (some k) => .ok { s with dict := dictDel s.dict k }

/-- `KeyedSet.__getitem__` (the item fallback does not look at `enforce`). -/
def getItem (s : KS α κ) (x : α) : Except Err α :=
  match inDict s x with
  | some k => match dictGet s.dict k with
    | some v => .ok v
    | none => .error .keyError
  | none => match s.cfg.keyOf x with
    | .error .typeError => .error .keyError
    | .error e => .error e
    | .ok k => match dictGet s.dict k with
      | some v => .ok v
      | none => .error .keyError

/-- `KeyedSet.get(key)` = `self._dict.get(key)`: an unhashable argument raises. -/
def getOpt (s : KS α κ) (x : α) : Except Err (Option α) :=
  if !s.cfg.hashable x then .error .typeError
  else match s.cfg.asKey x with
    | none => .ok none
    | some k => .ok (dictGet s.dict k)

/-- `MutableSet.remove`: `if value not in self: raise KeyError; self.discard(value)` -/
def remove (s : KS α κ) (x : α) : Except Err (KS α κ) :=
  match contains s x with
  | .error e => .error e
  | .ok false => .error .keyError
  | .ok true => discard s x

/-- `MutableSet.pop`: first item of the iteration, then `discard(value)`. -/
def pop (s : KS α κ) : Except Err (α × KS α κ) :=
  match s.dict with
  | [] => .error .keyError
  | (_, v) :: _ => match discard s v with
    | .error e => .error e
    | .ok s' => .ok (v, s')

/-- `MutableSet.clear`: `while True: self.pop()` until `KeyError`
(other exceptions propagate; fuel = number of entries, each `pop` removes one). -/
def clear (s : KS α κ) : KS α κ × Option Err :=
  go s.dict.length s
where
  go : Nat → KS α κ → KS α κ × Option Err
    | 0, s => (s, none)
    | n + 1, s => match pop s with
      | .error .keyError => (s, none)
      | .error e => (s, some e)
      | .ok (_, s') => go n s'

/-- `for v in it: if p(v): acc.add(v)` — what `_from_iterable(<generator>)` does
with the lazily filtered generators of the `Set` mixins (filter and `add`
interleave; the first exception of either wins). -/
def filterAdd (p : α → Except Err Bool) : KS α κ → List α → Except Err (KS α κ)
  | acc, [] => .ok acc
  | acc, x :: xs =>
    match p x with
    | .error e => .error e
    | .ok false => filterAdd p acc xs
    | .ok true => match add acc x with
      | .error e => .error e
      | .ok acc' => filterAdd p acc' xs

/-- `KeyedSet._from_iterable(it)` (instance method: keeps key function, flag, `_type`). -/
def fromIterable (s : KS α κ) (xs : List α) : Except Err (KS α κ) :=
  filterAdd (fun _ => .ok true) s.emptyLike xs

/-- `for item in self: self._validate_item(item)` (the `__orig_class__` hook) -/
def validateAll (c : Cfg α κ) : List α → Except Err Unit
  | [] => .ok ()
  | x :: xs => match validate c x with
    | .error e => .error e
    | .ok _ => validateAll c xs

/-- `KeyedSet(sequence, key=…, enforce_item_equivalence=…)`, and for a
parameterised class the `__orig_class__` hook that validates the items *after*
`__init__` has added them without type checks. -/
def construct (c : Cfg α κ) (enforce : Bool) (xs : List α) : Except Err (KS α κ) :=
  match filterAdd (fun _ => .ok true) ⟨{ c with typed := false }, enforce, []⟩ xs with
  | .error e => .error e
  | .ok s =>
    let s' : KS α κ := { s with cfg := c }
    if c.typed then
      match validateAll c s'.iter with
      | .error e => .error e
      | .ok _ => .ok s'
    else .ok s'

/-! ## The other operand of binary operators -/

inductive Operand (α κ : Type)
  | ks (t : KS α κ)          -- another KeyedSet (its own key function / flag / type)
  | pyset (xs : List α)      -- a built-in set, given in its iteration order (distinct, hashable)
  | pyfrozen (xs : List α)   -- a built-in frozenset: a `Set` like `set`, but not an instance of `set` (`__eq__`)
  | pylist (xs : List α)     -- an iterable that is not a `Set` (a list)

def Operand.iter : Operand α κ → List α
  | .ks t => t.iter
  | .pyset xs => xs
  | .pyfrozen xs => xs
  | .pylist xs => xs

def Operand.isSet : Operand α κ → Bool
  | .pylist _ => false
  | _ => true

def Operand.len (o : Operand α κ) : Nat := o.iter.length

/-- `x in other` -/
def Operand.contains (c : Cfg α κ) : Operand α κ → α → Except Err Bool
  | .ks t, x => SpecVerif.C14.contains t x
  | .pyset xs, x => if c.hashable x then .ok (xs.contains x) else .error .typeError
  | .pyfrozen xs, x => if c.hashable x then .ok (xs.contains x) else .error .typeError
  | .pylist xs, x => .ok (xs.contains x)

def notM (r : Except Err Bool) : Except Err Bool :=
  match r with
  | .error e => .error e
  | .ok b => .ok (!b)

/-- `all(p(x) for x in xs)` with exceptions, left to right, stopping at the first `False`. -/
def allM (p : α → Except Err Bool) : List α → Except Err Bool
  | [] => .ok true
  | x :: xs => match p x with
    | .error e => .error e
    | .ok false => .ok false
    | .ok true => allM p xs

/-! ## `Set` mixins -/

/-- `Set.__and__` (= `__rand__`): items of `other` that are `in self`. -/
def andOp (s : KS α κ) (o : Operand α κ) : Except Err (KS α κ) :=
  filterAdd (contains s) s.emptyLike o.iter

/-- `Set.__or__` (= `__ror__`): `chain(self, other)`. -/
def orOp (s : KS α κ) (o : Operand α κ) : Except Err (KS α κ) :=
  fromIterable s (s.iter ++ o.iter)

/-- `if not isinstance(other, Set): other = self._from_iterable(other)` -/
def toSet (s : KS α κ) (o : Operand α κ) : Except Err (Operand α κ) :=
  if o.isSet then .ok o
  else match fromIterable s o.iter with
    | .error e => .error e
    | .ok t => .ok (.ks t)

/-- `Set.__sub__` -/
def subOp (s : KS α κ) (o : Operand α κ) : Except Err (KS α κ) :=
  match toSet s o with
  | .error e => .error e
  | .ok o' => filterAdd (fun x => notM (o'.contains s.cfg x)) s.emptyLike s.iter

/-- `Set.__rsub__` : `other - self` dispatched to `self` -/
def rsubOp (s : KS α κ) (o : Operand α κ) : Except Err (KS α κ) :=
  match toSet s o with
  | .error e => .error e
  | .ok o' => filterAdd (fun x => notM (contains s x)) s.emptyLike o'.iter

/-- `Set.__xor__` (= `__rxor__`): `(self - other) | (other - self)`; `other - self`
is `other.__sub__(self)` for a KeyedSet and `self.__rsub__(other)` for a built-in set. -/
def xorOp (s : KS α κ) (o : Operand α κ) : Except Err (KS α κ) :=
  match toSet s o with
  | .error e => .error e
  | .ok o' =>
    match subOp s o' with
    | .error e => .error e
    | .ok a =>
      match (match o' with
             | .ks t => subOp t (.ks s)
             | o'' => rsubOp s o'') with
      | .error e => .error e
      | .ok b => orOp a (.ks b)

/-- `Set.__le__` (`NotImplemented` for a non-`Set`, which ends in `TypeError`). -/
def leOp (s : KS α κ) (o : Operand α κ) : Except Err Bool :=
  if !o.isSet then .error .typeError
  else if s.len > o.len then .ok false
  else allM (o.contains s.cfg) s.iter

def ltOp (s : KS α κ) (o : Operand α κ) : Except Err Bool :=
  if !o.isSet then .error .typeError
  else if s.len < o.len then leOp s o else .ok false

/-- `Set.__ge__` -/
def geOp (s : KS α κ) (o : Operand α κ) : Except Err Bool :=
  if !o.isSet then .error .typeError
  else if s.len < o.len then .ok false
  else allM (contains s) o.iter

def gtOp (s : KS α κ) (o : Operand α κ) : Except Err Bool :=
  if !o.isSet then .error .typeError
  else if s.len > o.len then geOp s o else .ok false

/-- `KeyedSet.__eq__`: dict equality against a KeyedSet; `set(values) == other`
against a built-in set (`TypeError` → `False`); `NotImplemented` (→ `False`) otherwise. -/
def eqOp (s : KS α κ) (o : Operand α κ) : Bool :=
  match o with
  | .ks t => dictEq s.dict t.dict
  | .pyset xs =>
    s.iter.all s.cfg.hashable && s.iter.all (fun x => xs.contains x) && xs.all (fun x => s.iter.contains x)
  | .pyfrozen _ => false     -- `isinstance(other, set)` is False: NotImplemented on both sides
  | .pylist _ => false

/-- `Set.isdisjoint` -/
def isdisjoint (s : KS α κ) (o : Operand α κ) : Except Err Bool :=
  allM (fun x => notM (contains s x)) o.iter

/-! ## `MutableSet` in-place mixins (not atomic: a failure keeps the work done so far) -/

/-- `for v in it: self.add(v)` -/
def addAllP : KS α κ → List α → KS α κ × Option Err
  | s, [] => (s, none)
  | s, x :: xs => match add s x with
    | .error e => (s, some e)
    | .ok s' => addAllP s' xs

/-- `for v in it: self.discard(v)` -/
def discardAllP : KS α κ → List α → KS α κ × Option Err
  | s, [] => (s, none)
  | s, x :: xs => match discard s x with
    | .error e => (s, some e)
    | .ok s' => discardAllP s' xs

/-- `for v in it: (self.discard(v) if v in self else self.add(v))` -/
def toggleAllP : KS α κ → List α → KS α κ × Option Err
  | s, [] => (s, none)
  | s, x :: xs => match contains s x with
    | .error e => (s, some e)
    | .ok true => (match discard s x with
      | .error e => (s, some e)
      | .ok s' => toggleAllP s' xs)
    | .ok false => (match add s x with
      | .error e => (s, some e)
      | .ok s' => toggleAllP s' xs)

/-- `__ior__` -/
def iorOp (s : KS α κ) (o : Operand α κ) : KS α κ × Option Err := addAllP s o.iter

/-- `__iand__`: `for v in (self - it): self.discard(v)` -/
def iandOp (s : KS α κ) (o : Operand α κ) : KS α κ × Option Err :=
  match subOp s o with
  | .error e => (s, some e)
  | .ok d => discardAllP s d.iter

/-- `__isub__` (for `it is not self`) -/
def isubOp (s : KS α κ) (o : Operand α κ) : KS α κ × Option Err := discardAllP s o.iter

/-- `__ixor__` (for `it is not self`) -/
def ixorOp (s : KS α κ) (o : Operand α κ) : KS α κ × Option Err :=
  match toSet s o with
  | .error e => (s, some e)
  | .ok o' => toggleAllP s o'.iter

/-! ## Operation alphabet and step function -/

inductive BinOp | and | or | sub | xor
  deriving DecidableEq, Repr
inductive CmpOp | le | lt | ge | gt | eq | isdisjoint
  deriving DecidableEq, Repr
inductive IOp | ior | iand | isub | ixor
  deriving DecidableEq, Repr

/-- `self <op> other` -/
def binOp (b : BinOp) (s : KS α κ) (o : Operand α κ) : Except Err (KS α κ) :=
  match b with
  | .and => andOp s o
  | .or => orOp s o
  | .sub => subOp s o
  | .xor => xorOp s o

/-- `other <op> self`: a KeyedSet on the left runs its own method; a built-in
set / list returns `NotImplemented` and Python calls the reflected method of `self`. -/
def rbinOp (b : BinOp) (s : KS α κ) (o : Operand α κ) : Except Err (KS α κ) :=
  match o with
  | .ks t => binOp b t (.ks s)
  | o => match b with
    | .and => andOp s o
    | .or => orOp s o
    | .sub => rsubOp s o
    | .xor => xorOp s o

/-- `self <cmp> other` -/
def cmpOp (c : CmpOp) (s : KS α κ) (o : Operand α κ) : Except Err Bool :=
  match c with
  | .le => leOp s o
  | .lt => ltOp s o
  | .ge => geOp s o
  | .gt => gtOp s o
  | .eq => .ok (eqOp s o)
  | .isdisjoint => isdisjoint s o

/-- `other <cmp> self` -/
def rcmpOp (c : CmpOp) (s : KS α κ) (o : Operand α κ) : Except Err Bool :=
  match o with
  | .ks t => cmpOp c t (.ks s)
  | o => match c with
    | .le => geOp s o
    | .lt => gtOp s o
    | .ge => leOp s o
    | .gt => ltOp s o
    | .eq => .ok (eqOp s o)
    | .isdisjoint => .error .attributeError   -- not generated: `list.isdisjoint` does not exist

def iOp (i : IOp) (s : KS α κ) (o : Operand α κ) : KS α κ × Option Err :=
  match i with
  | .ior => iorOp s o
  | .iand => iandOp s o
  | .isub => isubOp s o
  | .ixor => ixorOp s o

inductive Op (α κ : Type)
  | add (x : α) | discard (x : α) | remove (x : α) | pop | clear
  | contains (x : α) | getItem (x : α) | get (x : α)
  | keys | items | len | iter
  | bin (b : BinOp) (o : Operand α κ)        -- `self <op> other`  (result is returned)
  | rbin (b : BinOp) (o : Operand α κ)       -- `other <op> self`
  | rebind (b : BinOp) (o : Operand α κ)     -- `self = self <op> other`
  | cmp (c : CmpOp) (o : Operand α κ) | rcmp (c : CmpOp) (o : Operand α κ)
  | inplace (i : IOp) (o : Operand α κ)      -- `self <op>= other`
  | inplaceSelf (i : IOp)                    -- `self <op>= self`
  /-- `r = self <op> other` (or `other <op> self`), then toggle `x` in `r`, re-read `self`, toggle `x` in
  `self`, re-read `r`: the result is a value of its own, so neither mutation shows through. -/
  | probe (refl : Bool) (b : BinOp) (o : Operand α κ) (x : α)

inductive Out (α κ : Type)
  | none | item (x : α) | optItem (x : Option α) | nat (n : Nat) | bool (b : Bool)
  | items (xs : List α) | keys (ks : List κ) | pairs (ps : List (κ × α))
  | set (r : KS α κ)
  | probe (r1 : KS α κ) (mid : KS α κ)   -- result after its own mutation; receiver re-read in between
  | err (e : Err)

def outOf (r : KS α κ × Option Err) : KS α κ × Out α κ :=
  match r.2 with
  | Option.none => (r.1, .none)
  | some e => (r.1, .err e)

def step (s : KS α κ) : Op α κ → KS α κ × Out α κ
  | .add x => match add s x with | .ok s' => (s', .none) | .error e => (s, .err e)
  | .discard x => match discard s x with | .ok s' => (s', .none) | .error e => (s, .err e)
  | .remove x => match remove s x with | .ok s' => (s', .none) | .error e => (s, .err e)
  | .pop => match pop s with | .ok (v, s') => (s', .item v) | .error e => (s, .err e)
  | .clear => outOf (clear s)
  | .contains x => (s, match contains s x with | .ok b => .bool b | .error e => .err e)
  | .getItem x => (s, match getItem s x with | .ok v => .item v | .error e => .err e)
  | .get x => (s, match getOpt s x with | .ok v => .optItem v | .error e => .err e)
  | .keys => (s, .keys s.keys)
  | .items => (s, .pairs s.dict)
  | .len => (s, .nat s.len)
  | .iter => (s, .items s.iter)
  | .bin b o => (s, match binOp b s o with | .ok r => .set r | .error e => .err e)
  | .rbin b o => (s, match rbinOp b s o with | .ok r => .set r | .error e => .err e)
  | .rebind b o => match binOp b s o with | .ok r => (r, .none) | .error e => (s, .err e)
  | .cmp c o => (s, match cmpOp c s o with | .ok b => .bool b | .error e => .err e)
  | .rcmp c o => (s, match rcmpOp c s o with | .ok b => .bool b | .error e => .err e)
  | .inplace i o => outOf (iOp i s o)
  | .inplaceSelf i =>
    match i with
    | .ior => outOf (iorOp s (.ks s))
    | .iand => outOf (iandOp s (.ks s))
    | .isub => outOf (clear s)        -- `if it is self: self.clear()`
    | .ixor => outOf (clear s)
  | .probe refl b o x =>
    match (if refl then rbinOp b s o else binOp b s o) with
    | .error e => (s, .err e)
    | .ok r => ((toggleAllP s [x]).1, .probe (toggleAllP r [x]).1 s)

/-- Run an operation sequence, collecting the outputs. -/
def run (s : KS α κ) : List (Op α κ) → KS α κ × List (Out α κ)
  | [] => (s, [])
  | op :: ops =>
    let r := step s op
    let rs := run r.1 ops
    (rs.1, r.2 :: rs.2)

end SpecVerif.C14
