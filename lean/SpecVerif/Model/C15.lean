import SpecVerif.Model.Py
/-!
# C15 — model of `spec_classes.utils.type_checking.check_type`

Two executable functions over the same annotation/value languages:

* `conforms`  — the SPEC: "value conforms to annotation", written structurally
  from the statement of the property (no evaluation order, no exceptions);
* `checkType` — the IMPL: mirrors `check_type` / `_check_subclass` of
  `spec_classes/utils/type_checking.py` and the `isinstance` hook of
  `spec_classes/types/validated.py` branch by branch, including every point
  where the Python code can raise (`Except Err Bool`).

Core Lean only.  Recursion is structural on the annotation (`Ty`/`Tys` are
mutual inductives), so `decide`/`rfl` evaluate the definitions.

Numbers.  A numeric value is kept in *halves*: `Val.int n` is the Python int
`n`, `Val.float h` is the Python float `h / 2` (so `0.5`, `-1.5`, `2.0` are
representable exactly and nothing is ever computed with floats); `num v` is the
numeric value of `v` in halves (`bool` counts as `0`/`1` because
`bool <: int`).  The bounds of `bounded` are given in halves as well.
-/
namespace SpecVerif.C15
open SpecVerif.Py

/-- Classes of the modelled universe: the builtins the property names plus
user/spec classes `user n`, whose subclass relation is a table parameter. -/
inductive ClassId
  | object | type_ | noneType | bool | int | float | str | bytes
  | list | set | dict | tuple
  | user (n : Nat)
  deriving DecidableEq, Repr, Inhabited

mutual
  /-- Python values of the property's pool. -/
  inductive Val
    | none
    | bool (b : Bool)
    | int (n : Int)
    | float (halves : Int)
    | str (s : String)
    | bytes (s : String)
    | list (xs : Vals)
    | set (xs : Vals)            -- in iteration order
    | tuple (xs : Vals)
    | dict (kvs : KVs)           -- in insertion order
    | cls (c : ClassId)          -- a class object
    | inst (c : Nat) (id : Nat)  -- an instance of user/spec class `c`
  inductive Vals
    | nil
    | cons (v : Val) (vs : Vals)
  inductive KVs
    | nil
    | cons (k v : Val) (kvs : KVs)
end

mutual
  /-- The annotation language.  `typing.Union`/`Optional`/`X | Y` are all
  `union`; `typing.List[..]` and `list[..]` are both `list`; etc. -/
  inductive Ty
    | any
    | typeVar
    | cls (c : ClassId)
    | float
    | noneType
    | noneLit                   -- the object `None` itself (PEP 585 generics keep it: `list[None]`; or at top level)
    | list (t : Ty)
    | set (t : Ty)
    | dict (k v : Ty)
    | tuple (ts : Tys)          -- Tuple[t1, ..., tn]   (n may be 0: Tuple[()])
    | tupleVar (t : Ty)         -- Tuple[t, ...]
    | type_ (t : Ty)            -- Type[t]
    | union (ts : Tys)
    | literal (cs : Vals)
    | bounded (base : Ty) (ge gt le lt : Option Int)   -- bounds in halves
    | validated (p : Nat)
    | refined (base : Ty) (p : Nat)   -- validated(lambda x: check_type(x, base) and pred_p(x)): a validated type over a base
  inductive Tys
    | nil
    | cons (t : Ty) (ts : Tys)
end

/-- Parameters: the subclass table of the user/spec classes (reflexive and
transitive closure, harvested from the real `issubclass`), and the (total)
predicates of the `validated` types. -/
structure Env where
  userSub : Nat → Nat → Bool
  pred : Nat → Val → Bool

/-! ## Plain helpers on the mutual lists -/

def Vals.toList : Vals → List Val
  | .nil => []
  | .cons v vs => v :: vs.toList

def KVs.toList : KVs → List (Val × Val)
  | .nil => []
  | .cons k v kvs => (k, v) :: kvs.toList

def Tys.toList : Tys → List Ty
  | .nil => []
  | .cons t ts => t :: ts.toList

def Vals.ofList : List Val → Vals
  | [] => .nil
  | v :: vs => .cons v (Vals.ofList vs)

def KVs.ofList : List (Val × Val) → KVs
  | [] => .nil
  | (k, v) :: kvs => .cons k v (KVs.ofList kvs)

def Tys.ofList : List Ty → Tys
  | [] => .nil
  | t :: ts => .cons t (Tys.ofList ts)

def Vals.length : Vals → Nat
  | .nil => 0
  | .cons _ vs => vs.length + 1

def Tys.length : Tys → Nat
  | .nil => 0
  | .cons _ ts => ts.length + 1

def Vals.all (f : Val → Bool) : Vals → Bool
  | .nil => true
  | .cons v vs => f v && vs.all f

def Vals.any (f : Val → Bool) : Vals → Bool
  | .nil => false
  | .cons v vs => f v || vs.any f

def KVs.all (fk fv : Val → Bool) : KVs → Bool
  | .nil => true
  | .cons k v kvs => fk k && fv v && kvs.all fk fv

/-! ## Classes, `isinstance`, numbers, equality -/

/-- `issubclass(a, b)` on the modelled lattice: everything derives from
`object`, `bool <: int`, user classes by the table, otherwise identity. -/
def ClassId.sub (E : Env) : ClassId → ClassId → Bool
  | _, .object => true
  | .bool, .int => true
  | .user a, .user b => E.userSub a b
  | a, b => a == b

/-- `type(v)`. -/
def Val.typeOf : Val → ClassId
  | .none => .noneType
  | .bool _ => .bool
  | .int _ => .int
  | .float _ => .float
  | .str _ => .str
  | .bytes _ => .bytes
  | .list _ => .list
  | .set _ => .set
  | .tuple _ => .tuple
  | .dict _ => .dict
  | .cls _ => .type_
  | .inst c _ => .user c

/-- `isinstance(v, c)` for a plain class `c`. -/
def isInstance (E : Env) (v : Val) (c : ClassId) : Bool := v.typeOf.sub E c

/-- `isinstance(v, numbers.Real)` (what `check_type` turns `float` into):
`int`, `bool` and `float` are registered with the ABC, nothing else of the pool is. -/
def isReal : ClassId → Bool
  | .bool => true
  | .int => true
  | .float => true
  | _ => false

/-- Numeric value in halves (`none` for non-numbers). -/
def num : Val → Option Int
  | .bool b => some (if b then 2 else 0)
  | .int n => some (2 * n)
  | .float h => some h
  | _ => none

/-- Python `c == v` for a Literal choice `c` (None/bool/int/float/str/bytes)
against any pool value: numbers compare by value across bool/int/float,
str with str, bytes with bytes, `None` with `None`; everything else differs. -/
def pyEq : Val → Val → Bool
  | .none, .none => true
  | .str a, .str b => a == b
  | .bytes a, .bytes b => a == b
  | a, b =>
    match num a, num b with
    | some x, some y => x == y
    | _, _ => false

/-- Admissible Literal choices (PEP 586 scalars). -/
def Val.scalar : Val → Bool
  | .none => true
  | .bool _ => true
  | .int _ => true
  | .float _ => true
  | .str _ => true
  | .bytes _ => true
  | _ => false

/-- One declared bound holds: no bound, or `v` is a number and `rel v bound`. -/
def boundOk (v : Val) (b : Option Int) (rel : Int → Int → Bool) : Bool :=
  match b with
  | Option.none => true
  | some g =>
    match num v with
    | Option.none => false
    | some x => rel x g

/-! ## SPEC: structural conformance -/

mutual
  /-- "class `d` is a subclass of `T`" for `Type[T]`: `Any`/`TypeVar` admit
  every class, a union admits the subclasses of any alternative, a
  parameterised generic stands for its origin class; `Type[float]` is the
  plain subclass relation (no int-for-float at the class level). -/
  def subclassOf (E : Env) : Ty → ClassId → Bool
    | .any, _ => true
    | .typeVar, _ => true
    | .cls c, d => d.sub E c
    | .float, d => d.sub E .float
    | .noneType, d => d.sub E .noneType
    | .noneLit, d => d.sub E .noneType
    | .list _, d => d.sub E .list
    | .set _, d => d.sub E .set
    | .dict _ _, d => d.sub E .dict
    | .tuple _, d => d.sub E .tuple
    | .tupleVar _, d => d.sub E .tuple
    | .type_ _, d => d.sub E .type_
    | .union ts, d => subclassOfAny E ts d
    | .literal _, _ => false
    | .bounded _ _ _ _ _, _ => false   -- no class of the pool derives from a generated validated class
    | .validated _, _ => false
    | .refined _ _, _ => false
  def subclassOfAny (E : Env) : Tys → ClassId → Bool
    | .nil, _ => false
    | .cons t ts, d => subclassOf E t d || subclassOfAny E ts d
end

mutual
  /-- The value conforms to the annotation (the statement of C15, clause by clause). -/
  def conforms (E : Env) : Ty → Val → Bool
    | .any, _ => true
    | .typeVar, _ => true
    | .cls c, v => isInstance E v c
    | .float, v => isInstance E v .float || isInstance E v .int      -- int accepted for float
    | .noneType, v => isInstance E v .noneType
    | .noneLit, v => isInstance E v .noneType                        -- `None` means NoneType (PEP 484)
    | .list t, v =>
      match v with
      | .list xs => xs.all (conforms E t)
      | _ => false
    | .set t, v =>
      match v with
      | .set xs => xs.all (conforms E t)
      | _ => false
    | .dict k w, v =>
      match v with
      | .dict kvs => kvs.all (conforms E k) (conforms E w)
      | _ => false
    | .tuple ts, v =>
      match v with
      | .tuple xs => conformsSlots E ts xs
      | _ => false
    | .tupleVar t, v =>
      match v with
      | .tuple xs => xs.all (conforms E t)
      | _ => false
    | .type_ t, v =>
      match v with
      | .cls d => subclassOf E t d
      | _ => false
    | .union ts, v => conformsAny E ts v
    | .literal cs, v => cs.any (fun c => pyEq c v)
    | .bounded b ge gt le lt, v =>
      conforms E b v
        && boundOk v ge (fun x g => decide (g ≤ x))     -- inclusive
        && boundOk v gt (fun x g => decide (g < x))     -- exclusive
        && boundOk v le (fun x g => decide (x ≤ g))     -- inclusive
        && boundOk v lt (fun x g => decide (x < g))     -- exclusive
    | .validated p, v => E.pred p v
    | .refined b p, v => conforms E b v && E.pred p v               -- every generation's predicate
  /-- some alternative of a union -/
  def conformsAny (E : Env) : Tys → Val → Bool
    | .nil, _ => false
    | .cons t ts, v => conforms E t v || conformsAny E ts v
  /-- positional tuple: same length and slot-wise conformance -/
  def conformsSlots (E : Env) : Tys → Vals → Bool
    | .nil, .nil => true
    | .cons t ts, .cons x xs => conforms E t x && conformsSlots E ts xs
    | .nil, .cons _ _ => false
    | .cons _ _, .nil => false
end

/-! ## IMPL: `check_type` as written -/

/-- `for item in value: if not check_type(item, T): return False` … `return True`. -/
def allValsM (f : Val → Except Err Bool) : Vals → Except Err Bool
  | .nil => .ok true
  | .cons v vs =>
    match f v with
    | .error e => .error e
    | .ok false => .ok false
    | .ok true => allValsM f vs

/-- `for k, v in value.items(): key check, then value check`. -/
def allKVsM (fk fv : Val → Except Err Bool) : KVs → Except Err Bool
  | .nil => .ok true
  | .cons k v kvs =>
    match fk k with
    | .error e => .error e
    | .ok false => .ok false
    | .ok true =>
      match fv v with
      | .error e => .error e
      | .ok false => .ok false
      | .ok true => allKVsM fk fv kvs

/-- `value in attr_type.__args__` (tuple containment = `==` per element). -/
def inChoices (cs : Vals) (v : Val) : Bool := cs.any (fun c => pyEq c v)

/-- One comparison of the `bounded` validator, e.g. `ge is not None and obj < ge`:
`ok true` = this bound rejects; comparing a non-number with a number raises TypeError. -/
def boundFails (v : Val) (b : Option Int) (bad : Int → Int → Bool) : Except Err Bool :=
  match b with
  | Option.none => .ok false
  | some g =>
    match num v with
    | Option.none => .error .typeError
    | some x => .ok (bad x g)

/-- The four comparisons of `bounded.validator`, in source order. -/
def boundsCheck (v : Val) (ge gt le lt : Option Int) : Except Err Bool :=
  match boundFails v ge (fun x g => decide (x < g)) with
  | .error e => .error e
  | .ok true => .ok false
  | .ok false =>
    match boundFails v gt (fun x g => decide (x ≤ g)) with
    | .error e => .error e
    | .ok true => .ok false
    | .ok false =>
      match boundFails v le (fun x g => decide (x > g)) with
      | .error e => .error e
      | .ok true => .ok false
      | .ok false =>
        match boundFails v lt (fun x g => decide (x ≥ g)) with
        | .error e => .error e
        | .ok true => .ok false
        | .ok false => .ok true

mutual
  /-- `_check_subclass(value, class_type)` for a class object `value = d`. -/
  def checkSubclass (E : Env) : Ty → ClassId → Except Err Bool
    | .any, _ => .ok true
    | .typeVar, _ => .ok true
    | .union ts, d => checkSubclassAny E ts d
    -- `while hasattr(class_type, "__origin__")` strips a generic down to its origin
    | .list _, d => .ok (d.sub E .list)
    | .set _, d => .ok (d.sub E .set)
    | .dict _ _, d => .ok (d.sub E .dict)
    | .tuple _, d => .ok (d.sub E .tuple)
    | .tupleVar _, d => .ok (d.sub E .tuple)
    | .type_ _, d => .ok (d.sub E .type_)
    -- Literal[..].__origin__ is typing.Literal: issubclass(d, typing.Literal) raises
    | .literal _, _ => .error .typeError
    | .cls c, d => .ok (d.sub E c)
    | .float, d => .ok (d.sub E .float)              -- no numbers.Real here
    | .noneType, d => .ok (d.sub E .noneType)
    | .noneLit, d => .ok (d.sub E .noneType)         -- if class_type is None: class_type = type(None)
    -- ABCMeta.__subclasscheck__ of the generated class: false for every pool class
    | .bounded _ _ _ _ _, _ => .ok false
    | .validated _, _ => .ok false
    | .refined _ _, _ => .ok false
  /-- `any(_check_subclass(value, t) for t in class_type.__args__)` (short-circuit). -/
  def checkSubclassAny (E : Env) : Tys → ClassId → Except Err Bool
    | .nil, _ => .ok false
    | .cons t ts, d =>
      match checkSubclass E t d with
      | .error e => .error e
      | .ok true => .ok true
      | .ok false => checkSubclassAny E ts d
end

mutual
  /-- `check_type(value, attr_type)` in the branch order of type_checking.py. -/
  def checkType (E : Env) : Ty → Val → Except Err Bool
    -- if attr_type is Any or isinstance(attr_type, TypeVar): return True
    | .any, _ => .ok true
    | .typeVar, _ => .ok true
    -- if attr_type is float: attr_type = numbers.Real   (then: final isinstance)
    | .float, v => .ok (isReal v.typeOf)
    -- types.UnionType / __origin__ is Union: any(check_type(value, t) for t in __args__)
    | .union ts, v => checkAny E ts v
    -- __origin__ in (Literal, LiteralExtension): value in __args__
    | .literal cs, v => .ok (inChoices cs v)
    -- _GenericAlias / types.GenericAlias: isinstance(value, __origin__) first
    | .list t, v =>
      match v with
      | .list xs => allValsM (checkType E t) xs
      | _ => .ok false
    | .set t, v =>
      match v with
      | .set xs => allValsM (checkType E t) xs
      | _ => .ok false
    | .dict k w, v =>
      match v with
      | .dict kvs => allKVsM (checkType E k) (checkType E w) kvs
      | _ => .ok false
    | .tupleVar t, v =>
      match v with
      | .tuple xs => allValsM (checkType E t) xs
      | _ => .ok false
    | .tuple ts, v =>
      match v with
      | .tuple xs =>
        if xs.length != ts.length then .ok false      -- len(value) != len(__args__)
        else checkSlots E ts xs
      | _ => .ok false
    | .type_ t, v =>
      match v with
      | .cls d => checkSubclass E t d                 -- isinstance(value, type) holds
      | _ => .ok false
    -- no __origin__: return isinstance(value, attr_type)
    | .cls c, v => .ok (isInstance E v c)
    | .noneType, v => .ok (isInstance E v .noneType)
    | .noneLit, v => .ok (isInstance E v .noneType)  -- if attr_type is None: attr_type = type(None)
    -- … where ValidatedTypeMeta.__instancecheck__ = cls.validate(obj)
    | .validated p, v => .ok (E.pred p v)
    | .bounded b ge gt le lt, v =>
      match checkType E b v with                      -- if not check_type(obj, numeric_type)
      | .error e => .error e
      | .ok false => .ok false
      | .ok true => boundsCheck v ge gt le lt
    -- a validated type whose validator is `check_type(obj, base) and pred(obj)` (validated over a base)
    | .refined b p, v =>
      match checkType E b v with
      | .error e => .error e
      | .ok false => .ok false
      | .ok true => .ok (E.pred p v)
  /-- `any(check_type(value, t) for t in args)`: left to right, stops at the first True. -/
  def checkAny (E : Env) : Tys → Val → Except Err Bool
    | .nil, _ => .ok false
    | .cons t ts, v =>
      match checkType E t v with
      | .error e => .error e
      | .ok true => .ok true
      | .ok false => checkAny E ts v
  /-- `for i, item in enumerate(value): if not check_type(item, args[i]): return False`. -/
  def checkSlots (E : Env) : Tys → Vals → Except Err Bool
    | .cons t ts, .cons x xs =>
      match checkType E t x with
      | .error e => .error e
      | .ok false => .ok false
      | .ok true => checkSlots E ts xs
    | _, _ => .ok true
end

/-! ## Well-formed annotations (arity / sanity only) -/

mutual
  /-- The argument of `Type[..]` denotes classes: no `Literal` on its union spine
  (`issubclass(cls, typing.Literal)` raises TypeError in Python). -/
  def Ty.classArg : Ty → Bool
    | .literal _ => false
    | .union ts => ts.classArgs
    | _ => true
  def Tys.classArgs : Tys → Bool
    | .nil => true
    | .cons t ts => t.classArg && ts.classArgs
end

mutual
  /-- The base of `bounded` is a numeric annotation (its values can be compared
  with a number): `int`, `bool`, `float`, a bounded numeric, a validated type over a
  numeric base, a union of numerics. -/
  def Ty.numeric : Ty → Bool
    | .cls .int => true
    | .cls .bool => true
    | .float => true
    | .bounded b _ _ _ _ => b.numeric
    | .refined b _ => b.numeric
    | .union ts => ts.numerics
    | _ => false
  def Tys.numerics : Tys → Bool
    | .nil => true
    | .cons t ts => t.numeric && ts.numerics
end

mutual
  /-- Well-formedness: `Type[..]` argument denotes classes, `bounded` has a
  numeric base, Literal choices are scalars.  Nothing about depth or size. -/
  def Ty.wf : Ty → Bool
    | .any => true
    | .typeVar => true
    | .cls _ => true
    | .float => true
    | .noneType => true
    | .noneLit => true
    | .validated _ => true
    | .list t => t.wf
    | .set t => t.wf
    | .tupleVar t => t.wf
    | .dict k v => k.wf && v.wf
    | .tuple ts => ts.wf
    | .union ts => ts.wf
    | .type_ t => t.classArg
    | .literal cs => cs.all Val.scalar
    | .bounded b _ _ _ _ => b.wf && b.numeric
    | .refined b _ => b.wf
  def Tys.wf : Tys → Bool
    | .nil => true
    | .cons t ts => t.wf && ts.wf
end

/-! ## Generations: `bounded` of `bounded`, validated over validated, bounded over validated

A *generation* is one application of `bounded(·, ge, gt, le, lt)` or of a validated
type over a base.  `Ty.chain base gens` applies the generations to `base`
(`gens.head` is the outermost, i.e. the one applied last). -/

inductive Gen
  | bnd (ge gt le lt : Option Int)
  | pred (p : Nat)
  deriving Repr

/-- one more generation on top of `t` -/
def Gen.apply : Gen → Ty → Ty
  | .bnd ge gt le lt, t => .bounded t ge gt le lt
  | .pred p, t => .refined t p

/-- the predicate this generation declares (inclusive/exclusive as declared) -/
def Gen.holds (E : Env) (v : Val) : Gen → Bool
  | .bnd ge gt le lt =>
    boundOk v ge (fun x g => decide (g ≤ x)) && boundOk v gt (fun x g => decide (g < x))
      && boundOk v le (fun x g => decide (x ≤ g)) && boundOk v lt (fun x g => decide (x < g))
  | .pred p => E.pred p v

def Ty.chain (base : Ty) : List Gen → Ty
  | [] => base
  | g :: gs => g.apply (Ty.chain base gs)

end SpecVerif.C15
