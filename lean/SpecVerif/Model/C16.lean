import SpecVerif.Model.Py
/-!
# C16 — Impl model of class decoration (`spec_classes/spec_class.py`)

Mirrors, step for step:

* `spec_class.__init__`        — `inherit_annotations`, the ordered `attrs` map
                                 (attrs, attrs_typed, overflow attribute), the
                                 private-name `ValueError`             (`ctorCheck`, `extraAttrs`)
* `bootstrap`                  — selection of managed attributes       (`managedAttrs`)
                                 merge with the spec-class parent's attributes (`mergedAttrs`)
                                 consumption of `Attr`/`field` declarations (`consumeDecls`)
                                 singular names + collision fallback    (`resolveItems`)
* `get_methods_for_spec_class` — core methods filtered by init/repr/eq, the
                                 `__spec_class_*` backups, the three top-level helpers
* `get_methods_for_attribute`  — 4 scalar helpers, + 4 element helpers for list/dict/set
* `register_method`            — skip when the name is in the class's own
                                 `__dict__`, except `__spec_class*`     (`register`)
* `MethodDescriptor.__get__`   — lazy descriptors dissolving on first access (`dissolve`)

Names are `List Char` so that the helper-name prefixes are ordinary list
prefixes. `singular : Name → Option Name` (inflect's `singular_noun`, `none` =
`False`) is a PARAMETER of everything: the theorems hold for any such function;
the correspondence run harvests the real mapping and hands it to the driver.

The class `__dict__` is an insertion-ordered association list (the real
`__dict__` is compared in order). The Python-level keys every class has
(`__module__`, `__dict__`, …) and the three metadata keys (`__annotations__`,
`__spec_class__`, `__dataclass_fields__`) are not listed.
-/
namespace SpecVerif.C16
open SpecVerif.Py

abbrev Name := List Char

/-- what the annotation says about the attribute -/
inductive AKind
  | any | scalar | list | dict | set      -- `any` = typing.Any (what `attrs=` assigns)
  deriving DecidableEq, Repr, Inhabited

def AKind.isCollection : AKind → Bool
  | .list => true | .dict => true | .set => true | _ => false

/-- an entry of the class body as the user wrote it; `id` is the identity of the object -/
inductive Entry
  | userFunction (id : Nat)
  | staticmethod (id : Nat)
  | classmethod (id : Nat)
  | property (id : Nat)
  | plainValue (id : Nat)
  | attrDecl (dflt : Option Nat)     -- `Attr(default=<object id>)` / `Attr()`
  | fieldDecl (dflt : Option Nat)    -- `dataclasses.field(default=…)`
  deriving DecidableEq, Repr

def Entry.isDecl : Entry → Bool
  | .attrDecl _ => true | .fieldDecl _ => true | _ => false

def Entry.declDefault : Entry → Option Nat
  | .attrDecl d => d | .fieldDecl d => d | _ => none

/-- which generated method an entry is -/
inductive GenId
  | core (n : Name)                   -- `__init__`, `__repr__`, … and the `__spec_class_*` backups (same object)
  | top (n : Name)                    -- update / transform / reset
  | scalar (pfx : Name) (attr : Name) -- with_/update_/transform_/reset_<attr>
  | elem (pfx : Name) (attr : Name)   -- with_/update_/transform_/without_<item> of collection `attr`
  deriving DecidableEq, Repr

/-- a value in the decorated class's `__dict__` -/
inductive Val
  | user (e : Entry)            -- the user's own object (identity kept)
  | dflt (d : Option Nat)       -- a consumed declaration: its default object, or MISSING
  | lazy (g : GenId)            -- a `MethodDescriptor` not yet dissolved
  | built (g : GenId)           -- the built function
  deriving DecidableEq, Repr

abbrev Dict := List (Name × Val)

/-- an attribute of the spec-class parent as the parent registered it -/
structure Inherited where
  name : Name
  kind : AKind
  item : Name          -- the item name the parent's element helpers were registered under
  deriving DecidableEq, Repr

structure Cls where
  entries : List (Name × Entry)          -- the class body (own `__dict__`), in order
  annots : List (Name × AKind)           -- own `__annotations__`, in order
  attrs : List Name                      -- decorator `attrs=` ([] when not given)
  attrsTyped : List (Name × AKind)       -- decorator `attrs_typed=`
  attrsSkip : Option (List Name)         -- decorator `attrs_skip=` (`none` = MISSING)
  init : Bool
  repr : Bool
  eq : Bool
  overflow : Option Name                 -- `init_overflow_attr`
  key : Option Name
  inherited : List Inherited             -- `__spec_class__.attrs` of the spec-class parent ([] = none)
  deriving Repr

/-! ## names -/

def s (x : String) : Name := x.toList

def isPrivate (n : Name) : Bool := n.head? == some '_'

def pWith : Name := ['w','i','t','h','_']
def pUpdate : Name := ['u','p','d','a','t','e','_']
def pTransform : Name := ['t','r','a','n','s','f','o','r','m','_']
def pReset : Name := ['r','e','s','e','t','_']
def pWithout : Name := ['w','i','t','h','o','u','t','_']
def itemSuffix : Name := ['_','i','t','e','m']

def scalarPrefixes : List Name := [pWith, pUpdate, pTransform, pReset]
def elemPrefixes : List Name := [pWith, pUpdate, pTransform, pWithout]

def nInit : Name := ['_','_','i','n','i','t','_','_']
def nRepr : Name := ['_','_','r','e','p','r','_','_']
def nEq : Name := ['_','_','e','q','_','_']
def nGetattr : Name := ['_','_','g','e','t','a','t','t','r','_','_']
def nSetattr : Name := ['_','_','s','e','t','a','t','t','r','_','_']
def nDelattr : Name := ['_','_','d','e','l','a','t','t','r','_','_']
def nDeepcopy : Name := ['_','_','d','e','e','p','c','o','p','y','_','_']
def nScInit : Name := ['_','_','s','p','e','c','_','c','l','a','s','s','_','i','n','i','t','_','_']
def nScRepr : Name := ['_','_','s','p','e','c','_','c','l','a','s','s','_','r','e','p','r','_','_']
def nScEq : Name := ['_','_','s','p','e','c','_','c','l','a','s','s','_','e','q','_','_']
def nUpdate : Name := ['u','p','d','a','t','e']
def nTransform : Name := ['t','r','a','n','s','f','o','r','m']
def nReset : Name := ['r','e','s','e','t']

/-- `name.startswith("__spec_class")` -/
def scPrefix : Name := ['_','_','s','p','e','c','_','c','l','a','s','s']
def isReserved (n : Name) : Bool := scPrefix.isPrefixOf n

/-- `get_singular_form(attr)` -/
def itemName0 (singular : Name → Option Name) (a : Name) : Name :=
  match singular a with
  | some sg => if sg.isEmpty || sg == a then a ++ itemSuffix else sg
  | none => a ++ itemSuffix

/-! ## managed attributes -/

/-- keys of a Python dict built from a list of keys: first occurrence wins -/
def dedup : List Name → List Name
  | [] => []
  | x :: xs => x :: (dedup xs).filter (fun y => y != x)

/-- `self.attrs` of the decorator: attrs (type Any), then attrs_typed, then the
overflow attribute (a Dict) — a Python dict: a repeated key keeps its first
position and takes the last type. -/
def extraAttrs (c : Cls) : List (Name × AKind) :=
  let raw := c.attrs.map (fun a => (a, AKind.any)) ++ c.attrsTyped ++
    (match c.overflow with | some o => [(o, AKind.dict)] | none => [])
  let keys := dedup (raw.map (·.1))
  keys.map (fun k => (k, ((raw.reverse.find? (fun p => p.1 == k)).map (·.2)).getD .any))

/-- `spec_class.__init__` raises ValueError for a private name in `self.attrs` -/
def ctorCheck (c : Cls) : Bool := (extraAttrs c).all (fun p => !isPrivate p.1)

/-- `self.inherit_annotations` -/
def inheritAnnotations (c : Cls) : Bool :=
  !(!c.attrs.isEmpty || !c.attrsTyped.isEmpty) || c.attrsSkip.isSome

/-- `managed_attrs` of `bootstrap` as the keys of the dict built from it (first occurrence wins) -/
def managedAttrs (c : Cls) : List Name :=
  let fromAnn := if inheritAnnotations c then
      (c.annots.map (·.1)).filter (fun a => !isPrivate a && !((c.attrsSkip.getD []).contains a))
    else []
  dedup (fromAnn ++ (extraAttrs c).map (·.1))

/-- the type used for a managed attribute: the decorator's, unless that is `Any`; then the annotation -/
def attrKind (c : Cls) (a : Name) : AKind :=
  match (extraAttrs c).find? (fun p => p.1 == a) with
  | some (_, k) => if k != .any then k else
      (((c.annots.find? (fun p => p.1 == a)).map (·.2)).getD .any)
  | none => ((c.annots.find? (fun p => p.1 == a)).map (·.2)).getD .any

structure AttrInfo where
  name : Name
  kind : AKind
  item : Name        -- current `item_name`
  owned : Bool       -- `owner is spec_cls`
  helpers : Bool     -- `helpers=False` for a key attribute that is not managed
  deriving DecidableEq, Repr

/-- `metadata.attrs` after the updates of `bootstrap`, before the collision loop:
inherited attributes keep their position (replaced in place when the class
manages the same name), new ones follow, then the unmanaged key attribute. -/
def mergedAttrs (singular : Name → Option Name) (c : Cls) : List AttrInfo :=
  let own := managedAttrs c
  let mk (a : Name) : AttrInfo := ⟨a, attrKind c a, itemName0 singular a, true, true⟩
  let inh := c.inherited.map (fun i =>
    if own.contains i.name then mk i.name else ⟨i.name, i.kind, i.item, false, true⟩)
  let fresh := (own.filter (fun a => !(c.inherited.map (·.name)).contains a)).map mk
  let base := inh ++ fresh
  match c.key with
  | some k => if (base.map (·.name)).contains k then base
              else base ++ [⟨k, attrKind c k, itemName0 singular k, true, false⟩]
  | none => base

/-- the collision loop of `bootstrap` (`item_names` is `taken`) -/
def resolveGo (attrNames : List Name) : List AttrInfo → List Name → Except Err (List AttrInfo)
  | [], _ => .ok []
  | a :: rest, taken =>
    if !a.kind.isCollection then
      match resolveGo attrNames rest taken with
      | .ok r => .ok (a :: r)
      | .error e => .error e
    else
      let collide := attrNames.contains a.item || taken.contains a.item
      let fb := a.name ++ itemSuffix
      if collide && (attrNames.contains fb || taken.contains fb) then .error .runtimeError
      else
        let it := if collide then fb else a.item
        match resolveGo attrNames rest (taken ++ [it]) with
        | .ok r => .ok ({ a with item := it } :: r)
        | .error e => .error e

def resolveItems (as : List AttrInfo) : Except Err (List AttrInfo) :=
  resolveGo (as.map (·.name)) as []

/-! ## generated methods -/

def scalarHelpers (a : AttrInfo) : List (Name × GenId) :=
  scalarPrefixes.map (fun p => (p ++ a.name, GenId.scalar p a.name))

def elemHelpers (a : AttrInfo) : List (Name × GenId) :=
  if a.kind.isCollection then elemPrefixes.map (fun p => (p ++ a.item, GenId.elem p a.name)) else []

/-- `attr_spec.helper_methods` with their `method_name`s -/
def helperNames (a : AttrInfo) : List (Name × GenId) :=
  if a.helpers then scalarHelpers a ++ elemHelpers a else []

def toplevel : List (Name × GenId) :=
  [(nUpdate, .top nUpdate), (nTransform, .top nTransform), (nReset, .top nReset)]

/-- `get_methods_for_spec_class` before the top-level helpers: built functions -/
def coreMethods (c : Cls) : List (Name × GenId) :=
  (if c.init then [(nInit, GenId.core nInit)] else []) ++
  (if c.repr then [(nRepr, GenId.core nRepr)] else []) ++
  (if c.eq then [(nEq, GenId.core nEq)] else []) ++
  [(nScInit, .core nInit), (nScRepr, .core nRepr), (nScEq, .core nEq),
   (nGetattr, .core nGetattr), (nSetattr, .core nSetattr), (nDelattr, .core nDelattr),
   (nDeepcopy, .core nDeepcopy)]

/-- `methods[name] = m` on an insertion-ordered dict -/
def dictSet {β : Type} (d : List (Name × β)) (n : Name) (v : β) : List (Name × β) :=
  if d.any (fun p => p.1 == n) then d.map (fun p => if p.1 == n then (n, v) else p)
  else d ++ [(n, v)]

def dictGet {β : Type} (d : List (Name × β)) (n : Name) : Option β :=
  (d.find? (fun p => p.1 == n)).map (·.2)

def hasKey {β : Type} (d : List (Name × β)) (n : Name) : Bool := d.any (fun p => p.1 == n)

/-- the helper descriptors of the attributes this class owns, in creation order -/
def ownedHelpers (as : List AttrInfo) : List (Name × GenId) :=
  (as.filter (·.owned)).flatMap helperNames

def tableStart (c : Cls) : List (Name × Val) :=
  (coreMethods c).map (fun p => (p.1, Val.built p.2)) ++ toplevel.map (fun p => (p.1, Val.lazy p.2))

/-- the `methods` dict handed to `register_methods`: `methods[method.method_name] = method`
in sequence (a later assignment to the same key wins, the key keeps its place) -/
def methodTable (c : Cls) (as : List AttrInfo) : List (Name × Val) :=
  (ownedHelpers as).foldl (fun t p => dictSet t p.1 (Val.lazy p.2)) (tableStart c)

/-- `register_method(spec_cls, name, method)` -/
def register (d : Dict) (n : Name) (v : Val) : Dict :=
  if hasKey d n && !isReserved n then d else dictSet d n v

/-- `build_attr_spec`: a declaration found under a managed name is replaced by its default -/
def consumeDecls (managed : List Name) (es : List (Name × Entry)) : Dict :=
  es.map (fun p =>
    (p.1, if managed.contains p.1 && p.2.isDecl then Val.dflt p.2.declDefault else Val.user p.2))

/-- the attribute names `build_attr_spec` is called for -/
def specNames (c : Cls) : List Name :=
  managedAttrs c ++ (match c.key with | some k => [k] | none => [])

structure Decorated where
  dict : Dict
  attrs : List AttrInfo
  deriving Repr

/-- `spec_class(...)(cls)` with immediate bootstrap -/
def decorate (singular : Name → Option Name) (c : Cls) : Except Err Decorated :=
  if !ctorCheck c then .error .valueError
  else
    match resolveItems (mergedAttrs singular c) with
    | .error e => .error e
    | .ok as =>
      let d0 := consumeDecls (specNames c) c.entries
      .ok { dict := (methodTable c as).foldl (fun d p => register d p.1 p.2) d0, attrs := as }

/-- first access of the name: a lazy descriptor replaces itself by the built function -/
def dissolve (d : Dict) (n : Name) : Dict :=
  match dictGet d n with
  | some (.lazy g) => d.map (fun p => if p.1 == n then (n, Val.built g) else p)
  | _ => d

/-! ## lazy bootstrap

`spec_class.__call__` without `bootstrap=True` installs placeholders; every
"use" of the class (instantiation through the `__new__` wrapper, reading
`__spec_class__`, reading `__dataclass_fields__`) runs `bootstrap_once`, which
bootstraps iff the placeholder is still there. `bootstrap` publishes the
metadata only after the collision loop, so a bootstrap that raises leaves the
placeholder in place and the next use runs it again. -/

inductive LazyState
  | pending                     -- `__spec_class__` is still the placeholder
  | done (d : Decorated)
  deriving Repr

/-- one use of a lazily decorated class -/
def lazyUse (singular : Name → Option Name) (c : Cls) : LazyState → LazyState × Except Err Unit
  | .pending =>
    match decorate singular c with
    | .ok d => (.done d, .ok ())
    | .error e => (.pending, .error e)
  | .done d => (.done d, .ok ())

/-- `n` uses in a row, with their outcomes -/
def lazyUses (singular : Name → Option Name) (c : Cls) : Nat → LazyState → LazyState × List (Except Err Unit)
  | 0, st => (st, [])
  | n + 1, st =>
    let r := lazyUse singular c st
    let rest := lazyUses singular c n r.1
    (rest.1, r.2 :: rest.2)

/-! ## inheritance chains

A class derived from a decorated class starts from a copy of that class's
`__spec_class__.attrs` (`SpecClassMetadata.for_class`): names, types and the
CURRENT item names, whoever registered them and however many levels up. An
undecorated class in between hands them through unchanged. -/

/-- what a class derived from a decorated class inherits from it -/
def inheritedOf (d : Decorated) : List Inherited :=
  d.attrs.map (fun a => ⟨a.name, a.kind, a.item⟩)

/-- a linear chain of spec classes decorated root first: every class inherits the
attributes of the one before it (the `inherited` field of the descriptions is
overwritten). Any depth. -/
def decorateChain (singular : Name → Option Name) : List Inherited → List Cls → Except Err (List Decorated)
  | _, [] => .ok []
  | inh, c :: cs =>
    match decorate singular { c with inherited := inh } with
    | .error e => .error e
    | .ok d =>
      match decorateChain singular (inheritedOf d) cs with
      | .error e => .error e
      | .ok ds => .ok (d :: ds)

/-! ## the spec-class parent -/

/-- helper names the parent registered for the attributes the child does not
re-manage (they stay reachable on the child unless the child shadows them) -/
def parentHelpers (c : Cls) : List (Name × GenId) :=
  (c.inherited.filter (fun i => !(managedAttrs c).contains i.name)).flatMap (fun i =>
    helperNames ⟨i.name, i.kind, i.item, false, true⟩)

/-- names the decorated child registered that hide a parent helper of ANOTHER attribute -/
def shadowedParentHelpers (c : Cls) (d : Decorated) : List Name :=
  (parentHelpers c).filterMap (fun ph =>
    match dictGet d.dict ph.1 with
    | some (.lazy g) =>
      (match g, ph.2 with
       | .scalar _ a, .scalar _ b => if a == b then none else some ph.1
       | .elem _ a, .elem _ b => if a == b then none else some ph.1
       | _, _ => some ph.1)
    | _ => none)

/-- inherited collections whose helpers are no longer reachable under their CURRENT item name -/
def renamedInherited (c : Cls) (d : Decorated) : List Name :=
  (d.attrs.filter (fun a => !a.owned && a.kind.isCollection &&
      !(c.inherited.any (fun i => i.name == a.name && i.item == a.item)))).map (·.name)

end SpecVerif.C16
