import SpecVerif.Model.Py
/-!
# C17 — Impl model of `spec_classes.utils.method_builder.MethodBuilder`
and of the wrapper it synthesises with `exec`

Mirrors `method_builder.py`:

* `withArg`            — `MethodBuilder.with_arg` (ordering checks, the implicit
                         `**kwargs` collector appended when the first virtual
                         argument arrives, `check_attrs_match_sig`)
* `withSpecAttrsFor`   — `with_spec_attrs_for` / `with_args` (virtual keyword per
                         init-enabled attribute of the nested class that is not
                         already a parameter and is not the overflow attribute;
                         then a virtual `**overflow`)
* `advertised`         — `_signature_virtual` (what `__signature__` shows)
* `compiled`           — the parameter list of the `def` text built by
                         `_method_signature_to_definition_str` (no `/` marker is
                         ever emitted, so a positional-only parameter is compiled
                         as positional-or-keyword)
* `checkCompatible`    — `_check_signature_compatible_with_implementation`
* `wrapper`/`wrapperWith` — what the `exec`'d text does: Python binds the call
                         against the compiled parameters, `validate_attrs(kwargs)`
                         runs, then `implementation(<forwarded>)` is evaluated
* `forwardCall`        — `_method_signature_to_implementation_call`
* `recipe`/`builderFor`— the `with_arg` sequence of every `build_method` in
                         `methods/{core,scalar,toplevel}.py`, `methods/collections/*.py`

`pyBind` is Python's argument binding (trusted fragment; the correspondence
run tests it against `inspect.Signature.bind` and against real calls).
Every failure of binding is a `TypeError`, so acceptance is a Boolean
(`acceptsB`) and the bound values are a total function of the call (`boundOf`).

Values are abstract (`α`); `Arg.dflt n` stands for "the default object of
parameter `n`" (`DEFAULTS["n"]` in the generated text).
-/
namespace SpecVerif.C17
open SpecVerif.Py

abbrev Name := String

inductive Kind
  | posOnly | posOrKw | varPos | kwOnly | varKw
  deriving DecidableEq, Repr, Inhabited

/-- `inspect._ParameterKind.value` -/
def Kind.value : Kind → Nat
  | .posOnly => 0 | .posOrKw => 1 | .varPos => 2 | .kwOnly => 3 | .varKw => 4

/-- can be filled from the positional arguments -/
def Kind.isPositional : Kind → Bool
  | .posOnly => true | .posOrKw => true | _ => false
/-- can be filled by a keyword argument -/
def Kind.isNamed : Kind → Bool
  | .posOrKw => true | .kwOnly => true | _ => false
def Kind.isVar : Kind → Bool
  | .varPos => true | .varKw => true | _ => false

structure Param where
  name : Name
  kind : Kind
  hasDefault : Bool
  deriving DecidableEq, Repr, Inhabited

abbrev Sig := List Param

def names (s : Sig) : List Name := s.map (·.name)
def posNames (s : Sig) : List Name := (s.filter (·.kind.isPositional)).map (·.name)
def namedNames (s : Sig) : List Name := (s.filter (·.kind.isNamed)).map (·.name)
def hasVarPos (s : Sig) : Bool := s.any (·.kind == .varPos)
def hasVarKw (s : Sig) : Bool := s.any (·.kind == .varKw)

/-! ## Python argument binding -/

structure Call (α : Type) where
  pos : List α
  kw : List (Name × α)
  deriving Repr

variable {α : Type}

def Call.kwNames (c : Call α) : List Name := c.kw.map (·.1)

def kwGet (kw : List (Name × α)) (n : Name) : Option α :=
  (kw.find? (fun p => p.1 == n)).map (·.2)

/-- names of the parameters filled by the positional arguments -/
def takenPos (s : Sig) (c : Call α) : List Name := (posNames s).take c.pos.length

def nodupB : List Name → Bool
  | [] => true
  | x :: xs => !xs.contains x && nodupB xs

/-- the parameter receives a value from the call -/
def filled (s : Sig) (c : Call α) (p : Param) : Bool :=
  (takenPos s c).contains p.name || (p.kind.isNamed && c.kwNames.contains p.name)

/-- Python accepts the call for a function with parameters `s`:
 not too many positionals, no repeated keyword, every keyword names a
 keyword-capable parameter that was not already filled positionally (or there
 is a `**` collector), and every parameter without default is filled. -/
def acceptsB (s : Sig) (c : Call α) : Bool :=
  (decide (c.pos.length ≤ (posNames s).length) || hasVarPos s)
  && nodupB c.kwNames
  && c.kwNames.all (fun k =>
        if (namedNames s).contains k then !(takenPos s c).contains k else hasVarKw s)
  && s.all (fun p => p.kind.isVar || p.hasDefault || filled s c p)

/-- a value that reaches a parameter: given by the caller, or the parameter's default -/
inductive Arg (α : Type)
  | val (v : α)
  | dflt (n : Name)
  deriving DecidableEq, Repr

inductive BVal (α : Type)
  | one (a : Arg α)
  | star (vs : List α)
  | dstar (kvs : List (Name × α))
  deriving Repr

/-- value given positionally to the parameter called `n` -/
def posVal (s : Sig) (c : Call α) (n : Name) : Option α :=
  match (posNames s).findIdx? (· == n) with
  | some i => c.pos[i]?
  | none => none

def argOf (s : Sig) (c : Call α) (p : Param) : Arg α :=
  match posVal s c p.name with
  | some v => .val v
  | none =>
    match (if p.kind.isNamed then kwGet c.kw p.name else none) with
    | some v => .val v
    | none => .dflt p.name

/-- keywords that match no keyword-capable parameter (the content of `**kw`) -/
def extraKw (s : Sig) (c : Call α) : List (Name × α) :=
  c.kw.filter (fun p => !(namedNames s).contains p.1)

/-- positionals beyond the positional parameters (the content of `*args`) -/
def extraPos (s : Sig) (c : Call α) : List α := c.pos.drop (posNames s).length

def bvalOf (s : Sig) (c : Call α) (p : Param) : BVal α :=
  match p.kind with
  | .varPos => .star (extraPos s c)
  | .varKw => .dstar (extraKw s c)
  | _ => .one (argOf s c p)

def boundOf (s : Sig) (c : Call α) : List (Name × BVal α) :=
  s.map (fun p => (p.name, bvalOf s c p))

/-- `inspect.Signature.bind` + `apply_defaults` / a real call of `def f(<s>)` -/
def pyBind (s : Sig) (c : Call α) : Except Err (List (Name × BVal α)) :=
  if acceptsB s c then .ok (boundOf s c) else .error .typeError

/-! ## `MethodBuilder` -/

structure Builder where
  args : Sig            -- `method_args`
  virt : Sig            -- `method_args_virtual`
  checkAttrs : Bool     -- `check_attrs_match_sig`
  deriving DecidableEq, Repr

/-- `MethodBuilder.__init__` -/
def Builder.init : Builder :=
  { args := [⟨"self", .posOrKw, false⟩], virt := [], checkAttrs := true }

structure ArgSpec where
  name : Name
  kind : Kind
  hasDefault : Bool
  virtual : Bool
  deriving DecidableEq, Repr

def ArgSpec.param (a : ArgSpec) : Param := ⟨a.name, a.kind, a.hasDefault⟩

/-- `list[-1].kind.value > min(kind.value, KEYWORD_ONLY.value)` (False on an empty list) -/
def orderViolation (l : Sig) (k : Kind) : Bool :=
  match l.getLast? with
  | some p => decide (p.kind.value > min k.value Kind.kwOnly.value)
  | none => false

/-- `MethodBuilder.with_arg(name, kind=…, default=…, virtual=…)` -/
def withArg (b : Builder) (a : ArgSpec) : Except Err Builder :=
  if a.virtual then
    if a.kind != .varKw && a.kind != .kwOnly then .error .runtimeError
    else if orderViolation b.virt a.kind then .error .runtimeError
    else .ok
      { args := if b.virt.isEmpty then b.args ++ [⟨"kwargs", .varKw, false⟩] else b.args
        virt := b.virt ++ [a.param]
        checkAttrs := if a.kind == .varKw then false else b.checkAttrs }
  else if orderViolation b.args a.kind then .error .runtimeError
  else .ok { b with args := b.args ++ [a.param] }

def withArgs (b : Builder) : List ArgSpec → Except Err Builder
  | [] => .ok b
  | a :: as =>
    match withArg b a with
    | .ok b' => withArgs b' as
    | .error e => .error e

/-- builders produced by some successful `with_arg` sequence -/
inductive Reachable : Builder → Prop
  | init : Reachable Builder.init
  | step {b b' : Builder} (a : ArgSpec) : Reachable b → withArg b a = .ok b' → Reachable b'

/-- the nested spec class as `with_spec_attrs_for` sees it -/
structure NAttr where
  name : Name
  init : Bool
  deriving DecidableEq, Repr

structure Nested where
  attrs : List NAttr          -- `__spec_class__.attrs` in order
  overflow : Option Name      -- `init_overflow_attr`
  deriving DecidableEq, Repr

def currentNames (b : Builder) : List Name := names b.args ++ names b.virt

/-- names that `with_spec_attrs_for` turns into virtual keywords -/
def nestedKw (b : Builder) (t : Nested) : List Name :=
  (t.attrs.filter (fun a =>
      a.init && !(currentNames b).contains a.name && !(t.overflow == some a.name))).map (·.name)

/-- the `with_arg` that `with_args(..., virtual=True)` issues per name (`default=` is always given) -/
def kwVirtual (k : Name) : ArgSpec := ⟨k, .kwOnly, true, true⟩

/-- `with_spec_attrs_for(spec_cls)` for a spec class (`with_args(..., virtual=True)`
then the virtual `**overflow`). `with_args` raises when a name is already a
parameter; `nestedKw` never contains one, so that branch is the `contains` test
kept here for fidelity. -/
def withSpecAttrsFor (b : Builder) (t : Nested) : Except Err Builder :=
  let ks := nestedKw b t
  if ks.any (fun k => (currentNames b).contains k) then .error .runtimeError
  else
    match withArgs b (ks.map kwVirtual) with
    | .error e => .error e
    | .ok b1 =>
      match t.overflow with
      | none => .ok b1
      | some o => withArg b1 ⟨o, .varKw, false, true⟩

/-- `_signature_virtual` when there are virtual arguments, else `_signature` -/
def advertised (b : Builder) : Sig :=
  if b.virt.isEmpty then b.args else b.args.dropLast ++ b.virt

def compileParam (p : Param) : Param :=
  if p.kind == .posOnly then { p with kind := .posOrKw } else p

/-- parameters of the `def` synthesised by `_method_signature_to_definition_str` -/
def compiled (b : Builder) : Sig := b.args.map compileParam

/-- `inspect.Signature(parameters)` accepts the list, and the `def` text compiles -/
def sigValidGo : Sig → Nat → Bool → Bool
  | [], _, _ => true
  | p :: ps, top, seenDefault =>
    if p.kind.value < top then false
    else if p.kind.isPositional && !p.hasDefault && seenDefault then false
    else sigValidGo ps p.kind.value (seenDefault || (p.kind.isPositional && p.hasDefault))

def countKind (s : Sig) (k : Kind) : Nat := (s.filter (·.kind == k)).length

/-- `inspect.Signature(parameters=s)` does not raise -/
def sigInspectOk (s : Sig) : Bool := sigValidGo s 0 false && nodupB (names s)

/-- the `def` text compiles: at most one `*args` and one `**kwargs` -/
def sigCompiles (s : Sig) : Bool :=
  decide (countKind s .varPos ≤ 1) && decide (countKind s .varKw ≤ 1)

def sigValid (s : Sig) : Bool := sigInspectOk s && sigCompiles s

/-- identifiers the generated text looks up as globals (since /repo 0ac9e19 private
names: no managed attribute can be called like that); a parameter of that name
would capture them (the value passed by the caller would then be *called*; the
model takes it to be a non-callable, i.e. `TypeError`) -/
def implName : Name := "_spec_classes_implementation"
def validateName : Name := "_spec_classes_validate_attrs"
def reservedNames : List Name := [implName, validateName]

def noCapture (b : Builder) : Bool := (names b.args).all (fun n => !reservedNames.contains n)

/-- `_check_signature_compatible_with_implementation(sig_method, sig_impl)` -/
def checkCompatible (m impl : Sig) : Bool :=
  impl.all (fun p => !(p.kind.isPositional && !p.hasDefault && !(names m).contains p.name))
  && m.all (fun p =>
      match p.kind with
      | .varPos => hasVarPos impl
      | .varKw => hasVarKw impl
      | k => (names impl).contains p.name || (k != .posOnly && hasVarKw impl))

/-- `MethodBuilder.build()` succeeds -/
def buildable (b : Builder) (impl : Sig) : Bool :=
  sigValid b.args && sigValid (advertised b) && checkCompatible b.args impl

/-- `.build()`: `Signature(...)` of both parameter lists (ValueError), the
compatibility check (RuntimeError), then `exec` of the text (SyntaxError) -/
def buildResult (b : Builder) (impl : Sig) : String :=
  if !(sigInspectOk b.args && sigInspectOk (advertised b)) then "BuildError"
  else if !checkCompatible b.args impl then "RuntimeError"
  else if !sigCompiles b.args then "BuildError"
  else "ok"

/-! ## The synthesised wrapper -/

/-- what arrives at `implementation(...)` -/
structure FCall (α : Type) where
  pos : List (Arg α)
  kw : List (Name × Arg α)
  deriving Repr

/-- `validate_attrs(kwargs)` passes -/
def validateAttrs (b : Builder) (kwargs : List (Name × α)) : Bool :=
  kwargs.all (fun p => (names b.virt).contains p.1)

/-- `implementation(<_method_signature_to_implementation_call(_signature)>)` -/
def forwardCall (b : Builder) (c : Call α) : FCall α :=
  let s := compiled b
  { pos := b.args.flatMap (fun p =>
      match p.kind with
      | .posOnly => [argOf s c (compileParam p)]
      | .varPos => (extraPos s c).map Arg.val
      | _ => [])
    kw := b.args.flatMap (fun p =>
      match p.kind with
      | .posOrKw => [(p.name, argOf s c p)]
      | .kwOnly => [(p.name, argOf s c p)]
      | .varKw => (extraKw s c).map (fun kv => (kv.1, Arg.val kv.2))
      | _ => []) }

/-- the generated method up to the point where the implementation is entered:
`.error` = TypeError raised by the wrapper itself (implementation never entered),
`.ok f` = the implementation is called with `f`. `gImpl`/`gValid` are the names
under which the text looks up the implementation and `validate_attrs`. -/
def wrapperWith (gImpl gValid : Name) (b : Builder) (c : Call α) : Except Err (FCall α) :=
  if !acceptsB (compiled b) c then .error .typeError
  else if !b.virt.isEmpty && b.checkAttrs
      && ((names b.args).contains gValid || !validateAttrs b (extraKw (compiled b) c)) then
    -- (a parameter called like the global would shadow it: the caller's value is "called")
    .error .typeError
  else if (names b.args).contains gImpl then
    .error .typeError
  else .ok (forwardCall b c)

/-- the wrapper of /repo HEAD -/
def wrapper (b : Builder) (c : Call α) : Except Err (FCall α) :=
  wrapperWith implName validateName b c

/-- the generated method run against an arbitrary (stateful) implementation -/
def runWrapper {σ ρ : Type} (b : Builder) (impl : FCall α → σ → σ × Except Err ρ)
    (c : Call α) (st : σ) : σ × Except Err ρ :=
  match wrapper b c with
  | .error e => (st, .error e)
  | .ok f => impl f st

/-- the forwarded call seen as an ordinary call (for binding against the implementation's parameters) -/
def FCall.toCall (f : FCall α) : Call (Arg α) := { pos := f.pos, kw := f.kw }

/-! ## The `with_arg` recipes of the generated methods -/

inductive MKind
  | init | update | transform | reset
  | withAttr | updateAttr | transformAttr | resetAttr
  | withSeq | updateSeq | transformSeq | withoutSeq
  | withMap | updateMap | transformMap | withoutMap
  | withSet | updateSet | transformSet | withoutSet
  deriving DecidableEq, Repr

structure MethodCfg where
  kind : MKind
  key : Option (Name × Bool)     -- constructor only: key attribute and whether it has a default
  nested : Option Nested         -- the class handed to `with_spec_attrs_for` when it is a spec class
  deriving Repr

def pk (n : Name) (d : Bool) : ArgSpec := ⟨n, .posOrKw, d, false⟩
def ko (n : Name) : ArgSpec := ⟨n, .kwOnly, true, false⟩
def tail2 : List ArgSpec := [ko "_inplace", ko "_if"]

/-- the non-virtual `with_arg` calls of each `build_method`, in order -/
def recipe (m : MethodCfg) : List ArgSpec :=
  let sp := m.nested.isSome
  match m.kind with
  | .init => (match m.key with | some (k, d) => [pk k d] | none => [])
  | .update => pk "_new_value" true :: tail2
  | .transform => pk "_transform" true :: tail2
  | .reset => tail2
  | .withAttr => pk "_new_value" true :: tail2
  | .updateAttr => pk "_new_value" sp :: tail2
  | .transformAttr => pk "_transform" sp :: tail2
  | .resetAttr => tail2
  | .withSeq => [pk "_item" true, ko "_index", ko "_insert"] ++ tail2
  | .updateSeq => [pk "_value_or_index" false, pk "_new_item" true, ko "_by_index"] ++ tail2
  | .transformSeq => [pk "_value_or_index" false, pk "_transform" sp, ko "_by_index"] ++ tail2
  | .withoutSeq => [pk "_value_or_index" false, ko "_by_index"] ++ tail2
  | .withMap => [pk "_key" false, pk "_value" sp] ++ tail2
  | .updateMap => [pk "_key" false, pk "_new_item" sp] ++ tail2
  | .transformMap => [pk "_key" false, pk "_transform" sp] ++ tail2
  | .withoutMap => pk "_key" false :: tail2
  | .withSet => pk "_item" sp :: tail2
  | .updateSet => [pk "_item" false, pk "_new_item" sp] ++ tail2
  | .transformSet => [pk "_item" false, pk "_transform" sp] ++ tail2
  | .withoutSet => pk "_item" false :: tail2

/-- does the `build_method` call `with_spec_attrs_for` at all -/
def MKind.takesNested : MKind → Bool
  | .reset | .resetAttr | .withoutSeq | .withoutMap | .withoutSet => false
  | _ => true

/-- the builder each `build_method` assembles -/
def builderFor (m : MethodCfg) : Except Err Builder :=
  match withArgs Builder.init (recipe m) with
  | .error e => .error e
  | .ok b =>
    match m.nested with
    | some t => if m.kind.takesNested then withSpecAttrsFor b t else .ok b
    | none => .ok b

end SpecVerif.C17
