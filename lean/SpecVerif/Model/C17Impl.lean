import SpecVerif.Model.C17
/-!
# C17 — Impl model of the two implementations behind the generated methods whose
keywords name attributes of the class itself

`Model/C17.lean` stops where the synthesised wrapper enters the implementation
(`wrapper b c = .ok f`).  "Every advertised keyword … reaches the underlying
behaviour with the value given" continues *inside* the implementation; this file
models the two implementations that receive the class's own attribute keywords:

* `updateImpl`   — `methods/toplevel.py: UpdateMethod.update` together with the
                   fragment of `utils/mutation.py: mutate_value` it uses
                   (`new_value`, `attrs`, `inplace`): `_if`, `UNCHANGED`, choice of
                   the base value (replacement or receiver), copy unless in place,
                   then one `setattr` per attribute keyword (`MISSING` skipped);
* `initImpl`     — `methods/core.py: InitMethod.init`: the loop over
                   `reversed(spec_cls.mro()[1:])` that hands to the constructor of
                   every spec-class ancestor the keywords of the attributes it owns
                   (popping them from `kwargs`, passing the instance's default when
                   the keyword is absent, `key=MISSING`), the parent constructor
                   called on a subclass instance (binding against its advertised
                   signature, then only the loop over the attributes it owns), the
                   loop over the attributes owned by the class itself, and the
                   collection of the remaining keywords into the overflow attribute.

Values stay abstract (`α`); what a value *is* for the library is read through
`Env` (is it one of the sentinels, is it truthy, which attributes does it hold).
-/
namespace SpecVerif.C17
open SpecVerif.Py

variable {α β : Type}

/-! ## attribute dictionaries -/

/-- `obj.__dict__` restricted to what matters here -/
abbrev Fields (β : Type) := List (Name × β)

/-- `setattr(obj, k, v)`: replaces the entry of `k`, or appends one (a dict: one entry per key) -/
def setField : Fields β → Name → β → Fields β
  | [], k, v => [(k, v)]
  | (k', v') :: rest, k, v => if k' == k then (k, v) :: rest else (k', v') :: setField rest k v

def getField (fs : Fields β) (k : Name) : Option β := kwGet fs k

/-! ## what the library sees in a caller-supplied value -/

inductive Sent
  | plain | missing | empty | unchanged
  deriving DecidableEq, Repr, Inhabited

structure Env (α : Type) where
  sent : α → Sent            -- `v is MISSING` / `EMPTY` / `UNCHANGED`
  truthy : α → Bool          -- `bool(v)`
  fieldsOf : α → Fields α    -- the attributes of `v` when it is a spec-class instance

/-! ## `UpdateMethod.update` -/

/-- the implementation's own parameters; every other forwarded keyword lands in `**attrs` -/
def updateParams : List Name := ["self", "_new_value", "_inplace", "_if"]

/-- which Python object the method returns -/
inductive Src
  | self | newValue | copyOfSelf | copyOfNew
  deriving DecidableEq, Repr, Inhabited

def Src.copy : Src → Src
  | .self => .copyOfSelf
  | .newValue => .copyOfNew
  | s => s

structure UpdRes (α : Type) where
  src : Src
  fields : Fields α
  deriving Repr

/-- `bool(arg)`; `dflt` is the truth value of the parameter's default object -/
def argTruthy (E : Env α) (dflt : Bool) : Option (Arg α) → Bool
  | some (.val v) => E.truthy v
  | _ => dflt

/-- `for attr, attr_value in attrs.items(): if attr_value is not MISSING: setattr(value, attr, attr_value)`
(`setattr` on a spec-class instance goes through `mutate_attr`, which ignores `EMPTY`/`UNCHANGED` too) -/
def applyAttrs (E : Env α) (fs : Fields α) : List (Name × Arg α) → Fields α
  | [] => fs
  | (k, .val v) :: rest => applyAttrs E (if E.sent v == .plain then setField fs k v else fs) rest
  | (_, .dflt _) :: rest => applyAttrs E fs rest

/-- step 5 of `mutate_value`: nothing to set — the base object itself; otherwise a copy (unless in
place) with one `setattr` per attribute keyword -/
def finishUpd (E : Env α) (attrs : List (Name × Arg α)) (inplace : Bool) (src : Src) (base : Fields α) :
    UpdRes α :=
  if attrs.isEmpty then ⟨src, base⟩
  else ⟨if inplace then src else src.copy, applyAttrs E base attrs⟩

/-- steps 1 and 5 of `mutate_value(old_value=self, new_value=…, attrs=…, inplace=…)` -/
def mutateValue (E : Env α) (selfFields : Fields α) (nv : Option (Arg α))
    (attrs : List (Name × Arg α)) (inplace : Bool) : UpdRes α :=
  match nv with
  | some (.val v) =>
    match E.sent v with
    | .unchanged => ⟨.self, selfFields⟩
    | .plain => finishUpd E attrs inplace .newValue (E.fieldsOf v)
    | _ => finishUpd E attrs inplace .self selfFields
  | _ => finishUpd E attrs inplace .self selfFields

/-- `update(self, _new_value=MISSING, *, _inplace=False, _if=True, **attrs)` entered with the forwarded call `f` -/
def updateImpl (E : Env α) (selfFields : Fields α) (f : FCall α) : UpdRes α :=
  let attrs := f.kw.filter (fun kv => !updateParams.contains kv.1)
  if !argTruthy E true (kwGet f.kw "_if") then ⟨.self, selfFields⟩
  else mutateValue E selfFields (kwGet f.kw "_new_value") attrs (argTruthy E false (kwGet f.kw "_inplace"))

/-- the receiver's attributes after the call -/
def UpdRes.selfAfter (r : UpdRes α) (selfFields : Fields α) : Fields α :=
  if r.src == .self then r.fields else selfFields

/-- the replacement's attributes after the call -/
def UpdRes.newAfter (r : UpdRes α) (newFields : Fields α) : Fields α :=
  if r.src == .newValue then r.fields else newFields

/-- the generated `update` from the caller's side: wrapper, then implementation -/
def runUpdate (E : Env α) (b : Builder) (selfFields : Fields α) (c : Call α) : Except Err (UpdRes α) :=
  match wrapper b c with
  | .error e => .error e
  | .ok f => .ok (updateImpl E selfFields f)

/-! ## `InitMethod.init` -/

/-- a value inside the constructor: the caller's, `MISSING`, or "the default of attribute `n`
as looked up for the instance's class" -/
inductive IVal (α : Type)
  | given (v : α)
  | missing
  | dflt (n : Name)
  deriving DecidableEq, Repr

/-- one entry of `instance_metadata.attrs` -/
structure CAttr where
  name : Name
  init : Bool
  owner : Nat            -- 0 = the instantiated spec class, otherwise `Ancestor.id`
  hasDefault : Bool      -- `lookup_default_value(type(self))` is not `MISSING`
  deriving DecidableEq, Repr

/-- one entry of `spec_cls.mro()[1:]` -/
structure Ancestor where
  id : Nat
  isSpec : Bool          -- `"__spec_class__" in parent.__dict__`
  attrs : List Name      -- `parent_metadata.attrs`
  key : Option Name      -- `parent_metadata.key`
  ctor : Sig             -- advertised signature of the parent's generated constructor
  deriving Repr

structure InitCfg where
  attrs : List CAttr
  overflow : Option Name          -- `instance_metadata.init_overflow_attr`
  ancestors : List Ancestor       -- nearest first
  deriving Repr

def findAttr (cfg : InitCfg) (n : Name) : Option CAttr := cfg.attrs.find? (fun a => a.name == n)

/-- `attr_spec.init and attr != init_overflow_attr` -/
def initable (cfg : InitCfg) (a : CAttr) : Bool := a.init && !(cfg.overflow == some a.name)

/-- the attribute called `n` is handed to the constructor of ancestor `p`
(`instance_metadata.attrs[n]` raises `KeyError` when absent; well-formed hierarchies never get there) -/
def handed (cfg : InitCfg) (p : Ancestor) (n : Name) : Bool :=
  match findAttr cfg n with
  | some a => a.owner == p.id && initable cfg a
  | none => false

/-- `parent_kwargs` -/
def parentKwargs (cfg : InitCfg) (p : Ancestor) (kwargs : Fields (IVal α)) : Fields (IVal α) :=
  let base := p.attrs.filterMap (fun n =>
    if handed cfg p n then
      match kwGet kwargs n with
      | some v => some (n, v)
      | none => if (findAttr cfg n).any (·.hasDefault) then some (n, IVal.dflt n) else none
    else none)
  match p.key with
  | some k => if (base.map (·.1)).contains k then base else base ++ [(k, IVal.missing)]
  | none => base

/-- `kwargs` after the `kwargs.pop(attr)` of that parent -/
def remaining (cfg : InitCfg) (p : Ancestor) (kwargs : Fields (IVal α)) : Fields (IVal α) :=
  kwargs.filter (fun kv => !(p.attrs.contains kv.1 && handed cfg p kv.1))

/-- body of `for attr, attr_spec in instance_metadata.attrs.items()` for `spec_cls` = `owner` -/
def storeVal (cfg : InitCfg) (owner : Nat) (kwargs : Fields (IVal α)) (a : CAttr) : Option (IVal α) :=
  if !initable cfg a || a.owner != owner then none      -- `continue`
  else
    match kwGet kwargs a.name with
    | some (.given v) => some (.given v)
    | some (.dflt n) => some (.dflt n)                  -- (the instance default a child handed down)
    | _ => if a.hasDefault then some (.dflt a.name) else none   -- `lookup_default_value(type(self))`

def storeOne (cfg : InitCfg) (owner : Nat) (kwargs : Fields (IVal α)) (fs : Fields (IVal α))
    (a : CAttr) : Fields (IVal α) :=
  match storeVal cfg owner kwargs a with
  | some x => setField fs a.name x                      -- `self.__setattr__(attr, value, force=True, …)`
  | none => fs

def ownLoop (cfg : InitCfg) (owner : Nat) (kwargs : Fields (IVal α)) (fs : Fields (IVal α)) :
    Fields (IVal α) :=
  cfg.attrs.foldl (storeOne cfg owner kwargs) fs

/-- `for parent in reversed(spec_cls.mro()[1:])` (the list given is already reversed): returns the
instance's attributes and what is left of `kwargs`. A parent constructor called on an instance of
a subclass binds `parent_kwargs` against its advertised signature (`accepts_iff_advertised`), skips
its own ancestor loop and finalisation, and runs `ownLoop` for the attributes it owns. -/
def parentsLoop (cfg : InitCfg) : List Ancestor → Fields (IVal α) → Fields (IVal α) →
    Except Err (Fields (IVal α) × Fields (IVal α))
  | [], fs, kw => .ok (fs, kw)
  | p :: rest, fs, kw =>
    if !p.isSpec then parentsLoop cfg rest fs kw
    else
      let pkw := parentKwargs cfg p kw
      if !acceptsB p.ctor ⟨[IVal.missing], pkw⟩ then .error .typeError
      else parentsLoop cfg rest (ownLoop cfg p.id pkw fs) (remaining cfg p kw)

structure InitRes (α : Type) where
  fields : Fields (IVal α)
  overflow : Option (Fields (IVal α))     -- content of the overflow attribute when the class has one
  deriving Repr

/-- goes into the overflow attribute: `key not in attrs or not attrs[key].init or key == overflow` -/
def overflows (cfg : InitCfg) (n : Name) : Bool :=
  match findAttr cfg n with
  | some a => !a.init || cfg.overflow == some n
  | none => true

/-- `InitMethod.init(spec_cls, self, **kwargs)` for `spec_cls = type(self).__spec_class__.owner` on a fresh instance -/
def initImpl (cfg : InitCfg) (kwargs : Fields (IVal α)) : Except Err (InitRes α) :=
  match parentsLoop cfg cfg.ancestors.reverse [] kwargs with
  | .error e => .error e
  | .ok (fs, kw) =>
    .ok ⟨ownLoop cfg 0 kw fs, cfg.overflow.map (fun _ => kw.filter (fun kv => overflows cfg kv.1))⟩

/-- a forwarded value as the constructor sees it (`Arg.dflt` can only be the key's default, `MISSING`) -/
def toIVal (E : Env α) : Arg α → IVal α
  | .val v => if E.sent v == .missing then .missing else .given v
  | .dflt _ => .missing

/-- `**kwargs` of `init(spec_cls, self, **kwargs)` for the forwarded call -/
def toKwargs (E : Env α) (f : FCall α) : Fields (IVal α) :=
  (f.kw.filter (fun kv => kv.1 != "self")).map (fun kv => (kv.1, toIVal E kv.2))

/-- the generated constructor from the caller's side: wrapper, then implementation -/
def runInit (E : Env α) (b : Builder) (cfg : InitCfg) (c : Call α) : Except Err (InitRes α) :=
  match wrapper b c with
  | .error e => .error e
  | .ok f => initImpl cfg (toKwargs E f)

/-! ## well-formed hierarchies (Boolean, evaluated by the driver on every described hierarchy) -/

/-- the generated constructor of ancestor `p` takes what `parentKwargs` hands to it -/
def ctorOKB (cfg : InitCfg) (p : Ancestor) : Bool :=
  ((posNames p.ctor).head? == some "self")
  && p.attrs.all (fun n => !handed cfg p n || ((namedNames p.ctor).contains n && n != "self"))
  && (match p.key with
      | some k => (namedNames p.ctor).contains k && k != "self"
      | none => true)
  && p.ctor.all (fun q => q.kind.isVar || q.hasDefault || q.name == "self"
      || (p.key == some q.name && q.kind.isNamed))

def hierOKB (cfg : InitCfg) : Bool :=
  nodupB (cfg.attrs.map (·.name))
  && nodupB' (cfg.ancestors.map (·.id))
  && cfg.ancestors.all (fun p => p.id != 0 && nodupB p.attrs && (!p.isSpec || ctorOKB cfg p))
  && cfg.attrs.all (fun a => a.owner == 0 || !initable cfg a
      || cfg.ancestors.any (fun p => p.id == a.owner && p.isSpec && p.attrs.contains a.name))
where
  nodupB' : List Nat → Bool
    | [] => true
    | x :: xs => !xs.contains x && nodupB' xs

end SpecVerif.C17
