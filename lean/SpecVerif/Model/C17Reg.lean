import SpecVerif.Model.C17
/-!
# C17 — WHICH generated method a name resolves to (registration, lazy bootstrap, dissolving descriptors)

`Model/C17.lean` says what ONE generated method accepts, given the class it was built for. This file models
how a method gets onto a class and which one a lookup finds, mirroring

* `spec_class.__call__`            — immediate bootstrap, or lazy: the class is bootstrapped when its
                                     `__spec_class__` is first looked at / the first instance is made (`define`, `bootEv`)
* `spec_class.bootstrap`           — the spec classes the BASES resolve `__spec_class__` to are bootstrapped first
                                     (`hasattr(parent, "__spec_class__")`; a plain base resolves it along its own MRO),
                                     then `register_methods` (`ensureBoot`, `registerAll`)
* `spec_class.register_method`     — `if name in spec_cls.__dict__ and not name.startswith("__spec_class"): return`,
                                     else `setattr(spec_cls, name, method)` (`registerMethod`, `forced`)
* `get_methods_for_spec_class`     — `__init__` / `__spec_class_init__` are built functions (`eagerGen`), the toplevel
                                     and per-attribute helpers of the attributes the class OWNS are `MethodDescriptor`s
                                     (`lazyGen`)
* `MethodDescriptor.__get__`       — dissolves: `setattr(self.spec_cls, self.name, self.method)` — on the class the
                                     descriptor was attached to, whichever class it is reached through (`dissolve`);
                                     `self.method` BUILDS the method first, and `with_spec_attrs_for(T)` looks at
                                     `T.__spec_class__`: a lazily decorated nested type is bootstrapped by that (`looks`)
* Python attribute lookup          — first class of the MRO whose `__dict__` has the name (`lookupFrom`), also for
                                     `super(K, instance).name` (`superMro`)

Classes are numbers; a `World` describes every class (decorated or plain, lazy or not, bases, MRO, the names the
bootstrap generates for it, the names written by hand in its body). The state is the `__dict__` of every class
restricted to method names, plus which classes exist and which are bootstrapped.
-/
namespace SpecVerif.C17.Reg
open SpecVerif.C17

/-- what a class `__dict__` holds under a method name -/
inductive Entry
  | desc (owner : Nat)     -- an undissolved `MethodDescriptor` whose `.spec_cls` is `owner`
  | fn (owner : Nat)       -- the function the generator built for class `owner`
  | hand                   -- a method written by hand in the class body
  deriving DecidableEq, Repr

structure RCls where
  spec : Bool              -- decorated with `@spec_class`
  lazyBoot : Bool          -- `bootstrap=False` (the default): bootstrapped on first look / first instance
  bases : List Nat
  mro : List Nat           -- `cls.__mro__` without `object` (the class itself first)
  hand : List Name         -- methods written in the class body
  eagerGen : List Name     -- registered as built functions (`__init__`, `__spec_class_init__`)
  lazyGen : List Name      -- registered as `MethodDescriptor`s (toplevel helpers, helpers of OWNED attributes)
  looks : List (Name × Nat) := []   -- BUILDING the method of that name looks at `T.__spec_class__` of that class
                                    -- (`with_spec_attrs_for(T)`: the nested spec type of the attribute) — which bootstraps T
  deriving Repr, Inhabited

abbrev World := Nat → RCls

structure RState where
  dict : Nat → Name → Option Entry
  defined : Nat → Bool
  booted : Nat → Bool

def RState.empty : RState := ⟨fun _ _ => none, fun _ => false, fun _ => false⟩

def setEntry (st : RState) (c : Nat) (n : Name) (e : Entry) : RState :=
  { st with dict := fun c' n' => if c' = c ∧ n' = n then some e else st.dict c' n' }

/-- `name.startswith("__spec_class")` -/
def forced (n : Name) : Bool := n.startsWith "__spec_class"

/-- `spec_class.register_method` -/
def registerMethod (st : RState) (c : Nat) (n : Name) (e : Entry) : RState :=
  if (st.dict c n).isSome && !forced n then st else setEntry st c n e

def regFold (st : RState) (c : Nat) (ns : List Name) (e : Entry) : RState :=
  ns.foldl (fun s n => registerMethod s c n e) st

/-- `register_methods(spec_cls, methods)`: core methods first, then the descriptors -/
def registerAll (W : World) (st : RState) (c : Nat) : RState :=
  regFold (regFold st c (W c).eagerGen (.fn c)) c (W c).lazyGen (.desc c)

/-- the class whose `__dict__` provides `__spec_class__` when it is looked up on `c` -/
def nearestSpec (W : World) (c : Nat) : Option Nat := (W c).mro.find? (fun k => (W k).spec)

def markBooted (st : RState) (c : Nat) : RState :=
  { st with booted := fun k => decide (k = c) || st.booted k }

/-- `bootstrap_once` / `spec_class.bootstrap` of class `c` (no-op when done, or when `c` is not a spec class) -/
def ensureBoot (W : World) : Nat → RState → Nat → RState
  | 0, st, _ => st
  | fuel + 1, st, c =>
    if !(W c).spec || st.booted c || !st.defined c then st else
    let st1 := (W c).bases.foldl (fun s p =>
      match nearestSpec W p with
      | some k => ensureBoot W fuel s k
      | none => s) st
    markBooted (registerAll W st1 c) c

/-- looking at `c.__spec_class__` (or making an instance of `c`) -/
def bootEv (W : World) (fuel : Nat) (st : RState) (c : Nat) : RState :=
  match nearestSpec W c with
  | some k => ensureBoot W fuel st k
  | none => st

/-- the `class` statement (+ decorator) of `c` is executed -/
def define (W : World) (fuel : Nat) (st : RState) (c : Nat) : RState :=
  if st.defined c then st else
  let st1 : RState :=
    { st with
      defined := fun k => decide (k = c) || st.defined k
      dict := fun k n => if k = c then (if (W c).hand.contains n then some .hand else none) else st.dict k n }
  if (W c).spec && !(W c).lazyBoot then ensureBoot W fuel st1 c else st1

/-- Python attribute lookup along an MRO -/
def lookupFrom (st : RState) : List Nat → Name → Option (Nat × Entry)
  | [], _ => none
  | k :: ks, n =>
    match st.dict k n with
    | some e => some (k, e)
    | none => lookupFrom st ks n

def resolve (W : World) (st : RState) (c : Nat) (n : Name) : Option (Nat × Entry) :=
  lookupFrom st (W c).mro n

/-- building method `n` of class `o`: the nested spec type it exposes is bootstrapped when it is not yet -/
def buildLooks (W : World) (fuel : Nat) (st : RState) (o : Nat) (n : Name) : RState :=
  match (W o).looks.find? (fun x => x.1 == n) with
  | some (_, t) => bootEv W fuel st t
  | none => st

/-- `MethodDescriptor.__get__`: the method is built, then the descriptor replaces itself, on ITS class, by it -/
def dissolve (W : World) (fuel : Nat) (st : RState) (n : Name) : Entry → RState
  | .desc o => setEntry (buildLooks W fuel st o n) o n (.fn o)
  | _ => st

/-- an attribute access through the given MRO: the new state, and what was found where -/
def accessVia (W : World) (fuel : Nat) (st : RState) (mro : List Nat) (n : Name) : RState × Option (Nat × Entry) :=
  match lookupFrom st mro n with
  | none => (st, none)
  | some (k, e) => (dissolve W fuel st n e, some (k, e))

/-- the classes `super(k, <instance of c>)` searches -/
def superMro (W : World) (c k : Nat) : List Nat := ((W c).mro.dropWhile (· ≠ k)).drop 1

inductive Ev
  | define (c : Nat)
  | boot (c : Nat)
  | get (c : Nat) (n : Name)           -- `getattr(C, name)` on the class (no bootstrap is triggered)
  | iget (c : Nat) (n : Name)          -- `getattr(C(), name)`
  | sget (c k : Nat) (n : Name)        -- `getattr(super(K, C()), name)`
  deriving Repr

def step (W : World) (fuel : Nat) (st : RState) : Ev → RState
  | .define c => define W fuel st c
  | .boot c => bootEv W fuel st c
  | .get c n => (accessVia W fuel st (W c).mro n).1
  | .iget c n => (accessVia W fuel (bootEv W fuel st c) (W c).mro n).1
  | .sget c k n => (accessVia W fuel (bootEv W fuel st c) (superMro W c k) n).1

/-- every state any history of class definitions, bootstraps and lookups can produce -/
inductive RReach (W : World) : RState → Prop
  | empty : RReach W RState.empty
  | step {st : RState} (h : RReach W st) (fuel : Nat) (e : Ev) : RReach W (step W fuel st e)

/-! ## what the lookup finds, up to "descriptor or already built" -/

inductive Own
  | gen (o : Nat)    -- the method the generator makes for class `o`
  | hand
  deriving DecidableEq, Repr

def Entry.own : Entry → Own
  | .desc o => .gen o
  | .fn o => .gen o
  | .hand => .hand

def genNames (r : RCls) : List Name := r.eagerGen ++ r.lazyGen

/-- what the `__dict__` of class `k` holds under `n`, as a function of WHICH classes exist / are bootstrapped only -/
def expected (W : World) (st : RState) (k : Nat) (n : Name) : Option Own :=
  if st.booted k && (genNames (W k)).contains n && (forced n || !(W k).hand.contains n) then some (.gen k)
  else if st.defined k && (W k).hand.contains n then some .hand
  else none

def lookupExp (W : World) (st : RState) : List Nat → Name → Option (Nat × Own)
  | [], _ => none
  | k :: ks, n =>
    match expected W st k n with
    | some o => some (k, o)
    | none => lookupExp W st ks n

def resolveOwn (W : World) (st : RState) (c : Nat) (n : Name) : Option (Nat × Own) :=
  (resolve W st c n).map fun ke => (ke.1, ke.2.own)

/-- the configuration of the method a lookup yields, when it is a generated one
(`cfgs o n` = the `MethodCfg` the generator uses for name `n` of class `o`) -/
def builtMethod (cfgs : Nat → Name → MethodCfg) (W : World) (st : RState) (c : Nat) (n : Name) : Option MethodCfg :=
  match resolveOwn W st c n with
  | some (_, .gen o) => some (cfgs o n)
  | _ => none

end SpecVerif.C17.Reg
