import SpecVerif.Model.Py
/-!
# C18 — Impl model of `spec_classes.types.alias.Alias` / `DeprecatedAlias`

Mirrors `alias.py` function by function.

* A **host object** is a tree (`Val`): instances are attribute maps
  (`obj decl fields`, `decl` = the attribute names the instance's class declares
  as `int` and therefore type-checks on assignment: empty for a plain class),
  `dict`s are string-keyed maps; leaves are ints, "not an int" scalars and lists.
* `loadSeg/storeSeg/dropSeg` are `getattr`/`[]`, `setattr`/`__setitem__`,
  `delattr`/`__delitem__` with CPython's exception classes.
* `lookup` is `functools.reduce` over the path; `assign`/`remove` act on the parent of
  the last segment (`modifyLast`); the pure tree is rebuilt on the way out, which is
  what in-place mutation of the parent object means for a tree without sharing.
* `aliasGet/aliasSet/aliasDelete` are `Alias.__get__/__set__/__delete__`;
  `instSet` is `instance.alias = v` (on a spec class the managed attribute is
  type-checked by `mutate_attr` *before* the descriptor is reached).
* `World`/`Op`/`step`/`run`: the instance under test plus the instances left
  behind by `deepcopy` and by copy-on-write helpers, so that "the original is not
  touched" is part of what the correspondence compares.
* `XCfg`/`HOp`/`hstep`/`XOp`/`xstep`/`xrun`: the generated helpers on the alias attribute of a
  spec class (`with_/update_/transform_/reset_<alias>`, copying or in place) as value
  computation (`computeValue` = `mutate_value`) followed by the type-checked assignment.
* `tokenize`/`parsePath`/`render…`: the language of `Alias.ATTR_PARSER` plus the
  join check of `_attr_path` as a hand-written tokenizer (ASCII).

Core Lean only.
-/
namespace SpecVerif.C18
open SpecVerif.Py

/-! ## Values and paths -/

inductive Seg
  | attr (n : String)
  | item (k : String)
  deriving DecidableEq, Repr, Inhabited

inductive Val
  | int (n : Int)
  | str (n : Nat)                                    -- a scalar that is not an `int`
  | lst (xs : List Int)                              -- a mutable list (used as fallback)
  | obj (decl : List String) (fs : List (String × Val))
  | dict (fs : List (String × Val))
  deriving Repr, Inhabited

abbrev Fields := List (String × Val)

/-- `isinstance(v, int)` (what `check_type(v, int)` asks) -/
def Val.isInt : Val → Bool
  | .int _ => true
  | _ => false

/-- Values `protect_via_deepcopy` returns as they are (immutable scalars). -/
def Val.isAtomic : Val → Bool
  | .int _ => true
  | .str _ => true
  | _ => false

/-- `d.get(k)` on an insertion-ordered map -/
def fget : Fields → String → Option Val
  | [], _ => none
  | (k, v) :: r, n => if k = n then some v else fget r n

/-- `d[k] = v` : replace in place, or append -/
def fset : Fields → String → Val → Fields
  | [], n, v => [(n, v)]
  | (k, x) :: r, n, v => if k = n then (k, v) :: r else (k, x) :: fset r n v

/-- `del d[k]` : `none` when the key is absent -/
def fdel (fs : Fields) (n : String) : Option Fields :=
  match fget fs n with
  | some _ => some (fs.filter fun p => p.1 ≠ n)
  | none => none

/-- `getattr(o, n)` / `o[k]` -/
def loadSeg : Val → Seg → Except Err Val
  | .obj _ fs, .attr n => match fget fs n with
    | some v => .ok v
    | none => .error .attributeError
  | .dict fs, .item k => match fget fs k with
    | some v => .ok v
    | none => .error .keyError
  | _, .attr _ => .error .attributeError     -- int/str/list/dict: no such attribute
  | _, .item _ => .error .typeError          -- instance/int: not subscriptable; str/list: str index

/-- `setattr(o, n, v)` / `o[k] = v`. Attributes declared `int` by a spec class are type-checked. -/
def storeSeg : Val → Seg → Val → Except Err Val
  | .obj decl fs, .attr n, v =>
    if decl.contains n && !v.isInt then .error .typeError else .ok (.obj decl (fset fs n v))
  | .dict fs, .item k, v => .ok (.dict (fset fs k v))
  | _, .attr _, _ => .error .attributeError
  | _, .item _, _ => .error .typeError

/-- `delattr(o, n)` / `del o[k]` -/
def dropSeg : Val → Seg → Except Err Val
  | .obj decl fs, .attr n => match fdel fs n with
    | some fs' => .ok (.obj decl fs')
    | none => .error .attributeError
  | .dict fs, .item k => match fdel fs k with
    | some fs' => .ok (.dict fs')
    | none => .error .keyError
  | _, .attr _ => .error .attributeError
  | _, .item _ => .error .typeError

/-- The child reached through `s` has been mutated in place into `c`. -/
def putBack : Val → Seg → Val → Val
  | .obj decl fs, .attr n, c => .obj decl (fset fs n c)
  | .dict fs, .item k, c => .dict (fset fs k c)
  | o, _, _ => o

/-- `functools.reduce(lambda obj, seg: getattr(obj, seg) | obj[seg], path, o)` -/
def lookup : Val → List Seg → Except Err Val
  | o, [] => .ok o
  | o, s :: r => match loadSeg o s with
    | .error e => .error e
    | .ok c => lookup c r

/-- Apply `f parent lastSeg` on the parent of the last segment, in place. -/
def modifyLast (f : Val → Seg → Except Err Val) : Val → List Seg → Except Err Val
  | _, [] => .error .indexError                       -- `path[-1]` on an empty path
  | o, [s] => f o s
  | o, s :: t :: r => match loadSeg o s with
    | .error e => .error e
    | .ok c => match modifyLast f c (t :: r) with
      | .error e => .error e
      | .ok c' => .ok (putBack o s c')

/-- `reduce(path[:-1]).<last> = v` -/
def assign (o : Val) (p : List Seg) (v : Val) : Except Err Val :=
  modifyLast (fun parent s => storeSeg parent s v) o p

/-- `del reduce(path[:-1]).<last>` -/
def remove (o : Val) (p : List Seg) : Except Err Val :=
  modifyLast dropSeg o p

/-- `except (AttributeError, KeyError) as e: raise AttributeError(...) from e` -/
def conv : Err → Err
  | .keyError => .attributeError
  | e => e

/-- `Alias.__lookup_attr_path` -/
def lookupConv (o : Val) (p : List Seg) : Except Err Val :=
  match lookup o p with
  | .error e => .error (conv e)
  | .ok v => .ok v

/-! ## Alias configuration, instance state, descriptor methods -/

structure Cfg where
  path        : List Seg
  passthrough : Bool
  transform   : Option (Val → Except Err Val)
  fallback    : Option Val
  deprecated  : Bool := false
  /-- the alias is a managed attribute of a spec class annotated `int` -/
  checked     : Bool := false
  /-- the host class is a spec class: its `__getattr__` hook re-enters
  `__getattribute__` when the first attempt ended in `AttributeError`, so a read
  that raises `AttributeError` runs the descriptor twice -/
  specHost    : Bool := false

/-- One instance: its attribute tree and the per-instance override attribute
`__spec_classes_Alias_<name>_override` (kept apart from the tree: the name is
reserved). -/
structure Inst where
  host     : Val
  override : Option Val
  deriving Repr, Inhabited

inductive GetRes
  | val (v : Val)          -- an existing object (override, target, transformed target, atomic fallback)
  | fresh (v : Val)        -- a new deep copy of the fallback
  | err (e : Err)
  deriving Repr, Inhabited

/-- `protect_via_deepcopy(self.fallback)` or re-raise -/
def fallbackOr (c : Cfg) : GetRes :=
  match c.fallback with
  | some fb => if fb.isAtomic then .val fb else .fresh fb
  | none => .err .attributeError

/-- `Alias.__get__(instance)` -/
def aliasGet (c : Cfg) (s : Inst) : GetRes :=
  match (if c.passthrough then none else s.override) with
  | some v => .val v
  | none =>
    match lookupConv s.host c.path with
    | .error .attributeError => fallbackOr c
    | .error e => .err e
    | .ok v =>
      match c.transform with
      | none => .val v
      | some f =>
        match f v with
        | .ok w => .val w
        | .error .attributeError => fallbackOr c     -- the transform runs inside the `try`
        | .error e => .err e

/-- `Alias.__set__(instance, v)` -/
def aliasSet (c : Cfg) (s : Inst) (v : Val) : Except Err Inst :=
  if c.passthrough then
    match lookupConv s.host c.path.dropLast with
    | .error e => .error e
    | .ok _ =>
      match assign s.host c.path v with
      | .error e => .error e
      | .ok h => .ok { s with host := h }
  else .ok { s with override := some v }

/-- `Alias.__delete__(instance)` -/
def aliasDelete (c : Cfg) (s : Inst) : Except Err Inst :=
  if c.passthrough then
    match lookupConv s.host c.path.dropLast with
    | .error e => .error e
    | .ok _ =>
      match remove s.host c.path with
      | .error e => .error e
      | .ok h => .ok { s with host := h }
  else
    match s.override with
    | some _ => .ok { s with override := none }
    | none => .error .attributeError

/-- warnings emitted by one descriptor access -/
def warnsOf (c : Cfg) : Nat := if c.deprecated then 1 else 0

/-- how often `instance.<alias>` runs `__get__` when it ends in exception `e` -/
def readAttempts (c : Cfg) (e : Err) : Nat :=
  if c.specHost && e == .attributeError then 2 else 1

/-- `instance.<alias> = v`: `(result, warnings)`. On a spec class `mutate_attr`
type-checks the managed attribute before the descriptor is reached. -/
def instSet (c : Cfg) (s : Inst) (v : Val) : Except Err Inst × Nat :=
  if c.checked && !v.isInt then (.error .typeError, 0) else (aliasSet c s v, warnsOf c)

/-! ## Worlds, operations, runs -/

structure World where
  cur   : Inst
  olds  : List Inst          -- instances left behind by deepcopy / copy-on-write helpers
  fresh : Nat                -- number of fallback copies handed out so far
  deriving Repr, Inhabited

inductive Op
  | readAlias | writeAlias (v : Val) | delAlias
  | readTarget | writeTarget (v : Val) | delTarget
  | delPrefix | setPrefix (v : Val)
  | deepcopy
  | cowWithAlias (v : Val) | cowResetAlias
  | cowWriteTarget (v : Val) | cowDelTarget
  deriving Repr, Inhabited

inductive Res
  | none | val (v : Val) | fresh (v : Val) (id : Nat) | err (e : Err)
  deriving Repr, Inhabited

structure Out where
  res   : Res
  warns : Nat
  deriving Repr, Inhabited

def resOf : Except Err Val → Res
  | .ok v => .val v
  | .error e => .err e

def step (c : Cfg) (w : World) : Op → World × Out
  | .readAlias =>
    match aliasGet c w.cur with
    | .val v => (w, ⟨.val v, warnsOf c⟩)
    | .fresh v => ({ w with fresh := w.fresh + 1 }, ⟨.fresh v (w.fresh + 1), warnsOf c⟩)
    | .err e => (w, ⟨.err e, readAttempts c e * warnsOf c⟩)
  | .writeAlias v =>
    match instSet c w.cur v with
    | (.ok i, n) => ({ w with cur := i }, ⟨.none, n⟩)
    | (.error e, n) => (w, ⟨.err e, n⟩)
  | .delAlias =>
    match aliasDelete c w.cur with
    | .ok i => ({ w with cur := i }, ⟨.none, warnsOf c⟩)
    | .error e => (w, ⟨.err e, warnsOf c⟩)
  | .readTarget => (w, ⟨resOf (lookup w.cur.host c.path), 0⟩)
  | .writeTarget v =>
    match assign w.cur.host c.path v with
    | .ok h => ({ w with cur := { w.cur with host := h } }, ⟨.none, 0⟩)
    | .error e => (w, ⟨.err e, 0⟩)
  | .delTarget =>
    match remove w.cur.host c.path with
    | .ok h => ({ w with cur := { w.cur with host := h } }, ⟨.none, 0⟩)
    | .error e => (w, ⟨.err e, 0⟩)
  | .delPrefix =>
    match c.path with
    | [] => (w, ⟨.err .indexError, 0⟩)
    | s :: _ =>
      match dropSeg w.cur.host s with
      | .ok h => ({ w with cur := { w.cur with host := h } }, ⟨.none, 0⟩)
      | .error e => (w, ⟨.err e, 0⟩)
  | .setPrefix v =>
    match c.path with
    | [] => (w, ⟨.err .indexError, 0⟩)
    | s :: _ =>
      match storeSeg w.cur.host s v with
      | .ok h => ({ w with cur := { w.cur with host := h } }, ⟨.none, 0⟩)
      | .error e => (w, ⟨.err e, 0⟩)
  | .deepcopy => ({ w with olds := w.cur :: w.olds }, ⟨.none, 0⟩)
  | .cowWithAlias v =>
    match instSet c w.cur v with
    | (.ok i, n) => ({ w with cur := i, olds := w.cur :: w.olds }, ⟨.none, n⟩)
    | (.error e, n) => (w, ⟨.err e, n⟩)
  | .cowResetAlias =>
    match aliasDelete c w.cur with
    | .ok i => ({ w with cur := i, olds := w.cur :: w.olds }, ⟨.none, warnsOf c⟩)
    | .error e => (w, ⟨.err e, warnsOf c⟩)
  | .cowWriteTarget v =>
    match assign w.cur.host c.path v with
    | .ok h => ({ w with cur := { w.cur with host := h }, olds := w.cur :: w.olds }, ⟨.none, 0⟩)
    | .error e => (w, ⟨.err e, 0⟩)
  | .cowDelTarget =>
    match remove w.cur.host c.path with
    | .ok h => ({ w with cur := { w.cur with host := h }, olds := w.cur :: w.olds }, ⟨.none, 0⟩)
    | .error e => (w, ⟨.err e, 0⟩)

def run (c : Cfg) (w : World) : List Op → World × List Out
  | [] => (w, [])
  | op :: ops =>
    let (w', o) := step c w op
    let (w'', os) := run c w' ops
    (w'', o :: os)

/-! ## Generated helper methods on the alias attribute of a spec class

`with_<alias>` / `update_<alias>` / `transform_<alias>` / `reset_<alias>`
(`spec_classes/methods/scalar.py` + `utils/mutation.py: mutate_value, mutate_attr`),
copying and `_inplace=True`, with whole values, nested keywords (`update_al(x=5)`) and
attribute transforms (`transform_al(x=f)`).  Each of them *computes a value* — from the
arguments and, for `update_`/`transform_`, from a READ of the alias — and then assigns it to
the alias attribute of the receiver (in place) or of a deep copy.  The tree model has no
sharing: "the value that was read is deep-copied before it is edited" is what the pure
functions below say by construction; the correspondence run is what ties this to the code. -/

/-- transforms the harness passes (`lambda v: v`, `lambda v: v + k`, `lambda v: c`) -/
inductive Xf
  | ident | add (k : Int) | const (v : Val)
  deriving Repr, Inhabited

/-- `f(value)` -/
def Xf.appVal : Xf → Val → Except Err Val
  | .ident, v => .ok v
  | .add k, .int n => .ok (.int (n + k))
  | .add _, _ => .error .typeError
  | .const c, _ => .ok c

/-- `f(getattr(value, attr, MISSING))`; `none` = `MISSING` (argument and result) -/
def Xf.app : Xf → Option Val → Except Err (Option Val)
  | g, some v => match g.appVal v with
    | .ok r => .ok (some r)
    | .error e => .error e
  | .ident, none => .ok none
  | .add _, none => .error .typeError
  | .const c, none => .ok (some c)

def Val.isObj : Val → Bool
  | .obj _ _ => true
  | _ => false

/-- `value is None` (the harness's scalar `s1`) -/
def Val.isNone : Val → Bool
  | .str 1 => true
  | _ => false

/-- An alias configuration on a spec class, plus the annotation of the alias attribute
when it is a spec class itself: `proto` = the default-constructed instance of that class
(`checked` of the base configuration = annotated `int`; neither = `Any`). -/
structure XCfg where
  base  : Cfg
  proto : Option Val := none

/-- `check_type(v, annotation)` in `mutate_attr` -/
def XCfg.typeOk (x : XCfg) (v : Val) : Bool :=
  (!x.base.checked || v.isInt) && (x.proto.isNone || v.isObj)

abbrev Attrs := List (String × Val)

/-- `for attr, attr_value in attrs.items(): setattr(value, attr, attr_value)` (on a private copy:
all or nothing) -/
def setAttrs : Val → Attrs → Except Err Val
  | v, [] => .ok v
  | v, (n, a) :: r => match storeSeg v (.attr n) a with
    | .error e => .error e
    | .ok v' => setAttrs v' r

/-- `mutate_value` step 5: left-over attributes on an existing value -/
def applyAttrs (v : Val) (attrs : Attrs) : Except Err Val :=
  if attrs.isEmpty then .ok v
  else if v.isNone then .error .valueError        -- "Cannot use attrs on a missing value …"
  else setAttrs v attrs

/-- `mutate_value` step 4: the value is `MISSING` → `constructor(**attrs)` of the annotation:
a spec class takes the attributes as constructor arguments; `int()` = 0; `Any` cannot be instantiated. -/
def construct (x : XCfg) (attrs : Attrs) : Except Err Val :=
  match x.proto with
  | some p => setAttrs p attrs
  | none => if x.base.checked then setAttrs (.int 0) attrs else .error .typeError

def attrOf : Val → String → Option Val
  | .obj _ fs, n => fget fs n
  | _, _ => none

/-- `mutate_value` step 7: `setattr(value, attr, f(getattr(value, attr, MISSING)))` unless the result is `MISSING` -/
def applyXfs : Val → List (String × Xf) → Except Err Val
  | v, [] => .ok v
  | v, (n, g) :: r => match g.app (attrOf v n) with
    | .error e => .error e
    | .ok none => applyXfs v r
    | .ok (some a) => match storeSeg v (.attr n) a with
      | .error e => .error e
      | .ok v' => applyXfs v' r

/-- what `getattr(self, alias, MISSING)` gives -/
inductive Old
  | val (v : Val) | missing | err (e : Err)
  deriving Repr, Inhabited

/-- `getattr(self, alias, MISSING)`: the value and how often `__get__` ran.
`lazy`: the lookup sits in a `lazy_object_proxy.Proxy`, which calls its factory a second
time when the first call raised. -/
def readOld (c : Cfg) (s : Inst) (lazy : Bool) : Old × Nat :=
  match aliasGet c s with
  | .val v => (.val v, 1)
  | .fresh v => (.val v, 1)
  | .err .attributeError => (.missing, readAttempts c .attributeError)
  | .err e => (.err e, (if lazy then 2 else 1) * readAttempts c e)

inductive HKind
  | withA (nv : Option Val) (attrs : Attrs)               -- with_<alias>([v], **attrs)
  | updA (nv : Option Val) (attrs : Attrs)                -- update_<alias>([v], **attrs)
  | trA (f : Option Xf) (ats : List (String × Xf))        -- transform_<alias>([f], **attr_transforms)
  deriving Repr, Inhabited

inductive HOp
  | write (inplace : Bool) (k : HKind)
  | reset (inplace : Bool)                                -- reset_<alias>
  deriving Repr, Inhabited

/-- does the helper look the current value up a second time (`_protect_if_unchanged`, copying form only)? -/
def HKind.protects : HKind → Bool
  | .withA _ _ => false
  | _ => true

/-- The value a helper is going to assign, and the number of `__get__` runs spent on it.
`update_` reads the alias only when no replacement value is given; `transform_` always. -/
def computeValue (x : XCfg) (s : Inst) : HKind → Except Err Val × Nat
  | .withA (some v) attrs => (applyAttrs v attrs, 0)
  | .withA none attrs => (construct x attrs, 0)
  | .updA (some v) attrs => (applyAttrs v attrs, 0)
  | .updA none attrs =>
    match readOld x.base s true with
    | (.err e, n) => (.error e, n)
    | (.missing, n) => (construct x attrs, n)
    | (.val v, n) => (applyAttrs v attrs, n)
  | .trA f ats =>
    match readOld x.base s true with
    | (.err e, n) => (.error e, n)
    | (old, n) =>
      let start : Except Err Val := match old with
        | .val v => .ok v
        | _ => construct x []
      match start with
      | .error e => (.error e, n)
      | .ok v =>
        match (match f with | none => Except.ok v | some g => g.appVal v) with
        | .error e => (.error e, n)
        | .ok v' => (applyXfs v' ats, n)

/-- `_protect_if_unchanged`: one more `getattr(self, alias, MISSING)` unless in place -/
def protectRead (c : Cfg) (s : Inst) (inplace : Bool) (k : HKind) : Option Err × Nat :=
  if inplace || !k.protects then (none, 0)
  else match readOld c s false with
    | (.err e, n) => (some e, n)
    | (_, n) => (none, n)

/-- `mutate_attr(self, alias, v, inplace)`: type check, then the assignment on the receiver or on a copy -/
def xwrite (x : XCfg) (w : World) (inplace : Bool) (v : Val) : World × Out :=
  if !x.typeOk v then (w, ⟨.err .typeError, 0⟩)
  else step x.base w (if inplace then .writeAlias v else .cowWithAlias v)

def addWarns (n : Nat) (r : World × Out) : World × Out := (r.1, ⟨r.2.res, r.2.warns + n⟩)

def hstep (x : XCfg) (w : World) : HOp → World × Out
  | .reset true => step x.base w .delAlias
  | .reset false => step x.base w .cowResetAlias
  | .write inplace k =>
    match computeValue x w.cur k with
    | (.error e, n) => (w, ⟨.err e, n * warnsOf x.base⟩)
    | (.ok v, n) =>
      match protectRead x.base w.cur inplace k with
      | (some e, m) => (w, ⟨.err e, (n + m) * warnsOf x.base⟩)
      | (none, m) => addWarns ((n + m) * warnsOf x.base) (xwrite x w inplace v)

/-- base operations and helper calls in one alphabet -/
inductive XOp
  | base (op : Op)
  | helper (h : HOp)
  deriving Repr, Inhabited

/-- an assignment the type check of the annotated spec type refuses before the descriptor is reached -/
def XCfg.refuses (x : XCfg) : Op → Bool
  | .writeAlias v => !x.typeOk v
  | .cowWithAlias v => !x.typeOk v
  | _ => false

def xstep (x : XCfg) (w : World) : XOp → World × Out
  | .base op => if x.refuses op then (w, ⟨.err .typeError, 0⟩) else step x.base w op
  | .helper h => hstep x w h

def xrun (x : XCfg) (w : World) : List XOp → World × List Out
  | [] => (w, [])
  | op :: ops =>
    let (w', o) := xstep x w op
    let (w'', os) := xrun x w' ops
    (w'', o :: os)

/-! ## The path parser: `ATTR_PARSER` + the join check of `_attr_path` -/

inductive Quote | dq | sq
  deriving DecidableEq, Repr, Inhabited

def Quote.char : Quote → Char
  | .dq => '"'
  | .sq => '\''

inductive Body
  | word (cs : List Char)                 -- `\w+`
  | key (q : Quote) (raw : List Char)     -- `["…"]` / `['…']`, raw text between the quotes
  deriving DecidableEq, Repr, Inhabited

/-- One regex match: the optional leading dot and the `lookup` group. -/
structure Tok where
  dot  : Bool
  body : Body
  deriving DecidableEq, Repr, Inhabited

/-- `\w` restricted to ASCII -/
def isWordChar (c : Char) : Bool := c.isAlphanum || c == '_'

/-- greedy `\w*` : (matched, rest) -/
def takeWord : List Char → List Char × List Char
  | [] => ([], [])
  | c :: cs =>
    if isWordChar c then
      let (w, r) := takeWord cs
      (c :: w, r)
    else ([], c :: cs)

/-- after `[q` : `(?:[^q\\]|\\.)*q\]` → (raw, rest) -/
def scanKey (q : Char) : List Char → Option (List Char × List Char)
  | [] => none
  | [_] => none
  | c :: d :: rest =>
    if c == q then (if d == ']' then some ([], rest) else none)
    else if c == '\\' then
      (if d == '\n' then none
       else (scanKey q rest).map fun (raw, r) => (c :: d :: raw, r))
    else (scanKey q (d :: rest)).map fun (raw, r) => (c :: raw, r)

/-- the `lookup` group at the head of `s` (`afterDot`: this match has consumed its optional dot,
so the look-behind `(?<!\.)` of the two item alternatives fails) -/
def lexLookup (afterDot : Bool) (s : List Char) : Option (Body × List Char) :=
  match s with
  | [] => none
  | c :: rest =>
    if c == '[' then
      if afterDot then none
      else match rest with
        | [] => none
        | q :: rest' =>
          if q == '"' then (scanKey '"' rest').map fun (raw, r) => (.key .dq raw, r)
          else if q == '\'' then (scanKey '\'' rest').map fun (raw, r) => (.key .sq raw, r)
          else none
    else
      match takeWord (c :: rest) with
      | ([], _) => none
      | (w, r) => some (.word w, r)

/-- one match of `ATTR_PARSER` anchored at the head of `s`; `first` = at offset 0
(where the look-behind `(?<!^)` forbids the dot) -/
def lexTok (first : Bool) (s : List Char) : Option (Tok × List Char) :=
  match s with
  | [] => none
  | c :: rest =>
    if c == '.' then
      if first then none else (lexLookup true rest).map fun (b, r) => (⟨true, b⟩, r)
    else (lexLookup false (c :: rest)).map fun (b, r) => (⟨false, b⟩, r)

/-- contiguous matches covering the whole string (`finditer` + join check); fuel ≥ length + 1 -/
def lexAll : Nat → Bool → List Char → Option (List Tok)
  | 0, _, _ => none
  | _ + 1, _, [] => some []
  | n + 1, first, c :: cs =>
    match lexTok first (c :: cs) with
    | none => none
    | some (t, r) => (lexAll n false r).map (t :: ·)

def tokenize (s : List Char) : Option (List Tok) := lexAll (s.length + 1) true s

/-- `str.isidentifier()` restricted to ASCII -/
def isIdentifier : List Char → Bool
  | [] => false
  | c :: cs => (c.isAlpha || c == '_') && cs.all isWordChar

/-- `Alias._attr_path` (as matches); `ValueError` when the join check fails -/
def parsePath (s : List Char) : Except Err (List Tok) :=
  if isIdentifier s then .ok [⟨false, .word s⟩]
  else match tokenize s with
    | some ts => .ok ts
    | none => .error .valueError

def renderBody : Body → List Char
  | .word cs => cs
  | .key q raw => '[' :: q.char :: (raw ++ [q.char, ']'])

/-- `match.group(0)` -/
def renderTok (t : Tok) : List Char := (if t.dot then ['.'] else []) ++ renderBody t.body

def renderToks : List Tok → List Char
  | [] => []
  | t :: ts => renderTok t ++ renderToks ts

/-- `ast.literal_eval` on the quoted text, for the escapes `\\`, `\'`, `\"`;
`none` = an escape outside the modelled subset -/
def decodeKey : List Char → Option (List Char)
  | [] => some []
  | [c] => if c == '\\' then none else some [c]
  | c :: d :: rest =>
    if c == '\\' then
      (if d == '\\' || d == '\'' || d == '"' then (decodeKey rest).map (d :: ·) else none)
    else (decodeKey (d :: rest)).map (c :: ·)

def Tok.seg (t : Tok) : Option Seg :=
  match t.body with
  | .word cs => some (.attr (String.ofList cs))
  | .key _ raw => (decodeKey raw).map fun k => .item (String.ofList k)

/-- the access path a parsed alias follows -/
def toksSegs : List Tok → Option (List Seg)
  | [] => some []
  | t :: ts => match t.seg, toksSegs ts with
    | some s, some r => some (s :: r)
    | _, _ => none

/-- escape a key for a double-quoted lookup -/
def encodeKey : List Char → List Char
  | [] => []
  | c :: cs => if c == '\\' || c == '"' then '\\' :: c :: encodeKey cs else c :: encodeKey cs

/-- canonical tokens for a segment list: `a.b["k"].c` -/
def segTok (first : Bool) : Seg → Tok
  | .attr n => ⟨!first, .word n.toList⟩
  | .item k => ⟨false, .key .dq (encodeKey k.toList)⟩

def segsToks : Bool → List Seg → List Tok
  | _, [] => []
  | first, s :: r => segTok first s :: segsToks false r

/-- canonical path string of a segment list -/
def renderSegs (p : List Seg) : List Char := renderToks (segsToks true p)

end SpecVerif.C18
