import SpecVerif.Model.Py
/-!
# C18 — Impl model of `spec_classes.types.alias.Alias` / `DeprecatedAlias`

Mirrors `alias.py` function by function.

* A **host object** is a tree (`Val`): instances are attribute maps
  (`obj decl fields`, `decl` = the attribute names the instance's class declares
  as `int` and therefore type-checks on assignment: empty for a plain class),
  `dict`s are string-keyed maps; leaves are ints, "not an int" scalars and lists.
* `loadSeg/storeSeg/dropSeg` are `getattr`/`[]`, `setattr`/`__setitem__`,
  `delattr`/`__delitem__` with CPython's exception classes.
* `lookup` is `functools.reduce` over the path; `assign`/`remove` act on the parent of
  the last segment (`modifyLast`); the pure tree is rebuilt on the way out, which is
  what in-place mutation of the parent object means for a tree without sharing.
* `aliasGet/aliasSet/aliasDelete` are `Alias.__get__/__set__/__delete__`;
  `instSet` is `instance.alias = v` (on a spec class the managed attribute is
  type-checked by `mutate_attr` *before* the descriptor is reached).
* `World`/`Op`/`step`/`run`: the instance under test plus the instances left
  behind by `deepcopy` and by copy-on-write helpers, so that "the original is not
  touched" is part of what the correspondence compares.
* `tokenize`/`parsePath`/`render…`: the language of `Alias.ATTR_PARSER` plus the
  join check of `_attr_path` as a hand-written tokenizer (ASCII).

Core Lean only.
-/
namespace SpecVerif.C18
open SpecVerif.Py

/-! ## Values and paths -/

inductive Seg
  | attr (n : String)
  | item (k : String)
  deriving DecidableEq, Repr, Inhabited

inductive Val
  | int (n : Int)
  | str (n : Nat)                                    -- a scalar that is not an `int`
  | lst (xs : List Int)                              -- a mutable list (used as fallback)
  | obj (decl : List String) (fs : List (String × Val))
  | dict (fs : List (String × Val))
  deriving Repr, Inhabited

abbrev Fields := List (String × Val)

/-- `isinstance(v, int)` (what `check_type(v, int)` asks) -/
def Val.isInt : Val → Bool
  | .int _ => true
  | _ => false

/-- Values `protect_via_deepcopy` returns as they are (immutable scalars). -/
def Val.isAtomic : Val → Bool
  | .int _ => true
  | .str _ => true
  | _ => false

/-- `d.get(k)` on an insertion-ordered map -/
def fget : Fields → String → Option Val
  | [], _ => none
  | (k, v) :: r, n => if k = n then some v else fget r n

/-- `d[k] = v` : replace in place, or append -/
def fset : Fields → String → Val → Fields
  | [], n, v => [(n, v)]
  | (k, x) :: r, n, v => if k = n then (k, v) :: r else (k, x) :: fset r n v

/-- `del d[k]` : `none` when the key is absent -/
def fdel (fs : Fields) (n : String) : Option Fields :=
  match fget fs n with
  | some _ => some (fs.filter fun p => p.1 ≠ n)
  | none => none

/-- `getattr(o, n)` / `o[k]` -/
def loadSeg : Val → Seg → Except Err Val
  | .obj _ fs, .attr n => match fget fs n with
    | some v => .ok v
    | none => .error .attributeError
  | .dict fs, .item k => match fget fs k with
    | some v => .ok v
    | none => .error .keyError
  | _, .attr _ => .error .attributeError     -- int/str/list/dict: no such attribute
  | _, .item _ => .error .typeError          -- instance/int: not subscriptable; str/list: str index

/-- `setattr(o, n, v)` / `o[k] = v`. Attributes declared `int` by a spec class are type-checked. -/
def storeSeg : Val → Seg → Val → Except Err Val
  | .obj decl fs, .attr n, v =>
    if decl.contains n && !v.isInt then .error .typeError else .ok (.obj decl (fset fs n v))
  | .dict fs, .item k, v => .ok (.dict (fset fs k v))
  | _, .attr _, _ => .error .attributeError
  | _, .item _, _ => .error .typeError

/-- `delattr(o, n)` / `del o[k]` -/
def dropSeg : Val → Seg → Except Err Val
  | .obj decl fs, .attr n => match fdel fs n with
    | some fs' => .ok (.obj decl fs')
    | none => .error .attributeError
  | .dict fs, .item k => match fdel fs k with
    | some fs' => .ok (.dict fs')
    | none => .error .keyError
  | _, .attr _ => .error .attributeError
  | _, .item _ => .error .typeError

/-- The child reached through `s` has been mutated in place into `c`. -/
def putBack : Val → Seg → Val → Val
  | .obj decl fs, .attr n, c => .obj decl (fset fs n c)
  | .dict fs, .item k, c => .dict (fset fs k c)
  | o, _, _ => o

/-- `functools.reduce(lambda obj, seg: getattr(obj, seg) | obj[seg], path, o)` -/
def lookup : Val → List Seg → Except Err Val
  | o, [] => .ok o
  | o, s :: r => match loadSeg o s with
    | .error e => .error e
    | .ok c => lookup c r

/-- Apply `f parent lastSeg` on the parent of the last segment, in place. -/
def modifyLast (f : Val → Seg → Except Err Val) : Val → List Seg → Except Err Val
  | _, [] => .error .indexError                       -- `path[-1]` on an empty path
  | o, [s] => f o s
  | o, s :: t :: r => match loadSeg o s with
    | .error e => .error e
    | .ok c => match modifyLast f c (t :: r) with
      | .error e => .error e
      | .ok c' => .ok (putBack o s c')

/-- `reduce(path[:-1]).<last> = v` -/
def assign (o : Val) (p : List Seg) (v : Val) : Except Err Val :=
  modifyLast (fun parent s => storeSeg parent s v) o p

/-- `del reduce(path[:-1]).<last>` -/
def remove (o : Val) (p : List Seg) : Except Err Val :=
  modifyLast dropSeg o p

/-- `except (AttributeError, KeyError) as e: raise AttributeError(...) from e` -/
def conv : Err → Err
  | .keyError => .attributeError
  | e => e

/-- `Alias.__lookup_attr_path` -/
def lookupConv (o : Val) (p : List Seg) : Except Err Val :=
  match lookup o p with
  | .error e => .error (conv e)
  | .ok v => .ok v

/-! ## Alias configuration, instance state, descriptor methods -/

structure Cfg where
  path        : List Seg
  passthrough : Bool
  transform   : Option (Val → Except Err Val)
  fallback    : Option Val
  deprecated  : Bool := false
  /-- the alias is a managed attribute of a spec class annotated `int` -/
  checked     : Bool := false
  /-- the host class is a spec class: its `__getattr__` hook re-enters
  `__getattribute__` when the first attempt ended in `AttributeError`, so a read
  that raises `AttributeError` runs the descriptor twice -/
  specHost    : Bool := false

/-- One instance: its attribute tree and the per-instance override attribute
`__spec_classes_Alias_<name>_override` (kept apart from the tree: the name is
reserved). -/
structure Inst where
  host     : Val
  override : Option Val
  deriving Repr, Inhabited

inductive GetRes
  | val (v : Val)          -- an existing object (override, target, transformed target, atomic fallback)
  | fresh (v : Val)        -- a new deep copy of the fallback
  | err (e : Err)
  deriving Repr, Inhabited

/-- `protect_via_deepcopy(self.fallback)` or re-raise -/
def fallbackOr (c : Cfg) : GetRes :=
  match c.fallback with
  | some fb => if fb.isAtomic then .val fb else .fresh fb
  | none => .err .attributeError

/-- `Alias.__get__(instance)` -/
def aliasGet (c : Cfg) (s : Inst) : GetRes :=
  match (if c.passthrough then none else s.override) with
  | some v => .val v
  | none =>
    match lookupConv s.host c.path with
    | .error .attributeError => fallbackOr c
    | .error e => .err e
    | .ok v =>
      match c.transform with
      | none => .val v
      | some f =>
        match f v with
        | .ok w => .val w
        | .error .attributeError => fallbackOr c     -- the transform runs inside the `try`
        | .error e => .err e

/-- `Alias.__set__(instance, v)` -/
def aliasSet (c : Cfg) (s : Inst) (v : Val) : Except Err Inst :=
  if c.passthrough then
    match lookupConv s.host c.path.dropLast with
    | .error e => .error e
    | .ok _ =>
      match assign s.host c.path v with
      | .error e => .error e
      | .ok h => .ok { s with host := h }
  else .ok { s with override := some v }

/-- `Alias.__delete__(instance)` -/
def aliasDelete (c : Cfg) (s : Inst) : Except Err Inst :=
  if c.passthrough then
    match lookupConv s.host c.path.dropLast with
    | .error e => .error e
    | .ok _ =>
      match remove s.host c.path with
      | .error e => .error e
      | .ok h => .ok { s with host := h }
  else
    match s.override with
    | some _ => .ok { s with override := none }
    | none => .error .attributeError

/-- warnings emitted by one descriptor access -/
def warnsOf (c : Cfg) : Nat := if c.deprecated then 1 else 0

/-- how often `instance.<alias>` runs `__get__` when it ends in exception `e` -/
def readAttempts (c : Cfg) (e : Err) : Nat :=
  if c.specHost && e == .attributeError then 2 else 1

/-- `instance.<alias> = v`: `(result, warnings)`. On a spec class `mutate_attr`
type-checks the managed attribute before the descriptor is reached. -/
def instSet (c : Cfg) (s : Inst) (v : Val) : Except Err Inst × Nat :=
  if c.checked && !v.isInt then (.error .typeError, 0) else (aliasSet c s v, warnsOf c)

/-! ## Worlds, operations, runs -/

structure World where
  cur   : Inst
  olds  : List Inst          -- instances left behind by deepcopy / copy-on-write helpers
  fresh : Nat                -- number of fallback copies handed out so far
  deriving Repr, Inhabited

inductive Op
  | readAlias | writeAlias (v : Val) | delAlias
  | readTarget | writeTarget (v : Val) | delTarget
  | delPrefix | setPrefix (v : Val)
  | deepcopy
  | cowWithAlias (v : Val) | cowResetAlias
  | cowWriteTarget (v : Val) | cowDelTarget
  deriving Repr, Inhabited

inductive Res
  | none | val (v : Val) | fresh (v : Val) (id : Nat) | err (e : Err)
  deriving Repr, Inhabited

structure Out where
  res   : Res
  warns : Nat
  deriving Repr, Inhabited

def resOf : Except Err Val → Res
  | .ok v => .val v
  | .error e => .err e

def step (c : Cfg) (w : World) : Op → World × Out
  | .readAlias =>
    match aliasGet c w.cur with
    | .val v => (w, ⟨.val v, warnsOf c⟩)
    | .fresh v => ({ w with fresh := w.fresh + 1 }, ⟨.fresh v (w.fresh + 1), warnsOf c⟩)
    | .err e => (w, ⟨.err e, readAttempts c e * warnsOf c⟩)
  | .writeAlias v =>
    match instSet c w.cur v with
    | (.ok i, n) => ({ w with cur := i }, ⟨.none, n⟩)
    | (.error e, n) => (w, ⟨.err e, n⟩)
  | .delAlias =>
    match aliasDelete c w.cur with
    | .ok i => ({ w with cur := i }, ⟨.none, warnsOf c⟩)
    | .error e => (w, ⟨.err e, warnsOf c⟩)
  | .readTarget => (w, ⟨resOf (lookup w.cur.host c.path), 0⟩)
  | .writeTarget v =>
    match assign w.cur.host c.path v with
    | .ok h => ({ w with cur := { w.cur with host := h } }, ⟨.none, 0⟩)
    | .error e => (w, ⟨.err e, 0⟩)
  | .delTarget =>
    match remove w.cur.host c.path with
    | .ok h => ({ w with cur := { w.cur with host := h } }, ⟨.none, 0⟩)
    | .error e => (w, ⟨.err e, 0⟩)
  | .delPrefix =>
    match c.path with
    | [] => (w, ⟨.err .indexError, 0⟩)
    | s :: _ =>
      match dropSeg w.cur.host s with
      | .ok h => ({ w with cur := { w.cur with host := h } }, ⟨.none, 0⟩)
      | .error e => (w, ⟨.err e, 0⟩)
  | .setPrefix v =>
    match c.path with
    | [] => (w, ⟨.err .indexError, 0⟩)
    | s :: _ =>
      match storeSeg w.cur.host s v with
      | .ok h => ({ w with cur := { w.cur with host := h } }, ⟨.none, 0⟩)
      | .error e => (w, ⟨.err e, 0⟩)
  | .deepcopy => ({ w with olds := w.cur :: w.olds }, ⟨.none, 0⟩)
  | .cowWithAlias v =>
    match instSet c w.cur v with
    | (.ok i, n) => ({ w with cur := i, olds := w.cur :: w.olds }, ⟨.none, n⟩)
    | (.error e, n) => (w, ⟨.err e, n⟩)
  | .cowResetAlias =>
    match aliasDelete c w.cur with
    | .ok i => ({ w with cur := i, olds := w.cur :: w.olds }, ⟨.none, warnsOf c⟩)
    | .error e => (w, ⟨.err e, warnsOf c⟩)
  | .cowWriteTarget v =>
    match assign w.cur.host c.path v with
    | .ok h => ({ w with cur := { w.cur with host := h }, olds := w.cur :: w.olds }, ⟨.none, 0⟩)
    | .error e => (w, ⟨.err e, 0⟩)
  | .cowDelTarget =>
    match remove w.cur.host c.path with
    | .ok h => ({ w with cur := { w.cur with host := h }, olds := w.cur :: w.olds }, ⟨.none, 0⟩)
    | .error e => (w, ⟨.err e, 0⟩)

def run (c : Cfg) (w : World) : List Op → World × List Out
  | [] => (w, [])
  | op :: ops =>
    let (w', o) := step c w op
    let (w'', os) := run c w' ops
    (w'', o :: os)

/-! ## The path parser: `ATTR_PARSER` + the join check of `_attr_path` -/

inductive Quote | dq | sq
  deriving DecidableEq, Repr, Inhabited

def Quote.char : Quote → Char
  | .dq => '"'
  | .sq => '\''

inductive Body
  | word (cs : List Char)                 -- `\w+`
  | key (q : Quote) (raw : List Char)     -- `["…"]` / `['…']`, raw text between the quotes
  deriving DecidableEq, Repr, Inhabited

/-- One regex match: the optional leading dot and the `lookup` group. -/
structure Tok where
  dot  : Bool
  body : Body
  deriving DecidableEq, Repr, Inhabited

/-- `\w` restricted to ASCII -/
def isWordChar (c : Char) : Bool := c.isAlphanum || c == '_'

/-- greedy `\w*` : (matched, rest) -/
def takeWord : List Char → List Char × List Char
  | [] => ([], [])
  | c :: cs =>
    if isWordChar c then
      let (w, r) := takeWord cs
      (c :: w, r)
    else ([], c :: cs)

/-- after `[q` : `(?:[^q\\]|\\.)*q\]` → (raw, rest) -/
def scanKey (q : Char) : List Char → Option (List Char × List Char)
  | [] => none
  | [_] => none
  | c :: d :: rest =>
    if c == q then (if d == ']' then some ([], rest) else none)
    else if c == '\\' then
      (if d == '\n' then none
       else (scanKey q rest).map fun (raw, r) => (c :: d :: raw, r))
    else (scanKey q (d :: rest)).map fun (raw, r) => (c :: raw, r)

/-- the `lookup` group at the head of `s` (`afterDot`: this match has consumed its optional dot,
so the look-behind `(?<!\.)` of the two item alternatives fails) -/
def lexLookup (afterDot : Bool) (s : List Char) : Option (Body × List Char) :=
  match s with
  | [] => none
  | c :: rest =>
    if c == '[' then
      if afterDot then none
      else match rest with
        | [] => none
        | q :: rest' =>
          if q == '"' then (scanKey '"' rest').map fun (raw, r) => (.key .dq raw, r)
          else if q == '\'' then (scanKey '\'' rest').map fun (raw, r) => (.key .sq raw, r)
          else none
    else
      match takeWord (c :: rest) with
      | ([], _) => none
      | (w, r) => some (.word w, r)

/-- one match of `ATTR_PARSER` anchored at the head of `s`; `first` = at offset 0
(where the look-behind `(?<!^)` forbids the dot) -/
def lexTok (first : Bool) (s : List Char) : Option (Tok × List Char) :=
  match s with
  | [] => none
  | c :: rest =>
    if c == '.' then
      if first then none else (lexLookup true rest).map fun (b, r) => (⟨true, b⟩, r)
    else (lexLookup false (c :: rest)).map fun (b, r) => (⟨false, b⟩, r)

/-- contiguous matches covering the whole string (`finditer` + join check); fuel ≥ length + 1 -/
def lexAll : Nat → Bool → List Char → Option (List Tok)
  | 0, _, _ => none
  | _ + 1, _, [] => some []
  | n + 1, first, c :: cs =>
    match lexTok first (c :: cs) with
    | none => none
    | some (t, r) => (lexAll n false r).map (t :: ·)

def tokenize (s : List Char) : Option (List Tok) := lexAll (s.length + 1) true s

/-- `str.isidentifier()` restricted to ASCII -/
def isIdentifier : List Char → Bool
  | [] => false
  | c :: cs => (c.isAlpha || c == '_') && cs.all isWordChar

/-- `Alias._attr_path` (as matches); `ValueError` when the join check fails -/
def parsePath (s : List Char) : Except Err (List Tok) :=
  if isIdentifier s then .ok [⟨false, .word s⟩]
  else match tokenize s with
    | some ts => .ok ts
    | none => .error .valueError

def renderBody : Body → List Char
  | .word cs => cs
  | .key q raw => '[' :: q.char :: (raw ++ [q.char, ']'])

/-- `match.group(0)` -/
def renderTok (t : Tok) : List Char := (if t.dot then ['.'] else []) ++ renderBody t.body

def renderToks : List Tok → List Char
  | [] => []
  | t :: ts => renderTok t ++ renderToks ts

/-- `ast.literal_eval` on the quoted text, for the escapes `\\`, `\'`, `\"`;
`none` = an escape outside the modelled subset -/
def decodeKey : List Char → Option (List Char)
  | [] => some []
  | [c] => if c == '\\' then none else some [c]
  | c :: d :: rest =>
    if c == '\\' then
      (if d == '\\' || d == '\'' || d == '"' then (decodeKey rest).map (d :: ·) else none)
    else (decodeKey (d :: rest)).map (c :: ·)

def Tok.seg (t : Tok) : Option Seg :=
  match t.body with
  | .word cs => some (.attr (String.ofList cs))
  | .key _ raw => (decodeKey raw).map fun k => .item (String.ofList k)

/-- the access path a parsed alias follows -/
def toksSegs : List Tok → Option (List Seg)
  | [] => some []
  | t :: ts => match t.seg, toksSegs ts with
    | some s, some r => some (s :: r)
    | _, _ => none

/-- escape a key for a double-quoted lookup -/
def encodeKey : List Char → List Char
  | [] => []
  | c :: cs => if c == '\\' || c == '"' then '\\' :: c :: encodeKey cs else c :: encodeKey cs

/-- canonical tokens for a segment list: `a.b["k"].c` -/
def segTok (first : Bool) : Seg → Tok
  | .attr n => ⟨!first, .word n.toList⟩
  | .item k => ⟨false, .key .dq (encodeKey k.toList)⟩

def segsToks : Bool → List Seg → List Tok
  | _, [] => []
  | first, s :: r => segTok first s :: segsToks false r

/-- canonical path string of a segment list -/
def renderSegs (p : List Seg) : List Char := renderToks (segsToks true p)

end SpecVerif.C18
