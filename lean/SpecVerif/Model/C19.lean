import SpecVerif.Model.Py
/-!
# C19 — Impl model of lazy bootstrapping (`spec_classes/spec_class.py`)

Mirrors `spec_class.__call__` (placeholders, `bootstrap_once`, the self-removing
`__new__` wrapper), `spec_class.bootstrap`, `build_attr_spec`, `register_method(s)`
and `_SpecClassMetadataPlaceholder.__get__`, restricted to what bootstrapping reads
and writes on the class:

* `decls`   — the class attribute of every managed attribute: an `Attr(...)`
              declaration, a `dataclasses.field(...)` declaration, or a plain value
              (`plain none` = absent / `MISSING`);
* `mdata`    — `cls.__dict__["__spec_class__"]`: `none` = placeholder, `some attrs` = metadata;
* `fields`  — `cls.__dict__["__dataclass_fields__"]` likewise;
* `new`     — `__new__`: the bootstrap wrapper, the user's original, a synthesized
              `object.__new__` forwarder, or removed (inherited from the parent);
* `methods` — names registered by `register_method`, in order.

One re-entrant lock per class (`thread_lock`). Every thread runs a first-use
program: instantiate (also through a plain subclass: same statements), read
`__spec_class__`, or read `__dataclass_fields__`; each program is a small
pc-machine whose steps are single shared reads/writes — exactly the statements
the harness labels in the real source. A schedule is any list of thread ids.

Core Lean only.
-/
namespace SpecVerif.C19

/-- What an attribute specification carries as far as this property can tell. -/
structure AttrInfo where
  default : Option Nat      -- `none` = MISSING
  factory : Bool            -- has a default_factory
  repr    : Bool
  compare : Bool
  deriving DecidableEq, Repr

inductive Decl
  | attr (i : AttrInfo)     -- `x: T = Attr(...)`
  | field (i : AttrInfo)    -- `x: T = dataclasses.field(...)`
  | plain (v : Option Nat)  -- `x: T = v`, or nothing (`none`)
  deriving DecidableEq, Repr

/-- `Attr.from_attr_value(attr, getattr(cls, attr, MISSING))` -/
def Decl.spec : Decl → AttrInfo
  | .attr i => i
  | .field i => i
  | .plain v => ⟨v, false, true, true⟩

/-- `isinstance(attr_value, (Attr, dataclasses.Field))` -/
def Decl.isDecl : Decl → Bool
  | .attr _ => true | .field _ => true | .plain _ => false

/-- `setattr(cls, attr, attr_value.default or MISSING)` -/
def Decl.consumed : Decl → Decl
  | .attr i => .plain i.default
  | .field i => .plain i.default
  | d => d

inductive NewState | wrapper | orig | synthesized | inherited
  deriving DecidableEq, Repr

/-- The class as written. `methods` = the names the decorator will try to register, in order. -/
structure Body where
  decls       : List Decl
  methods     : List Nat
  userMethods : List Nat      -- names already defined in the class body: never overwritten
  origNew     : Bool          -- the body defines `__new__`
  parentNew   : Bool          -- `super().__new__` is not `object.__new__`
  deriving Repr

structure Core where
  decls   : List Decl
  mdata    : Option (List AttrInfo)
  fields  : Option (List AttrInfo)
  methods : List Nat
  deriving DecidableEq, Repr

structure Cls where
  core : Core
  new  : NewState
  deriving DecidableEq, Repr

def untouchedCore (b : Body) : Core := ⟨b.decls, none, none, []⟩
def untouched (b : Body) : Cls := ⟨untouchedCore b, .wrapper⟩

/-- `__new__` after the wrapper removed itself. -/
def finalNew (b : Body) : NewState :=
  if b.origNew then .orig else if b.parentNew then .inherited else .synthesized

/-! ## the body of `bootstrap` as a list of atomic actions -/

inductive Act
  | readDecl (a : Nat)       -- `attr_value = getattr(spec_cls, attr, MISSING)`
  | consumeDecl (a : Nat)    -- `setattr(spec_cls, attr, default)`
  | publishMeta              -- `spec_cls.__spec_class__ = metadata`
  | publishFields            -- `spec_cls.__dataclass_fields__ = metadata.attrs`
  | setMethod (g : Nat)      -- `setattr(spec_cls, name, method)` in `register_method`
  deriving DecidableEq, Repr

def declActs : Nat → List Decl → List Act
  | _, [] => []
  | a, d :: ds => (Act.readDecl a :: (if d.isDecl then [Act.consumeDecl a] else [])) ++ declActs (a + 1) ds

/-- names actually written by `register_methods`: not the user's, first occurrence only -/
def regNames (user : List Nat) : List Nat → List Nat → List Nat
  | [], _ => []
  | g :: gs, seen => if user.contains g || seen.contains g then regNames user gs seen
                     else g :: regNames user gs (g :: seen)

def bootActs (b : Body) : List Act :=
  declActs 0 b.decls ++ [Act.publishMeta, Act.publishFields] ++ (regNames b.userMethods b.methods []).map Act.setMethod

/-- one action of the bootstrapping thread: class core × the attrs built so far -/
def applyAct (x : Core × List AttrInfo) : Act → Core × List AttrInfo
  | .readDecl a => (x.1, x.2 ++ [((x.1.decls.getD a (.plain none))).spec])
  | .consumeDecl a => ({ x.1 with decls := x.1.decls.set a (x.1.decls.getD a (.plain none)).consumed }, x.2)
  | .publishMeta => ({ x.1 with mdata := some x.2 }, x.2)
  | .publishFields => ({ x.1 with fields := some x.2 }, x.2)
  | .setMethod g => ({ x.1 with methods := x.1.methods ++ [g] }, x.2)

/-- state after the first `k` actions of a bootstrap started on the untouched class -/
def bootState (b : Body) (k : Nat) : Core × List AttrInfo :=
  ((bootActs b).take k).foldl applyAct (untouchedCore b, [])

/-- The sequential eager result (`bootstrap=True`): all actions, no wrapper involved. -/
def eagerCore (b : Body) : Core := (bootState b (bootActs b).length).1

/-! ## threads -/

inductive Trigger | inst | mdata | fields
  deriving DecidableEq, Repr

inductive PC
  | start                               -- nothing happened yet: `Cls(...)` / the attribute read is next
  | lookup                              -- inside the wrapper, about to read `cls.__spec_class__`
  | acqB | recheck | boot (k : Nat) | relB | reread     -- `bootstrap_once` via the placeholder
  | acqN | checkNew | swapNew | relN                    -- the `__new__` wrapper
  | observe                             -- construct the instance / look at what was returned
  | done
  deriving DecidableEq, Repr

/-- What a thread sees of the class at its observation point. -/
structure Obs where
  mdata    : Option (List AttrInfo)
  fields  : Option (List AttrInfo)
  decls   : List Decl
  methods : List Nat
  new     : NewState
  deriving DecidableEq, Repr

def snapshot (c : Cls) : Obs := ⟨c.core.mdata, c.core.fields, c.core.decls, c.core.methods, c.new⟩

structure TState where
  pc  : PC
  acc : List AttrInfo
  obs : Option Obs
  deriving DecidableEq, Repr

structure Config where
  cls     : Cls
  lock    : Option Nat
  boots   : Nat                 -- ghost: how many times the body of `bootstrap` was entered
  threads : Nat → TState

def TState.init : TState := ⟨.start, [], none⟩

def Config.init (b : Body) : Config := ⟨untouched b, none, 0, fun _ => TState.init⟩

def Config.setT (c : Config) (t : Nat) (st : TState) : Config :=
  { c with threads := fun i => if i = t then st else c.threads i }

inductive Label
  | call | lookup | acquire | recheck | act (a : Act) | release | reread | checkNew | swapNew | observe
  deriving DecidableEq, Repr

/-- One step of thread `t` (its trigger is `trig t`); `none` = not enabled. -/
def step (b : Body) (trig : Nat → Trigger) (c : Config) (t : Nat) : Option (Config × Label) :=
  let st := c.threads t
  match st.pc with
  | .start =>
    match trig t with
    | .inst =>
      -- `type.__call__` picks up `cls.__new__`: the wrapper, or (once it removed itself) the real one
      some (c.setT t { st with pc := if c.cls.new = .wrapper then PC.lookup else PC.observe }, .call)
    | .mdata =>
      -- `cls.__spec_class__`: metadata, or the placeholder's `__get__`
      some (c.setT t { st with pc := if c.cls.core.mdata.isSome then PC.observe else PC.acqB }, .lookup)
    | .fields =>
      some (c.setT t { st with pc := if c.cls.core.fields.isSome then PC.observe else PC.acqB }, .lookup)
  | .lookup =>
    -- wrapper: `if not isinstance(cls.__spec_class__, SpecClassMetadata)`
    some (c.setT t { st with pc := if c.cls.core.mdata.isSome then PC.acqN else PC.acqB }, .lookup)
  | .acqB =>
    if c.lock.isNone then some ({ c.setT t { st with pc := .recheck } with lock := some t }, .acquire) else none
  | .recheck =>
    -- `isinstance(spec_cls.__dict__.get("__spec_class__"), _SpecClassMetadataPlaceholder)`
    if c.cls.core.mdata.isNone then
      some ({ c.setT t { st with pc := .boot 0, acc := [] } with boots := c.boots + 1 }, .recheck)
    else some (c.setT t { st with pc := .relB }, .recheck)
  | .boot k =>
    match (bootActs b)[k]? with
    | none => some (c.setT t { st with pc := .relB }, .release)   -- unreachable: boot k has k < length
    | some a =>
      let r := applyAct (c.cls.core, st.acc) a
      let pc' := if k + 1 < (bootActs b).length then PC.boot (k + 1) else PC.relB
      some ({ c.setT t { st with pc := pc', acc := r.2 } with cls := { c.cls with core := r.1 } }, .act a)
  | .relB => some ({ c.setT t { st with pc := .reread } with lock := none }, .release)
  | .reread =>
    -- `return owner.__spec_class__` / `getattr(owner.__spec_class__, "attrs")`
    some (c.setT t { st with pc := (match trig t with | .inst => PC.acqN | _ => PC.observe) }, .reread)
  | .acqN =>
    if c.lock.isNone then some ({ c.setT t { st with pc := .checkNew } with lock := some t }, .acquire) else none
  | .checkNew =>
    some (c.setT t { st with pc := if c.cls.new = .wrapper then .swapNew else .relN }, .checkNew)
  | .swapNew =>
    some ({ c.setT t { st with pc := .relN } with cls := { c.cls with new := finalNew b } }, .swapNew)
  | .relN => some ({ c.setT t { st with pc := .observe } with lock := none }, .release)
  | .observe => some (c.setT t { st with pc := .done, obs := some (snapshot c.cls) }, .observe)
  | .done => none

/-- run a schedule; steps that are not enabled (a thread blocked on the lock, or
finished) are skipped, as a scheduler would -/
def runSched (b : Body) (trig : Nat → Trigger) (c : Config) : List Nat → Config
  | [] => c
  | t :: ts => match step b trig c t with
    | none => runSched b trig c ts
    | some (c', _) => runSched b trig c' ts

inductive Reachable (b : Body) (trig : Nat → Trigger) : Config → Prop
  | init : Reachable b trig (Config.init b)
  | step {c c' : Config} {l : Label} (t : Nat) : Reachable b trig c → step b trig c t = some (c', l) → Reachable b trig c'

/-- What every observer is entitled to see. -/
def eagerObs (b : Body) : Obs :=
  let e := eagerCore b
  ⟨e.mdata, e.fields, e.decls, e.methods, finalNew b⟩

/-! ## Legacy: the protocol before the fix (no lock, no re-check) -/

namespace Legacy

/-- progress of one thread's own `bootstrap` call: what it does next depends on what it reads -/
inductive LPC
  | start
  | attrs (a : Nat)            -- about to read declaration `a`
  | consume (a : Nat)          -- about to overwrite declaration `a`
  | publish | publishF
  | methods (j : Nat)
  | done
  deriving DecidableEq, Repr

structure LT where
  pc : LPC
  acc : List AttrInfo
  deriving DecidableEq, Repr

structure LConfig where
  core : Core
  threads : List LT
  deriving DecidableEq, Repr

def LConfig.init (b : Body) (n : Nat) : LConfig := ⟨untouchedCore b, List.replicate n ⟨.start, []⟩⟩

def lstep (b : Body) (c : LConfig) (t : Nat) : Option LConfig :=
  match c.threads[t]? with
  | none => none
  | some st =>
    let upd (core : Core) (st' : LT) : Option LConfig := some ⟨core, c.threads.set t st'⟩
    match st.pc with
    | .start => if c.core.mdata.isNone then upd c.core { st with pc := .attrs 0 } else upd c.core { st with pc := .done }
    | .attrs a =>
      if a < c.core.decls.length then
        let d := c.core.decls.getD a (.plain none)
        upd c.core { pc := if d.isDecl then .consume a else .attrs (a + 1), acc := st.acc ++ [d.spec] }
      else upd c.core { st with pc := .publish }
    | .consume a =>
      upd { c.core with decls := c.core.decls.set a (c.core.decls.getD a (.plain none)).consumed } { st with pc := .attrs (a + 1) }
    | .publish => upd { c.core with mdata := some st.acc } { st with pc := .publishF }
    | .publishF => upd { c.core with fields := some st.acc } { st with pc := .methods 0 }
    | .methods j =>
      match b.methods[j]? with
      | none => upd c.core { st with pc := .done }
      | some g =>
        if b.userMethods.contains g || c.core.methods.contains g then upd c.core { st with pc := .methods (j + 1) }
        else upd { c.core with methods := c.core.methods ++ [g] } { st with pc := .methods (j + 1) }
    | .done => none

def lrun (b : Body) (c : LConfig) : List Nat → LConfig
  | [] => c
  | t :: ts => match lstep b c t with
    | none => lrun b c ts
    | some c' => lrun b c' ts

end Legacy

end SpecVerif.C19
