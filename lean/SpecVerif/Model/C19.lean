import SpecVerif.Model.Py
/-!
# C19 — Impl model of lazy bootstrapping (`spec_classes/spec_class.py`)

Mirrors `spec_class.__call__` (placeholders, `bootstrap_once`, the self-removing
`__new__` wrapper), `spec_class.bootstrap`, `build_attr_spec`, `register_method(s)`
and `_SpecClassMetadataPlaceholder.__get__`, restricted to what bootstrapping reads
and writes on the class:

* `decls`   — the class attribute of every managed attribute: an `Attr(...)`
              declaration, a `dataclasses.field(...)` declaration, or a plain value
              (`plain none` = absent / `MISSING`);
* `mdata`    — `cls.__dict__["__spec_class__"]`: `none` = placeholder, `some attrs` = metadata;
* `fields`  — `cls.__dict__["__dataclass_fields__"]` likewise;
* `new`     — `__new__`: the bootstrap wrapper, the user's original, a synthesized
              `object.__new__` forwarder, or removed (inherited from the parent);
* `methods` — names registered by `register_method`, in order.

One re-entrant lock per class (`thread_lock`). Every thread runs a first-use
program: instantiate (also through a plain subclass: same statements), instantiate
through a subclass that defines its own `__new__` (delegating to `super().__new__`,
with or without the caller's arguments), read `__spec_class__`, or read
`__dataclass_fields__`; each program is a small
pc-machine whose steps are single shared reads/writes — exactly the statements
the harness labels in the real source. A schedule is any list of thread ids.

Core Lean only.
-/
namespace SpecVerif.C19

/-- What an attribute specification carries as far as this property can tell. -/
structure AttrInfo where
  default : Option Nat      -- `none` = MISSING
  factory : Bool            -- has a default_factory
  repr    : Bool
  compare : Bool
  deriving DecidableEq, Repr

inductive Decl
  | attr (i : AttrInfo)     -- `x: T = Attr(...)`
  | field (i : AttrInfo)    -- `x: T = dataclasses.field(...)`
  | plain (v : Option Nat)  -- `x: T = v`, or nothing (`none`)
  deriving DecidableEq, Repr

/-- `Attr.from_attr_value(attr, getattr(cls, attr, MISSING))` -/
def Decl.spec : Decl → AttrInfo
  | .attr i => i
  | .field i => i
  | .plain v => ⟨v, false, true, true⟩

/-- `isinstance(attr_value, (Attr, dataclasses.Field))` -/
def Decl.isDecl : Decl → Bool
  | .attr _ => true | .field _ => true | .plain _ => false

/-- `setattr(cls, attr, attr_value.default or MISSING)` -/
def Decl.consumed : Decl → Decl
  | .attr i => .plain i.default
  | .field i => .plain i.default
  | d => d

inductive NewState | wrapper | orig | synthesized | inherited
  deriving DecidableEq, Repr

/-- A `__new__` *body* that can run during a construction: the one of a subclass through
which the class is used, the class' own, the synthesized `object.__new__` forwarder, the
one inherited from the parent. (The bootstrap wrapper is not in this list: it is the
protocol itself.) -/
inductive NewFn | sub | orig | synthesized | parent
  deriving DecidableEq, Repr

/-- the function that runs when the `__new__` slot of the decorated class is called -/
def NewState.fn : NewState → Option NewFn
  | .wrapper => none | .orig => some .orig | .synthesized => some .synthesized | .inherited => some .parent

/-- one run of a `__new__` body; `args` = it received the arguments of the construction -/
structure NewCall where
  fn   : NewFn
  args : Bool
  deriving DecidableEq, Repr

/-- The class as written. `methods` = the names the decorator will try to register, in order. -/
structure Body where
  decls       : List Decl
  methods     : List Nat
  userMethods : List Nat      -- names already defined in the class body: never overwritten
  origNew     : Bool          -- the body defines `__new__`
  parentNew   : Bool          -- `super().__new__` is not `object.__new__`
  deriving Repr

structure Core where
  decls   : List Decl
  mdata    : Option (List AttrInfo)
  fields  : Option (List AttrInfo)
  methods : List Nat
  deriving DecidableEq, Repr

structure Cls where
  core : Core
  new  : NewState
  deriving DecidableEq, Repr

def untouchedCore (b : Body) : Core := ⟨b.decls, none, none, []⟩
def untouched (b : Body) : Cls := ⟨untouchedCore b, .wrapper⟩

/-- `__new__` after the wrapper removed itself. -/
def finalNew (b : Body) : NewState :=
  if b.origNew then .orig else if b.parentNew then .inherited else .synthesized

/-- …and the body that then runs for a construction (also what the eagerly bootstrapped
class runs: its own `__new__`, its parent's, or plain `object.__new__`). -/
def finalFn (b : Body) : NewFn :=
  if b.origNew then .orig else if b.parentNew then .parent else .synthesized

/-! ## the body of `bootstrap` as a list of atomic actions -/

inductive Act
  | readDecl (a : Nat)       -- `attr_value = getattr(spec_cls, attr, MISSING)`
  | consumeDecl (a : Nat)    -- `setattr(spec_cls, attr, default)`
  | publishMeta              -- `spec_cls.__spec_class__ = metadata`
  | publishFields            -- `spec_cls.__dataclass_fields__ = metadata.attrs`
  | setMethod (g : Nat)      -- `setattr(spec_cls, name, method)` in `register_method`
  deriving DecidableEq, Repr

def declActs : Nat → List Decl → List Act
  | _, [] => []
  | a, d :: ds => (Act.readDecl a :: (if d.isDecl then [Act.consumeDecl a] else [])) ++ declActs (a + 1) ds

/-- names actually written by `register_methods`: not the user's, first occurrence only -/
def regNames (user : List Nat) : List Nat → List Nat → List Nat
  | [], _ => []
  | g :: gs, seen => if user.contains g || seen.contains g then regNames user gs seen
                     else g :: regNames user gs (g :: seen)

def bootActs (b : Body) : List Act :=
  declActs 0 b.decls ++ [Act.publishMeta, Act.publishFields] ++ (regNames b.userMethods b.methods []).map Act.setMethod

/-- one action of the bootstrapping thread: class core × the attrs built so far -/
def applyAct (x : Core × List AttrInfo) : Act → Core × List AttrInfo
  | .readDecl a => (x.1, x.2 ++ [((x.1.decls.getD a (.plain none))).spec])
  | .consumeDecl a => ({ x.1 with decls := x.1.decls.set a (x.1.decls.getD a (.plain none)).consumed }, x.2)
  | .publishMeta => ({ x.1 with mdata := some x.2 }, x.2)
  | .publishFields => ({ x.1 with fields := some x.2 }, x.2)
  | .setMethod g => ({ x.1 with methods := x.1.methods ++ [g] }, x.2)

/-- state after the first `k` actions of a bootstrap started on the untouched class -/
def bootState (b : Body) (k : Nat) : Core × List AttrInfo :=
  ((bootActs b).take k).foldl applyAct (untouchedCore b, [])

/-- The sequential eager result (`bootstrap=True`): all actions, no wrapper involved. -/
def eagerCore (b : Body) : Core := (bootState b (bootActs b).length).1

/-! ## threads -/

/-- First-use programs. `instSub fwd`: `Sub(...)` where `Sub` is a subclass of the decorated
class with its own `__new__` that delegates to `super().__new__(cls, *args, **kwargs)`
(`fwd = true`) or to `super().__new__(cls)` (`fwd = false`). -/
inductive Trigger | inst | mdata | fields | instSub (fwd : Bool)
  deriving DecidableEq, Repr

/-- the program constructs an instance -/
def Trigger.isInst : Trigger → Bool
  | .inst | .instSub _ => true
  | _ => false

/-- does the subclass' `__new__` hand the caller's arguments on? (`true` when there is none) -/
def Trigger.fwd : Trigger → Bool
  | .instSub f => f
  | _ => true

inductive PC
  | start                               -- nothing happened yet: `Cls(...)` / the attribute read is next
  | superNew                            -- inside the subclass' own `__new__`, about to call `super().__new__(cls, ..)`
  | lookup                              -- inside the wrapper, about to read `cls.__spec_class__`
  | acqB | recheck | boot (k : Nat) | relB | reread     -- `bootstrap_once` via the placeholder
  | acqN | checkNew | swapNew | relN                    -- the `__new__` wrapper
  | dispatch                            -- its last statement: `return spec_cls.__new__(cls, *args, **kwargs)`
  | observe                             -- construct the instance / look at what was returned
  | done
  deriving DecidableEq, Repr

/-- What a thread sees of the class at its observation point. -/
structure Obs where
  mdata    : Option (List AttrInfo)
  fields  : Option (List AttrInfo)
  decls   : List Decl
  methods : List Nat
  new     : NewState
  deriving DecidableEq, Repr

def snapshot (c : Cls) : Obs := ⟨c.core.mdata, c.core.fields, c.core.decls, c.core.methods, c.new⟩

structure TState where
  pc  : PC
  acc : List AttrInfo
  obs : Option Obs
  deriving DecidableEq, Repr

structure Config where
  cls     : Cls
  lock    : Option Nat
  boots   : Nat                 -- ghost: how many times the body of `bootstrap` was entered
  threads : Nat → TState
  args    : Nat → Bool          -- per thread: the innermost `__new__` frame was given the caller's arguments
  news    : Nat → List NewCall  -- ghost, per thread: the `__new__` bodies that ran for its construction, in order

def TState.init : TState := ⟨.start, [], none⟩

def Config.init (b : Body) : Config := ⟨untouched b, none, 0, fun _ => TState.init, fun _ => true, fun _ => []⟩

def Config.setT (c : Config) (t : Nat) (st : TState) : Config :=
  { c with threads := fun i => if i = t then st else c.threads i }

/-- a `__new__` body runs in thread `t` -/
def Config.log (c : Config) (t : Nat) (x : NewCall) : Config :=
  { c with news := fun i => if i = t then c.news t ++ [x] else c.news i }

def Config.setArgs (c : Config) (t : Nat) (a : Bool) : Config :=
  { c with args := fun i => if i = t then a else c.args i }

/-- thread `t` calls what it found in the `__new__` slot of the decorated class (`n`) with the
arguments of its current frame: a real `__new__` body runs (the wrapper is not one: the
caller continues inside it). -/
def Config.logNew (c : Config) (t : Nat) (n : NewState) : Config :=
  match n.fn with
  | none => c
  | some f => c.log t ⟨f, c.args t⟩

inductive Label
  | superNew | dispatch
  | call | lookup | acquire | recheck | act (a : Act) | release | reread | checkNew | swapNew | observe
  deriving DecidableEq, Repr

/-- One step of thread `t` (its trigger is `trig t`); `none` = not enabled. -/
def step (b : Body) (trig : Nat → Trigger) (c : Config) (t : Nat) : Option (Config × Label) :=
  let st := c.threads t
  match st.pc with
  | .start =>
    match trig t with
    | .inst =>
      -- `type.__call__` picks up `cls.__new__`: the wrapper, or (once it removed itself) the real one
      some ((c.setT t { st with pc := if c.cls.new = .wrapper then PC.lookup else PC.observe }).logNew t c.cls.new, .call)
    | .instSub _ =>
      -- `type.__call__` picks up the subclass' own `__new__`: its body starts
      some ((c.setT t { st with pc := .superNew }).log t ⟨.sub, c.args t⟩, .call)
    | .mdata =>
      -- `cls.__spec_class__`: metadata, or the placeholder's `__get__`
      some (c.setT t { st with pc := if c.cls.core.mdata.isSome then PC.observe else PC.acqB }, .lookup)
    | .fields =>
      some (c.setT t { st with pc := if c.cls.core.fields.isSome then PC.observe else PC.acqB }, .lookup)
  | .superNew =>
    -- `super().__new__(cls, ..)`: the `__new__` slot of the decorated class, called with or
    -- without the caller's arguments
    some (((c.setArgs t (c.args t && (trig t).fwd)).setT t
            { st with pc := if c.cls.new = .wrapper then PC.lookup else PC.observe }).logNew t c.cls.new, .superNew)
  | .lookup =>
    -- wrapper: `if not isinstance(cls.__spec_class__, SpecClassMetadata)`
    some (c.setT t { st with pc := if c.cls.core.mdata.isSome then PC.acqN else PC.acqB }, .lookup)
  | .acqB =>
    if c.lock.isNone then some ({ c.setT t { st with pc := .recheck } with lock := some t }, .acquire) else none
  | .recheck =>
    -- `isinstance(spec_cls.__dict__.get("__spec_class__"), _SpecClassMetadataPlaceholder)`
    if c.cls.core.mdata.isNone then
      some ({ c.setT t { st with pc := .boot 0, acc := [] } with boots := c.boots + 1 }, .recheck)
    else some (c.setT t { st with pc := .relB }, .recheck)
  | .boot k =>
    match (bootActs b)[k]? with
    | none => some (c.setT t { st with pc := .relB }, .release)   -- unreachable: boot k has k < length
    | some a =>
      let r := applyAct (c.cls.core, st.acc) a
      let pc' := if k + 1 < (bootActs b).length then PC.boot (k + 1) else PC.relB
      some ({ c.setT t { st with pc := pc', acc := r.2 } with cls := { c.cls with core := r.1 } }, .act a)
  | .relB => some ({ c.setT t { st with pc := .reread } with lock := none }, .release)
  | .reread =>
    -- `return owner.__spec_class__` / `getattr(owner.__spec_class__, "attrs")`
    some (c.setT t { st with pc := if (trig t).isInst then PC.acqN else PC.observe }, .reread)
  | .acqN =>
    if c.lock.isNone then some ({ c.setT t { st with pc := .checkNew } with lock := some t }, .acquire) else none
  | .checkNew =>
    some (c.setT t { st with pc := if c.cls.new = .wrapper then .swapNew else .relN }, .checkNew)
  | .swapNew =>
    some ({ c.setT t { st with pc := .relN } with cls := { c.cls with new := finalNew b } }, .swapNew)
  | .relN => some ({ c.setT t { st with pc := .dispatch } with lock := none }, .release)
  | .dispatch =>
    -- `return spec_cls.__new__(cls, *args, **kwargs)`: the slot of the DECORATED class (not of the class
    -- being instantiated), with the arguments the wrapper was given. (Were the wrapper still
    -- installed it would be entered again; `Inv.swapped` shows it is not.)
    some ((c.setT t { st with pc := if c.cls.new = .wrapper then PC.lookup else PC.observe }).logNew t c.cls.new, .dispatch)
  | .observe => some (c.setT t { st with pc := .done, obs := some (snapshot c.cls) }, .observe)
  | .done => none

/-- run a schedule; steps that are not enabled (a thread blocked on the lock, or
finished) are skipped, as a scheduler would -/
def runSched (b : Body) (trig : Nat → Trigger) (c : Config) : List Nat → Config
  | [] => c
  | t :: ts => match step b trig c t with
    | none => runSched b trig c ts
    | some (c', _) => runSched b trig c' ts

inductive Reachable (b : Body) (trig : Nat → Trigger) : Config → Prop
  | init : Reachable b trig (Config.init b)
  | step {c c' : Config} {l : Label} (t : Nat) : Reachable b trig c → step b trig c t = some (c', l) → Reachable b trig c'

/-- The `__new__` bodies the eagerly bootstrapped class runs for the same program: the
subclass' own (if the class is used through one), then the class' own / inherited / `object.__new__`
— each exactly once, the latter with the arguments the subclass hands on. -/
def eagerNews (b : Body) : Trigger → List NewCall
  | .inst => [⟨finalFn b, true⟩]
  | .instSub fwd => [⟨.sub, true⟩, ⟨finalFn b, fwd⟩]
  | _ => []

/-- Does the EAGERLY bootstrapped class raise for this program? Without any `__new__` in its MRO the
eager class ends in `object.__new__`, which rejects arguments when the type being instantiated
overrides `__new__` (the subclass does): `TypeError`. The lazy class keeps the synthesized forwarder
`__new__(cls, *args, **kwargs)` after the wrapper removed itself, which swallows them — `step` never
fails (KF-C19-lenient-synthesized-new). -/
def eagerRaises (b : Body) : Trigger → Bool
  | .instSub true => finalFn b == .synthesized
  | _ => false

/-- What every observer is entitled to see. -/
def eagerObs (b : Body) : Obs :=
  let e := eagerCore b
  ⟨e.mdata, e.fields, e.decls, e.methods, finalNew b⟩

/-! ## Wrong: the wrapper re-dispatching to the class being instantiated -/

namespace Wrong

/-- `step`, except that the wrapper's last statement is `return cls.__new__(cls, *args, **kwargs)`:
for a construction through a subclass with its own `__new__` that is the subclass' `__new__` again. -/
def step (b : Body) (trig : Nat → Trigger) (c : Config) (t : Nat) : Option (Config × Label) :=
  match (c.threads t).pc, trig t with
  | .dispatch, .instSub _ =>
    some ((c.setT t { (c.threads t) with pc := .superNew }).log t ⟨.sub, c.args t⟩, .dispatch)
  | _, _ => SpecVerif.C19.step b trig c t

def run (b : Body) (trig : Nat → Trigger) (c : Config) : List Nat → Config
  | [] => c
  | t :: ts => match step b trig c t with
    | none => run b trig c ts
    | some (c', _) => run b trig c' ts

end Wrong

/-! ## Legacy: the protocol before the fix (no lock, no re-check) -/

namespace Legacy

/-- progress of one thread's own `bootstrap` call: what it does next depends on what it reads -/
inductive LPC
  | start
  | attrs (a : Nat)            -- about to read declaration `a`
  | consume (a : Nat)          -- about to overwrite declaration `a`
  | publish | publishF
  | methods (j : Nat)
  | done
  deriving DecidableEq, Repr

structure LT where
  pc : LPC
  acc : List AttrInfo
  deriving DecidableEq, Repr

structure LConfig where
  core : Core
  threads : List LT
  deriving DecidableEq, Repr

def LConfig.init (b : Body) (n : Nat) : LConfig := ⟨untouchedCore b, List.replicate n ⟨.start, []⟩⟩

def lstep (b : Body) (c : LConfig) (t : Nat) : Option LConfig :=
  match c.threads[t]? with
  | none => none
  | some st =>
    let upd (core : Core) (st' : LT) : Option LConfig := some ⟨core, c.threads.set t st'⟩
    match st.pc with
    | .start => if c.core.mdata.isNone then upd c.core { st with pc := .attrs 0 } else upd c.core { st with pc := .done }
    | .attrs a =>
      if a < c.core.decls.length then
        let d := c.core.decls.getD a (.plain none)
        upd c.core { pc := if d.isDecl then .consume a else .attrs (a + 1), acc := st.acc ++ [d.spec] }
      else upd c.core { st with pc := .publish }
    | .consume a =>
      upd { c.core with decls := c.core.decls.set a (c.core.decls.getD a (.plain none)).consumed } { st with pc := .attrs (a + 1) }
    | .publish => upd { c.core with mdata := some st.acc } { st with pc := .publishF }
    | .publishF => upd { c.core with fields := some st.acc } { st with pc := .methods 0 }
    | .methods j =>
      match b.methods[j]? with
      | none => upd c.core { st with pc := .done }
      | some g =>
        if b.userMethods.contains g || c.core.methods.contains g then upd c.core { st with pc := .methods (j + 1) }
        else upd { c.core with methods := c.core.methods ++ [g] } { st with pc := .methods (j + 1) }
    | .done => none

def lrun (b : Body) (c : LConfig) : List Nat → LConfig
  | [] => c
  | t :: ts => match lstep b c t with
    | none => lrun b c ts
    | some c' => lrun b c' ts

end Legacy

end SpecVerif.C19
