import SpecVerif.Model.C19
/-!
# C19 — Impl model of bootstrapping a HIERARCHY of lazily bootstrapped spec classes

`Model/C19.lean` is the thread protocol of ONE class. This file is what the body of
`spec_class.bootstrap` does when the class has spec-class ancestors (a single-inheritance
chain `K0 <- K1 <- ... `, every class decorated, any of them lazily bootstrapped):

* `boot` — `bootstrap_once` + `bootstrap`: nothing when the class is bootstrapped already;
  otherwise FIRST the parent (`for parent in spec_cls.__bases__: hasattr(parent, "__spec_class__")`,
  which recursively bootstraps the parent's parents), THEN everything the class reads from its
  ancestors, then its own writes;
* `readsOf` — what a class reads from its ancestors while it is bootstrapped:
  `hints`      `typing.get_type_hints(spec_cls)`: the ancestors' `__annotations__` (the ancestor's own
               bootstrap WRITES the types given through `attrs_typed=` / `attrs=` into them);
  `vals`       `getattr(spec_cls, attr, MISSING)` falling through to the ancestors' class attributes (the
               ancestor's own bootstrap REPLACES `Attr(...)` / `dataclasses.field(...)` declarations by
               the default);
  `inherited`  `SpecClassMetadata.for_class`: the parent's `metadata.attrs`;
* `bootFrom` — the rest of `bootstrap` for one class given these reads: managed attributes
  (`inherit_annotations`, `attrs_skip`, `attrs`, `attrs_typed`), the type map (`attr_types`), the update of
  inherited specifications overridden in the class body, `build_attr_spec` (lifting and consuming a
  declaration, ownership), `metadata.attrs.update`, the write-back into `__annotations__`, the attributes
  helper methods are registered for.

`eagerN` is the same hierarchy with `bootstrap=True` on every class (each class bootstrapped right
after its definition, root first). `Stale.boot` is `boot` with one of the reads taken BEFORE the parents
are bootstrapped (the counter-model of a hoisted `get_type_hints` / a cached class attribute).

Core Lean only.
-/
namespace SpecVerif.C19.Hier
open SpecVerif.C19

abbrev Name := Nat
/-- a type annotation; `0` = `typing.Any` -/
abbrev Ty := Nat

/-- an entry of `metadata.attrs` -/
structure Spec where
  name  : Name
  ty    : Ty
  info  : AttrInfo
  owner : Nat            -- index of the owning class in the chain
  deriving DecidableEq, Repr

/-- A class as written and decorated. -/
structure HBody where
  annots : List (Name × Ty)       -- annotations of the class body, in order
  dict   : List (Name × Decl)     -- class attributes of the body (for attribute names)
  attrs  : List (Name × Ty)       -- `self.attrs` of the decorator: `attrs=` (type `Any` = 0), then `attrs_typed=`
  skip   : Option (List Name)     -- `attrs_skip=` (`none` = not given)
  deriving DecidableEq, Repr

/-- The state of a class: what bootstrapping reads and writes. -/
structure HCls where
  annots  : List (Name × Ty)      -- the class' own `__annotations__`
  dict    : List (Name × Decl)    -- the class' own `__dict__` (attribute names); `plain none` = `MISSING` stored
  mdata   : Option (List Spec)    -- `__spec_class__`: `none` = placeholder
  helpers : List Name             -- attributes whose helper methods (`with_<a>`, …) are registered on the class
  deriving DecidableEq, Repr

def dfltBody : HBody := ⟨[], [], [], none⟩
def dfltCls : HCls := ⟨[], [], none, []⟩

def initCls (b : HBody) : HCls := ⟨b.annots, b.dict, none, []⟩
/-- every class defined and decorated lazily, nothing used yet -/
def initSt (chain : List HBody) : List HCls := chain.map initCls

def clsAt (st : List HCls) (k : Nat) : HCls := (st[k]?).getD dfltCls
def booted (st : List HCls) (k : Nat) : Bool := (clsAt st k).mdata.isSome

/-- What the bootstrap of a class reads from its ancestors. -/
structure Reads where
  hints     : List (Name × Ty)    -- the ancestors' `__annotations__`, nearest ancestor first
  vals      : List (Name × Decl)  -- the ancestors' class attributes, nearest ancestor first
  inherited : List Spec           -- the parent's `metadata.attrs`
  deriving DecidableEq, Repr

def readsOf (st : List HCls) (k : Nat) : Reads :=
  let anc := (st.take k).reverse
  ⟨anc.flatMap (·.annots), anc.flatMap (·.dict), ((anc.head?).bind (·.mdata)).getD []⟩

/-! ## the body of `bootstrap` for one class -/

/-- `managed_attrs`: annotated names (if `inherit_annotations`) minus `attrs_skip`, then `self.attrs` -/
def managedOf (b : HBody) (me : HCls) : List Name :=
  (if b.attrs.isEmpty || b.skip.isSome then
      (me.annots.map (·.1)).filter (fun n => !((b.skip.getD []).contains n))
    else []) ++ b.attrs.map (·.1)

/-- `attr_types[attr]`: the decorator's type unless it is `Any`, else the resolved hint, else `Any` -/
def typeOf (r : Reads) (b : HBody) (me : HCls) (n : Name) : Ty :=
  let hint := ((me.annots ++ r.hints).lookup n).getD 0
  match b.attrs.lookup n with
  | some t => if t != 0 then t else hint
  | none => hint

/-- `setattr(spec_cls, attr, v)` -/
def setOwn (d : List (Name × Decl)) (n : Name) (v : Decl) : List (Name × Decl) :=
  if (d.lookup n).isSome then d.map (fun e => if e.1 == n then (e.1, v) else e) else d ++ [(n, v)]

/-- `build_attr_spec`: read the class attribute through the MRO; a declaration is consumed INTO THE CLASS
ITSELF (also when it was found on an ancestor) and makes the class the owner. -/
def buildSpec (r : Reads) (k : Nat) (own : List (Name × Decl)) (n : Name) (ty : Ty) (owner : Nat) :
    List (Name × Decl) × Spec :=
  let v := ((own ++ r.vals).lookup n).getD (.plain none)
  if v.isDecl then (setOwn own n v.consumed, ⟨n, ty, v.spec, k⟩) else (own, ⟨n, ty, v.spec, owner⟩)

/-- "Update inherited `Attr` specifications": an inherited attribute that this class does not manage
itself but whose class attribute it overrides is rebuilt with the inherited type and owner; unless it is
re-declared (`Attr(...)`/`field(...)`) the inherited options stay. -/
def updInherited (r : Reads) (k : Nat) (managed : List Name) :
    List (Name × Decl) → List Spec → List (Name × Decl) × List Spec
  | own, [] => (own, [])
  | own, s :: ss =>
    if managed.contains s.name then
      let x := updInherited r k managed own ss
      (x.1, s :: x.2)
    else match own.lookup s.name with
      | none =>
        let x := updInherited r k managed own ss
        (x.1, s :: x.2)
      | some v =>
        let y := buildSpec r k own s.name s.ty s.owner
        let ns : Spec := if v.isDecl then y.2 else
          { y.2 with info := { y.2.info with repr := s.info.repr, compare := s.info.compare } }
        let x := updInherited r k managed y.1 ss
        (x.1, ns :: x.2)

/-- `{attr: self.build_attr_spec(spec_cls, attr, attr_types[attr]) for attr in managed_attrs}` -/
def buildManaged (r : Reads) (k : Nat) (ty : Name → Ty) :
    List (Name × Decl) → List Name → List (Name × Decl) × List Spec
  | own, [] => (own, [])
  | own, n :: ns =>
    let y := buildSpec r k own n (ty n) k
    let x := buildManaged r k ty y.1 ns
    (x.1, y.2 :: x.2)

/-- `dict.update` with one entry: in place when the key exists, appended otherwise -/
def upsert (md : List Spec) (ns : Spec) : List Spec :=
  if md.any (·.name == ns.name) then md.map (fun s => if s.name == ns.name then ns else s) else md ++ [ns]

/-- "Update `__annotations__`": the type of every attribute the class owns and has not annotated -/
def writeAnnots (k : Nat) (an : List (Name × Ty)) (md : List Spec) : List (Name × Ty) :=
  md.foldl (fun an s => if s.owner == k && (an.lookup s.name).isNone then an ++ [(s.name, s.ty)] else an) an

/-- The body of `bootstrap` of class `k` (body `b`, current state `me`) after its parents are done, given
what it reads from its ancestors. -/
def bootFrom (r : Reads) (b : HBody) (me : HCls) (k : Nat) : HCls :=
  let managed := managedOf b me
  let u := updInherited r k managed me.dict r.inherited
  let m := buildManaged r k (typeOf r b me) u.1 managed
  let md := m.2.foldl upsert u.2
  ⟨writeAnnots k me.annots md, m.1, some md, (md.filter (·.owner == k)).map (·.name)⟩

def bootCls (chain : List HBody) (k : Nat) (st : List HCls) : HCls :=
  bootFrom (readsOf st k) (chain.getD k dfltBody) (clsAt st k) k

/-- First use of class `k` (instantiation, `__spec_class__`, `__dataclass_fields__`; directly or because a
child is being bootstrapped): `bootstrap_once` — nothing if bootstrapped; else the parent first, then the class. -/
def boot (chain : List HBody) : Nat → List HCls → List HCls
  | 0, st => if booted st 0 then st else st.set 0 (bootCls chain 0 st)
  | k + 1, st =>
    if booted st (k + 1) then st else
      let st' := boot chain k st
      st'.set (k + 1) (bootCls chain (k + 1) st')

def runTrigs (chain : List HBody) : List Nat → List HCls → List HCls
  | [], st => st
  | k :: ks, st => runTrigs chain ks (boot chain k st)

/-- `bootstrap=True` on the first `m` classes of the chain: each is bootstrapped right after its
definition, when its ancestors are complete (root first). -/
def eagerN (chain : List HBody) : Nat → List HCls → List HCls
  | 0, st => st
  | m + 1, st =>
    let st' := eagerN chain m st
    st'.set m (bootCls chain m st')

/-- the sequential eager result of the whole hierarchy -/
def eager (chain : List HBody) : List HCls := eagerN chain chain.length (initSt chain)

/-! ## Stale: one of the reads is taken before the parents are bootstrapped -/

namespace Stale

inductive Kind
  | hints     -- `typing.get_type_hints(spec_cls)` hoisted in front of the parents' bootstrap
  | vals      -- class attribute values looked up (cached) in front of the parents' bootstrap
  deriving DecidableEq, Repr

def mix (kind : Kind) (before after : Reads) : Reads :=
  match kind with
  | .hints => { after with hints := before.hints }
  | .vals => { after with vals := before.vals }

def boot (kind : Kind) (chain : List HBody) : Nat → List HCls → List HCls
  | 0, st => if booted st 0 then st else st.set 0 (bootCls chain 0 st)
  | k + 1, st =>
    if booted st (k + 1) then st else
      let pre := readsOf st (k + 1)
      let st' := boot kind chain k st
      st'.set (k + 1) (bootFrom (mix kind pre (readsOf st' (k + 1))) (chain.getD (k + 1) dfltBody) (clsAt st' (k + 1)) (k + 1))

end Stale

end SpecVerif.C19.Hier
