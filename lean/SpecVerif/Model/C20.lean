import SpecVerif.Model.Py
/-!
# C20 — Impl model of the copy-protection protocol of `spec_classes.utils.mutation`

Mirrors `protect_via_deepcopy` and `_modules_copyable.__enter__/__exit__`
(after the `fix:` commits: lock, refcount and patched flag live on the class and
are never re-initialised), plus the way `DeepCopyMethod.deepcopy`
(`methods/core.py`) re-enters `protect_via_deepcopy` for every attribute value.

Shared state (`Sys`):
* `table`    — `copyreg.dispatch_table.get(ModuleType)`: absent, our pass-through
               reducer, or a foreign reducer installed by somebody else;
* `orig`     — what the table held before the library was first used (or what another
               library put there at a later quiescent point: step `external`);
* `refcount`, `patched` — `_modules_copyable.refcount / patched_table`;
* `depth[t]` — number of `with _modules_copyable():` blocks thread `t` is inside;
* `failed[t]`— thread `t` saw an exception coming out of the protection machinery
               (`TypeError: cannot pickle 'module'` from a copy, `KeyError` from `__exit__`).

`enter_t` / `exit_t` are atomic steps: their bodies run under the one class-level
re-entrant lock. `copyModule_t` is the table lookup `copy.deepcopy` performs when it
meets a module (no lock). `raise_t` is an exception inside the protected body: it
unwinds through `__exit__` of every open `with` of that thread.

Core Lean only.
-/
namespace SpecVerif.C20
open SpecVerif.Py

inductive Entry | ours | foreign
  deriving DecidableEq, Repr

structure Sys where
  orig     : Option Entry
  table    : Option Entry
  refcount : Int
  patched  : Bool
  depth    : List Nat
  failed   : List Bool
  deriving DecidableEq, Repr

/-- State before the library is used: `foreign = true` when somebody else already
registered a reducer for `ModuleType`. -/
def init (foreign : Bool) (n : Nat) : Sys :=
  let o := if foreign then some Entry.foreign else none
  { orig := o, table := o, refcount := 0, patched := false,
    depth := List.replicate n 0, failed := List.replicate n false }

def Sys.depthOf (s : Sys) (t : Nat) : Nat := s.depth.getD t 0
def Sys.failedOf (s : Sys) (t : Nat) : Bool := s.failed.getD t false
def Sys.quiescent (s : Sys) : Prop := ∀ t, s.depthOf t = 0

/-- Body of `_modules_copyable.__enter__` (runs under `cls.lock`). -/
def enterBody (s : Sys) : Sys :=
  let s := { s with refcount := s.refcount + 1 }          -- cls.refcount += 1
  match s.table with                                       -- dispatch_table.get(ModuleType, MISSING)
  | none   => { s with table := some .ours, patched := true }
  | some _ => s

/-- Body of `_modules_copyable.__exit__` (runs under `cls.lock`); the flag is
`true` when `del copyreg.dispatch_table[ModuleType]` raised `KeyError`. -/
def exitBody (s : Sys) : Sys × Bool :=
  let s := { s with refcount := s.refcount - 1 }          -- cls.refcount -= 1
  if s.patched && s.refcount == 0 then
    match s.table with
    | none   => (s, true)                                  -- KeyError, before `patched_table = False`
    | some _ => ({ s with table := none, patched := false }, false)
  else (s, false)

def enterStep (s : Sys) (t : Nat) : Sys :=
  { enterBody s with depth := s.depth.set t (s.depthOf t + 1) }

def exitStep (s : Sys) (t : Nat) : Sys :=
  let r := exitBody s
  { r.1 with depth := s.depth.set t (s.depthOf t - 1),
             failed := if r.2 then s.failed.set t true else s.failed }

/-- `copy.deepcopy(module)`: needs a reducer in the table. -/
def copyStep (s : Sys) (t : Nat) : Sys :=
  if s.table.isSome then s else { s with failed := s.failed.set t true }

/-- An exception propagating out of `k` nested `with` blocks of thread `t`. -/
def unwind (s : Sys) (t : Nat) : Nat → Sys
  | 0 => s
  | k + 1 => unwind (exitStep s t) t k

inductive Step
  | enter (t : Nat) | exit (t : Nat) | copyModule (t : Nat) | raise (t : Nat)
  /-- somebody else (another library) registers / removes its own reducer for modules
  while no spec-classes copy is in progress -/
  | external (foreign : Bool)
  deriving DecidableEq, Repr

/-- The environment's move: only at a quiescent point. -/
def externalStep (s : Sys) (foreign : Bool) : Sys :=
  let o := if foreign then some Entry.foreign else none
  { s with orig := o, table := o }

def Sys.idle (s : Sys) : Bool := s.depth.all (· == 0)

/-- Labelled transition; `none` = the step is not enabled. -/
def step (s : Sys) : Step → Option Sys
  | .enter t => if t < s.depth.length then some (enterStep s t) else none
  | .exit t => if 0 < s.depthOf t then some (exitStep s t) else none
  | .copyModule t => if 0 < s.depthOf t then some (copyStep s t) else none
  | .raise t => if 0 < s.depthOf t then some (unwind s t (s.depthOf t)) else none
  | .external f => if s.idle then some (externalStep s f) else none

def run (s : Sys) : List Step → Option Sys
  | [] => some s
  | a :: as => match step s a with
    | none => none
    | some s' => run s' as

/-- States reachable from the initial state by any interleaving of any steps of
any of the `n` threads. -/
inductive Reachable (foreign : Bool) (n : Nat) : Sys → Prop
  | init : Reachable foreign n (init foreign n)
  | step {s s' : Sys} (a : Step) : Reachable foreign n s → step s a = some s' → Reachable foreign n s'

/-! ## Sequential model of `protect_via_deepcopy` / `DeepCopyMethod.deepcopy` -/

mutual
/-- Values as far as copying is concerned. -/
inductive Val
  /-- bool/int/float/str/bytes/type: returned as is, deep-copied atomically -/
  | atom
  /-- a module -/
  | module
  /-- a value whose deep copy raises (a lock, a generator, a `__deepcopy__` that raises) -/
  | bad
  /-- any plain container (list, dict, tuple, set): copied element by element -/
  | list (xs : Vals)
  /-- a spec-class instance: class-level `do_not_copy`, attribute values with
  their per-attribute `do_not_copy`, and whether `__post_copy__` raises -/
  | inst (dnc : Bool) (attrs : Attrs) (postCopyRaises : Bool)
inductive Vals
  | nil | cons (v : Val) (vs : Vals)
inductive Attrs
  | nil | cons (dnc : Bool) (v : Val) (rest : Attrs)
end

inductive Instr | enter | exit | copy | raise
  deriving DecidableEq, Repr

/-- `protect_via_deepcopy(v)` around an already compiled body: immediate values
(and modules) are returned as is without touching the guard. -/
def wrapProtect (v : Val) (body : List Instr) : List Instr :=
  match v with
  | .atom => []
  | .module => []
  | _ => Instr.enter :: (body ++ [Instr.exit])

mutual
/-- `copy.deepcopy(v, memo)` -/
def deepI : Val → List Instr
  | .atom => []
  | .module => [Instr.copy]
  | .bad => [Instr.raise]
  | .list xs => deepIs xs
  | .inst dnc as pc =>
    if dnc then [] else attrsI as ++ (if pc then [Instr.raise] else [])
def deepIs : Vals → List Instr
  | .nil => []
  | .cons v vs => deepI v ++ deepIs vs
/-- loop of `DeepCopyMethod.deepcopy` over `self.__dict__` -/
def attrsI : Attrs → List Instr
  | .nil => []
  | .cons dnc v rest => (if dnc then [] else wrapProtect v (deepI v)) ++ attrsI rest
end

def protectI (v : Val) : List Instr := wrapProtect v (deepI v)

mutual
/-- No module outside a spec instance: a bare `copy.deepcopy(v)` meets modules only
inside `protect_via_deepcopy` blocks opened by `DeepCopyMethod.deepcopy`. -/
def guardedV : Val → Bool
  | .atom => true
  | .module => false
  | .bad => true
  | .list xs => guardedVs xs
  | .inst _ _ _ => true
def guardedVs : Vals → Bool
  | .nil => true
  | .cons v vs => guardedV v && guardedVs vs
end

/-- One instruction of thread `t`; `false` = an exception left the operation
(all open `with` blocks of the thread have been unwound). -/
def seqStep (t : Nat) (i : Instr) (s : Sys) : Sys × Bool :=
  match i with
  | .enter => (enterStep s t, true)
  | .exit =>
    let s' := exitStep s t
    if s'.failedOf t && !s.failedOf t then (unwind s' t (s'.depthOf t), false) else (s', true)
  | .copy =>
    if s.table.isSome then (s, true)
    else let s' := copyStep s t; (unwind s' t (s'.depthOf t), false)
  | .raise => (unwind s t (s.depthOf t), false)

def execSeq (t : Nat) : List Instr → Sys → Sys × Bool
  | [], s => (s, true)
  | i :: r, s =>
    match seqStep t i s with
    | (s', true) => execSeq t r s'
    | (s', false) => (s', false)

/-- One item of a single-threaded history. -/
inductive HistOp
  /-- `protect_via_deepcopy(v)` (constructor defaults, helpers, reset, ... all go through it) -/
  | protect (v : Val)
  /-- bare `copy.deepcopy(v)`; only `guardedV` values are the library's business -/
  | deepcopy (v : Val)
  /-- between two operations another library changes its own registration -/
  | external (foreign : Bool)

def histProg : HistOp → List Instr
  | .protect v => protectI v
  | .deepcopy v => if guardedV v then deepI v else []
  | .external _ => []

/-- A history of copying operations by one thread (aborted ones included). -/
def execHistory (t : Nat) : List HistOp → Sys → Sys
  | [], s => s
  | .external f :: r, s => execHistory t r (if s.idle then externalStep s f else s)
  | op :: r, s => execHistory t r (execSeq t (histProg op) s).1

/-- what the table should hold at the end: the last registration by the environment -/
def expectedOrig (o : Option Entry) : List HistOp → Option Entry
  | [] => o
  | .external f :: r => expectedOrig (if f then some Entry.foreign else none) r
  | _ :: r => expectedOrig o r

/-! ## Replay of thread programs under a schedule (used by the driver) -/

inductive TStatus | running | unwinding | ok | err
  deriving DecidableEq, Repr

structure Conf where
  sys   : Sys
  progs : List (List Instr)
  stat  : List TStatus
  deriving Repr

inductive Ev | E | X | C | F | idle
  deriving DecidableEq, Repr

/-- status after the instruction pointer moved: an upcoming `raise` starts unwinding. -/
def settle (s : Sys) (t : Nat) (p : List Instr) (st : TStatus) : List Instr × TStatus :=
  match st with
  | .running =>
    match p with
    | [] => ([], .ok)
    | Instr.raise :: _ => if 0 < s.depthOf t then ([], .unwinding) else ([], .err)
    | _ => (p, .running)
  | .unwinding => if 0 < s.depthOf t then (p, .unwinding) else ([], .err)
  | st => (p, st)

def Conf.start (foreign : Bool) (progs : List (List Instr)) : Conf :=
  let s := init foreign progs.length
  let ps := progs.zipIdx.map (fun (p, t) => settle s t p .running)
  { sys := s, progs := ps.map (·.1), stat := ps.map (·.2) }

/-- Thread `t` performs its next protocol event. -/
def tick (c : Conf) (t : Nat) : Conf × Ev :=
  let p := c.progs.getD t []
  let st := c.stat.getD t .ok
  let fin (s : Sys) (p : List Instr) (st : TStatus) (e : Ev) : Conf × Ev :=
    let r := settle s t p st
    ({ sys := s, progs := c.progs.set t r.1, stat := c.stat.set t r.2 }, e)
  match st with
  | .unwinding => fin (exitStep c.sys t) p .unwinding .X
  | .running =>
    match p with
    | Instr.enter :: r => fin (enterStep c.sys t) r .running .E
    | Instr.exit :: r =>
      let s' := exitStep c.sys t
      if s'.failedOf t && !c.sys.failedOf t then fin s' r .unwinding .X else fin s' r .running .X
    | Instr.copy :: r =>
      if c.sys.table.isSome then fin c.sys r .running .C
      else fin (copyStep c.sys t) r .unwinding .F
    | _ => (c, .idle)
  | _ => (c, .idle)

/-! ## Statement-level model of the fixed code (pre-emption between any two statements) -/

namespace Micro

/-- where a thread is inside `__enter__` / `__exit__` (the statement it executes next) -/
inductive MPC
  | idle                                        -- not inside `__enter__`/`__exit__`
  | eAcq | eInc | eRead | eInstall | eSetP | eRel   -- with cls.lock: / refcount += 1 / .get / table[..] = / patched = True / leave
  | xAcq | xDec | xTest | xDel | xClrP | xRel       -- with cls.lock: / refcount -= 1 / if .. / del / patched = False / leave
  deriving DecidableEq, Repr

structure MT where
  pc : MPC
  depth : Nat
  deriving DecidableEq, Repr

structure MSys where
  orig    : Option Entry
  table   : Option Entry
  rc      : Int
  patched : Bool
  lock    : Option Nat
  threads : List MT
  failed  : Bool
  deriving DecidableEq, Repr

def minit (foreign : Bool) (n : Nat) : MSys :=
  let o := if foreign then some Entry.foreign else none
  ⟨o, o, 0, false, none, List.replicate n ⟨.idle, 0⟩, false⟩

/-- what a thread does when it is scheduled -/
inductive MAct
  | enter    -- call `__enter__` (thread is idle)
  | exit     -- call `__exit__` (thread is idle inside a protected block)
  | copy     -- `copy.deepcopy(module)` inside a protected block
  | next     -- execute the next statement of `__enter__`/`__exit__`
  deriving DecidableEq, Repr

def MSys.setT (s : MSys) (t : Nat) (th : MT) : MSys := { s with threads := s.threads.set t th }

def mstep (s : MSys) (t : Nat) (a : MAct) : Option MSys :=
  match s.threads[t]? with
  | none => none
  | some th =>
    match th.pc, a with
    | .idle, .enter => some (s.setT t { th with pc := .eAcq })
    | .idle, .exit => if 0 < th.depth then some (s.setT t { th with pc := .xAcq }) else none
    | .idle, .copy =>
      if 0 < th.depth then (if s.table.isSome then some s else some { s with failed := true }) else none
    | .eAcq, .next => if s.lock.isNone then some { s.setT t { th with pc := .eInc } with lock := some t } else none
    | .eInc, .next => some { s.setT t { th with pc := .eRead } with rc := s.rc + 1 }
    | .eRead, .next => some (s.setT t { th with pc := if s.table.isNone then .eInstall else .eRel })
    | .eInstall, .next => some { s.setT t { th with pc := .eSetP } with table := some .ours }
    | .eSetP, .next => some { s.setT t { th with pc := .eRel } with patched := true }
    | .eRel, .next => some { s.setT t { pc := .idle, depth := th.depth + 1 } with lock := none }
    | .xAcq, .next => if s.lock.isNone then some { s.setT t { th with pc := .xDec } with lock := some t } else none
    | .xDec, .next => some { s.setT t { th with pc := .xTest } with rc := s.rc - 1 }
    | .xTest, .next => some (s.setT t { th with pc := if s.patched && s.rc == 0 then .xDel else .xRel })
    | .xDel, .next =>
      some { s.setT t { th with pc := .xClrP } with table := none, failed := s.failed || s.table.isNone }
    | .xClrP, .next => some { s.setT t { th with pc := .xRel } with patched := false }
    | .xRel, .next => some { s.setT t { pc := .idle, depth := th.depth - 1 } with lock := none }
    | _, _ => none

inductive MReachable (foreign : Bool) (n : Nat) : MSys → Prop
  | init : MReachable foreign n (minit foreign n)
  | step {s s' : MSys} (t : Nat) (a : MAct) : MReachable foreign n s → mstep s t a = some s' → MReachable foreign n s'

def mrunSched (s : MSys) : List (Nat × MAct) → MSys
  | [] => s
  | (t, a) :: r => match mstep s t a with
    | none => mrunSched s r
    | some s' => mrunSched s' r

end Micro

/-! ## Legacy counter-models (the code before the `fix:` commits), at the
granularity of single statements, with guard *instances* carrying the state -/

namespace Legacy

structure Guard where
  rc : Int
  patched : Bool
  deriving DecidableEq, Repr

/-- micro-instructions of one `with _modules_copyable(): ...` -/
inductive MI
  | hasattr    -- `hasattr(cls, "__instance__")`
  | create     -- `cls.__instance__ = object.__new__(cls)` if the test failed
  | fetch      -- `return cls.__instance__`
  | reinit     -- pre-D4 `__init__`: `self.lock = RLock(); self.refcount = 0; self.patched_table = False`
  | acquire | release   -- the class-level lock (absent before D4: a fresh lock per use excludes nobody)
  | inc | read | install
  | copy
  | dec | del
  deriving DecidableEq, Repr

structure M where
  table    : Option Entry
  guards   : List Guard
  clsInst  : Option Nat
  lock     : Option Nat
  self     : List (List Nat)      -- per thread: stack of guard instances of its open `with` blocks
  sawInst  : List Bool
  sawMiss  : List Bool
  failed   : List Bool
  progs    : List (List MI)
  deriving DecidableEq, Repr

def M.start (progs : List (List MI)) : M :=
  let n := progs.length
  { table := none, guards := [], clsInst := none, lock := none,
    self := List.replicate n [], sawInst := List.replicate n false,
    sawMiss := List.replicate n false, failed := List.replicate n false, progs := progs }

def M.cur (m : M) (t : Nat) : Nat := ((m.self.getD t []).head?).getD 0
def M.guard (m : M) (g : Nat) : Guard := m.guards.getD g ⟨0, false⟩
def M.setGuard (m : M) (g : Nat) (x : Guard) : M := { m with guards := m.guards.set g x }

/-- one micro-step of thread `t`; `none` = not enabled (lock held by another
thread, or nothing left to do). -/
def mstep (m : M) (t : Nat) : Option M :=
  match m.progs.getD t [] with
  | [] => none
  | i :: rest =>
    let m := { m with progs := m.progs.set t rest }
    let g := m.cur t
    let gd : Guard := m.guard g
    match i with
    | .hasattr => some { m with sawInst := m.sawInst.set t m.clsInst.isSome }
    | .create =>
      if m.sawInst.getD t false then some m
      else some { m with guards := m.guards ++ [⟨0, false⟩], clsInst := some m.guards.length }
    | .fetch => some { m with self := m.self.set t (m.clsInst.getD 0 :: m.self.getD t []) }
    | .reinit => some (m.setGuard g ⟨0, false⟩)
    | .acquire => if m.lock.isNone then some { m with lock := some t } else none
    | .release => some { m with lock := none }
    | .inc => some (m.setGuard g { gd with rc := gd.rc + 1 })
    | .read => some { m with sawMiss := m.sawMiss.set t m.table.isNone }
    | .install =>
      if m.sawMiss.getD t false then
        some { (m.setGuard g { gd with patched := true }) with table := some .ours }
      else some m
    | .copy => if m.table.isSome then some m else some { m with failed := m.failed.set t true }
    | .dec => some (m.setGuard g { gd with rc := gd.rc - 1 })
    | .del =>
      let m' := { m with self := m.self.set t ((m.self.getD t []).drop 1) }
      if gd.patched && gd.rc == 0 then
        if m.table.isSome then
          some { (m'.setGuard g { gd with patched := false }) with table := none }
        else some { m' with failed := m'.failed.set t true }
      else some m'

def mrun (m : M) : List Nat → Option M
  | [] => some m
  | t :: ts => match mstep m t with
    | none => none
    | some m' => mrun m' ts

def M.finished (m : M) : Bool := m.progs.all (·.isEmpty)

/-- the code before D4: singleton via `__new__`, but `__init__` re-run on every use. -/
def progD4 (body : List MI) : List MI :=
  [.hasattr, .create, .fetch, .reinit, .inc, .read, .install] ++ body ++ [.dec, .del]

/-- the code between D4 and `efbf880`: class-level lock, counters on the instance. -/
def progPerInstance (body : List MI) : List MI :=
  [.hasattr, .create, .fetch, .acquire, .inc, .read, .install, .release] ++ body
    ++ [.acquire, .dec, .del, .release]

end Legacy

/-! ## Counter-model: the "I installed the entry" flag remembered per use (generator-style guard) -/

namespace PerUse

/-- Counter-model: a guard that remembers "I installed the entry" PER USE (a local
variable of each `with _modules_copyable():`, e.g. a generator-based context manager)
instead of once for all uses. `uses[t]` = the flags of the open uses of thread `t`,
innermost first. -/
structure P where
  table  : Option Entry
  rc     : Int
  uses   : List (List Bool)
  failed : Bool
  deriving DecidableEq, Repr

def pinit (n : Nat) : P := ⟨none, 0, List.replicate n [], false⟩

inductive Act | enter (t : Nat) | exit (t : Nat) | copy (t : Nat)
  deriving DecidableEq, Repr

def pstep (s : P) : Act → Option P
  | .enter t =>
    if t < s.uses.length then
      let flag := s.table.isNone
      some { s with rc := s.rc + 1, table := if flag then some .ours else s.table,
                    uses := s.uses.set t (flag :: s.uses.getD t []) }
    else none
  | .exit t =>
    match s.uses.getD t [] with
    | [] => none
    | flag :: rest =>
      let rc := s.rc - 1
      if flag && rc == 0 then
        some { s with rc := rc, table := none, uses := s.uses.set t rest, failed := s.failed || s.table.isNone }
      else some { s with rc := rc, uses := s.uses.set t rest }
  | .copy t =>
    if (s.uses.getD t []).isEmpty then none else some { s with failed := s.failed || s.table.isNone }

def prun (s : P) : List Act → Option P
  | [] => some s
  | a :: as => match pstep s a with
    | none => none
    | some s' => prun s' as

def P.quiescent (s : P) : Bool := s.uses.all (·.isEmpty)

end PerUse

end SpecVerif.C20
