import SpecVerif.Model.Py
/-!
# The shared object model of C01 / C02 / C04 / C07 / C08: a heap with identities

Python objects are modelled as *nodes* of a heap addressed by identities
(`Id = Nat`, the position of the node in the heap).  Scalars (None, MISSING,
bool, int, str tokens) have no identity.  Mutable nodes (list / dict / set /
spec-class instance) refer to their children through `Ref`s, i.e. exactly as
CPython objects refer to each other: aliasing is two `Ref.obj i` with the same
`i`, an in-place write is `write i node`, and it is seen through every alias.

(DESIGN.md 7.0 sketches values as trees carrying ids plus a `writeAt` that
rewrites every occurrence; the flat heap used here is the same model with the
`Consistent` invariant -- equal ids, equal subtrees -- built into the
representation instead of proved, `node i` is `heap[i]?`, and every function
is structurally recursive so that `decide` evaluates it.)

Everything that touches the heap goes through three primitives of the monad
`M`: `alloc` (new identity = old heap size), `write`, `getNode`; each effect is
logged in the trace (`Ev`).  A *fault plan* (`MS.faults`, `MS.budget`) says
which invocation of which user callback raises, and after how many effects an
exception is injected (crash point).  State survives exceptions, as in Python.

Core Lean only.
-/
namespace SpecVerif.Heap
open SpecVerif.Py

/-- Values without identity. `str t` is the opaque string token `t`
(`0` is the empty string). -/
inductive Sc
  | none | missing | bool (b : Bool) | int (n : Int) | str (t : Nat)
  deriving DecidableEq, Repr, Inhabited

/-- A Python value as seen from a variable / container slot. -/
inductive Ref
  | sc (s : Sc) | obj (i : Nat)
  deriving DecidableEq, Repr, Inhabited

/-- A mutable object.  `inst cls thaw fs`: instance of class `cls` whose
`__dict__` holds the attributes `fs` (insertion ordered) and, iff `thaw`, the
entry `__spec_class_initializing__`. -/
inductive Node
  | list (xs : List Ref)
  | dict (kvs : List (Sc × Ref))
  | set (xs : List Sc)
  | inst (cls : Nat) (thaw : Bool) (fs : List (Nat × Ref))
  deriving DecidableEq, Repr, Inhabited

abbrev Heap := List Node

/-- What propagates as a Python exception: a modelled exception class, or the
injected crash-point exception (`boom`, not caught by any `except <class>`). -/
inductive Exn
  | py (e : Err) | boom
  deriving DecidableEq, Repr, Inhabited

instance {ε α : Type} [DecidableEq ε] [DecidableEq α] : DecidableEq (Except ε α) := fun a b =>
  match a, b with
  | .ok x, .ok y => if h : x = y then isTrue (by rw [h]) else isFalse (fun h' => by cases h'; exact h rfl)
  | .error x, .error y => if h : x = y then isTrue (by rw [h]) else isFalse (fun h' => by cases h'; exact h rfl)
  | .ok _, .error _ => isFalse (fun h => by cases h)
  | .error _, .ok _ => isFalse (fun h => by cases h)

/-- Kinds of user callback an operation can invoke. -/
inductive CbKind
  | transform | attrTransform | preparer | itemPreparer | postCopy
  deriving DecidableEq, Repr, Inhabited

/-- Effects, in the order they happen. -/
inductive Ev
  | alloc (i : Nat) | write (i : Nat) | call (k : CbKind) (n : Nat)
  deriving DecidableEq, Repr, Inhabited

/-- Interpreter state. `trace` is newest-first. `faults`: `(k, n)` = the `n`-th
invocation (1-based, per operation) of callback kind `k` raises. `budget = some k`:
an exception is injected instead of the `(k+1)`-th heap effect (once). -/
structure MS where
  heap : Heap
  trace : List Ev := []
  faults : List (CbKind × Nat) := []
  budget : Option Nat := none
  deriving Repr, Inhabited

/-- Exception + state + effect-trace monad; the state survives an exception. -/
def M (α : Type) : Type := MS → Except Exn α × MS

namespace M
@[inline] def pure' {α} (a : α) : M α := fun s => (.ok a, s)
@[inline] def bind' {α β} (m : M α) (f : α → M β) : M β := fun s =>
  match m s with
  | (.ok a, s') => f a s'
  | (.error e, s') => (.error e, s')
end M

instance : Monad M where
  pure := M.pure'
  bind := M.bind'

def throwE {α} (e : Exn) : M α := fun s => (.error e, s)
def throwPy {α} (e : Err) : M α := throwE (.py e)
def getMS : M MS := fun s => (.ok s, s)
def getHeap : M Heap := fun s => (.ok s.heap, s)

/-- `try: m finally: fin` (the `finally` part must not raise for the original
exception to propagate, as in the modelled code). -/
def tryFinally {α} (m : M α) (fin : M Unit) : M α := fun s =>
  match m s with
  | (.ok a, s') => (match fin s' with
      | (.ok _, s'') => (.ok a, s'')
      | (.error e, s'') => (.error e, s''))
  | (.error e, s') => (match fin s' with
      | (.ok _, s'') => (.error e, s'')
      | (.error e', s'') => (.error e', s''))

/-- `try: m except <sel>: h`. -/
def tryCatch {α} (m : M α) (sel : Exn → Bool) (h : M α) : M α := fun s =>
  match m s with
  | (.ok a, s') => (.ok a, s')
  | (.error e, s') => if sel e then h s' else (.error e, s')

/-- `try: m except BaseException: h; raise`. -/
def onError {α} (m : M α) (h : M Unit) : M α := fun s =>
  match m s with
  | (.ok a, s') => (.ok a, s')
  | (.error e, s') => (match h s' with
      | (.ok _, s'') => (.error e, s'')
      | (.error e', s'') => (.error e', s''))

/-! ## Heap primitives -/

/-- Spend one unit of the crash-point budget; raises `boom` when exhausted. -/
def tick : M Unit := fun s =>
  match s.budget with
  | none => (.ok (), s)
  | some 0 => (.error .boom, { s with budget := none })
  | some (k+1) => (.ok (), { s with budget := some k })

def allocRaw (n : Node) : M Nat := fun s =>
  (.ok s.heap.length, { s with heap := s.heap ++ [n], trace := .alloc s.heap.length :: s.trace })

def writeRaw (i : Nat) (n : Node) : M Unit := fun s =>
  (.ok (), { s with heap := s.heap.set i n, trace := .write i :: s.trace })

/-- Create a new object; its identity is fresh. -/
def alloc (n : Node) : M Nat := do tick; allocRaw n
/-- In-place change of object `i`. -/
def write (i : Nat) (n : Node) : M Unit := do tick; writeRaw i n

/-- Read object `i` (a dangling reference is a model error, reported as RuntimeError). -/
def getNode (i : Nat) : M Node := fun s =>
  match s.heap[i]? with
  | some n => (.ok n, s)
  | none => (.error (.py .runtimeError), s)

/-- Number of invocations of callback kind `k` logged so far. -/
def countCalls (k : CbKind) : List Ev → Nat
  | [] => 0
  | .call k' _ :: es => (if k' = k then 1 else 0) + countCalls k es
  | _ :: es => countCalls k es

/-- Register an invocation of a user callback of kind `k`; it raises
(RuntimeError) if the fault plan says so. -/
def callCb (k : CbKind) : M Unit := fun s =>
  let n := countCalls k s.trace + 1
  let s' := { s with trace := .call k n :: s.trace }
  if s.faults.contains (k, n) then (.error (.py .runtimeError), s') else (.ok (), s')

/-! ## The callback pool (interpreted identically by `harness/heap_common.py`) -/

inductive Cb
  | ident                 -- lambda v: v
  | inc                   -- int -> int + 1 (TypeError otherwise)
  | const (s : Sc)        -- lambda v: s
  | append (e : Sc)       -- list -> v + [e] (a new list; TypeError otherwise)
  | rebuild               -- list -> list(v) (a new list; TypeError otherwise)
  | absInt                -- int -> abs(int); anything else is returned as is
  deriving DecidableEq, Repr, Inhabited

def applyCb (cb : Cb) (v : Ref) : M Ref :=
  match cb with
  | .ident => pure v
  | .const s => pure (.sc s)
  | .inc => (match v with
      | .sc (.int n) => pure (.sc (.int (n + 1)))
      | _ => throwPy .typeError)
  | .absInt => (match v with
      | .sc (.int n) => pure (.sc (.int (Int.ofNat n.natAbs)))
      | _ => pure v)
  | .append e => (match v with
      | .obj i => do
        match (← getNode i) with
        | .list xs => let j ← alloc (.list (xs ++ [.sc e])); pure (.obj j)
        | _ => throwPy .typeError
      | _ => throwPy .typeError)
  | .rebuild => (match v with
      | .obj i => do
        match (← getNode i) with
        | .list xs => let j ← alloc (.list xs); pure (.obj j)
        | _ => throwPy .typeError
      | _ => throwPy .typeError)

/-- Invoke pool callback `cb` as a user callback of kind `k`. -/
def invoke (k : CbKind) (cb : Cb) (v : Ref) : M Ref := do
  callCb k
  applyCb cb v

/-! ## Association lists with Python `dict` semantics (insertion ordered) -/

def alGet {κ β} [DecidableEq κ] (k : κ) : List (κ × β) → Option β
  | [] => none
  | (k', v) :: r => if k' = k then some v else alGet k r

/-- `d[k] = v`: overwrite in place, or append. -/
def alSet {κ β} [DecidableEq κ] (k : κ) (v : β) : List (κ × β) → List (κ × β)
  | [] => [(k, v)]
  | (k', v') :: r => if k' = k then (k, v) :: r else (k', v') :: alSet k v r

def alDel {κ β} [DecidableEq κ] (k : κ) : List (κ × β) → List (κ × β)
  | [] => []
  | (k', v') :: r => if k' = k then r else (k', v') :: alDel k r

def alHas {κ β} [DecidableEq κ] (k : κ) (l : List (κ × β)) : Bool := (alGet k l).isSome

end SpecVerif.Heap
