import SpecVerif.Model.Heap
/-!
# Spec-class instances over the heap model: class tables and the operations

A `ClassTable` is *data* (what `@spec_class` computes into `__spec_class__`):
per class the resolved attribute list with owner, kind (annotation), default
declaration, `do_not_copy`, preparer / item preparer, and the class flags
`frozen`, `do_not_copy`, base class, `__post_copy__`.  The functions below
mirror, step for step and in the same order, the Python functions named in
their doc comments (`spec_classes/utils/mutation.py`, `methods/core.py`,
`methods/scalar.py`, `methods/toplevel.py`, `methods/collections/*.py`,
`collections/*.py`, `types/attr.py`).

Core Lean only.
-/
namespace SpecVerif.Heap
open SpecVerif.Py

/-! ## Class tables -/

/-- Attribute annotations of the modelled grammar. -/
inductive Kind
  | int | str | listInt | dictStrInt | setInt | spec (c : Nat) | listSpec (c : Nat)
  deriving DecidableEq, Repr, Inhabited

/-- Collection families (`SequenceMutator`, `MappingMutator`, `SetMutator`). -/
inductive Fam | seq | map | set
  deriving DecidableEq, Repr, Inhabited

def Kind.fam? : Kind → Option Fam
  | .listInt => some .seq | .listSpec _ => some .seq
  | .dictStrInt => some .map | .setInt => some .set
  | _ => none

/-- `attr_spec.item_type`. -/
def Kind.item : Kind → Kind
  | .listSpec c => .spec c
  | _ => .int

def Kind.specClass? : Kind → Option Nat
  | .spec c => some c
  | _ => none

/-- Literals that can be written as a default in a class body / produced by a factory. -/
inductive Lit
  | sc (s : Sc) | list (xs : List Sc) | dict (kvs : List (Sc × Sc)) | set (xs : List Sc)
  | newInst (c : Nat)
  | listInst (c n : Nat)      -- `[C(), ..., C()]` (n default-constructed instances)
  deriving DecidableEq, Repr, Inhabited

/-- The ways of declaring a default: none; `a: T = lit`; `Attr(default=lit)`;
`Attr(default_factory=lambda: lit)`; `dataclasses.field(default=lit)`;
`dataclasses.field(default_factory=...)`. -/
inductive DefKind
  | none | plain | attr | factory | fieldPlain | fieldFactory
  deriving DecidableEq, Repr, Inhabited

def DefKind.isFactory : DefKind → Bool
  | .factory => true | .fieldFactory => true | _ => false

structure AttrDecl where
  name : Nat
  kind : Kind
  dk : DefKind := .none
  lit : Lit := .sc .none
  dnc : Bool := false
  prep : Option Cb := none
  iprep : Option Cb := none
  owner : Nat
  deriving DecidableEq, Repr, Inhabited

/-- `base`: the class this one derives from; `plain`: the subclass is not
decorated (it shares the base's `__spec_class__`); `overrides`: attributes
re-assigned in the class body of a subclass (`ns = [42]`). -/
structure ClassDecl where
  attrs : List AttrDecl := []
  frozen : Bool := false
  dnc : Bool := false
  base : Option Nat := none
  plain : Bool := false
  overrides : List (Nat × Lit) := []
  postCopy : Bool := false
  deriving DecidableEq, Repr, Inhabited

/-- Static context of an execution: the class table, the identities of the
class-level default objects (class `__dict__` entries and `attr_spec.default`
objects), and the constructor used when the code default-constructs a nested
spec class (tied to `construct` by fuel, see the end of the file). -/
structure Ctx where
  T : List ClassDecl
  clsDict : List ((Nat × Nat) × Ref) := []
  specDef : List ((Nat × Nat) × Ref) := []
  make : Nat → List (Nat × Ref) → M Ref := fun _ _ => throwPy .runtimeError

def Ctx.cd (X : Ctx) (c : Nat) : ClassDecl := X.T.getD c {}

def ClassDecl.attr? (cd : ClassDecl) (a : Nat) : Option AttrDecl :=
  cd.attrs.find? (fun d => d.name == a)

/-- `issubclass(c', c)` along the `base` chain. -/
def isSub (T : List ClassDecl) : Nat → Nat → Nat → Bool
  | 0, c', c => c' == c
  | fuel+1, c', c =>
    c' == c || (match (T.getD c' {}).base with
      | some b => isSub T fuel b c
      | none => false)

def Ctx.isSub (X : Ctx) (c' c : Nat) : Bool := SpecVerif.Heap.isSub X.T X.T.length c' c

/-! ## `check_type` -/

def scIsInt : Ref → Bool
  | .sc (.int _) => true | .sc (.bool _) => true | _ => false
def scIsStr : Sc → Bool
  | .str _ => true | _ => false

def isInstOf (X : Ctx) (h : Heap) (c : Nat) : Ref → Bool
  | .obj i => (match h[i]? with
      | some (.inst c' _ _) => X.isSub c' c
      | _ => false)
  | _ => false

/-- `check_type(value, attr_spec.type)`. -/
def typeOk (X : Ctx) (h : Heap) : Kind → Ref → Bool
  | .int, r => scIsInt r
  | .str, .sc s => scIsStr s
  | .str, _ => false
  | .listInt, .obj i => (match h[i]? with
      | some (.list xs) => xs.all scIsInt
      | _ => false)
  | .dictStrInt, .obj i => (match h[i]? with
      | some (.dict kvs) => kvs.all (fun kv => scIsStr kv.1 && scIsInt kv.2)
      | _ => false)
  | .setInt, .obj i => (match h[i]? with
      | some (.set xs) => xs.all (fun s => scIsInt (.sc s))
      | _ => false)
  | .spec c, r => isInstOf X h c r
  | .listSpec c, .obj i => (match h[i]? with
      | some (.list xs) => xs.all (isInstOf X h c)
      | _ => false)
  | _, _ => false

/-- `if c: raise e` as one monadic step. -/
def guardM (c : Bool) (e : Err) : M Unit := if c then throwPy e else pure ()

/-! ## `copy.deepcopy` / `DeepCopyMethod.deepcopy` / `protect_via_deepcopy` -/

abbrev Memo := List (Nat × Nat)

def copyList (f : Ref → Memo → M (Ref × Memo)) : List Ref → Memo → M (List Ref × Memo)
  | [], m => pure ([], m)
  | r :: rs, m => do
    let (r', m1) ← f r m
    let (rs', m2) ← copyList f rs m1
    pure (r' :: rs', m2)

def copyKVs (f : Ref → Memo → M (Ref × Memo)) :
    List (Sc × Ref) → Memo → M (List (Sc × Ref) × Memo)
  | [], m => pure ([], m)
  | (k, r) :: rs, m => do
    let (r', m1) ← f r m
    let (rs', m2) ← copyKVs f rs m1
    pure ((k, r') :: rs', m2)

/-- The loop of `DeepCopyMethod.deepcopy`: `new.__dict__[attr] = value` for a
`do_not_copy` attribute, `protect_via_deepcopy(value, memo)` otherwise; one
write to the (fresh) copy `j` per attribute. -/
def copyFields (f : Ref → Memo → M (Ref × Memo)) (cd : ClassDecl) (j c : Nat) (thaw : Bool) :
    List (Nat × Ref) → List (Nat × Ref) → Memo → M Memo
  | _, [], m => pure m
  | acc, (a, v) :: fs, m => do
    let dnc := match cd.attr? a with
      | some d => d.dnc
      | none => false
    let p ← (if dnc then pure (v, m) else f v m)
    write j (.inst c thaw (acc ++ [(a, p.1)]))
    copyFields f cd j c thaw (acc ++ [(a, p.1)]) fs p.2

/-- `copy.deepcopy(r, memo)`. `fuel` bounds the nesting depth (RecursionError). -/
def copyRef (X : Ctx) : Nat → Ref → Memo → M (Ref × Memo)
  | _, .sc s, m => pure (.sc s, m)
  | 0, .obj _, _ => throwPy .runtimeError
  | fuel+1, .obj i, m =>
    match alGet i m with
    | some j => pure (.obj j, m)
    | none => do
      match (← getNode i) with
      | .list xs =>
        let (ys, m1) ← copyList (copyRef X fuel) xs m
        let j ← alloc (.list ys)
        pure (.obj j, (i, j) :: m1)
      | .dict kvs =>
        let (kvs', m1) ← copyKVs (copyRef X fuel) kvs m
        let j ← alloc (.dict kvs')
        pure (.obj j, (i, j) :: m1)
      | .set xs =>
        let j ← alloc (.set xs)
        pure (.obj j, (i, j) :: m)
      | .inst c thaw fs =>
        let cd := X.cd c
        if cd.dnc then pure (.obj i, m)     -- `if self.__spec_class__.do_not_copy: return self`
        else do
          -- `self.__class__.__new__(self.__class__)`; the initialisation marker of the source (set while its
          -- `__init__`/`thawed()` window is open) is not part of the copy
          let j ← alloc (.inst c false [])
          let m1 ← copyFields (copyRef X fuel) cd j c false [] fs m
          (if cd.postCopy then callCb .postCopy else pure ())
          pure (.obj j, (i, j) :: m1)

/-- `copy.deepcopy(r)` with a new memo. -/
def deepcopy (X : Ctx) (r : Ref) : M Ref := do
  let h ← getHeap
  let (r', _) ← copyRef X (h.length + 1) r []
  pure r'

/-- `protect_via_deepcopy(obj)`: immutable scalars pass through. -/
def protect (X : Ctx) (r : Ref) : M Ref :=
  match r with
  | .sc _ => pure r
  | .obj _ => deepcopy X r

/-! ## Small accessors -/

def getInst (r : Ref) : M (Nat × Nat × Bool × List (Nat × Ref)) :=
  match r with
  | .obj i => do
    match (← getNode i) with
    | .inst c t fs => pure (i, c, t, fs)
    | _ => throwPy .attributeError
  | .sc _ => throwPy .attributeError

/-- `getattr(obj, attr, MISSING)` on the instance `__dict__`. -/
def getAttrD (r : Ref) (a : Nat) : M Ref :=
  match r with
  | .obj i => do
    match (← getNode i) with
    | .inst _ _ fs => pure ((alGet a fs).getD (.sc .missing))
    | _ => pure (.sc .missing)
  | .sc _ => pure (.sc .missing)

/-- The raw `object.__setattr__(obj, attr, value)`. -/
def rawSet (r : Ref) (a : Nat) (v : Ref) : M Unit := do
  let (i, c, t, fs) ← getInst r
  write i (.inst c t (alSet a v fs))

def setThaw (i : Nat) (b : Bool) : M Unit := do
  match (← getNode i) with
  | .inst c _ fs => write i (.inst c b fs)
  | _ => pure ()

/-- `with thawed(obj): body` (mutation.py). -/
def thawed {α} (X : Ctx) (r : Ref) (body : M α) : M α :=
  match r with
  | .obj i => do
    match (← getNode i) with
    | .inst c t _ =>
      if (X.cd c).frozen && !t then
        (do setThaw i true; tryFinally body (setThaw i false))
      else body
    | _ => body
  | .sc _ => body

/-- `with _rollback_on_error(obj): body` (mutation.py): restore `obj.__dict__`. -/
def rollbackOnError {α} (r : Ref) (body : M α) : M α :=
  match r with
  | .obj i => do
    match (← getNode i) with
    | .inst c t fs => onError body (write i (.inst c t fs))
    | _ => body
  | .sc _ => body

/-! ## `mutate_attr` -/

/-- `mutate_attr(obj, attr, value, inplace, type_check, force)`. -/
def mutateAttr (X : Ctx) (obj : Ref) (a : Nat) (v : Ref) (inplace typeCheck force : Bool) : M Ref :=
  if v = .sc .missing then pure obj
  else do
    let p ← getInst obj
    let cd := X.cd p.2.1
    guardM (!(force || p.2.2.1) && inplace && cd.frozen) .frozenInstanceError
    let h ← getHeap
    guardM (match cd.attr? a with
      | some d => typeCheck && !(typeOk X h d.kind v)
      | none => false) .typeError
    if !(inplace || cd.dnc) then do
      -- the fresh copy is editable (even if frozen) until it is handed back
      let target ← deepcopy X obj
      thawed X target (rawSet target a v)
      pure target
    else do
      rawSet obj a v
      pure obj

/-! ## Collections: `CollectionAttrMutator` and its three subclasses -/

def createColl (fam : Fam) : M Ref := do
  let j ← alloc (match fam with
    | .seq => .list [] | .map => .dict [] | .set => .set [])
  pure (.obj j)

/-- Identity-or-equality (`list.index`, `in`): scalars by value, objects by identity. -/
def refEq (a b : Ref) : Bool := a == b

def findIdx (v : Ref) : List Ref → Nat → Option Nat
  | [], _ => none
  | x :: xs, n => if refEq x v then some n else findIdx v xs (n + 1)

def getList (coll : Ref) : M (Nat × List Ref) :=
  match coll with
  | .obj i => do
    match (← getNode i) with
    | .list xs => pure (i, xs)
    | _ => throwPy .typeError
  | .sc _ => throwPy .typeError

def getDict (coll : Ref) : M (Nat × List (Sc × Ref)) :=
  match coll with
  | .obj i => do
    match (← getNode i) with
    | .dict kvs => pure (i, kvs)
    | _ => throwPy .typeError
  | .sc _ => throwPy .typeError

def getSet (coll : Ref) : M (Nat × List Sc) :=
  match coll with
  | .obj i => do
    match (← getNode i) with
    | .set xs => pure (i, xs)
    | _ => throwPy .typeError
  | .sc _ => throwPy .typeError

/-- `SequenceMutator._extractor`; result index `none` is Python's `None`. -/
def seqExtract (X : Ctx) (itemKind : Kind) (coll idx : Ref) (raiseIfMissing : Bool)
    (byIndex : Option Bool) : M (Option Ref × Ref) :=
  if coll = .sc .missing || idx = .sc .missing then pure (none, .sc .missing)
  else do
    let h ← getHeap
    let byIdx := match byIndex with
      | some b => b
      | none => !(typeOk X h itemKind idx)
    let p ← getList coll
    let xs := p.2
    if byIdx then
      match idx with
      | .sc (.int n) =>
        match pyIdx xs.length n with
        | some k => pure (some idx, xs.getD k (.sc .missing))
        | none => if raiseIfMissing then throwPy .indexError else pure (some idx, .sc .missing)
      | _ => throwPy .typeError
    else
      match findIdx idx xs 0 with
      | some k => pure (some (.sc (.int k)), idx)
      | none => if raiseIfMissing then throwPy .valueError else pure (none, idx)

/-- `SequenceMutator._inserter`. -/
def seqInsert (X : Ctx) (itemKind : Kind) (coll : Ref) (idx : Option Ref) (item : Ref)
    (insert : Bool) : M Unit := do
  let h ← getHeap
  guardM (!(typeOk X h itemKind item)) .valueError
  let p ← getList coll
  match idx with
  | none => write p.1 (.list (p.2 ++ [item]))
  | some (.sc (.int n)) =>
    if insert then write p.1 (.list (pyInsert p.2 n item))
    else match pyIdx p.2.length n with
      | some k => write p.1 (.list (p.2.set k item))
      | none => throwPy .indexError
  | some _ => throwPy .typeError

/-- `MappingMutator._extractor`. -/
def mapExtract (coll key : Ref) (raiseIfMissing : Bool) : M (Ref × Ref) := do
  let p ← getDict coll
  match key with
  | .sc k =>
    match alGet k p.2 with
    | some v => pure (key, v)
    | none => if raiseIfMissing then throwPy .keyError else pure (key, .sc .missing)
  | .obj _ => throwPy .typeError      -- unhashable

/-- `MappingMutator._inserter` (value type, then key type, then `d[k] = v`). -/
def mapInsert (X : Ctx) (itemKind : Kind) (coll key item : Ref) : M Unit := do
  let h ← getHeap
  guardM (!(typeOk X h itemKind item)) .valueError
  match key with
  | .sc k => do
    guardM (!(scIsStr k)) .valueError
    let p ← getDict coll
    write p.1 (.dict (alSet k item p.2))
  | .obj _ => throwPy .valueError

/-- `SetMutator._extractor`. -/
def setExtract (coll v : Ref) (raiseIfMissing : Bool) : M (Ref × Ref) := do
  let p ← getSet coll
  match v with
  | .sc s =>
    if p.2.contains s then pure (v, v)
    else if raiseIfMissing then throwPy .valueError else pure (v, .sc .missing)
  | .obj _ => throwPy .typeError      -- unhashable

/-- `SetMutator._inserter` (`discard(index)` unless it is the item itself, then `add(item)`). -/
def setInsert (X : Ctx) (itemKind : Kind) (coll idx item : Ref) (replace : Bool) : M Unit := do
  let h ← getHeap
  guardM (!(typeOk X h itemKind item)) .valueError
  let p ← getSet coll
  match item with
  | .sc s =>
    let xs1 := match idx with
      | .sc .missing => p.2
      | .sc k => if replace then p.2.erase k else p.2
      | .obj _ => p.2
    write p.1 (.set (if xs1.contains s then xs1 else xs1 ++ [s]))
  | .obj _ => throwPy .typeError

/-- Parameters of `mutate_value`. `prepare` / `transform` are pool callbacks
tagged with the kind they count as in the fault plan. -/
structure MV where
  old : Ref := .sc .missing
  new : Ref := .sc .missing
  replace : Bool := false
  prepare : Option (CbKind × Cb) := none
  attrs : List (Nat × Ref) := []
  ctor : Option Kind := none
  transform : Option (CbKind × Cb) := none
  attrTransforms : List (Nat × Cb) := []
  inplace : Bool := false

/-- `constructor()` / `constructor(**attrs)` of `mutate_value` step 4; the Bool
says that the constructor consumed the keyword attributes. -/
def defaultConstruct (X : Ctx) (k : Kind) (attrs : List (Nat × Ref)) : M (Ref × Bool) :=
  match k with
  | .int => pure (.sc (.int 0), false)
  | .str => pure (.sc (.str 0), false)
  | .listInt => do pure (← createColl .seq, false)
  | .listSpec _ => do pure (← createColl .seq, false)
  | .dictStrInt => do pure (← createColl .map, false)
  | .setInt => do pure (← createColl .set, false)
  | .spec c => do
    let r ← X.make c (attrs.filter (fun kv => kv.2 != .sc .missing))
    pure (r, true)

/-- `mutate_value` step 3: a `dict` given where the expected type is not a
mapping is taken as keyword arguments of the constructor
(`constructor(**{**attrs, **value})`). `none`: the step does not apply. -/
def dictAsCtorArgs (X : Ctx) (ctor : Option Kind) (value : Ref) (attrs : List (Nat × Ref)) :
    M (Option Ref) := do
  let h ← getHeap
  match ctor, value with
  | some k, .obj i =>
    match h[i]? with
    | some (.dict kvs) =>
      if k == .dictStrInt then pure none
      else if !kvs.isEmpty then throwPy .typeError     -- unexpected keyword arguments
      else match k with
        | .int => if attrs.isEmpty then pure (some (.sc (.int 0))) else throwPy .typeError
        | .str => if attrs.isEmpty then pure (some (.sc (.str 0))) else throwPy .typeError
        | .spec c => do
          let r ← X.make c (attrs.filter (fun kv => kv.2 != .sc .missing))
          pure (some r)
        | _ => throwPy .typeError                      -- `List[int]()` cannot be instantiated
    | _ => pure none
  | _, _ => pure none

/-- Step 1 of `mutate_value`: the base value and whether the preparer applies. -/
def mvChoose (p : MV) : Ref × Option (CbKind × Cb) :=
  if p.new != .sc .missing then (p.new, p.prepare)
  else if !p.replace then (p.old, none)
  else (.sc .missing, p.prepare)

/-- Steps 2 and 6: apply an optional callback. -/
def mvApply (cb : Option (CbKind × Cb)) (value : Ref) : M Ref :=
  match cb with
  | some (k, f) => invoke k f value
  | none => pure value

/-- Steps 3 and 4: dict as constructor arguments; construct when missing.
Result: (value, mutate_safe, keyword attributes consumed). -/
def mvConstruct (X : Ctx) (p : MV) (value : Ref) : M (Ref × Bool × Bool) := do
  let o ← dictAsCtorArgs X p.ctor value p.attrs
  match o with
  | some v => pure (v, p.inplace, false)
  | none =>
    if value = .sc .missing then
      match p.ctor with
      | some k => do
        let r ← defaultConstruct X k p.attrs
        pure (r.1, true, r.2)
      | none => pure (value, p.inplace, false)
    else pure (value, p.inplace, false)

/-! The attribute layer and `mutate_value` call each other in Python
(`mutate_value` → `setattr` → `prepare_attr_value` → `mutate_value`); the inner
call never carries keyword attributes, so the cycle is cut by first defining
`mutate_value` without the attribute steps (`mutateValue0`). -/

/-- `mutate_value` restricted to `attrs = {}` and `attr_transforms = {}`. -/
def mutateValue0 (X : Ctx) (p : MV) : M Ref := do
  let v1 ← mvApply (mvChoose p).2 (mvChoose p).1
  let r ← mvConstruct X { p with attrs := [] } v1
  mvApply p.transform r.1

/-- `for item in items: self.add_item(item)` of `SequenceMutator.add_items`
with the single-item path inlined (`_mutate_collection` with no index). -/
def seqAddAll (X : Ctx) (d : AttrDecl) (coll : Ref) : List Ref → M Unit
  | [] => pure ()
  | item :: rest => do
    let v ← mutateValue0 X {
      new := item, replace := true,
      prepare := d.iprep.map (fun cb => (.itemPreparer, cb)), ctor := some d.kind.item }
    seqInsert X d.kind.item coll none v false
    seqAddAll X d coll rest

def mapAddAll (X : Ctx) (d : AttrDecl) (coll : Ref) : List (Sc × Ref) → M Unit
  | [] => pure ()
  | (k, item) :: rest => do
    let e ← mapExtract coll (.sc k) false
    let v ← mutateValue0 X {
      old := e.2, new := item, replace := true,
      prepare := d.iprep.map (fun cb => (.itemPreparer, cb)), ctor := some d.kind.item }
    mapInsert X d.kind.item coll (.sc k) v
    mapAddAll X d coll rest

def setAddAll (X : Ctx) (d : AttrDecl) (coll : Ref) : List Ref → M Unit
  | [] => pure ()
  | item :: rest => do
    let v ← mutateValue0 X {
      new := item, replace := true,
      prepare := d.iprep.map (fun cb => (.itemPreparer, cb)), ctor := some d.kind.item }
    setInsert X d.kind.item coll (.sc .missing) v true
    setAddAll X d coll rest

/-- The items an incoming object yields when iterated (`Iterable` check of
`add_items`); `none` = not iterable. A dict iterates its keys. -/
def iterItems (h : Heap) : Ref → Option (List Ref)
  | .obj i => (match h[i]? with
      | some (.list xs) => some xs
      | some (.set xs) => some (xs.map Ref.sc)
      | some (.dict kvs) => some (kvs.map (fun kv => Ref.sc kv.1))
      | _ => none)
  | .sc (.str 0) => some []                  -- the empty string yields nothing
  | .sc (.str t) => some [.sc (.str t)]       -- its first character: a (non-empty) string
  | .sc _ => none

/-- `add_items(items)` into the fresh collection `coll`. -/
def addItems (X : Ctx) (d : AttrDecl) (fam : Fam) (coll items : Ref) : M Unit := do
  let h ← getHeap
  match fam with
  | .map =>
    match items with
    | .obj i =>
      match h[i]? with
      | some (.dict kvs) => mapAddAll X d coll kvs
      | _ => throwPy .typeError
    | .sc _ => throwPy .typeError
  | .seq =>
    match iterItems h items with
    | some xs => seqAddAll X d coll xs
    | none => throwPy .typeError
  | .set =>
    match iterItems h items with
    | some xs => setAddAll X d coll xs
    | none => throwPy .typeError

def collIsEmpty (h : Heap) : Ref → Bool
  | .obj i => (match h[i]? with
      | some (.list xs) => xs.isEmpty
      | some (.dict kvs) => kvs.isEmpty
      | some (.set xs) => xs.isEmpty
      | _ => false)
  | _ => false

/-- `CollectionAttrMutator.prepare()` on an incoming collection. A conforming
collection without item preparer is kept as it is (the code re-stores each item
into its own slot, which changes nothing). -/
def collPrepare (X : Ctx) (d : AttrDecl) (fam : Fam) (coll : Ref) : M Ref := do
  let coll ← (if coll = .sc .none || coll = .sc .missing then createColl fam else pure coll)
  let h ← getHeap
  if !(typeOk X h d.kind coll) || (!(collIsEmpty h coll) && d.iprep.isSome) then do
    let fresh ← createColl fam
    addItems X d fam fresh coll
    pure fresh
  else pure coll

/-- `prepare_attr_value(attr_spec, instance, value)` without keyword attributes. -/
def prepareAttrValue0 (X : Ctx) (d : AttrDecl) (v : Ref) : M Ref := do
  let v1 ← mutateValue0 X {
                            new := v, prepare := d.prep.map (fun cb => (.preparer, cb)),
                            ctor := some d.kind }
  match d.kind.fam? with
  | some fam => collPrepare X d fam v1
  | none => pure v1

/-- `SetAttrMethod.__setattr__(self, attr, value, force)`. -/
def setAttr (X : Ctx) (obj : Ref) (a : Nat) (v : Ref) (force : Bool) : M Unit := do
  let p ← getInst obj
  let v' ← (match (X.cd p.2.1).attr? a with
    | some d => prepareAttrValue0 X d v
    | none => pure v)
  let _ ← mutateAttr X obj a v' true true force
  pure ()

/-- `for attr, attr_value in attrs.items(): setattr(value, attr, attr_value)`. -/
def setAttrs (X : Ctx) (obj : Ref) : List (Nat × Ref) → M Unit
  | [] => pure ()
  | (a, v) :: rest => do
    (if v != .sc .missing then setAttr X obj a v false else pure ())
    setAttrs X obj rest

/-- The loop over `attr_transforms` in `mutate_value` step 7. -/
def applyAttrTransforms (X : Ctx) (obj : Ref) : List (Nat × Cb) → M Unit
  | [] => pure ()
  | (a, f) :: rest => do
    let cur ← getAttrD obj a
    let tv ← invoke .attrTransform f cur
    (if tv != .sc .missing then setAttr X obj a tv false else pure ())
    applyAttrTransforms X obj rest

/-- `with thawed(value) if not inplace else nullcontext(), _rollback_on_error(value)`:
the dict of the edited value is restored on error whether or not it was copied (03237db). -/
def guarded {α} (X : Ctx) (inplace : Bool) (v : Ref) (body : M α) : M α :=
  if inplace then rollbackOnError v body else thawed X v (rollbackOnError v body)

/-- Step 5 of `mutate_value`: left-over keyword attributes. Result: (value, mutate_safe). -/
def mvAttrs (X : Ctx) (p : MV) (value : Ref) (safe used : Bool) : M (Ref × Bool) :=
  if value != .sc .none && value != .sc .missing && !p.attrs.isEmpty then do
    let value ← (if safe then pure value else protect X value)
    guarded X p.inplace value (setAttrs X value (if used then [] else p.attrs))
    pure (value, true)
  else if !p.attrs.isEmpty then throwPy .valueError
  else pure (value, safe)

/-- Step 7 of `mutate_value`: attribute transforms. -/
def mvAttrTransforms (X : Ctx) (p : MV) (value : Ref) (safe : Bool) : M Ref :=
  if !p.attrTransforms.isEmpty then do
    let value ← (if safe then pure value else protect X value)
    guarded X p.inplace value (applyAttrTransforms X value p.attrTransforms)
    pure value
  else pure value

/-- `mutate_value` (mutation.py), the eight numbered steps in order. -/
def mutateValue (X : Ctx) (p : MV) : M Ref := do
  let v1 ← mvApply (mvChoose p).2 (mvChoose p).1          -- 1, 2
  let r2 ← mvConstruct X p v1                              -- 3, 4
  let r3 ← mvAttrs X p r2.1 r2.2.1 r2.2.2                  -- 5
  let v4 ← mvApply p.transform r3.1                        -- 6
  -- (what a transform returns is private only if it is the private value it was given)
  mvAttrTransforms X p v4 (r3.2 && v4 == r3.1)             -- 7

/-- `prepare_attr_value(attr_spec, instance, value, attrs)`. -/
def prepareAttrValue (X : Ctx) (d : AttrDecl) (v : Ref) (attrs : List (Nat × Ref)) : M Ref := do
  let v1 ← mutateValue X {
                           new := v, prepare := d.prep.map (fun cb => (.preparer, cb)),
                           ctor := some d.kind, attrs := attrs }
  match d.kind.fam? with
  | some fam => collPrepare X d fam v1
  | none => pure v1

/-! ## Defaults: `Attr.lookup_default_value`, `Attr.default_value` -/

/-- `n` default-constructed instances of class `c`. -/
def makeN (X : Ctx) (c : Nat) : Nat → M (List Ref)
  | 0 => pure []
  | n+1 => do
    let r ← X.make c []
    let rs ← makeN X c n
    pure (r :: rs)

/-- Build the object a literal denotes (default factories, class bodies). -/
def instantiate (X : Ctx) : Lit → M Ref
  | .sc s => pure (.sc s)
  | .list xs => do pure (.obj (← alloc (.list (xs.map Ref.sc))))
  | .dict kvs => do pure (.obj (← alloc (.dict (kvs.map (fun kv => (kv.1, Ref.sc kv.2))))))
  | .set xs => do pure (.obj (← alloc (.set xs)))
  | .newInst c => X.make c []
  | .listInst c n => do
    let xs ← makeN X c n
    pure (.obj (← alloc (.list xs)))

/-- `attr_spec.default_value` (at the owner). -/
def defaultValue (X : Ctx) (d : AttrDecl) : M Ref :=
  match d.dk with
  | .none => pure (.sc .missing)
  | .factory => instantiate X d.lit
  | .fieldFactory => instantiate X d.lit
  | _ => match alGet (d.owner, d.name) X.specDef with
    | some r => protect X r
    | none => pure (.sc .missing)

/-- `attr_spec.lookup_default_value(cls)`: walk the MRO from `cls` to the owner;
a class that re-assigns the attribute in its body wins. -/
def lookupDefault (X : Ctx) (d : AttrDecl) : Nat → Nat → M Ref
  | 0, _ => pure (.sc .missing)
  | fuel+1, c =>
    if c == d.owner then defaultValue X d
    else
      let cd := X.cd c
      if alHas d.name cd.overrides then
        match alGet (c, d.name) X.clsDict with
        | some r => protect X r
        | none => pure (.sc .missing)
      else match cd.base with
        | some b => lookupDefault X d fuel b
        | none => pure (.sc .missing)

def lookupDefaultFor (X : Ctx) (d : AttrDecl) (c : Nat) : M Ref :=
  lookupDefault X d (X.T.length + 1) c

/-! ## `DelAttrMethod.__delattr__` -/

def delAttr (X : Ctx) (obj : Ref) (a : Nat) (force : Bool) : M Unit := do
  let p ← getInst obj
  let cd := X.cd p.2.1
  guardM (!(force || p.2.2.1) && cd.frozen) .frozenInstanceError
  let dflt ← (match cd.attr? a with
    | some d => if !force then lookupDefaultFor X d p.2.1 else pure (.sc .missing)
    | none => pure (.sc .missing))
  if dflt = .sc .missing then do
    -- `object.__delattr__(self, attr)`
    let q ← getInst obj
    if alHas a q.2.2.2 then write q.1 (.inst q.2.1 q.2.2.1 (alDel a q.2.2.2))
    else throwPy .attributeError
  else
    match cd.attr? a with
    | some d => do
      let v ← prepareAttrValue X d dflt []
      let _ ← mutateAttr X obj a v true true true
      pure ()
    | none => pure ()

/-! ## `InitMethod.init` -/

def unknownKw {α : Type} (cd : ClassDecl) (kw : List (Nat × α)) : Bool :=
  kw.any (fun kv => (cd.attr? kv.1).isNone)

/-- Phase 1 of a spec subclass's `__init__`: collect `parent_kwargs` for the
attributes owned by a parent spec class (copying supplied values, G4 fix;
looking up the instance's own default otherwise). -/
def parentKwargs (X : Ctx) (c specC : Nat) (kw : List (Nat × Ref)) :
    List AttrDecl → M (List (Nat × Ref))
  | [] => pure []
  | d :: ds =>
    if d.owner == specC then parentKwargs X c specC kw ds
    else do
      let v ← (match alGet d.name kw with
        | some v => if d.dnc then pure v else protect X v
        | none => lookupDefaultFor X d c)
      let rest ← parentKwargs X c specC kw ds
      pure (if v = .sc .missing then rest else (d.name, v) :: rest)

/-- The attribute loop of `InitMethod.init` for the attributes selected by `sel`;
`copyArgs`: whether supplied values are copied here (`instance_metadata.owner is spec_cls`). -/
def initAttrs (X : Ctx) (self : Ref) (c : Nat) (kw : List (Nat × Ref)) (copyArgs : Bool)
    (sel : AttrDecl → Bool) : List AttrDecl → M Unit
  | [] => pure ()
  | d :: ds => do
    (if sel d then do
      let supplied := (alGet d.name kw).getD (.sc .missing)
      let v ← (if supplied != .sc .missing then
          (if copyArgs && !d.dnc then protect X supplied else pure supplied)
        else lookupDefaultFor X d c)
      (if v != .sc .missing then setAttr X self d.name v true else pure ())
    else pure ())
    initAttrs X self c kw copyArgs sel ds

/-- The spec class whose generated `__init__` runs for an instance of `c`. -/
def Ctx.specOf (X : Ctx) (c : Nat) : Nat :=
  let cd := X.cd c
  if cd.plain then cd.base.getD c else c

/-- `Cls(**kw)`: `__new__` + `InitMethod.init`. -/
def constructBody (X : Ctx) (c : Nat) (kw : List (Nat × Ref)) : M Ref := do
  let cd := X.cd c
  guardM (unknownKw cd kw) .typeError
  let specC := X.specOf c
  let i ← alloc (.inst c false [])
  setThaw i true
  -- parents first (spec subclass only)
  (if cd.attrs.any (fun d => d.owner != specC) then do
    let pk ← parentKwargs X c specC kw cd.attrs
    initAttrs X (.obj i) c pk false (fun d => d.owner != specC) cd.attrs
  else pure ())
  initAttrs X (.obj i) c kw true (fun d => d.owner == specC) cd.attrs
  setThaw i false
  pure (.obj i)

/-- `construct` with the nesting of default-constructed spec values bounded by fuel. -/
def construct (X : Ctx) : Nat → Nat → List (Nat × Ref) → M Ref
  | 0, _, _ => throwPy .runtimeError
  | fuel+1, c, kw => constructBody { X with make := construct X fuel } c kw

/-- Tie the knot: a context whose `make` is `construct`. -/
def Ctx.close (X : Ctx) : Ctx := { X with make := construct X (X.T.length + 1) }

/-! ## Scalar helpers (`methods/scalar.py`) -/

/-- `WithAttrMethod.with_attr`. -/
def withAttr (X : Ctx) (self : Ref) (a : Nat) (v : Ref) (kw : List (Nat × Ref))
    (inplace : Bool) : M Ref := do
  let p ← getInst self
  match (X.cd p.2.1).attr? a with
  | none => throwPy .attributeError
  | some d => do
    let v' ← prepareAttrValue X d v kw
    mutateAttr X self a v' inplace true false

/-- `_protect_if_unchanged`. -/
def protectIfUnchanged (X : Ctx) (d : AttrDecl) (self : Ref) (cdnc : Bool) (v : Ref)
    (inplace : Bool) : M Ref := do
  let cur ← getAttrD self d.name
  if inplace || d.dnc || cdnc || v = .sc .missing || v != cur then pure v
  else protect X v

/-- The current value of attribute `a` of `self` when it is an instance of a class-level
`do_not_copy=True` spec class (read off the heap; `none` otherwise). -/
def dncValue? (X : Ctx) (h : Heap) (self : Ref) (a : Nat) : Option Ref :=
  match self with
  | .obj i =>
    match h[i]? with
    | some (.inst _ _ fs) =>
      match alGet a fs with
      | some (.obj j) =>
        match h[j]? with
        | some (.inst c _ _) => if (X.cd c).dnc then some (.obj j) else none
        | _ => none
      | _ => none
    | _ => none
  | .sc _ => none

/-- `_uncopied_value_guard(attr_spec, instance)` (scalar.py, 6848228): a nested value of a
`do_not_copy` class is edited in place by `update_<attr>`/`transform_<attr>`; its dict is
restored when anything inside raises. -/
def uncopiedGuard {α} (X : Ctx) (self : Ref) (a : Nat) (body : M α) : M α := do
  let h ← getHeap
  match dncValue? X h self a with
  | some v => rollbackOnError v body
  | none => body

/-- `UpdateAttrMethod._update_attr` (the part inside the guard). -/
def updateAttrCore (X : Ctx) (self : Ref) (a : Nat) (v : Ref) (kw : List (Nat × Ref))
    (inplace : Bool) : M Ref := do
  let p ← getInst self
  match (X.cd p.2.1).attr? a with
  | none => throwPy .attributeError
  | some d => do
    let old ← getAttrD self a
    let v1 ← mutateValue X { old := old, new := v, ctor := some d.kind, attrs := kw }
    let v2 ← protectIfUnchanged X d self (X.cd p.2.1).dnc v1 inplace
    withAttr X self a v2 [] inplace

/-- `TransformAttrMethod._transform_attr` (the part inside the guard). -/
def transformAttrCore (X : Ctx) (self : Ref) (a : Nat) (f : Option Cb) (kwf : List (Nat × Cb))
    (inplace : Bool) : M Ref := do
  let p ← getInst self
  match (X.cd p.2.1).attr? a with
  | none => throwPy .attributeError
  | some d => do
    let old ← getAttrD self a
    let v1 ← mutateValue X {
      old := old, ctor := some d.kind,
      transform := f.map (fun cb => (.transform, cb)),
      attrTransforms := kwf }
    let v2 ← protectIfUnchanged X d self (X.cd p.2.1).dnc v1 inplace
    withAttr X self a v2 [] inplace

/-- `UpdateAttrMethod.update_attr`. -/
def updateAttr (X : Ctx) (self : Ref) (a : Nat) (v : Ref) (kw : List (Nat × Ref))
    (inplace : Bool) : M Ref :=
  uncopiedGuard X self a (updateAttrCore X self a v kw inplace)

/-- `TransformAttrMethod.transform_attr`. -/
def transformAttr (X : Ctx) (self : Ref) (a : Nat) (f : Option Cb) (kwf : List (Nat × Cb))
    (inplace : Bool) : M Ref :=
  uncopiedGuard X self a (transformAttrCore X self a f kwf inplace)

/-- `ResetAttrMethod.reset_attr`. -/
def resetAttr (X : Ctx) (self : Ref) (a : Nat) (inplace : Bool) : M Ref :=
  if !inplace then do
    let copy ← deepcopy X self
    thawed X copy (delAttr X copy a false)
    pure copy
  else do
    delAttr X self a false
    pure self

/-! ## Top-level helpers (`methods/toplevel.py`) -/

/-- `UpdateMethod.update(**attrs)`. -/
def update (X : Ctx) (self : Ref) (kw : List (Nat × Ref)) (inplace : Bool) : M Ref :=
  mutateValue X { old := self, attrs := kw, inplace := inplace }

/-- `TransformMethod.transform(**attr_transforms)`. -/
def transform (X : Ctx) (self : Ref) (kwf : List (Nat × Cb)) (inplace : Bool) : M Ref :=
  mutateValue X { old := self, attrTransforms := kwf, inplace := inplace }

/-- The loop of `ResetMethod.reset`: `try: delattr(self, attr) except AttributeError: pass`. -/
def resetLoop (X : Ctx) (self : Ref) : List AttrDecl → M Unit
  | [] => pure ()
  | d :: ds => do
    tryCatch (delAttr X self d.name false) (fun e => e == .py .attributeError) (pure ())
    resetLoop X self ds

/-- `ResetMethod.reset`. -/
def reset (X : Ctx) (self : Ref) (inplace : Bool) : M Ref := do
  let p ← getInst self
  if !inplace then do
    let copy ← deepcopy X self
    thawed X copy (resetLoop X copy (X.cd p.2.1).attrs)
    pure copy
  else do
    rollbackOnError self (resetLoop X self (X.cd p.2.1).attrs)
    pure self

/-! ## Element helpers (`methods/collections/*.py`, `collections/*.py`) -/

/-- The element operations of the three families. `key` is the `_index` /
`_value_or_index` / `_key` / `_item` argument. -/
inductive ElemOp
  | add (item key : Ref) (insert : Bool) (attrs : List (Nat × Ref))     -- with_<item>
  | upd (key item : Ref) (byIndex : Option Bool) (attrs : List (Nat × Ref))  -- update_<item>
  | tr (key : Ref) (f : Cb) (byIndex : Option Bool) (kwf : List (Nat × Cb))  -- transform_<item>
  | rm (key : Ref) (byIndex : Option Bool)                               -- without_<item>

/-- `CollectionAttrMutator.__init__(attr_spec, instance, inplace=...)`: frozen
guard (in place), lift the collection off the instance, copy it unless in place. -/
def getCollection (X : Ctx) (self : Ref) (a : Nat) (inplace : Bool) : M Ref := do
  let p ← getInst self
  guardM (inplace && (X.cd p.2.1).frozen && !p.2.2.1) .frozenInstanceError
  let coll ← getAttrD self a
  if coll != .sc .missing && !inplace then protect X coll else pure coll

/-- `if self.collection is MISSING: self.collection = self._create_collection()`. -/
def ensureColl (fam : Fam) (coll : Ref) : M Ref :=
  if coll = .sc .missing then createColl fam else pure coll

def itemPrep (d : AttrDecl) : Option (CbKind × Cb) :=
  d.iprep.map (fun cb => (CbKind.itemPreparer, cb))

/-- `_mutate_collection` / `remove_item` of `SequenceMutator`. -/
def elemSeq (X : Ctx) (d : AttrDecl) (coll : Ref) (op : ElemOp) : M Unit :=
  let ik := d.kind.item
  match op with
  | .rm key byIndex => do
    let e ← seqExtract X ik coll key true byIndex
    match e.1 with
    | some (.sc (.int n)) => do
      let p ← getList coll
      match pyIdx p.2.length n with
      | some k => write p.1 (.list (p.2.eraseIdx k))
      | none => throwPy .indexError
    | _ => pure ()
  | .add item key insert attrs => do
    let e ← seqExtract X ik coll key (key != .sc .missing && !insert) (some true)
    let v ← mutateValue X {
      old := e.2, new := item, prepare := itemPrep d, attrs := attrs,
      ctor := some ik, replace := true }
    seqInsert X ik coll e.1 v insert
  | .upd key item byIndex attrs => do
    let e ← seqExtract X ik coll key (key != .sc .missing) byIndex
    let v ← mutateValue X {
      old := e.2, new := item, prepare := itemPrep d, attrs := attrs,
      ctor := some ik, replace := false }
    seqInsert X ik coll e.1 v false
  | .tr key f byIndex kwf => do
    let e ← seqExtract X ik coll key true byIndex
    let v ← mutateValue X {
      old := e.2, prepare := itemPrep d, ctor := some ik,
      transform := some (.transform, f), attrTransforms := kwf }
    seqInsert X ik coll e.1 v false

/-- `_mutate_collection` / `remove_item` of `MappingMutator`. -/
def elemMap (X : Ctx) (d : AttrDecl) (coll : Ref) (op : ElemOp) : M Unit :=
  let ik := d.kind.item
  match op with
  | .rm key _ => do
    let e ← mapExtract coll key true
    let p ← getDict coll
    match e.1 with
    | .sc s => write p.1 (.dict (alDel s p.2))
    | _ => pure ()
  | .add item key _ attrs => do
    let e ← mapExtract coll key false
    let v ← mutateValue X {
      old := e.2, new := item, prepare := itemPrep d, attrs := attrs,
      ctor := some ik, replace := true }
    mapInsert X ik coll e.1 v
  | .upd key item _ attrs => do
    let e ← mapExtract coll key true
    let v ← mutateValue X {
      old := e.2, new := item, prepare := itemPrep d, attrs := attrs,
      ctor := some ik, replace := false }
    mapInsert X ik coll e.1 v
  | .tr key f _ kwf => do
    let e ← mapExtract coll key true
    let v ← mutateValue X {
      old := e.2, prepare := itemPrep d, ctor := some ik,
      transform := some (.transform, f), attrTransforms := kwf }
    mapInsert X ik coll e.1 v

/-- `_mutate_collection` / `remove_item` of `SetMutator`. -/
def elemSet (X : Ctx) (d : AttrDecl) (coll : Ref) (op : ElemOp) : M Unit :=
  let ik := d.kind.item
  match op with
  | .rm key _ => do
    let e ← setExtract coll key true
    let p ← getSet coll
    match e.1 with
    | .sc s => write p.1 (.set (p.2.erase s))
    | _ => pure ()
  | .add item _ _ attrs => do
    let v ← mutateValue X {
      new := item, prepare := itemPrep d, attrs := attrs,
      ctor := some ik, replace := true }
    setInsert X ik coll (.sc .missing) v true
  | .upd key item _ attrs => do
    let e ← setExtract coll key (key != .sc .missing)
    let v ← mutateValue X {
      old := e.2, new := item, prepare := itemPrep d, attrs := attrs,
      ctor := some ik, replace := false }
    setInsert X ik coll e.1 v true
  | .tr key f _ kwf => do
    let e ← setExtract coll key true
    let v ← mutateValue X {
      old := e.2, prepare := itemPrep d, ctor := some ik,
      transform := some (.transform, f), attrTransforms := kwf }
    setInsert X ik coll e.1 v true

/-- `_mutate_collection` for the three families; returns `self.collection`. -/
def mutateCollection (X : Ctx) (d : AttrDecl) (fam : Fam) (coll : Ref) (op : ElemOp) : M Ref := do
  let coll ← ensureColl fam coll
  (match fam with
    | .seq => elemSeq X d coll op
    | .map => elemMap X d coll op
    | .set => elemSet X d coll op)
  pure coll

/-- `with_/update_/transform_/without_<item>`: build the mutator (copying the
collection unless in place), edit it, then `mutate_attr(..., type_check=False)`. -/
def elemHelper (X : Ctx) (self : Ref) (a : Nat) (op : ElemOp) (inplace : Bool) : M Ref := do
  let p ← getInst self
  match (X.cd p.2.1).attr? a with
  | none => throwPy .attributeError
  | some d =>
    match d.kind.fam? with
    | none => throwPy .attributeError
    | some fam => do
      let coll0 ← getCollection X self a inplace
      let coll1 ← mutateCollection X d fam coll0 op
      mutateAttr X self a coll1 inplace false false

/-! ## The public operations -/

/-- One call of the public API on receiver `r` (a `Ref`, normally `.obj i`). -/
inductive Op
  | construct (c : Nat) (kw : List (Nat × Ref))
  | setattr (r : Ref) (a : Nat) (v : Ref)
  | delattr (r : Ref) (a : Nat)
  | withAttr (r : Ref) (a : Nat) (v : Ref) (kw : List (Nat × Ref)) (inplace : Bool)
  | updateAttr (r : Ref) (a : Nat) (v : Ref) (kw : List (Nat × Ref)) (inplace : Bool)
  | transformAttr (r : Ref) (a : Nat) (f : Option Cb) (kwf : List (Nat × Cb)) (inplace : Bool)
  | resetAttr (r : Ref) (a : Nat) (inplace : Bool)
  | elem (r : Ref) (a : Nat) (op : ElemOp) (inplace : Bool)
  | update (r : Ref) (kw : List (Nat × Ref)) (inplace : Bool)
  | transform (r : Ref) (kwf : List (Nat × Cb)) (inplace : Bool)
  | reset (r : Ref) (inplace : Bool)
  | deepcopy (r : Ref)

/-- Class of the receiver, if it is an instance. -/
def classOf (h : Heap) : Ref → Option Nat
  | .obj i => (match h[i]? with
      | some (.inst c _ _) => some c
      | _ => none)
  | _ => none

def kwIn {α : Type} (icd : Option ClassDecl) (kw : List (Nat × α)) : Bool :=
  match icd with
  | some cd => !unknownKw cd kw
  | none => kw.isEmpty

/-- The keyword check of the generated signatures ("got unexpected keyword arguments"). -/
def kwOk (X : Ctx) (h : Heap) (r : Ref) : Op → Bool
  | .withAttr _ a _ kw _ | .updateAttr _ a _ kw _ =>
    (match (classOf h r).bind (fun c => (X.cd c).attr? a) with
      | some d => (match d.kind.specClass? with
          | some c' => !unknownKw (X.cd c') kw
          | none => kw.isEmpty)
      | none => true)
  | .transformAttr _ a _ kwf _ =>
    (match (classOf h r).bind (fun c => (X.cd c).attr? a) with
      | some d => (match d.kind.specClass? with
          | some c' => !unknownKw (X.cd c') kwf
          | none => kwf.isEmpty)
      | none => true)
  | .update _ kw _ => (match classOf h r with
      | some c => !unknownKw (X.cd c) kw
      | none => true)
  | .transform _ kwf _ => (match classOf h r with
      | some c => !unknownKw (X.cd c) kwf
      | none => true)
  | .elem _ a op _ =>
    (match (classOf h r).bind (fun c => (X.cd c).attr? a) with
      | some d =>
        let icd : Option ClassDecl := d.kind.item.specClass?.map X.cd
        (match op with
          | .add _ _ _ kw => kwIn icd kw
          | .upd _ _ _ kw => kwIn icd kw
          | .tr _ _ _ kwf => kwIn icd kwf
          | .rm _ _ => true)
      | none => true)
  | _ => true

def Op.receiver : Op → Ref
  | .construct _ _ => .sc .none
  | .setattr r _ _ | .delattr r _ | .withAttr r _ _ _ _ | .updateAttr r _ _ _ _
  | .transformAttr r _ _ _ _ | .resetAttr r _ _ | .elem r _ _ _ | .update r _ _
  | .transform r _ _ | .reset r _ | .deepcopy r => r

def Op.inplace : Op → Bool
  | .construct _ _ => false
  | .setattr _ _ _ => true
  | .delattr _ _ => true
  | .withAttr _ _ _ _ b | .updateAttr _ _ _ _ b | .transformAttr _ _ _ _ b
  | .resetAttr _ _ b | .elem _ _ _ b | .update _ _ b | .transform _ _ b | .reset _ b => b
  | .deepcopy _ => false

/-- Run one public operation (`X` must be closed: `X = X₀.close`). -/
def runOp (X : Ctx) (op : Op) : M Ref := do
  let h ← getHeap
  guardM (!(kwOk X h op.receiver op)) .typeError
  match op with
  | .construct c kw => X.make c kw
  | .setattr r a v => do setAttr X r a v false; pure r
  | .delattr r a => do delAttr X r a false; pure r
  | .withAttr r a v kw ip => withAttr X r a v kw ip
  | .updateAttr r a v kw ip => updateAttr X r a v kw ip
  | .transformAttr r a f kwf ip => transformAttr X r a f kwf ip
  | .resetAttr r a ip => resetAttr X r a ip
  | .elem r a eop ip => elemHelper X r a eop ip
  | .update r kw ip => update X r kw ip
  | .transform r kwf ip => transform X r kwf ip
  | .reset r ip => reset X r ip
  | .deepcopy r => deepcopy X r

/-- Result, final state (heap + ordered effects) of one operation under a fault plan. -/
def step (X : Ctx) (h : Heap) (op : Op) (faults : List (CbKind × Nat)) (budget : Option Nat) :
    Except Exn Ref × MS :=
  runOp X op { heap := h, faults := faults, budget := budget }

/-! ## Booting a class table: allocate the class-level default objects -/

/-- Allocate the class `__dict__` default objects and the `attr_spec.default`
objects of every class, in table order (a class-level default that is an
instance is built with the classes booted so far). -/
def bootAttrs (c : Nat) : List AttrDecl → Ctx → M Ctx
  | [], X => pure X
  | d :: ds, X => do
    if d.owner != c then bootAttrs c ds X
    else match d.dk with
      | .none => bootAttrs c ds X
      | .factory => bootAttrs c ds X
      | .fieldFactory => bootAttrs c ds X
      | .attr => do
        -- class body object, and the deep copy held by the Attr specification
        let r ← instantiate X.close d.lit
        let r' ← protect X r
        bootAttrs c ds { X with clsDict := ((c, d.name), r) :: X.clsDict,
                                specDef := ((c, d.name), r') :: X.specDef }
      | _ => do
        let r ← instantiate X.close d.lit
        bootAttrs c ds { X with clsDict := ((c, d.name), r) :: X.clsDict,
                                specDef := ((c, d.name), r) :: X.specDef }

def bootOverrides (c : Nat) : List (Nat × Lit) → Ctx → M Ctx
  | [], X => pure X
  | (a, lit) :: os, X => do
    let r ← instantiate X.close lit
    bootOverrides c os { X with clsDict := ((c, a), r) :: X.clsDict }

def bootClasses : Nat → List ClassDecl → Ctx → M Ctx
  | _, [], X => pure X
  | c, cd :: cds, X => do
    let X1 ← bootAttrs c cd.attrs X
    let X2 ← bootOverrides c cd.overrides X1
    bootClasses (c + 1) cds X2

/-- The initial world of a class table: heap with the default objects + closed context. -/
def boot (T : List ClassDecl) : Ctx × Heap :=
  match bootClasses 0 T { T := T } { heap := [] } with
  | (.ok X, s) => (X.close, s.heap)
  | (.error _, s) => (({ T := T } : Ctx).close, s.heap)

end SpecVerif.Heap
