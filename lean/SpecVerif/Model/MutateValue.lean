import SpecVerif.Model.Py
/-!
# Impl model of the copy discipline of `mutate_value` (`spec_classes/utils/mutation.py`)

`mutate_value` is what `with_<a>(v, **attrs)`, `update_<a>(**attrs)`, `transform_<a>(f, **attr_transforms)` and every
element helper run a value through.  This model keeps only what decides WHICH OBJECT is edited when keyword edits
(`attrs`) or attribute transforms are applied: the provenance of the value at every step and the `mutate_safe` flag.

```python
mutate_safe = inplace
value = new_value if given else (old_value if not replace else MISSING)      # prepare only applies to a new value
if prepare: value = prepare(value)
if value is MISSING and constructor: mutate_safe = True; value = constructor(**attrs)
if value is not MISSING and attrs:
    if not mutate_safe: value = protect_via_deepcopy(value); mutate_safe = True
    with thawed(value) if not inplace else nullcontext(), _rollback_on_error(value): setattr(value, ...)
elif attrs: raise ValueError
if transform:
    transformed = transform(value)
    if transformed is not value: mutate_safe = False     # (fix 5dd14f2: what the transform handed back is not ours to edit)
    value = transformed
if attr_transforms:
    if not mutate_safe: value = protect_via_deepcopy(value)
    with thawed(value) if not inplace else nullcontext(), _rollback_on_error(value): setattr(value, ...)
return value
```

The heap model (`Model/Inst.lean: mutateValue`) has these steps over real heaps, but its callback pool has no callback
that returns a PRE-EXISTING object.  User hooks do -- a preparer that looks a value up in a registry, a transform that
returns a preset -- so hooks are abstract here: `ident` returns its argument, `fresh` builds a new object, `pre` returns
an object that existed before the call, `boom` raises.  Every object is named by its provenance.

Not modelled: `new_value` given as a dict of constructor arguments, `None` values, `Proxy` old values; attribute
transforms applied to MISSING (no value and nothing to build one from: `unsupported`).

Core Lean only.
-/
namespace SpecVerif.MutateValue
open SpecVerif.Py

/-- What a user hook (preparer / transform) returns. -/
inductive Hook
  | ident | fresh | pre | boom
  deriving DecidableEq, Repr, Inhabited

/-- The `new_value` argument: MISSING, UNCHANGED, or an object of the caller's. -/
inductive NewArg
  | missing | unchanged | val
  deriving DecidableEq, Repr, Inhabited

/-- Objects by provenance: the receiver's current value, the caller's new value, the object the preparer / the
transform hands out (all four exist before the call), the `n`-th object built or copied by the call. -/
inductive Obj
  | old | arg | preP | preT | fresh (n : Nat)
  deriving DecidableEq, Repr, Inhabited

def Obj.preExisting : Obj → Bool
  | .fresh _ => false
  | _ => true

inductive V
  | missing | obj (o : Obj)
  deriving DecidableEq, Repr, Inhabited

structure In where
  old : Bool          -- the receiver holds a value (else MISSING)
  new : NewArg
  replace : Bool
  prepare : Option Hook
  ctor : Bool         -- `constructor` / `expected_type` given (a spec class)
  attrs : Bool        -- keyword edits given (all of them constructor arguments of the class)
  transform : Option Hook
  attrTr : Bool       -- attribute transforms given
  inplace : Bool
  frozen : Bool       -- the value class is frozen
  deriving DecidableEq, Repr, Inhabited

/-- Number of objects allocated so far, and the objects edited so far (newest first). -/
structure St where
  allocs : Nat := 0
  edited : List Obj := []
  deriving DecidableEq, Repr, Inhabited

inductive Res
  | ok (v : V) | err (e : Err) | unsupported
  deriving DecidableEq, Repr, Inhabited

def alloc (s : St) : Obj × St := (.fresh s.allocs, { s with allocs := s.allocs + 1 })

/-- A user hook applied to `v`; `which` = the pre-existing object this hook hands out. -/
def applyHook (h : Hook) (which : Obj) (v : V) (s : St) : Except Err V × St :=
  match h with
  | .ident => (.ok v, s)
  | .fresh => let (o, s') := alloc s; (.ok (.obj o), s')
  | .pre => (.ok (.obj which), s)
  | .boom => (.error .runtimeError, s)

/-- `with thawed(value) if not inplace else nullcontext(), _rollback_on_error(value): setattr(value, ...)`:
in place on a frozen value the assignment is refused (and rolled back); else `o` is edited. -/
def edit (i : In) (o : Obj) (s : St) : Except Err Unit × St :=
  if i.inplace && i.frozen then (.error .frozenInstanceError, s)
  else (.ok (), { s with edited := o :: s.edited })

/-- `protect_via_deepcopy(value)`. -/
def copyOf (s : St) : Obj × St := alloc s

/-- The steps of `mutate_value`.  `legacy = true` is the code BEFORE fix 5dd14f2 (the `mutate_safe` flag survived a
transform that handed back another object); it is kept only as the counter-model of `Props/MutateValue.lean:
legacy_cow_edits_only_fresh_false`. -/
def mutateValueCore (legacy : Bool) (i : In) : Res × St :=
  let s : St := {}
  match i.new with
  | .unchanged => (.ok (if i.old then .obj .old else .missing), s)
  | _ =>
    -- 1. which value; a preparer only applies to a new value (and to the MISSING a `replace` starts from)
    let chosen : V × Option Hook :=
      if i.new == .val then (.obj .arg, i.prepare)
      else if !i.replace then ((if i.old then .obj .old else .missing), none)
      else (.missing, i.prepare)
    -- 2. preparer
    let r2 : Except Err V × St :=
      match chosen.2 with
      | some h => applyHook h .preP chosen.1 s
      | none => (.ok chosen.1, s)
    match r2 with
    | (.error e, s) => (.err e, s)
    | (.ok v, s) =>
      -- 3. build a missing value (the keyword edits are constructor arguments: used up)
      let (v, safe, used, s) :=
        match v with
        | .missing => if i.ctor then (let (o, s') := alloc s; (V.obj o, true, true, s')) else (V.missing, i.inplace, false, s)
        | v => (v, i.inplace, false, s)
      -- 4. keyword edits
      let r4 : Except Err (V × Bool) × St :=
        if i.attrs then
          match v with
          | .missing => (.error .valueError, s)
          | .obj o =>
            let (o, s) := if safe then (o, s) else copyOf s
            if used then (.ok (.obj o, true), s)
            else
              match edit i o s with
              | (.ok _, s) => (.ok (.obj o, true), s)
              | (.error e, s) => (.error e, s)
        else (.ok (v, safe), s)
      match r4 with
      | (.error e, s) => (.err e, s)
      | (.ok (v, safe), s) =>
        -- 5. transform
        let r5 : Except Err V × St :=
          match i.transform with
          | some h => applyHook h .preT v s
          | none => (.ok v, s)
        match r5 with
        | (.error e, s) => (.err e, s)
        | (.ok v5, s) =>
          -- (fix 5dd14f2) `if transformed is not value: mutate_safe = False`
          let safe := if legacy then safe else safe && decide (v5 = v)
          let v := v5
          -- 6. attribute transforms
          if i.attrTr then
            match v with
            | .missing => (.unsupported, s)
            | .obj o =>
              let (o, s) := if safe then (o, s) else copyOf s
              match edit i o s with
              | (.ok _, s) => (.ok (.obj o), s)
              | (.error e, s) => (.err e, s)
          else (.ok v, s)

/-- `mutate_value` as it is in /repo. -/
def mutateValue (i : In) : Res × St := mutateValueCore false i

/-- `mutate_value` before fix 5dd14f2 (counter-model only). -/
def mutateValueLegacy (i : In) : Res × St := mutateValueCore true i

/-- The pre-existing objects a run edited. -/
def editedPre (i : In) : List Obj := (mutateValue i).2.edited.filter Obj.preExisting

end SpecVerif.MutateValue
