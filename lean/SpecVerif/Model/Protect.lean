import SpecVerif.Model.Py
/-!
# Impl model of `protect_via_deepcopy` (`spec_classes/utils/mutation.py`) over ALL kinds of Python value

`protect_via_deepcopy(obj)` is the single choke point through which every copy made by the library passes (the
generated `__deepcopy__`, the collection mutators, `mutate_value`, the constructor, default look-ups):

```python
def protect_via_deepcopy(obj, memo=None):
    if isinstance(obj, (bool, int, float, str, bytes, type, ModuleType)):
        return obj
    with _modules_copyable():            # modules pass through `copy.deepcopy` as they are
        return copy.deepcopy(obj, memo)
```

The heap model (`Model/Heap.lean`, `Model/Inst.lean`) knows lists, dicts, sets and spec instances.  This model is
about everything else a value can be or contain -- tuples (returned *as they are* iff none of their members needed
copying), named tuples / frozensets / sets / bytearrays / plain objects (always re-created through `__reduce_ex__`),
modules (passed through), objects that cannot be copied at all (locks, generators: `TypeError`; an object whose
`__deepcopy__` raises: that error) -- nested in each other to any depth, with aliasing inside the value (`memo`).

Values are finite trees carrying object identities (`id`).  By convention every object occurs as a node ONCE, at its
first occurrence in traversal order; every further occurrence (aliasing, a cycle through a list / dict / plain object)
is a back-reference `ref id`.  `copyVal` mirrors `copy.deepcopy` step for step:

* atomic types and modules are returned as they are;
* `list` / `dict` / plain object: the new object is registered in the memo BEFORE its members are copied;
* `tuple`: the members are copied first; if every copy IS the member (`k is j`) the tuple itself is returned (and not
  memoised), else a new tuple is built and memoised;
* named tuple / frozenset / set / bytearray (`_reconstruct`): members first, then a new object, then memoised;
* a back-reference yields the memoised copy, or -- when the object was its own copy -- the object itself;
* a lock / generator raises TypeError, an object whose `__deepcopy__` raises (`raiser`) RuntimeError; nothing is
  returned, and NOTHING IS REMEMBERED: the function has no state besides its arguments (`next` only supplies new
  identities).

Not modelled: cycles through a tuple (the `memo` look-up after a tuple's members were copied), dict keys other than
atoms, `__deepcopy__` of spec instances (that is `Model/Inst.lean: copyRef`).

Core Lean only; structural recursion throughout, so `decide` evaluates the model.
-/
namespace SpecVerif.Protect
open SpecVerif.Py

/-- Values of the atomic types (`None`, `bool`, `int`, `float`, `str`, `bytes`, `type`, ...): `copy.deepcopy` returns
the very object; identities play no role. -/
inductive Atom
  | none | int (n : Int) | str (t : Nat)
  deriving DecidableEq, Repr, Inhabited

/-- Objects that are no containers: a module (passed through), a lock / a generator (cannot be pickled: TypeError), an
object whose `__deepcopy__` raises an error of its own (RuntimeError). -/
inductive HKind
  | module | lock | gen | raiser
  deriving DecidableEq, Repr, Inhabited

mutual
inductive Val
  | atom (a : Atom)
  | handle (id : Nat) (k : HKind)
  | ref (id : Nat)                      -- a further occurrence of the object `id`
  | list (id : Nat) (xs : Vals)
  | tuple (id : Nat) (xs : Vals)
  | ntuple (id : Nat) (xs : Vals)       -- named tuple (a tuple subclass: re-created through `__reduce_ex__`)
  | fset (id : Nat) (xs : Vals)         -- frozenset
  | set (id : Nat) (xs : Vals)
  | dict (id : Nat) (kvs : KVs)
  | box (id : Nat) (v : Val)            -- plain object with one attribute
  | barr (id : Nat) (t : Nat)           -- bytearray with content token `t`
inductive Vals
  | nil
  | cons (v : Val) (r : Vals)
inductive KVs
  | nil
  | cons (k : Atom) (v : Val) (r : KVs)
end

instance : Inhabited Val := ⟨.atom .none⟩

/-- State of one `copy.deepcopy` call: the next unused identity and the memo (original id ↦ id of its copy). -/
structure St where
  next : Nat
  memo : List (Nat × Nat)

def memoGet (i : Nat) : List (Nat × Nat) → Option Nat
  | [] => none
  | (k, j) :: r => if k = i then some j else memoGet i r

/-- The identity of the object a value denotes (atoms: none). -/
def Val.ident : Val → Option Nat
  | .atom _ => none
  | .handle i _ => some i
  | .ref i => some i
  | .list i _ => some i
  | .tuple i _ => some i
  | .ntuple i _ => some i
  | .fset i _ => some i
  | .set i _ => some i
  | .dict i _ => some i
  | .box i _ => some i
  | .barr i _ => some i

/-- `k is j` for a member `k` and its copy `j` (the copy of an atom is the atom). -/
def sameObj (v w : Val) : Bool :=
  match v.ident, w.ident with
  | none, none => true
  | some i, some j => i == j
  | _, _ => false

def sameAll : Vals → Vals → Bool
  | .nil, .nil => true
  | .cons v r, .cons w r' => sameObj v w && sameAll r r'
  | _, _ => false

mutual
/-- `copy.deepcopy(v, memo)`. -/
def copyVal : Val → St → Except Err (Val × St)
  | .atom a, s => .ok (.atom a, s)
  | .handle i .module, s => .ok (.handle i .module, s)
  | .handle _ .lock, _ => .error .typeError
  | .handle _ .gen, _ => .error .typeError
  | .handle _ .raiser, _ => .error .runtimeError
  | .ref i, s =>
    .ok ((match memoGet i s.memo with
          | some j => .ref j
          | none => .ref i), s)
  | .list i xs, s =>
    match copyVals xs { next := s.next + 1, memo := (i, s.next) :: s.memo } with
    | .ok (ys, s') => .ok (.list s.next ys, s')
    | .error e => .error e
  | .tuple i xs, s =>
    match copyVals xs s with
    | .ok (ys, s') =>
      if sameAll xs ys then .ok (.tuple i xs, s')
      else .ok (.tuple s'.next ys, { next := s'.next + 1, memo := (i, s'.next) :: s'.memo })
    | .error e => .error e
  | .ntuple i xs, s =>
    match copyVals xs s with
    | .ok (ys, s') => .ok (.ntuple s'.next ys, { next := s'.next + 1, memo := (i, s'.next) :: s'.memo })
    | .error e => .error e
  | .fset i xs, s =>
    match copyVals xs s with
    | .ok (ys, s') => .ok (.fset s'.next ys, { next := s'.next + 1, memo := (i, s'.next) :: s'.memo })
    | .error e => .error e
  | .set i xs, s =>
    match copyVals xs s with
    | .ok (ys, s') => .ok (.set s'.next ys, { next := s'.next + 1, memo := (i, s'.next) :: s'.memo })
    | .error e => .error e
  | .dict i kvs, s =>
    match copyKVs kvs { next := s.next + 1, memo := (i, s.next) :: s.memo } with
    | .ok (kvs', s') => .ok (.dict s.next kvs', s')
    | .error e => .error e
  | .box i v, s =>
    match copyVal v { next := s.next + 1, memo := (i, s.next) :: s.memo } with
    | .ok (v', s') => .ok (.box s.next v', s')
    | .error e => .error e
  | .barr i t, s => .ok (.barr s.next t, { next := s.next + 1, memo := (i, s.next) :: s.memo })
def copyVals : Vals → St → Except Err (Vals × St)
  | .nil, s => .ok (.nil, s)
  | .cons v r, s =>
    match copyVal v s with
    | .ok (v', s') =>
      (match copyVals r s' with
       | .ok (r', s'') => .ok (.cons v' r', s'')
       | .error e => .error e)
    | .error e => .error e
def copyKVs : KVs → St → Except Err (KVs × St)
  | .nil, s => .ok (.nil, s)
  | .cons k v r, s =>
    match copyVal v s with
    | .ok (v', s') =>
      (match copyKVs r s' with
       | .ok (r', s'') => .ok (.cons k v' r', s'')
       | .error e => .error e)
    | .error e => .error e
end

/-- `protect_via_deepcopy(v)`; `n` = an identity above every identity in use (new objects are numbered from it). -/
def protect (v : Val) (n : Nat) : Except Err Val :=
  match v with
  | .atom a => .ok (.atom a)
  | .handle i .module => .ok (.handle i .module)
  | v =>
    match copyVal v { next := n, memo := [] } with
    | .ok (v', _) => .ok v'
    | .error e => .error e

/-! ## Vocabulary of the property statements -/

mutual
/-- Identities of the MUTABLE objects (list, set, dict, plain object, bytearray) that occur as nodes of a value,
at any depth -- also inside tuples, named tuples and frozensets. -/
def mutIds : Val → List Nat
  | .atom _ => []
  | .handle _ _ => []
  | .ref _ => []
  | .list i xs => i :: mutIdsL xs
  | .tuple _ xs => mutIdsL xs
  | .ntuple _ xs => mutIdsL xs
  | .fset _ xs => mutIdsL xs
  | .set i xs => i :: mutIdsL xs
  | .dict i kvs => i :: mutIdsK kvs
  | .box i v => i :: mutIds v
  | .barr i _ => [i]
def mutIdsL : Vals → List Nat
  | .nil => []
  | .cons v r => mutIds v ++ mutIdsL r
def mutIdsK : KVs → List Nat
  | .nil => []
  | .cons _ v r => mutIds v ++ mutIdsK r
end

mutual
/-- Every identity that occurs in the value (nodes, handles, back-references) is below `n`. -/
def idsLt (n : Nat) : Val → Bool
  | .atom _ => true
  | .handle i _ => decide (i < n)
  | .ref i => decide (i < n)
  | .list i xs => decide (i < n) && idsLtL n xs
  | .tuple i xs => decide (i < n) && idsLtL n xs
  | .ntuple i xs => decide (i < n) && idsLtL n xs
  | .fset i xs => decide (i < n) && idsLtL n xs
  | .set i xs => decide (i < n) && idsLtL n xs
  | .dict i kvs => decide (i < n) && idsLtK n kvs
  | .box i v => decide (i < n) && idsLt n v
  | .barr i _ => decide (i < n)
def idsLtL (n : Nat) : Vals → Bool
  | .nil => true
  | .cons v r => idsLt n v && idsLtL n r
def idsLtK (n : Nat) : KVs → Bool
  | .nil => true
  | .cons _ v r => idsLt n v && idsLtK n r
end

mutual
/-- The first object in traversal order that cannot be copied, as the error its copy raises. -/
def firstBad : Val → Option Err
  | .atom _ => none
  | .handle _ .module => none
  | .handle _ .lock => some .typeError
  | .handle _ .gen => some .typeError
  | .handle _ .raiser => some .runtimeError
  | .ref _ => none
  | .list _ xs => firstBadL xs
  | .tuple _ xs => firstBadL xs
  | .ntuple _ xs => firstBadL xs
  | .fset _ xs => firstBadL xs
  | .set _ xs => firstBadL xs
  | .dict _ kvs => firstBadK kvs
  | .box _ v => firstBad v
  | .barr _ _ => none
def firstBadL : Vals → Option Err
  | .nil => none
  | .cons v r => (match firstBad v with | some e => some e | none => firstBadL r)
def firstBadK : KVs → Option Err
  | .nil => none
  | .cons _ v r => (match firstBad v with | some e => some e | none => firstBadK r)
end

mutual
/-- The value with every identity forgotten (content and shape only). -/
def erase : Val → Val
  | .atom a => .atom a
  | .handle _ k => .handle 0 k
  | .ref _ => .ref 0
  | .list _ xs => .list 0 (eraseL xs)
  | .tuple _ xs => .tuple 0 (eraseL xs)
  | .ntuple _ xs => .ntuple 0 (eraseL xs)
  | .fset _ xs => .fset 0 (eraseL xs)
  | .set _ xs => .set 0 (eraseL xs)
  | .dict _ kvs => .dict 0 (eraseK kvs)
  | .box _ v => .box 0 (erase v)
  | .barr _ t => .barr 0 t
def eraseL : Vals → Vals
  | .nil => .nil
  | .cons v r => .cons (erase v) (eraseL r)
def eraseK : KVs → KVs
  | .nil => .nil
  | .cons k v r => .cons k (erase v) (eraseK r)
end

mutual
/-- The value consists of atoms, modules, back-references and plain tuples of such only: nothing in it needs copying. -/
def deepImm : Val → Bool
  | .atom _ => true
  | .handle _ .module => true
  | .handle _ _ => false
  | .ref _ => false
  | .tuple _ xs => deepImmL xs
  | _ => false
def deepImmL : Vals → Bool
  | .nil => true
  | .cons v r => deepImm v && deepImmL r
end

mutual
/-- One more than the largest identity in the value (the driver's `n`). -/
def maxId : Val → Nat
  | .atom _ => 0
  | .handle i _ => i + 1
  | .ref i => i + 1
  | .list i xs => max (i + 1) (maxIdL xs)
  | .tuple i xs => max (i + 1) (maxIdL xs)
  | .ntuple i xs => max (i + 1) (maxIdL xs)
  | .fset i xs => max (i + 1) (maxIdL xs)
  | .set i xs => max (i + 1) (maxIdL xs)
  | .dict i kvs => max (i + 1) (maxIdK kvs)
  | .box i v => max (i + 1) (maxId v)
  | .barr i _ => i + 1
def maxIdL : Vals → Nat
  | .nil => 0
  | .cons v r => max (maxId v) (maxIdL r)
def maxIdK : KVs → Nat
  | .nil => 0
  | .cons _ v r => max (maxId v) (maxIdK r)
end

end SpecVerif.Protect
