/-!
# Fragments of Python semantics shared by the models (trusted, tested by the
correspondence runs of the properties that use them).

Core Lean only: no Mathlib import may appear under `SpecVerif/Model`.
-/
namespace SpecVerif.Py

/-- Exception classes the models distinguish (messages are never modelled). -/
inductive Err
  | typeError | valueError | keyError | indexError | attributeError
  | frozenInstanceError | runtimeError | stopIteration
  deriving DecidableEq, Repr, Inhabited

def Err.name : Err → String
  | .typeError => "TypeError" | .valueError => "ValueError" | .keyError => "KeyError"
  | .indexError => "IndexError" | .attributeError => "AttributeError"
  | .frozenInstanceError => "FrozenInstanceError" | .runtimeError => "RuntimeError"
  | .stopIteration => "StopIteration"

/-- `seq[i]` index normalisation: `some k` with `k < n`, or `none` (IndexError). -/
def pyIdx (n : Nat) (i : Int) : Option Nat :=
  if 0 ≤ i then (if i.toNat < n then some i.toNat else none)
  else (if (-i).toNat ≤ n then some (n - (-i).toNat) else none)

/-- `list.insert(i, x)` position (clamped into `[0, n]`). -/
def pyInsPos (n : Nat) (i : Int) : Nat :=
  if 0 ≤ i then min i.toNat n else n - min (-i).toNat n

/-- Clamp of a slice bound for a positive step (`slice.indices`). -/
def pySliceBound (n : Nat) (b : Option Int) (dflt : Nat) : Nat :=
  match b with
  | none => dflt
  | some i => if 0 ≤ i then min i.toNat n else n - min (-i).toNat n

/-- `xs[a:b]` with step 1. -/
def pySlice {α : Type} (xs : List α) (a b : Option Int) : List α :=
  let n := xs.length
  let lo := pySliceBound n a 0
  let hi := pySliceBound n b n
  (xs.take hi).drop lo

/-- `xs.insert(i, x)` on a plain list. -/
def pyInsert {α : Type} (xs : List α) (i : Int) (x : α) : List α :=
  let p := pyInsPos xs.length i
  xs.take p ++ x :: xs.drop p

theorem pyIdx_lt {n : Nat} {i : Int} {k : Nat} (h : pyIdx n i = some k) : k < n := by
  unfold pyIdx at h
  split at h
  · split at h
    · cases h; assumption
    · cases h
  · split at h
    · cases h; omega
    · cases h

theorem pyInsPos_le (n : Nat) (i : Int) : pyInsPos n i ≤ n := by
  unfold pyInsPos; split <;> omega

end SpecVerif.Py
