import SpecVerif.Model.C02Masked
import SpecVerif.Proofs.HeapProv
/-!
# Lemmas for `Props/C02Masked.lean`

One provenance lemma (`…_ps`, judgement `PS` of `Proofs/HeapProv.lean`) and one
frame lemma (`…_safe`, judgement `Safe` of `Proofs/Heap.lean`) per function of
`Model/C02Masked.lean`; the recursive ones by induction on the lookup fuel.
-/
set_option linter.unusedSectionVars false
set_option linter.unusedVariables false
namespace SpecVerif.C02Masked
open SpecVerif.Py SpecVerif.Heap

/-! ## Provenance: what a new object may refer to -/
section prov
variable {α : Type} {h₀ : Heap} {A : Nat → Prop}

theorem listOfRef_ps (X : Ctx) (hW : World X h₀ A TAll) (v : Ref) (hv : Good h₀.length A v) :
    PS h₀ A (listOfRef v) (Good h₀.length A) := by
  unfold listOfRef
  cases v with
  | sc s => exact PS.throwPy _
  | obj j =>
    refine (PS.getNode j).bind (fun node hn => ?_)
    cases node with
    | list xs =>
      exact (PS.alloc _ (hn.good hW hv)).bind (fun k hk => PS.pure (good_fresh hk))
    | dict _ => exact PS.throwPy _
    | set _ => exact PS.throwPy _
    | inst _ _ _ => exact PS.throwPy _

theorem preparedGet_ps (X : Ctx) (hW : World X h₀ A TAll) (hM : MakeGood h₀ A X) (c a : Nat)
    (v : Ref) (hv : Good h₀.length A v) :
    PS h₀ A (preparedGet X c a v) (Good h₀.length A) := by
  unfold preparedGet
  split
  · rename_i d _
    refine (prepareAttrValue0_ps X hW hM d v hv).bind (fun v' hv' => ?_)
    refine PS.getHeap.bind (fun h _ => ?_)
    exact (guardM_ps _ _).bind (fun _ _ => PS.pure hv'.1)
  · exact PS.pure hv

/-- Reading an attribute of a *new* instance (a copy) yields a scalar, a new
object or an allowed old one -- and keeps the invariant although it may fill a
cache of that instance. -/
theorem readAttr_ps (D : MCtx) (hW : World D.X h₀ A TAll) (hM : MakeGood h₀ A D.X) :
    ∀ (fuel : Nat) (r : Ref) (a : Nat), FreshRef h₀.length r →
      PS h₀ A (readAttr D fuel r a) (Good h₀.length A) := by
  intro fuel
  induction fuel with
  | zero => intro r a _; exact PS.throwPy _
  | succ fuel ih =>
    intro r a hr
    unfold readAttr
    refine (getInst_ps r).bind (fun p hp => ?_)
    obtain ⟨i, c, t, fs⟩ := p
    have hj : h₀.length ≤ i := hr i hp.1
    have hfs : ∀ av, av ∈ fs → Good h₀.length A av.2 :=
      fun av hav => good_of_children_inst (hp.2.2 hj) av hav
    simp only
    split
    · -- no descriptor
      split
      · rename_i v hv; exact PS.pure (hfs _ (alGet_mem hv))
      · exact PS.throwPy _
    · -- spec_property
      rename_i ov ca g fset _
      split
      · rename_i v hv
        have : alGet a fs = some v := by
          split at hv
          · exact hv
          · cases hv
        exact PS.pure (hfs _ (alGet_mem this))
      · have hg : PS h₀ A
            (match g with
              | .lit l => instantiate D.X l
              | .attr b => readAttr D fuel r b
              | .listOf b => do
                let w ← readAttr D fuel r b
                listOfRef w) (Good h₀.length A) := by
          cases g with
          | lit l => exact (instantiate_ps D.X hM l).mono (fun _ h => h.good)
          | attr b => exact ih r b hr
          | listOf b => exact (ih r b hr).bind (fun w hw => listOfRef_ps D.X hW w hw)
        refine hg.bind (fun v hv => ?_)
        refine (preparedGet_ps D.X hW hM c a v hv).bind (fun v' hv' => ?_)
        have hst : PS h₀ A (if (ca && v' != .sc .missing) = true then rawSet r a v' else pure ())
            (fun _ => True) :=
          PS.ite (fun _ => rawSet_ps a v' hr hv') (fun _ => PS.pure trivial)
        exact hst.bind (fun _ _ => PS.pure hv')
    · -- Alias
      rename_i target slot pass fb _
      split
      · rename_i v hv
        have : alGet slot fs = some v := by
          split at hv
          · cases hv
          · exact hv
        exact PS.pure (hfs _ (alGet_mem this))
      · refine PS.tryCatch (ih r target hr) ?_
        cases fb with
        | some l => exact (instantiate_ps D.X hM l).mono (fun _ h => h.good)
        | none => exact PS.throwPy _
    · -- property
      rename_i slot setter _
      split
      · rename_i v hv; exact PS.pure (hfs _ (alGet_mem hv))
      · exact PS.throwPy _

theorem inplaceChecked_ps (X : Ctx) {k : Ref → Nat → Ref → M Unit} {obj : Ref}
    (hk : ∀ a v, Good h₀.length A v → PS h₀ A (k obj a v) (fun _ => True))
    (a : Nat) (v : Ref) (hv : Good h₀.length A v) :
    PS h₀ A (inplaceChecked X k obj a v) (fun _ => True) := by
  unfold inplaceChecked
  refine PS.ite (fun _ => PS.pure trivial) (fun _ => ?_)
  refine (getInst_ps obj).bind (fun p _ => ?_)
  refine (guardM_ps _ _).bind (fun _ _ => ?_)
  refine PS.getHeap.bind (fun h _ => ?_)
  exact (guardM_ps _ _).bind (fun _ _ => hk a v hv)

theorem setattrWith_ps (X : Ctx) (hW : World X h₀ A TAll) (hM : MakeGood h₀ A X)
    {k : Ref → Nat → Ref → M Unit} {obj : Ref}
    (hk : ∀ a v, Good h₀.length A v → PS h₀ A (k obj a v) (fun _ => True))
    (a : Nat) (v : Ref) (hv : Good h₀.length A v) :
    PS h₀ A (setattrWith X k obj a v) (fun _ => True) := by
  unfold setattrWith
  refine (getInst_ps obj).bind (fun p _ => ?_)
  have h1 : PS h₀ A
      (match (X.cd p.2.1).attr? a with
        | some d => prepareAttrValue0 X d v
        | none => pure v) (Good h₀.length A) := by
    split
    · exact (prepareAttrValue0_ps X hW hM _ v hv).mono (fun _ h => h.1)
    · exact PS.pure hv
  exact h1.bind (fun v' hv' => inplaceChecked_ps X hk a v' hv')

/-- Storing an allowed value into a *new* instance, through whatever descriptor
masks the attribute, keeps the invariant. -/
theorem storeVia_ps (D : MCtx) (hW : World D.X h₀ A TAll) (hM : MakeGood h₀ A D.X) :
    ∀ (fuel : Nat) (obj : Ref) (a : Nat) (v : Ref), FreshRef h₀.length obj →
      Good h₀.length A v → PS h₀ A (storeVia D fuel obj a v) (fun _ => True) := by
  intro fuel
  induction fuel with
  | zero => intro obj a v _ _; exact PS.throwPy _
  | succ fuel ih =>
    intro obj a v ho hv
    unfold storeVia
    refine (getInst_ps obj).bind (fun p _ => ?_)
    split
    · exact rawSet_ps a v ho hv
    · split
      · exact PS.throwPy _
      · exact rawSet_ps a v ho hv
      · rename_i s _
        exact setattrWith_ps D.X hW hM (fun a' v' hv' => ih obj a' v' ho hv') s v hv

theorem mutateAttrM_ps (D : MCtx) (hX : NoClassDnc D.X) (hW : World D.X h₀ A TAll)
    (hM : MakeGood h₀ A D.X) (obj : Ref) (a : Nat) (v : Ref) (hv : Good h₀.length A v) :
    PS h₀ A (mutateAttrM D obj a v false)
      (fun r => v ≠ .sc .missing → FreshRef h₀.length r) := by
  unfold mutateAttrM
  refine PS.ite (fun hm => PS.pure (fun hne => (hne hm).elim)) (fun _ => ?_)
  refine (getInst_ps obj).bind (fun p _ => ?_)
  refine (guardM_ps _ _).bind (fun _ _ => ?_)
  refine PS.getHeap.bind (fun h _ => ?_)
  refine (guardM_ps _ _).bind (fun _ _ => ?_)
  refine PS.ite (fun _ => ?_) (fun hc => ?_)
  · refine (deepcopy_ps D.X hX hW obj (good_tall _ _)).bind (fun target ht => ?_)
    exact (thawed_ps D.X ht (storeVia_ps D hW hM _ target a v ht hv)).bind
      (fun _ _ => PS.pure (fun _ => ht))
  · exfalso
    simp [hX p.2.1] at hc

theorem withAttrM_ps (D : MCtx) (hX : NoClassDnc D.X) (hW : World D.X h₀ A TAll)
    (hM : MakeGood h₀ A D.X) (obj : Ref) (a : Nat) (v : Ref) (hv : Good h₀.length A v) :
    PS h₀ A (withAttrM D obj a v false) (FreshRef h₀.length) := by
  unfold withAttrM
  refine (getInst_ps obj).bind (fun p _ => ?_)
  split
  · exact PS.throwPy _
  · rename_i d _
    refine (prepareAttrValue0_ps D.X hW hM d v hv).bind (fun v' hv' => ?_)
    exact (mutateAttrM_ps D hX hW hM obj a v' hv'.1).mono (fun r hr => hr hv'.2)

theorem dictDel_ps {obj : Ref} (a : Nat) (ho : FreshRef h₀.length obj) :
    PS h₀ A (dictDel obj a) (fun _ => True) := by
  unfold dictDel
  refine (getInst_ps obj).bind (fun q hq => ?_)
  have hj : h₀.length ≤ q.1 := ho q.1 hq.1
  refine PS.ite (fun _ => PS.write _ hj (children_inst_good ?_)) (fun _ => PS.throwPy _)
  intro av hav
  exact good_of_children_inst (hq.2.2 hj) av (mem_alDel hav)

theorem delVia_ps (D : MCtx) (hX : NoClassDnc D.X) (hW : World D.X h₀ A TAll)
    (hM : MakeGood h₀ A D.X) :
    ∀ (fuel : Nat) (obj : Ref) (a : Nat), FreshRef h₀.length obj →
      PS h₀ A (delVia D fuel obj a) (fun _ => True) := by
  intro fuel
  induction fuel with
  | zero => intro obj a _; exact PS.throwPy _
  | succ fuel ih =>
    intro obj a ho
    unfold delVia
    refine (getInst_ps obj).bind (fun p _ => ?_)
    simp only
    split
    · refine PS.ite (fun _ => delAttr_ps D.X hX hW hM a false ho) (fun _ => ?_)
      exact (guardM_ps _ _).bind (fun _ _ => dictDel_ps a ho)
    · refine (guardM_ps _ _).bind (fun _ _ => ?_)
      split
      · exact PS.ite (fun _ => dictDel_ps a ho) (fun _ => PS.throwPy _)
      · exact ih obj _ ho
      · exact PS.throwPy _

theorem resetAttrM_ps (D : MCtx) (hX : NoClassDnc D.X) (hW : World D.X h₀ A TAll)
    (hM : MakeGood h₀ A D.X) (obj : Ref) (a : Nat) :
    PS h₀ A (resetAttrM D obj a false) (FreshRef h₀.length) := by
  unfold resetAttrM
  refine (getInst_ps obj).bind (fun p _ => ?_)
  split
  · exact PS.throwPy _
  · simp only [Bool.not_false, if_true]
    refine (deepcopy_ps D.X hX hW obj (good_tall _ _)).bind (fun copy hc => ?_)
    exact (thawed_ps D.X hc (delVia_ps D hX hW hM _ copy a hc)).bind (fun _ _ => PS.pure hc)

/-- Every deriving operation returns a new object and keeps the invariant. -/
theorem runMOp_ps (D : MCtx) (hX : NoClassDnc D.X) (hW : World D.X h₀ A TAll)
    (hM : MakeGood h₀ A D.X) (op : MOp) (hd : op.derives = true)
    (hargs : ∀ v, v ∈ op.args → Good h₀.length A v) :
    PS h₀ A (runMOp D op) (fun r => FreshRef h₀.length r) := by
  cases op with
  | construct c kw => cases hd
  | get r a => cases hd
  | set r a v => cases hd
  | del r a => cases hd
  | deepcopy r => exact deepcopy_ps D.X hX hW r (good_tall _ _)
  | withAttr r a v ip =>
    have : ip = false := by simpa [MOp.derives] using hd
    subst this
    exact withAttrM_ps D hX hW hM r a v (hargs v (by simp [MOp.args]))
  | resetAttr r a ip =>
    have : ip = false := by simpa [MOp.derives] using hd
    subst this
    exact resetAttrM_ps D hX hW hM r a

theorem attempt_ps {m : M α} {Q : α → Prop} (hm : PS h₀ A m Q) :
    PS h₀ A (attempt m) (fun o => ∀ a, o = some a → Q a) := by
  unfold attempt
  refine PS.tryCatch (hm.bind (fun a ha => PS.pure (fun b hb => by cases hb; exact ha))) ?_
  exact PS.pure (fun b hb => by cases hb)

theorem readAll_ps (D : MCtx) (hW : World D.X h₀ A TAll) (hM : MakeGood h₀ A D.X) (r : Ref)
    (hr : FreshRef h₀.length r) :
    ∀ (as : List Nat), PS h₀ A (readAll D r as) (fun vs => ∀ v, v ∈ vs → Good h₀.length A v) := by
  intro as
  induction as with
  | nil => exact PS.pure (fun v hv => by cases hv)
  | cons a as ih =>
    unfold readAll
    refine (attempt_ps (readAttr_ps D hW hM _ r a hr)).bind (fun o ho => ?_)
    refine ih.bind (fun vs hvs => ?_)
    cases o with
    | none => exact PS.pure hvs
    | some v =>
      refine PS.pure (fun w hw => ?_)
      rcases List.mem_cons.1 hw with h | h
      · rw [h]; exact ho v rfl
      · exact hvs w h

end prov

/-! ## Frame: which pre-existing objects an operation may write -/
section frame
variable {α : Type} {n₀ : Nat} {W : Nat → Prop}

theorem listOfRef_safe (v : Ref) : Safe n₀ W (listOfRef v) (fun _ => True) := by
  unfold listOfRef
  cases v with
  | sc s => exact Safe.throwPy _
  | obj j =>
    refine (Safe.getNode j).bind (fun node _ => ?_)
    cases node with
    | list xs => exact (Safe.alloc _).bind (fun _ _ => Safe.pure trivial)
    | dict _ => exact Safe.throwPy _
    | set _ => exact Safe.throwPy _
    | inst _ _ _ => exact Safe.throwPy _

theorem preparedGet_safe (X : Ctx) (hM : MakeSafe n₀ W X) (c a : Nat) (v : Ref) :
    Safe n₀ W (preparedGet X c a v) (fun _ => True) := by
  unfold preparedGet
  split
  · refine (prepareAttrValue0_safe X hM _ v).bind (fun v' _ => ?_)
    refine Safe.getHeap.bind (fun h _ => ?_)
    exact (guardM_safe _ _).bind (fun _ _ => Safe.pure trivial)
  · exact Safe.pure trivial

/-- `getattr(r, a)` writes nothing but `r` itself (a cache fill) and new objects. -/
theorem readAttr_safe (D : MCtx) (hM : MakeSafe n₀ W D.X) :
    ∀ (fuel : Nat) (r : Ref) (a : Nat), Writable n₀ W r →
      Safe n₀ W (readAttr D fuel r a) (fun _ => True) := by
  intro fuel
  induction fuel with
  | zero => intro r a _; exact Safe.throwPy _
  | succ fuel ih =>
    intro r a hr
    unfold readAttr
    refine (getInst_safe r).bind (fun p _ => ?_)
    obtain ⟨i, c, t, fs⟩ := p
    simp only
    split
    · split
      · exact Safe.pure trivial
      · exact Safe.throwPy _
    · rename_i ov ca g fset _
      split
      · exact Safe.pure trivial
      · have hg : Safe n₀ W
            (match g with
              | .lit l => instantiate D.X l
              | .attr b => readAttr D fuel r b
              | .listOf b => do
                let w ← readAttr D fuel r b
                listOfRef w) (fun _ => True) := by
          cases g with
          | lit l => exact (instantiate_safe D.X hM l).true
          | attr b => exact ih r b hr
          | listOf b => exact (ih r b hr).bind (fun w _ => listOfRef_safe w)
        refine hg.bind (fun v _ => ?_)
        refine (preparedGet_safe D.X hM c a v).bind (fun v' _ => ?_)
        have hst : Safe n₀ W (if (ca && v' != .sc .missing) = true then rawSet r a v' else pure ())
            (fun _ => True) :=
          Safe.ite (fun _ => rawSet_safe a v' hr) (fun _ => Safe.pure trivial)
        exact hst.bind (fun _ _ => Safe.pure trivial)
    · rename_i target slot pass fb _
      split
      · exact Safe.pure trivial
      · refine Safe.tryCatch (ih r target hr) ?_
        cases fb with
        | some l => exact (instantiate_safe D.X hM l).true
        | none => exact Safe.throwPy _
    · split
      · exact Safe.pure trivial
      · exact Safe.throwPy _

theorem inplaceChecked_safe (X : Ctx) {k : Ref → Nat → Ref → M Unit} {obj : Ref}
    (hk : ∀ a v, Safe n₀ W (k obj a v) (fun _ => True)) (a : Nat) (v : Ref) :
    Safe n₀ W (inplaceChecked X k obj a v) (fun _ => True) := by
  unfold inplaceChecked
  refine Safe.ite (fun _ => Safe.pure trivial) (fun _ => ?_)
  refine (getInst_safe obj).bind (fun p _ => ?_)
  refine (guardM_safe _ _).bind (fun _ _ => ?_)
  refine Safe.getHeap.bind (fun h _ => ?_)
  exact (guardM_safe _ _).bind (fun _ _ => hk a v)

theorem setattrWith_safe (X : Ctx) (hM : MakeSafe n₀ W X) {k : Ref → Nat → Ref → M Unit}
    {obj : Ref} (hk : ∀ a v, Safe n₀ W (k obj a v) (fun _ => True)) (a : Nat) (v : Ref) :
    Safe n₀ W (setattrWith X k obj a v) (fun _ => True) := by
  unfold setattrWith
  refine (getInst_safe obj).bind (fun p _ => ?_)
  have h1 : Safe n₀ W
      (match (X.cd p.2.1).attr? a with
        | some d => prepareAttrValue0 X d v
        | none => pure v) (fun _ => True) := by
    split
    · exact (prepareAttrValue0_safe X hM _ v).true
    · exact Safe.pure trivial
  exact h1.bind (fun v' _ => inplaceChecked_safe X hk a v')

theorem storeVia_safe (D : MCtx) (hM : MakeSafe n₀ W D.X) :
    ∀ (fuel : Nat) (obj : Ref) (a : Nat) (v : Ref), Writable n₀ W obj →
      Safe n₀ W (storeVia D fuel obj a v) (fun _ => True) := by
  intro fuel
  induction fuel with
  | zero => intro obj a v _; exact Safe.throwPy _
  | succ fuel ih =>
    intro obj a v ho
    unfold storeVia
    refine (getInst_safe obj).bind (fun p _ => ?_)
    split
    · exact rawSet_safe a v ho
    · split
      · exact Safe.throwPy _
      · exact rawSet_safe a v ho
      · rename_i s _
        exact setattrWith_safe D.X hM (fun a' v' => ih obj a' v' ho) s v

theorem setAttrM_safe (D : MCtx) (hM : MakeSafe n₀ W D.X) {obj : Ref} (ho : Writable n₀ W obj)
    (a : Nat) (v : Ref) : Safe n₀ W (setAttrM D obj a v) (fun _ => True) := by
  unfold setAttrM
  exact setattrWith_safe D.X hM (fun a' v' => storeVia_safe D hM _ obj a' v' ho) a v

theorem mutateAttrM_safe (D : MCtx) (hX : NoClassDnc D.X) (hM : MakeSafe n₀ W D.X) (obj : Ref)
    (a : Nat) (v : Ref) (inplace : Bool) (hobj : inplace = true → Writable n₀ W obj) :
    Safe n₀ W (mutateAttrM D obj a v inplace) (fun _ => True) := by
  unfold mutateAttrM
  refine Safe.ite (fun _ => Safe.pure trivial) (fun _ => ?_)
  refine (getInst_safe obj).bind (fun p _ => ?_)
  refine (guardM_safe _ _).bind (fun _ _ => ?_)
  refine Safe.getHeap.bind (fun h _ => ?_)
  refine (guardM_safe _ _).bind (fun _ _ => ?_)
  refine Safe.ite (fun _ => ?_) (fun hc => ?_)
  · refine (deepcopy_safe D.X hX obj).bind (fun target ht => ?_)
    exact (thawed_safe D.X ht.writable (storeVia_safe D hM _ target a v ht.writable)).bind
      (fun _ _ => Safe.pure trivial)
  · have hi : inplace = true := by
      simp [hX p.2.1] at hc
      exact hc
    exact (storeVia_safe D hM _ obj a v (hobj hi)).bind (fun _ _ => Safe.pure trivial)

theorem withAttrM_safe (D : MCtx) (hX : NoClassDnc D.X) (hM : MakeSafe n₀ W D.X) (obj : Ref)
    (a : Nat) (v : Ref) (inplace : Bool) (hobj : inplace = true → Writable n₀ W obj) :
    Safe n₀ W (withAttrM D obj a v inplace) (fun _ => True) := by
  unfold withAttrM
  refine (getInst_safe obj).bind (fun p _ => ?_)
  split
  · exact Safe.throwPy _
  · refine (prepareAttrValue0_safe D.X hM _ v).bind (fun v' _ => ?_)
    exact mutateAttrM_safe D hX hM obj a v' inplace hobj

theorem dictDel_safe {obj : Ref} (a : Nat) (ho : Writable n₀ W obj) :
    Safe n₀ W (dictDel obj a) (fun _ => True) := by
  unfold dictDel
  refine (getInst_safe obj).bind (fun q hq => ?_)
  exact Safe.ite (fun _ => Safe.write _ (ho q.1 hq)) (fun _ => Safe.throwPy _)

theorem delVia_safe (D : MCtx) (hX : NoClassDnc D.X) (hM : MakeSafe n₀ W D.X) :
    ∀ (fuel : Nat) (obj : Ref) (a : Nat), Writable n₀ W obj →
      Safe n₀ W (delVia D fuel obj a) (fun _ => True) := by
  intro fuel
  induction fuel with
  | zero => intro obj a _; exact Safe.throwPy _
  | succ fuel ih =>
    intro obj a ho
    unfold delVia
    refine (getInst_safe obj).bind (fun p _ => ?_)
    simp only
    split
    · refine Safe.ite (fun _ => delAttr_safe D.X hX hM a false ho) (fun _ => ?_)
      exact (guardM_safe _ _).bind (fun _ _ => dictDel_safe a ho)
    · refine (guardM_safe _ _).bind (fun _ _ => ?_)
      split
      · exact Safe.ite (fun _ => dictDel_safe a ho) (fun _ => Safe.throwPy _)
      · exact ih obj _ ho
      · exact Safe.throwPy _

theorem resetAttrM_safe (D : MCtx) (hX : NoClassDnc D.X) (hM : MakeSafe n₀ W D.X) (obj : Ref)
    (a : Nat) (inplace : Bool) (hobj : inplace = true → Writable n₀ W obj) :
    Safe n₀ W (resetAttrM D obj a inplace) (fun _ => True) := by
  unfold resetAttrM
  refine (getInst_safe obj).bind (fun p _ => ?_)
  split
  · exact Safe.throwPy _
  · refine Safe.ite (fun _ => ?_) (fun hc => ?_)
    · refine (deepcopy_safe D.X hX obj).bind (fun copy hcp => ?_)
      exact (thawed_safe D.X hcp.writable (delVia_safe D hX hM _ copy a hcp.writable)).bind
        (fun _ _ => Safe.pure trivial)
    · have hi : inplace = true := by simpa using hc
      exact (delVia_safe D hX hM _ obj a (hobj hi)).bind (fun _ _ => Safe.pure trivial)

/-- A deriving operation writes no pre-existing object at all. -/
theorem runMOp_safe_derive (D : MCtx) (hX : NoClassDnc D.X) (hM : MakeSafe n₀ W D.X) (op : MOp)
    (hd : op.derives = true) : Safe n₀ W (runMOp D op) (fun _ => True) := by
  cases op with
  | construct c kw => cases hd
  | get r a => cases hd
  | set r a v => cases hd
  | del r a => cases hd
  | deepcopy r => exact (deepcopy_safe D.X hX r).true
  | withAttr r a v ip =>
    have : ip = false := by simpa [MOp.derives] using hd
    subst this
    exact withAttrM_safe D hX hM r a v false (fun h => by cases h)
  | resetAttr r a ip =>
    have : ip = false := by simpa [MOp.derives] using hd
    subst this
    exact resetAttrM_safe D hX hM r a false (fun h => by cases h)

end frame

end SpecVerif.C02Masked
