import SpecVerif.Model.C03
import SpecVerif.Proofs.C05
/-!
# C03 — helper lemmas (the property statements are in `Props/C03.lean`)
-/
set_option linter.unusedSectionVars false
set_option linter.unusedSimpArgs false
set_option linter.unusedVariables false
namespace SpecVerif.C03.Proofs
open SpecVerif.Py SpecVerif.C05 SpecVerif.C03 SpecVerif.C05.Proofs

variable (E : Env)

abbrev WT (v : Val) : Prop := wt E v = true

/-- a callback that hands back well-typed values for well-typed values -/
def TrOK (f : Tr) : Prop := ∀ v, WT E v → WT E (f v)

/-- Assumptions on the class table and the preparer pool: instances occurring in defaults and in the
results of preparers are well typed (instances can only be created through the API); a default written
in the class body conforms to the annotation. Nothing is assumed about the *values* preparers return. -/
structure EnvOK : Prop where
  prepWT : ∀ p inst v, WT E inst → WT E v → WT E (E.prep p inst v)
  defaultWT : ∀ c a sp, E.attr? c a = some sp → WT E sp.defaultVal
  classAttrWT : ∀ c a sp d, E.attr? c a = some sp → sp.classAttr = some d → WT E d ∧ conformsDeep E sp.ty d = true
  /-- (the model's `resetDependant` stores the default of an `invalidated_by` dependant after `check_type` alone;
  the code runs it through the whole assignment pipeline) -/
  depDefaultDeep : ∀ c a sp, E.attr? c a = some sp → sp.invalidatedBy ≠ [] →
    conforms E sp.ty sp.defaultVal = true → conformsDeep E sp.ty sp.defaultVal = true

/-! ## `conformsDeep` vs `conforms` (= `check_type`) -/

theorem conformsDeep_conforms {ty : Ty} {v : Val} (h : conformsDeep E ty v = true) : conforms E ty v = true := by
  unfold conformsDeep at h
  simp only [Bool.and_eq_true] at h
  exact h.1

/-- for every annotation other than the abstract collection generics, `conformsDeep` is `check_type` -/
theorem conformsDeep_eq {ty : Ty} (v : Val) (h : ty.isAbstract = false) : conformsDeep E ty v = conforms E ty v := by
  unfold conformsDeep
  cases ty <;> simp [Ty.isAbstract] at h ⊢

/-- the value about to be stored is fine as soon as `check_type` accepts it -/
def DeepIf (ty : Ty) (v : Val) : Prop := conforms E ty v = true → conformsDeep E ty v = true

theorem deepIf_of_not_abstract {ty : Ty} (v : Val) (h : ty.isAbstract = false) : DeepIf E ty v := by
  intro hc; rw [conformsDeep_eq E v h]; exact hc

/-! ## basic facts about `wt` -/

theorem wt_sc (s : Scalar) : WT E (.sc s) := rfl
theorem wt_missing : WT E MISSING := rfl
theorem wt_none : WT E NONE := rfl

theorem wtVals_toList : ∀ (xs : Vals), wtVals E xs = xs.toList.all (wt E)
  | .nil => rfl
  | .cons v vs => by simp [wtVals, Vals.toList, wtVals_toList vs]

theorem toList_ofList (l : List Val) : (Vals.ofList l).toList = l := by
  induction l with
  | nil => rfl
  | cons x xs ih => simp [Vals.ofList, Vals.toList, ih]

theorem wtVals_ofList (l : List Val) : wtVals E (Vals.ofList l) = l.all (wt E) := by
  rw [wtVals_toList, toList_ofList]

theorem Vals_all_toList (p : Val → Bool) : ∀ (xs : Vals), xs.all p = xs.toList.all p
  | .nil => rfl
  | .cons v vs => by simp [Vals.all, Vals.toList, Vals_all_toList p vs]

theorem wtVals_snoc (x : Val) : ∀ (xs : Vals), wtVals E (xs.snoc x) = (wtVals E xs && wt E x)
  | .nil => by simp [Vals.snoc, wtVals]
  | .cons v vs => by simp [Vals.snoc, wtVals, wtVals_snoc x vs, Bool.and_assoc]

theorem attr?_name {c a : Nat} {sp : AttrSpec} (h : E.attr? c a = some sp) : sp.name = a := by
  unfold Env.attr? at h
  cases hc : E.cls? c with
  | none => rw [hc] at h; cases h
  | some cs =>
    rw [hc] at h
    simp only [Option.bind, ClassSpec.attr?] at h
    have := List.find?_some h
    simpa using this

theorem attr?_of_cls {c a : Nat} {cs : ClassSpec} (hc : E.cls? c = some cs) : E.attr? c a = cs.attr? a := by
  simp [Env.attr?, hc]

/-- what the invariant says about one field -/
def FieldOK (c a : Nat) (v : Val) : Prop :=
  v = MISSING ∨ ((∀ sp, E.attr? c a = some sp → conformsDeep E sp.ty v = true) ∧ WT E v)

theorem wtFlds_cons (c a : Nat) (v : Val) (r : Flds) :
    wtFlds E c (.cons a v r) = true ↔ FieldOK E c a v ∧ wtFlds E c r = true := by
  unfold FieldOK
  simp only [wtFlds, Bool.and_eq_true, Bool.or_eq_true, beq_iff_eq]
  constructor
  · rintro ⟨h | ⟨h1, h2⟩, hr⟩
    · exact ⟨Or.inl h, hr⟩
    · refine ⟨Or.inr ⟨?_, h2⟩, hr⟩
      intro sp hsp; rw [hsp] at h1; exact h1
  · rintro ⟨h | ⟨h1, h2⟩, hr⟩
    · exact ⟨Or.inl h, hr⟩
    · refine ⟨Or.inr ⟨?_, h2⟩, hr⟩
      cases hsp : E.attr? c a with
      | none => rfl
      | some sp => exact h1 sp hsp

theorem wtFlds_set (c a : Nat) (v : Val) (hv : FieldOK E c a v) :
    ∀ (fs : Flds), wtFlds E c fs = true → wtFlds E c (fs.set a v) = true
  | .nil, _ => by simp only [Flds.set]; exact (wtFlds_cons E c a v .nil).2 ⟨hv, rfl⟩
  | .cons a' v' r, h => by
    obtain ⟨h1, h2⟩ := (wtFlds_cons E c a' v' r).1 h
    simp only [Flds.set]
    split
    · rename_i heq; subst heq
      exact (wtFlds_cons E c a' v r).2 ⟨hv, h2⟩
    · exact (wtFlds_cons E c a' v' (r.set a v)).2 ⟨h1, wtFlds_set c a v hv r h2⟩

theorem wtFlds_get (c a : Nat) : ∀ (fs : Flds), wtFlds E c fs = true → FieldOK E c a (fs.get a)
  | .nil, _ => Or.inl rfl
  | .cons a' v' r, h => by
    obtain ⟨h1, h2⟩ := (wtFlds_cons E c a' v' r).1 h
    simp only [Flds.get]
    split
    · rename_i heq; subst heq; exact h1
    · exact wtFlds_get c a r h2

theorem fieldOK_wt {c a : Nat} {v : Val} (h : FieldOK E c a v) : WT E v := by
  rcases h with h | h
  · subst h; rfl
  · exact h.2

theorem wt_setField {obj : Val} {c : Nat} (a : Nat) (v : Val) (hi : IsInst c obj) (h : WT E obj)
    (hv : FieldOK E c a v) : WT E (obj.setField a v) := by
  obtain ⟨fs, rfl⟩ := hi
  exact wtFlds_set E c a v hv fs h

theorem wt_setField_any (obj : Val) (a : Nat) (v : Val) (h : WT E obj)
    (hv : ∀ c, IsInst c obj → FieldOK E c a v) : WT E (obj.setField a v) := by
  cases obj with
  | inst c fs => exact wt_setField E a v ⟨fs, rfl⟩ h (hv c ⟨fs, rfl⟩)
  | sc s => exact h
  | list xs => exact h
  | set xs => exact h
  | dict kvs => exact h

theorem wt_getAttr (hE : EnvOK E) (obj : Val) (a : Nat) (h : WT E obj) : WT E (E.getAttr obj a) := by
  unfold Env.getAttr
  cases obj with
  | inst c fs =>
    simp only []
    split
    · cases hsp : E.attr? c a with
      | none => rfl
      | some sp =>
        simp only []
        cases hd : sp.classAttr with
        | none => rfl
        | some d => exact (hE.classAttrWT c a sp d hsp hd).1
    · exact fieldOK_wt E (wtFlds_get E c a fs h)
  | sc s => rfl
  | list xs => rfl
  | set xs => rfl
  | dict kvs => rfl

/-- the value read from a managed attribute conforms to its annotation (or is MISSING) -/
theorem getAttr_conforms (hE : EnvOK E) (c : Nat) (fs : Flds) (a : Nat) (sp : AttrSpec) (h : WT E (.inst c fs))
    (hsp : E.attr? c a = some sp) :
    E.getAttr (.inst c fs) a = MISSING ∨ conformsDeep E sp.ty (E.getAttr (.inst c fs) a) = true := by
  unfold Env.getAttr
  simp only [hsp]
  split
  · cases hd : sp.classAttr with
    | none => exact Or.inl rfl
    | some d => exact Or.inr (hE.classAttrWT c a sp d hsp hd).2
  · rename_i hne
    rcases wtFlds_get E c a fs h with h' | h'
    · exact absurd h' hne
    · exact Or.inr (h'.1 sp hsp)

theorem specOf_inst' {recv : Val} {a : Nat} {sp : AttrSpec} (h : specOf E recv a = some sp) :
    ∃ c fs, recv = .inst c fs ∧ E.attr? c a = some sp := by
  unfold specOf classOf at h
  cases recv with
  | inst c fs => exact ⟨c, fs, rfl, by simpa [Option.bind] using h⟩
  | sc s => simp [Option.bind] at h
  | list xs => simp [Option.bind] at h
  | set xs => simp [Option.bind] at h
  | dict kvs => simp [Option.bind] at h

theorem wt_allMissing (c : Nat) (attrs : List AttrSpec) : WT E (.inst c (allMissing attrs)) := by
  induction attrs with
  | nil => rfl
  | cons sp r ih =>
    simp only [allMissing]
    exact (wtFlds_cons E c sp.name MISSING _).2 ⟨Or.inl rfl, ih⟩

theorem wt_asKw : ∀ (kvs : KVs) (kw : Kw), wtKVs E kvs = true → kvs.asKw = some kw →
    ∀ kv ∈ kw, WT E kv.2
  | .nil, kw, _, hk => by simp [KVs.asKw] at hk; subst hk; intro kv hkv; cases hkv
  | .cons k v r, kw, h, hk => by
    have ih := wt_asKw r
    simp only [wtKVs, Bool.and_eq_true] at h
    cases k with
    | sc s =>
      cases s with
      | str a =>
        simp only [KVs.asKw] at hk
        cases hr : r.asKw with
        | none => rw [hr] at hk; cases hk
        | some kw' =>
          rw [hr] at hk; simp at hk; subst hk
          intro kv hkv
          rcases List.mem_cons.1 hkv with h' | h'
          · subst h'; exact h.1.2
          · exact ih kw' h.2 hr kv h'
      | none => simp [KVs.asKw] at hk
      | bool b => simp [KVs.asKw] at hk
      | int n => simp [KVs.asKw] at hk
      | flt t => simp [KVs.asKw] at hk
      | sent k => simp [KVs.asKw] at hk
    | list xs => simp [KVs.asKw] at hk
    | set xs => simp [KVs.asKw] at hk
    | dict kvs' => simp [KVs.asKw] at hk
    | inst c fs => simp [KVs.asKw] at hk

theorem wt_keys : ∀ (kvs : KVs), wtKVs E kvs = true → wtVals E kvs.keys = true
  | .nil, _ => rfl
  | .cons k v r, h => by
    simp only [wtKVs, Bool.and_eq_true] at h
    simp [KVs.keys, wtVals, h.1.1, wt_keys r h.2]

theorem wt_iterate (v : Val) (items : Vals) (h : WT E v) (hi : iterate v = some items) : wtVals E items = true := by
  cases v with
  | list xs => simp [iterate] at hi; subst hi; exact h
  | set xs => simp [iterate] at hi; subst hi; exact h
  | dict kvs => simp [iterate] at hi; subst hi; exact wt_keys E kvs h
  | sc s =>
    cases s with
    | str n =>
      simp [iterate] at hi; subst hi
      split <;> rfl
    | none => simp [iterate] at hi
    | bool b => simp [iterate] at hi
    | int n => simp [iterate] at hi
    | flt t => simp [iterate] at hi
    | sent k => simp [iterate] at hi
  | inst c fs => simp [iterate] at hi

theorem wt_kvs_get (k : Val) : ∀ (kvs : KVs), wtKVs E kvs = true → WT E ((kvs.get? k).getD MISSING)
  | .nil, _ => rfl
  | .cons k' v r, h => by
    simp only [wtKVs, Bool.and_eq_true] at h
    simp only [KVs.get?]
    split
    · exact h.1.2
    · exact wt_kvs_get k r h.2

theorem wt_kvs_set (k v : Val) (hk : WT E k) (hv : WT E v) :
    ∀ (kvs : KVs), wtKVs E kvs = true → wtKVs E (kvs.set k v) = true
  | .nil, _ => by simp [KVs.set, wtKVs, hk, hv]
  | .cons k' v' r, h => by
    simp only [wtKVs, Bool.and_eq_true] at h
    simp only [KVs.set]
    split
    · simp [wtKVs, h.1.1, hv, h.2]
    · simp [wtKVs, h.1.1, h.1.2, wt_kvs_set k v hk hv r h.2]

theorem wt_ctor_builtin (ty : Ty) (d : Val) (h : ty.ctor = .builtin d) : WT E d := by
  cases ty <;> simp [Ty.ctor] at h <;> try (subst h; rfl)
  split at h <;> cases h

theorem wt_ctor_coll (ty : Ty) (d : Val) (h : ty.ctor = .coll d) : WT E d := by
  cases ty <;> simp [Ty.ctor] at h <;> try (subst h; rfl)
  split at h <;> cases h

theorem wtVals_dedup : ∀ (ys acc : Vals), wtVals E ys = true → wtVals E acc = true →
    wtVals E (dedupVals ys acc) = true
  | .nil, acc, _, h2 => h2
  | .cons x xs, acc, h1, h2 => by
    simp only [wtVals, Bool.and_eq_true] at h1
    simp only [dedupVals]
    apply wtVals_dedup xs _ h1.2
    split
    · exact h2
    · rw [wtVals_snoc]; simp [h2, h1.1]


/-! ## invalidation keeps instances well typed -/

theorem wt_resetDependant (hE : EnvOK E) (obj : Val) (d a : Nat) (h : WT E obj)
    (hdep : dependsOn E obj d a = true) : WT E (resetDependant E obj d) := by
  unfold resetDependant
  unfold dependsOn at hdep
  cases hsp : specOf E obj d with
  | none => exact h
  | some sp =>
    rw [hsp] at hdep
    simp only [] at hdep ⊢
    obtain ⟨c, fs, rfl, hattr⟩ := SpecVerif.C03.Proofs.specOf_inst' E hsp
    split
    · exact wt_setField E d MISSING ⟨fs, rfl⟩ h (Or.inl rfl)
    · split
      · rename_i hconf
        apply wt_setField E d _ ⟨fs, rfl⟩ h
        right
        refine ⟨?_, hE.defaultWT c d sp hattr⟩
        intro sp' hsp'
        rw [hattr] at hsp'; cases hsp'
        have hne : sp.invalidatedBy ≠ [] := by
          intro he; rw [he] at hdep; simp at hdep
        exact hE.depDefaultDeep c d sp hattr hne hconf
      · exact h

theorem wt_invalidateAux (hE : EnvOK E) (names : List Nat) :
    ∀ (k : Nat) (obj : Val) (a : Nat), WT E obj → WT E (invalidateAux E names k obj a)
  | 0, obj, a, h => h
  | k+1, obj, a, h => by
    simp only [invalidateAux]
    have : ∀ (l : List Nat) (init : Val), WT E init →
        WT E (l.foldl (fun acc d =>
          if dependsOn E acc d a then invalidateAux E names k (resetDependant E acc d) d else acc) init) := by
      intro l
      induction l with
      | nil => intro init hi; exact hi
      | cons x xs ih =>
        intro init hi
        simp only [List.foldl]
        apply ih
        split
        · rename_i hdep
          exact wt_invalidateAux hE names k _ x (wt_resetDependant E hE init x a hi hdep)
        · exact hi
    exact this names obj h

theorem wt_invalidate (hE : EnvOK E) (obj : Val) (a : Nat) (h : WT E obj) : WT E (E.invalidate obj a) := by
  unfold Env.invalidate
  cases obj with
  | inst c fs =>
    simp only []
    split
    · exact wt_invalidateAux E hE _ _ _ a h
    · exact h
  | sc s => exact h
  | list xs => exact h
  | set xs => exact h
  | dict kvs => exact h

/-! ## the stages of `mutate_value` keep values well typed -/

/-- the arguments of `mutate_value` are well typed / well behaved -/
structure MVOK (p : MV) : Prop where
  new : WT E p.new
  prepare : ∀ f, p.prepare = some f → TrOK E f
  attrs : ∀ kv ∈ p.attrs, WT E kv.2
  transform : ∀ f, p.transform = some f → TrOK E f
  attrTransforms : ∀ af ∈ p.attrTransforms, TrOK E af.2

theorem wt_applyOpt (f : Option Tr) (v : Val) (hf : ∀ g, f = some g → TrOK E g) (hv : WT E v) :
    WT E (applyOpt f v) := by
  cases f with
  | none => exact hv
  | some g => exact hf g rfl v hv

theorem wt_mvValue (old : Val) (p : MV) (ho : WT E old) (hp : MVOK E p) : WT E (mvValue old p) := by
  unfold mvValue
  apply wt_applyOpt
  · intro g hg
    split at hg
    · exact hp.prepare g hg
    · cases hg
  · split
    · exact hp.new
    · split
      · exact ho
      · rfl

/-- `construct` (at the fuel the stage uses) yields well-typed instances -/
def CtorOK (ctor : Nat → Kw → Except Err Val) : Prop :=
  ∀ c kw r, (∀ kv ∈ kw, WT E kv.2) → ctor c kw = .ok r → WT E r

/-- `setattr` on a nested value (at the fuel the stage uses) keeps it well typed -/
def SetOK (set : Val → Nat → Val → Except Err Val) : Prop :=
  ∀ obj a v r, WT E obj → WT E v → set obj a v = .ok r → WT E r

theorem map_ok {α β : Type} {e : Except Err α} {f : α → β} {y : β} (h : e.map f = .ok y) :
    ∃ x, e = .ok x ∧ f x = y := by
  cases e with
  | error e' => cases h
  | ok x => exact ⟨x, rfl, by simpa [Except.map] using h⟩

theorem wt_mvConstruct (ctor : Nat → Kw → Except Err Val) (hc : CtorOK E ctor) (p : MV) (v : Val)
    (hp : MVOK E p) (hv : WT E v) (r : Val) (used : List Nat) (h : mvConstruct E ctor p v = .ok (r, used)) :
    WT E r := by
  unfold mvConstruct at h
  cases hty : p.ty with
  | none =>
    rw [hty] at h
    simp only [] at h
    cases h; exact hv
  | some ty =>
    rw [hty] at h
    -- the value is MISSING, a dict, or something else
    have hmiss : ∀ (hm : v = MISSING), WT E r := by
      intro hm
      subst hm
      simp only [if_true] at h
      cases hct : ty.ctor with
      | spec c =>
        rw [hct] at h
        simp only [] at h
        obtain ⟨x, hx, hxy⟩ := map_ok h
        have hr : x = r := congrArg Prod.fst hxy
        rw [← hr]
        refine hc c _ x ?_ hx
        intro kv hkv
        exact hp.attrs kv (List.mem_filter.1 hkv).1
      | builtin d =>
        rw [hct] at h; simp at h; rw [← h.1]; exact wt_ctor_builtin E ty d hct
      | coll d =>
        rw [hct] at h; simp at h; rw [← h.1]; exact wt_ctor_coll E ty d hct
      | uncallable => rw [hct] at h; cases h
      | noinst => rw [hct] at h; cases h
    cases v with
    | dict kvs =>
      simp only [] at h
      split at h
      · cases hkw : kvs.asKw with
        | none => rw [hkw] at h; cases h
        | some dkw =>
          rw [hkw] at h
          simp only [] at h
          cases hct : ty.ctor with
          | spec c =>
            rw [hct] at h
            simp only [] at h
            obtain ⟨x, hx, hxy⟩ := map_ok h
            have hr : x = r := congrArg Prod.fst hxy
            rw [← hr]
            refine hc c _ x ?_ hx
            intro kv hkv
            rcases List.mem_append.1 hkv with h' | h'
            · exact wt_asKw E kvs dkw hv hkw kv h'
            · exact hp.attrs kv h'
          | builtin d =>
            rw [hct] at h
            simp only [] at h
            split at h
            · simp at h; rw [← h.1]; exact wt_ctor_builtin E ty d hct
            · cases h
          | coll d => rw [hct] at h; cases h
          | uncallable => rw [hct] at h; cases h
          | noinst => rw [hct] at h; cases h
      · cases h; exact hv
    | sc s =>
      simp only [] at h
      by_cases hm : Val.sc s = MISSING
      · exact hmiss hm
      · simp only [hm, if_false] at h; cases h; exact hv
    | list xs => simp at h; obtain ⟨rfl, _⟩ := h; exact hv
    | set xs => simp at h; obtain ⟨rfl, _⟩ := h; exact hv
    | inst c fs => simp at h; obtain ⟨rfl, _⟩ := h; exact hv

theorem wt_mvAttrs (set : Val → Nat → Val → Except Err Val) (hs : SetOK E set) (used : List Nat) (kw : Kw)
    (v r : Val) (hk : ∀ kv ∈ kw, WT E kv.2) (hv : WT E v) (h : mvAttrs set used kw v = .ok r) : WT E r := by
  unfold mvAttrs at h
  split at h
  · cases h; exact hv
  · split at h
    · cases h
    · -- fold with the invariant, remembering membership through an attached list
      have : ∀ (l : List (Nat × Val)) (init r : Val), (∀ kv ∈ l, WT E kv.2) → WT E init →
          l.foldlM (fun acc kv => if used.contains kv.1 || kv.2 = MISSING then Except.ok acc else set acc kv.1 kv.2) init
            = .ok r → WT E r := by
        intro l
        induction l with
        | nil => intro init r _ hi h; simp [List.foldlM, pure, Except.pure] at h; cases h; exact hi
        | cons x xs ih =>
          intro init r hl hi h
          simp only [List.foldlM, bind, Except.bind] at h
          split at h
          · cases h
          · rename_i b hb
            apply ih b r (fun kv hkv => hl kv (by simp [hkv])) ?_ h
            split at hb
            · cases hb; exact hi
            · exact hs init x.1 x.2 b hi (hl x (by simp)) hb
      exact this kw v r hk hv h

theorem wt_mvAttrTransforms (hE : EnvOK E) (set : Val → Nat → Val → Except Err Val) (hs : SetOK E set) (kt : KwT)
    (v r : Val) (hk : ∀ af ∈ kt, TrOK E af.2) (hv : WT E v) (h : mvAttrTransforms E set kt v = .ok r) :
    WT E r := by
  unfold mvAttrTransforms at h
  have : ∀ (l : KwT) (init r : Val), (∀ af ∈ l, TrOK E af.2) → WT E init →
      l.foldlM (fun acc af =>
        let tv := af.2 (E.getAttr acc af.1)
        if tv = MISSING then Except.ok acc else set acc af.1 tv) init = .ok r → WT E r := by
    intro l
    induction l with
    | nil => intro init r _ hi h; simp [List.foldlM, pure, Except.pure] at h; cases h; exact hi
    | cons x xs ih =>
      intro init r hl hi h
      simp only [List.foldlM, bind, Except.bind] at h
      split at h
      · cases h
      · rename_i b hb
        apply ih b r (fun af haf => hl af (by simp [haf])) ?_ h
        split at hb
        · cases hb; exact hi
        · exact hs init x.1 _ b hi (hl x (by simp) _ (wt_getAttr E hE init x.1 hi)) hb
  exact this kt v r hk hv h

/-- `mutate_value` at fuel `n+1` from the callees at fuel `n` -/
theorem wt_mutateValue_succ (hE : EnvOK E) (n : Nat) (hc : CtorOK E (construct E n)) (hs : SetOK E (setAttrV E n false))
    (old : Val) (p : MV) (r : Val) (ho : WT E old) (hp : MVOK E p) (h : mutateValue E (n+1) old p = .ok r) :
    WT E r := by
  rw [mutateValue] at h
  split at h
  · cases h; exact ho
  · split at h
    · cases h
    · rename_i value used hcv
      have h1 := wt_mvConstruct E _ hc p _ hp (wt_mvValue E old p ho hp) value used hcv
      split at h
      · cases h
      · rename_i value' hav
        have h2 := wt_mvAttrs E _ hs used p.attrs value value' hp.attrs h1 hav
        refine wt_mvAttrTransforms E hE _ hs p.attrTransforms _ r hp.attrTransforms ?_ h
        exact wt_applyOpt E p.transform value' hp.transform h2


/-! ## container classes `check_type` does not look inside: the per-item pass checks every item -/

theorem Vals_all_snoc (p : Val → Bool) (x : Val) : ∀ (xs : Vals), (xs.snoc x).all p = (xs.all p && p x)
  | .nil => by simp [Vals.snoc, Vals.all]
  | .cons v vs => by simp [Vals.snoc, Vals.all, Vals_all_snoc p x vs, Bool.and_assoc]

theorem Vals_all_dedup (p : Val → Bool) : ∀ (ys acc : Vals), ys.all p = true → acc.all p = true →
    (dedupVals ys acc).all p = true
  | .nil, acc, _, h2 => h2
  | .cons x xs, acc, h1, h2 => by
    simp only [Vals.all, Bool.and_eq_true] at h1
    simp only [dedupVals]
    apply Vals_all_dedup p xs _ h1.2
    split
    · exact h2
    · rw [Vals_all_snoc]; simp [h2, h1.1]

/-- every item `_prepare_items` puts back has passed the checking inserter -/
theorem prepItems_conforms : ∀ (n : Nat) (inst : Val) (sp : AttrSpec) (xs acc r : Vals),
    acc.all (conforms E sp.ty.itemTy) = true → prepItems E n inst sp xs acc = .ok r →
    r.all (conforms E sp.ty.itemTy) = true
  | 0, inst, sp, xs, acc, r, _, h => by rw [prepItems] at h; cases h
  | n+1, inst, sp, .nil, acc, r, hacc, h => by
    rw [prepItems] at h
    · cases h; exact hacc
    · simp
  | n+1, inst, sp, .cons x xs, acc, r, hacc, h => by
    rw [prepItems] at h
    split at h
    · cases h
    · split at h
      · cases h
      · rename_i y _ hc
        refine prepItems_conforms n inst sp xs (acc.snoc y) r ?_ h
        rw [Vals_all_snoc]
        simp only [Bool.not_eq_true, Bool.not_eq_eq_eq_not, Bool.not_true, Bool.not_false] at hc
        simp [hacc]
        simpa using hc

theorem kvs_all_set' (p : Val → Val → Bool) (k v : Val) (hp : p k v = true) :
    ∀ (kvs : KVs), kvs.all p = true → (kvs.set k v).all p = true
  | .nil, _ => by simp [KVs.set, KVs.all, hp]
  | .cons k' v' r, h => by
    simp only [KVs.all, Bool.and_eq_true] at h
    simp only [KVs.set]
    split
    · rename_i heq; subst heq; simp [KVs.all, hp, h.2]
    · simp [KVs.all, h.1, kvs_all_set' p k v hp r h.2]

/-- every entry `add_items` of a mapping inserts has passed the checking inserter (value and key) -/
theorem addItemsDict_conforms : ∀ (n : Nat) (inst : Val) (sp : AttrSpec) (kt vt : Ty) (kvs acc : KVs) (r : Val),
    acc.all (fun k v => conforms E kt k && conforms E vt v) = true →
    addItemsDict E n inst sp kt vt kvs acc = .ok r →
    ∃ out, r = .dict out ∧ out.all (fun k v => conforms E kt k && conforms E vt v) = true
  | 0, inst, sp, kt, vt, kvs, acc, r, _, h => by rw [addItemsDict] at h; cases h
  | n+1, inst, sp, kt, vt, .nil, acc, r, hacc, h => by
    rw [addItemsDict] at h
    · cases h; exact ⟨acc, rfl, hacc⟩
    · simp
  | n+1, inst, sp, kt, vt, .cons k x rest, acc, r, hacc, h => by
    rw [addItemsDict] at h
    split at h
    · cases h
    · split at h
      · cases h
      · split at h
        · cases h
        · rename_i y _ hv hk
          refine addItemsDict_conforms n inst sp kt vt rest (acc.set k y) r ?_ h
          apply kvs_all_set' _ k y _ acc hacc
          have hv' : conforms E vt y = true := by simpa using hv
          have hk' : conforms E kt k = true := by simpa using hk
          simp [hv', hk']

theorem abstract_conforms_cases {ty : Ty} {v : Val} (habs : ty.isAbstract = true) (hc : conforms E ty v = true) :
    (∃ t xs, ty = .mseq t ∧ v = .list xs) ∨ (∃ t xs, ty = .mset t ∧ v = .set xs) ∨
      (∃ k w kvs, ty = .mmap k w ∧ v = .dict kvs) := by
  cases ty <;> simp [Ty.isAbstract] at habs <;> cases v <;> simp [conforms] at hc <;> simp

/-- **the per-item pass.** For an attribute annotated with a container class `check_type` does not look inside,
whatever `CollectionAttrMutator.prepare()` lets through has conforming items (keys and values). -/
theorem collPrepare_deep (n : Nat) (inst : Val) (sp : AttrSpec) (v r : Val) (habs : sp.ty.isAbstract = true)
    (h : collPrepare E n inst sp v = .ok r) : conformsDeep E sp.ty r = true := by
  cases n with
  | zero => rw [collPrepare] at h; cases h
  | succ n =>
    unfold collPrepare at h
    simp only [habs, if_true] at h
    split at h
    · cases h
    split at h
    · cases h
    rename_i hconf
    have hconf' : conforms E sp.ty v = true := by simpa using hconf
    split at h
    · -- the empty container
      rename_i hne
      cases h
      rcases abstract_conforms_cases E habs hconf' with ⟨t, xs, hty, rfl⟩ | ⟨t, xs, hty, rfl⟩ | ⟨k, w, kvs, hty, rfl⟩
      · rw [hty]; cases xs <;> simp [nonEmptyColl, Vals.isEmpty] at hne
        simp [conformsDeep, conforms, Vals.all]
      · rw [hty]; cases xs <;> simp [nonEmptyColl, Vals.isEmpty] at hne
        simp [conformsDeep, conforms, Vals.all]
      · rw [hty]; cases kvs <;> simp [nonEmptyColl, KVs.isEmpty] at hne
        simp [conformsDeep, conforms, KVs.all]
    · by_cases hip : sp.itemPrep.isSome = true
      · simp only [hip, if_true] at h; cases h
      simp only [hip, if_false, Bool.false_eq_true] at h
      rcases abstract_conforms_cases E habs hconf' with ⟨t, xs, hty, rfl⟩ | ⟨t, xs, hty, rfl⟩ | ⟨k, w, kvs, hty, rfl⟩
      · -- MutableSequence[t], a list
        rw [hty] at h ⊢
        simp only [] at h
        obtain ⟨ys, hys, rfl⟩ := map_ok h
        have hall := prepItems_conforms E n inst sp xs .nil ys rfl hys
        rw [hty] at hall
        simp only [Ty.itemTy] at hall
        simp [conformsDeep, conforms, hall]
      · -- MutableSet[t], a set
        rw [hty] at h ⊢
        simp only [] at h
        obtain ⟨ys, hys, rfl⟩ := map_ok h
        have hall := prepItems_conforms E n inst sp xs .nil ys rfl hys
        rw [hty] at hall
        simp only [Ty.itemTy] at hall
        simp [conformsDeep, conforms, Vals_all_dedup _ ys .nil hall rfl]
      · -- MutableMapping[k, v], a dict
        rw [hty] at h ⊢
        simp only [] at h
        obtain ⟨out, rfl, hout⟩ := addItemsDict_conforms E n inst sp k w kvs .nil r rfl h
        simp [conformsDeep, conforms, hout]

/-- what `prepare_attr_value` hands to `mutate_attr` is fine as soon as `check_type` accepts it -/
theorem prepareAttrValue_deepIf (n : Nat) (inst : Val) (sp : AttrSpec) (v : Val) (kw : Kw) (r : Val)
    (h : prepareAttrValue E n inst sp v kw = .ok r) : DeepIf E sp.ty r := by
  by_cases habs : sp.ty.isAbstract = true
  · intro hc
    cases n with
    | zero => rw [prepareAttrValue] at h; cases h
    | succ n =>
      rw [prepareAttrValue] at h
      split at h
      · cases h
        cases hty : sp.ty <;> rw [hty] at habs hc <;> simp [Ty.isAbstract] at habs <;> simp [conforms] at hc
      · split at h
        · cases h
        · have hcoll : sp.ty.isCollection = true := by
            cases hty : sp.ty <;> rw [hty] at habs <;> simp [Ty.isAbstract] at habs <;> rfl
          simp only [hcoll, if_true] at h
          exact collPrepare_deep E n inst sp _ r habs h
  · exact deepIf_of_not_abstract E r (by simpa using habs)

/-! ## the recursive knot keeps values well typed, for every fuel -/

structure Knot (n : Nat) : Prop where
  mv : ∀ old p r, WT E old → MVOK E p → mutateValue E n old p = .ok r → WT E r
  set : ∀ skip, SetOK E (setAttrV E n skip)
  prep : ∀ inst sp v kw r, WT E inst → WT E v → (∀ kv ∈ kw, WT E kv.2) →
    prepareAttrValue E n inst sp v kw = .ok r → WT E r
  coll : ∀ inst sp v r, WT E inst → WT E v → collPrepare E n inst sp v = .ok r → WT E r
  addSeq : ∀ inst sp items acc r, WT E inst → wtVals E items = true → wtVals E acc = true →
    addItemsSeq E n inst sp items acc = .ok r → wtVals E r = true
  prepSeq : ∀ inst sp items acc r, WT E inst → wtVals E items = true → wtVals E acc = true →
    prepItems E n inst sp items acc = .ok r → wtVals E r = true
  addDict : ∀ inst sp kt vt kvs acc r, WT E inst → wtKVs E kvs = true → wtKVs E acc = true →
    addItemsDict E n inst sp kt vt kvs acc = .ok r → WT E r
  ctor : CtorOK E (construct E n)

theorem mvok_prepare (hE : EnvOK E) (inst : Val) (hi : WT E inst) (prep : Option Nat) (v : Val) (kw : Kw)
    (ty : Ty) (replace : Bool) (hv : WT E v) (hk : ∀ kv ∈ kw, WT E kv.2) :
    MVOK E { new := v, replace := replace, prepare := prep.map (fun p => E.prep p inst), ty := some ty, attrs := kw } where
  new := hv
  prepare := by
    intro f hf
    cases prep with
    | none => cases hf
    | some p => simp at hf; subst hf; exact fun x hx => hE.prepWT p inst x hi hx
  attrs := hk
  transform := by intro f hf; cases hf
  attrTransforms := by intro af haf; cases haf

theorem mvok_plain (v : Val) (kw : Kw) (ty : Option Ty) (hv : WT E v) (hk : ∀ kv ∈ kw, WT E kv.2) :
    MVOK E { new := v, ty := ty, attrs := kw } where
  new := hv
  prepare := by intro f hf; cases hf
  attrs := hk
  transform := by intro f hf; cases hf
  attrTransforms := by intro af haf; cases haf

theorem mvok_transform (f : Option Tr) (kt : KwT) (ty : Option Ty) (hf : ∀ g, f = some g → TrOK E g)
    (hk : ∀ af ∈ kt, TrOK E af.2) : MVOK E { transform := f, ty := ty, attrTransforms := kt } where
  new := wt_missing E
  prepare := by intro g hg; cases hg
  attrs := by intro kv hkv; cases hkv
  transform := hf
  attrTransforms := hk

theorem mutateAttrV_wt (hE : EnvOK E) {obj : Val} {c a : Nat} {sp : AttrSpec} {pv r : Val} {skip : Bool}
    (hi : IsInst c obj) (ho : WT E obj)
    (hsp : E.attr? c a = some sp) (hpv : WT E pv) (hdeep : DeepIf E sp.ty pv)
    (h : mutateAttrV E skip obj sp pv = .ok r) : WT E r := by
  unfold mutateAttrV at h
  split at h
  · cases h; exact ho
  · split at h
    · cases h
    · rename_i hconf
      cases h
      have hname := attr?_name E hsp
      have hnew : WT E (obj.setField sp.name pv) := by
        apply wt_setField E sp.name pv hi ho
        right
        refine ⟨?_, hpv⟩
        intro sp' hsp'
        rw [hname, hsp] at hsp'
        cases hsp'
        exact hdeep (by simpa using hconf)
      split
      · exact hnew
      · exact wt_invalidate E hE _ _ hnew

theorem knot (hE : EnvOK E) : ∀ n, Knot E n
  | 0 => {
      mv := by intro old p r _ _ h; rw [mutateValue] at h; cases h
      set := by intro skip obj a v r _ _ h; rw [setAttrV] at h; cases h
      prep := by intro inst sp v kw r _ _ _ h; rw [prepareAttrValue] at h; cases h
      coll := by intro inst sp v r _ _ h; rw [collPrepare] at h; cases h
      addSeq := by intro inst sp items acc r _ _ _ h; rw [addItemsSeq] at h; cases h
      prepSeq := by intro inst sp items acc r _ _ _ h; rw [prepItems] at h; cases h
      addDict := by intro inst sp kt vt kvs acc r _ _ _ h; rw [addItemsDict] at h; cases h
      ctor := by intro c kw r _ h; rw [construct] at h; cases h }
  | n+1 =>
    have ih := knot hE n
    { mv := fun old p r ho hp h => wt_mutateValue_succ E hE n ih.ctor (ih.set false) old p r ho hp h
      set := by
        intro skip obj a v r ho hv h
        cases obj with
        | inst c fs =>
          rw [setAttrV] at h
          cases hsp : E.attr? c a with
          | none =>
            rw [hsp] at h; simp only [] at h; cases h
            split
            · exact ho
            · apply wtFlds_set E c a v _ fs ho
              right
              refine ⟨?_, hv⟩
              intro sp h'
              rw [hsp] at h'; cases h'
          | some sp =>
            rw [hsp] at h; simp only [] at h
            cases hp : prepareAttrValue E n (.inst c fs) sp v [] with
            | error e => rw [hp] at h; cases h
            | ok pv =>
              rw [hp] at h; simp only [] at h
              have hpv := ih.prep _ sp v [] pv ho hv (by intro kv hkv; cases hkv) hp
              exact mutateAttrV_wt E hE ⟨fs, rfl⟩ ho hsp hpv (prepareAttrValue_deepIf E n _ sp v [] pv hp) h
        | sc s => rw [setAttrV] at h <;> first | cases h | (intros; simp_all)
        | list xs => rw [setAttrV] at h <;> first | cases h | (intros; simp_all)
        | set xs => rw [setAttrV] at h <;> first | cases h | (intros; simp_all)
        | dict kvs => rw [setAttrV] at h <;> first | cases h | (intros; simp_all)
      prep := by
        intro inst sp v kw r hi hv hk h
        rw [prepareAttrValue] at h
        split at h
        · cases h; rfl
        cases hm : mutateValue E n MISSING
            { new := v, prepare := sp.prep.map (fun p => E.prep p inst), ty := some sp.ty, attrs := kw } with
        | error e => rw [hm] at h; cases h
        | ok v' =>
          rw [hm] at h; simp only [] at h
          have hv' := ih.mv MISSING _ v' (wt_missing E) (mvok_prepare E hE inst hi sp.prep v kw sp.ty false hv hk) hm
          split at h
          · exact ih.coll inst sp v' r hi hv' h
          · cases h; exact hv'
      coll := by
        intro inst sp v r hi hv h
        unfold collPrepare at h
        by_cases habs : sp.ty.isAbstract = true
        · simp only [habs, if_true] at h
          split at h
          · cases h
          split at h
          · cases h
          rename_i hconf
          have hconf' : conforms E sp.ty v = true := by simpa using hconf
          split at h
          · cases h; exact hv
          · by_cases hip : sp.itemPrep.isSome = true
            · simp only [hip, if_true] at h; cases h
            simp only [hip, if_false, Bool.false_eq_true] at h
            rcases abstract_conforms_cases E habs hconf' with
              ⟨t, xs, hty, rfl⟩ | ⟨t, xs, hty, rfl⟩ | ⟨k, w, kvs, hty, rfl⟩
            · rw [hty] at h
              simp only [] at h
              obtain ⟨ys, hys, rfl⟩ := map_ok h
              exact ih.prepSeq inst sp xs .nil ys hi hv rfl hys
            · rw [hty] at h
              simp only [] at h
              obtain ⟨ys, hys, rfl⟩ := map_ok h
              exact wtVals_dedup E ys .nil (ih.prepSeq inst sp xs .nil ys hi hv rfl hys) rfl
            · rw [hty] at h
              simp only [] at h
              exact ih.addDict inst sp k w kvs .nil r hi hv rfl h
        have habs' : sp.ty.isAbstract = false := by simpa using habs
        simp only [habs', Bool.false_eq_true, if_false] at h
        have hv0wt : WT E (normNone sp.ty v) := by
          unfold normNone
          split
          · cases sp.ty <;> rfl
          · exact hv
        generalize normNone sp.ty v = v0 at h hv0wt
        split at h
        · -- rebuild
          have hseq : ∀ (f : Vals → Val), (∀ ys, wtVals E ys = true → WT E (f ys)) →
              (match iterate v0 with
                | none => Except.error Err.typeError
                | some items => (addItemsSeq E n inst sp items .nil).map f) = .ok r → WT E r := by
            intro f hf h'
            cases hit : iterate v0 with
            | none => rw [hit] at h'; cases h'
            | some items =>
              rw [hit] at h'; simp only [] at h'
              obtain ⟨ys, hys, hr⟩ := map_ok h'
              rw [← hr]
              exact hf ys (ih.addSeq inst sp items .nil ys hi (wt_iterate E v0 items hv0wt hit) rfl hys)
          cases hty : sp.ty with
          | dict kt vt =>
            rw [hty] at h; simp only [] at h
            cases v0 with
            | dict kvs => exact ih.addDict inst sp kt vt kvs .nil r hi hv0wt rfl h
            | sc s => cases h
            | list xs => cases h
            | set xs => cases h
            | inst c fs => cases h
          | set t =>
            rw [hty] at h
            exact hseq (fun ys => Val.set (dedupVals ys .nil)) (fun ys hys => wtVals_dedup E ys .nil hys rfl) h
          | list t => rw [hty] at h; exact hseq Val.list (fun ys hys => hys) h
          | any => rw [hty] at h; exact hseq Val.list (fun ys hys => hys) h
          | int => rw [hty] at h; exact hseq Val.list (fun ys hys => hys) h
          | str => rw [hty] at h; exact hseq Val.list (fun ys hys => hys) h
          | bool => rw [hty] at h; exact hseq Val.list (fun ys hys => hys) h
          | float => rw [hty] at h; exact hseq Val.list (fun ys hys => hys) h
          | none => rw [hty] at h; exact hseq Val.list (fun ys hys => hys) h
          | lit cs => rw [hty] at h; exact hseq Val.list (fun ys hys => hys) h
          | union a b => rw [hty] at h; exact hseq Val.list (fun ys hys => hys) h
          | spec c => rw [hty] at h; exact hseq Val.list (fun ys hys => hys) h
          | valid b p => rw [hty] at h; exact hseq Val.list (fun ys hys => hys) h
          | mseq t => rw [hty] at habs'; simp [Ty.isAbstract] at habs'
          | mset t => rw [hty] at habs'; simp [Ty.isAbstract] at habs'
          | mmap k w => rw [hty] at habs'; simp [Ty.isAbstract] at habs'
        · cases h; exact hv0wt
      addSeq := by
        intro inst sp items acc r hi hitems hacc h
        cases items with
        | nil =>
          rw [addItemsSeq] at h
          · cases h; exact hacc
          · simp
        | cons x xs =>
          rw [addItemsSeq] at h
          simp only [wtVals, Bool.and_eq_true] at hitems
          cases hm : mutateValue E n MISSING
              { new := x, replace := true, prepare := sp.itemPrep.map (fun p => E.prep p inst),
                ty := some sp.ty.itemTy } with
          | error e => rw [hm] at h; cases h
          | ok y =>
            rw [hm] at h; simp only [] at h
            have hy := ih.mv MISSING _ y (wt_missing E)
              (mvok_prepare E hE inst hi sp.itemPrep x [] sp.ty.itemTy true hitems.1 (by intro kv hkv; cases hkv)) hm
            split at h
            · cases h
            · exact ih.addSeq inst sp xs (acc.snoc y) r hi hitems.2 (by rw [wtVals_snoc]; simp [hacc, hy]) h
      prepSeq := by
        intro inst sp items acc r hi hitems hacc h
        cases items with
        | nil =>
          rw [prepItems] at h
          · cases h; exact hacc
          · simp
        | cons x xs =>
          rw [prepItems] at h
          simp only [wtVals, Bool.and_eq_true] at hitems
          cases hm : mutateValue E n x { ty := some sp.ty.itemTy, transform := some (fun v => v) } with
          | error e => rw [hm] at h; cases h
          | ok y =>
            rw [hm] at h; simp only [] at h
            have hy := ih.mv x _ y hitems.1
              (mvok_transform E (some (fun v => v)) [] (some sp.ty.itemTy)
                (by intro g hg; cases hg; exact fun v hv => hv) (by intro af haf; cases haf)) hm
            split at h
            · cases h
            · exact ih.prepSeq inst sp xs (acc.snoc y) r hi hitems.2 (by rw [wtVals_snoc]; simp [hacc, hy]) h
      addDict := by
        intro inst sp kt vt kvs acc r hi hkvs hacc h
        cases kvs with
        | nil =>
          rw [addItemsDict] at h
          · cases h; exact hacc
          · simp
        | cons k x rest =>
          rw [addItemsDict] at h
          simp only [wtKVs, Bool.and_eq_true] at hkvs
          cases hm : mutateValue E n ((acc.get? k).getD MISSING)
              { new := x, replace := true, prepare := sp.itemPrep.map (fun p => E.prep p inst), ty := some vt } with
          | error e => rw [hm] at h; cases h
          | ok y =>
            rw [hm] at h; simp only [] at h
            have hy := ih.mv _ _ y (wt_kvs_get E k acc hacc)
              (mvok_prepare E hE inst hi sp.itemPrep x [] vt true hkvs.1.2 (by intro kv hkv; cases hkv)) hm
            split at h
            · cases h
            · split at h
              · cases h
              · exact ih.addDict inst sp kt vt rest (acc.set k y) r hi hkvs.2
                  (wt_kvs_set E k y hkvs.1.1 hy acc hacc) h
      ctor := by
        intro c kw r hk h
        rw [construct] at h
        cases hcs : E.cls? c with
        | none => rw [hcs] at h; cases h
        | some cs =>
          rw [hcs] at h; simp only [] at h
          split at h
          · cases h
          · split at h
            · cases h
            · refine foldlM_inv (fun v => WT E v ∧ IsInst c v) _ _ _ r ⟨wt_allMissing E c cs.attrs, _, rfl⟩ ?_ h |>.1
              intro acc a r' hacc hstep
              cases hattr : cs.attr? a with
              | none => rw [hattr] at hstep; cases hstep; exact hacc
              | some sp =>
                rw [hattr] at hstep; simp only [] at hstep
                split at hstep
                · cases hstep; exact hacc
                · have hE' : E.attr? c a = some sp := by rw [attr?_of_cls E hcs]; exact hattr
                  have hiv : WT E (initValue sp kw) := by
                    unfold initValue
                    cases hg : kw.get? sp.name with
                    | none => exact hE.defaultWT c a sp hE'
                    | some v =>
                      simp only []
                      split
                      · exact hE.defaultWT c a sp hE'
                      · unfold Kw.get? at hg
                        cases hf : kw.find? (fun x => x.1 == sp.name) with
                        | none => rw [hf] at hg; cases hg
                        | some kv =>
                          rw [hf] at hg; simp at hg; subst hg
                          exact hk kv (List.mem_of_find?_eq_some hf)
                  exact ⟨ih.set true acc a _ r' hacc.1 hiv hstep, setAttrV_isInst E hacc.2 hstep⟩ }


/-! ## the helpers keep the receiver and the result well typed -/

/-- both the receiver afterwards and the returned object are well typed -/
def OutWT (o : Outcome) : Prop := WT E o.recv ∧ WT E o.result

def OutOK (r : Except Err Outcome) : Prop :=
  match r with
  | .error _ => True
  | .ok o => OutWT E o

theorem outWT_lift (recv : Val) (r : Except Err Outcome) (h : WT E recv) (hr : OutOK E r) : OutWT E (lift recv r) := by
  cases r with
  | error e => exact ⟨h, h⟩
  | ok o => exact hr

theorem outWT_noop (recv : Val) (h : WT E recv) : OutWT E ⟨recv, .receiver⟩ := ⟨h, h⟩
theorem outWT_raised (recv : Val) (e : Err) (h : WT E recv) : OutWT E ⟨recv, .raised e⟩ := ⟨h, h⟩
theorem outWT_outcomeOf (recv v : Val) (i : Bool) (h : WT E recv) (hv : WT E v) : OutWT E (outcomeOf recv v i) := by
  cases i
  · exact ⟨h, hv⟩
  · exact ⟨hv, hv⟩

theorem specOf_inst {recv : Val} {a : Nat} {sp : AttrSpec} (h : specOf E recv a = some sp) :
    ∃ c fs, recv = .inst c fs ∧ E.attr? c a = some sp := by
  unfold specOf classOf at h
  cases recv with
  | inst c fs => exact ⟨c, fs, rfl, by simpa [Option.bind] using h⟩
  | sc s => simp [Option.bind] at h
  | list xs => simp [Option.bind] at h
  | set xs => simp [Option.bind] at h
  | dict kvs => simp [Option.bind] at h

theorem outOK_mutateAttr (hE : EnvOK E) (recv : Val) (a : Nat) (sp : AttrSpec) (pv : Val) (i : Bool)
    (hsp : specOf E recv a = some sp) (h : WT E recv) (hpv : WT E pv) (hdeep : DeepIf E sp.ty pv) :
    OutOK E (mutateAttr E recv sp pv i) := by
  obtain ⟨c, fs, rfl, hattr⟩ := specOf_inst E hsp
  unfold mutateAttr
  split
  · exact outWT_noop E _ h
  · split
    · trivial
    · rename_i hconf
      have hname := attr?_name E hattr
      have hnew0 : WT E ((Val.inst c fs).setField sp.name pv) := by
        apply wt_setField E sp.name pv ⟨fs, rfl⟩ h
        right
        refine ⟨?_, hpv⟩
        intro sp' hsp'
        rw [hname, hattr] at hsp'
        cases hsp'
        exact hdeep (by simpa using hconf)
      have hnew := wt_invalidate E hE _ sp.name hnew0
      split
      · exact ⟨hnew, hnew⟩
      · exact ⟨h, hnew⟩

theorem outOK_withAttr (hE : EnvOK E) (n : Nat) (recv : Val) (a : Nat) (sp : AttrSpec) (v : Val) (kw : Kw)
    (i cnd : Bool) (hsp : specOf E recv a = some sp) (h : WT E recv) (hv : WT E v) (hk : ∀ kv ∈ kw, WT E kv.2) :
    OutOK E (withAttr E n recv sp v kw i cnd) := by
  unfold withAttr
  split
  · trivial
  · split
    · exact outWT_noop E _ h
    · cases hp : prepareAttrValue E n recv sp v kw with
      | error e => trivial
      | ok pv =>
        exact outOK_mutateAttr E hE recv a sp pv i hsp h ((knot E hE n).prep recv sp v kw pv h hv hk hp)
          (prepareAttrValue_deepIf E n recv sp v kw pv hp)

theorem outOK_updateAttr (hE : EnvOK E) (n : Nat) (recv : Val) (a : Nat) (sp : AttrSpec) (v : Val) (kw : Kw)
    (i cnd : Bool) (hsp : specOf E recv a = some sp) (h : WT E recv) (hv : WT E v) (hk : ∀ kv ∈ kw, WT E kv.2) :
    OutOK E (updateAttr E n recv sp v kw i cnd) := by
  unfold updateAttr
  split
  · trivial
  · split
    · exact outWT_noop E _ h
    · cases hm : mutateValue E n (E.getAttr recv sp.name) { new := v, ty := some sp.ty, attrs := kw } with
      | error e => trivial
      | ok u =>
        have hu := (knot E hE n).mv _ _ u (wt_getAttr E hE recv sp.name h)
          (mvok_plain E v kw _ hv hk) hm
        exact outOK_withAttr E hE n recv a sp u [] i true hsp h hu (by intro kv hkv; cases hkv)

theorem outOK_transformAttr (hE : EnvOK E) (n : Nat) (recv : Val) (a : Nat) (sp : AttrSpec) (f : Option Tr)
    (kt : KwT) (i cnd : Bool) (hsp : specOf E recv a = some sp) (h : WT E recv)
    (hf : ∀ g, f = some g → TrOK E g) (hk : ∀ af ∈ kt, TrOK E af.2) :
    OutOK E (transformAttr E n recv sp f kt i cnd) := by
  unfold transformAttr
  split
  · trivial
  · split
    · exact outWT_noop E _ h
    · cases hm : mutateValue E n (E.getAttr recv sp.name) { transform := f, ty := some sp.ty, attrTransforms := kt } with
      | error e => trivial
      | ok u =>
        have hu := (knot E hE n).mv _ _ u (wt_getAttr E hE recv sp.name h)
          (mvok_transform E f kt _ hf hk) hm
        exact outOK_withAttr E hE n recv a sp u [] i true hsp h hu (by intro kv hkv; cases hkv)

theorem wt_delAttrV (hE : EnvOK E) (n : Nat) (recv : Val) (a : Nat) (sp : AttrSpec) (r : Val)
    (hsp : specOf E recv a = some sp) (h : WT E recv) (hd : delAttrV E n recv sp = .ok r) : WT E r := by
  obtain ⟨c, fs, rfl, hattr⟩ := specOf_inst E hsp
  unfold delAttrV at hd
  split at hd
  · split at hd
    · cases hd
    · cases hd
      exact wt_invalidate E hE _ _ (wt_setField E sp.name MISSING ⟨fs, rfl⟩ h (Or.inl rfl))
  · cases hp : prepareAttrValue E n (.inst c fs) sp sp.defaultVal [] with
    | error e => rw [hp] at hd; cases hd
    | ok pv =>
      rw [hp] at hd; simp only [] at hd
      have hpv := (knot E hE n).prep _ sp _ [] pv h (hE.defaultWT c a sp hattr) (by intro kv hkv; cases hkv) hp
      exact mutateAttrV_wt E hE ⟨fs, rfl⟩ h hattr hpv (prepareAttrValue_deepIf E n _ sp _ [] pv hp) hd

theorem outOK_resetAttr (hE : EnvOK E) (n : Nat) (recv : Val) (a : Nat) (sp : AttrSpec) (i cnd : Bool)
    (hsp : specOf E recv a = some sp) (h : WT E recv) : OutOK E (resetAttr E n recv sp i cnd) := by
  unfold resetAttr
  split
  · exact outWT_noop E _ h
  · cases hd : delAttrV E n recv sp with
    | error e => trivial
    | ok v => exact outWT_outcomeOf E recv v i h (wt_delAttrV E hE n recv a sp v hsp h hd)

theorem outOK_updateTop (hE : EnvOK E) (n : Nat) (recv v : Val) (kw : Kw) (i cnd : Bool) (h : WT E recv)
    (hv : WT E v) (hk : ∀ kv ∈ kw, WT E kv.2) : OutOK E (updateTop E n recv v kw i cnd) := by
  unfold updateTop
  split
  · trivial
  · split
    · exact outWT_noop E _ h
    · cases hm : mutateValue E n recv { new := v, attrs := kw } with
      | error e => trivial
      | ok u =>
        have hu := (knot E hE n).mv _ _ u h
          (mvok_plain E v kw _ hv hk) hm
        simp only []
        split
        · exact outWT_noop E _ h
        · split
          · exact outWT_outcomeOf E recv u i h hu
          · exact ⟨h, hu⟩

theorem outOK_transformTop (hE : EnvOK E) (n : Nat) (recv : Val) (f : Option Tr) (kt : KwT) (i cnd : Bool)
    (h : WT E recv) (hf : ∀ g, f = some g → TrOK E g) (hk : ∀ af ∈ kt, TrOK E af.2) :
    OutOK E (transformTop E n recv f kt i cnd) := by
  unfold transformTop
  split
  · trivial
  · split
    · exact outWT_noop E _ h
    · cases hm : mutateValue E n recv { transform := f, attrTransforms := kt } with
      | error e => trivial
      | ok u =>
        have hu := (knot E hE n).mv _ _ u h
          (mvok_transform E f kt _ hf hk) hm
        simp only []
        split
        · exact ⟨h, hu⟩
        · split
          · exact outWT_noop E _ h
          · exact outWT_outcomeOf E recv u i h hu

theorem wt_resetAllV (hE : EnvOK E) (n c : Nat) (cs : ClassSpec) (hcs : E.cls? c = some cs) :
    ∀ (attrs : List AttrSpec) (obj : Val), (∀ sp ∈ attrs, cs.attr? sp.name = some sp) → IsInst c obj → WT E obj →
      WT E (resetAllV E n obj attrs).1 ∧ IsInst c (resetAllV E n obj attrs).1 := by
  intro attrs
  induction attrs with
  | nil => intro obj _ hi h; exact ⟨h, hi⟩
  | cons sp rest ih =>
    intro obj hall hi h
    unfold resetAllV
    have hsp : specOf E obj sp.name = some sp := by
      obtain ⟨fs, rfl⟩ := hi
      simp [specOf, classOf, Option.bind, attr?_of_cls E hcs, hall sp (by simp)]
    cases hd : delAttrV E n obj sp with
    | ok v =>
      simp only []
      have hv := wt_delAttrV E hE n obj sp.name sp v hsp h hd
      have hvi : IsInst c v := by
        obtain ⟨fs, rfl⟩ := hi
        unfold delAttrV at hd
        split at hd
        · split at hd
          · cases hd
          · cases hd; exact isInst_invalidate E _ ⟨_, rfl⟩
        · split at hd
          · cases hd
          · exact mutateAttrV_isInst E ⟨fs, rfl⟩ hd
      exact ih v (fun sp' hsp' => hall sp' (by simp [hsp'])) hvi hv
    | error e =>
      cases e <;> simp only [] <;>
        first
        | exact ih obj (fun sp' hsp' => hall sp' (by simp [hsp'])) hi h
        | exact ⟨h, hi⟩


/-! ## element helpers -/

theorem all_iff {α : Type} (p : α → Bool) (l : List α) : l.all p = true ↔ ∀ x ∈ l, p x = true := by
  simp [List.all_eq_true]

theorem conforms_list_ofList (t : Ty) (ys : List Val) :
    conforms E (.list t) (.list (Vals.ofList ys)) = ys.all (conforms E t) := by
  simp [conforms, Vals_all_toList, toList_ofList]

theorem conforms_set_ofList (t : Ty) (ys : List Val) :
    conforms E (.set t) (.set (Vals.ofList ys)) = ys.all (conforms E t) := by
  simp [conforms, Vals_all_toList, toList_ofList]

theorem wt_list_ofList (ys : List Val) : wt E (.list (Vals.ofList ys)) = ys.all (wt E) := by
  simp [wt, wtVals_ofList]

theorem wt_set_ofList (ys : List Val) : wt E (.set (Vals.ofList ys)) = ys.all (wt E) := by
  simp [wt, wtVals_ofList]

theorem mvok_item (hE : EnvOK E) (inst : Val) (hi : WT E inst) (sp : AttrSpec) (ty : Ty) (new : Val)
    (f : Option Tr) (replace : Bool) (hn : WT E new) (hf : ∀ g, f = some g → TrOK E g) :
    MVOK E { new := new, replace := replace, prepare := sp.itemPrep.map (fun p => E.prep p inst),
             ty := some ty, transform := f } where
  new := hn
  prepare := by
    intro g hg
    cases hp : sp.itemPrep with
    | none => rw [hp] at hg; cases hg
    | some p => rw [hp] at hg; simp at hg; subst hg; exact fun x hx => hE.prepWT p inst x hi hx
  attrs := by intro kv hkv; cases hkv
  transform := hf
  attrTransforms := by intro af haf; cases haf

theorem wt_itemMutate (hE : EnvOK E) (n : Nat) (inst : Val) (sp : AttrSpec) (ty : Ty) (old new : Val)
    (f : Option Tr) (replace : Bool) (r : Val) (hi : WT E inst) (ho : WT E old) (hn : WT E new)
    (hf : ∀ g, f = some g → TrOK E g) (h : itemMutate E n inst sp ty old new f replace = .ok r) : WT E r :=
  (knot E hE n).mv old _ r ho (mvok_item E hE inst hi sp ty new f replace hn hf) h

/-- a predicate that holds of every element and of the new item holds of every element afterwards -/
theorem seqInsert_all (p : Val → Bool) (t : Ty) (xs ys : List Val) (idx : Option Int) (item : Val) (ins : Bool)
    (hxs : ∀ x ∈ xs, p x = true) (hit : p item = true) (h : seqInsert E t xs idx item ins = .ok ys) :
    ∀ y ∈ ys, p y = true := by
  unfold seqInsert at h
  split at h
  · cases h
  · cases idx with
    | none =>
      simp only [] at h; cases h
      intro y hy
      rcases List.mem_append.1 hy with h' | h'
      · exact hxs y h'
      · simp at h'; subst h'; exact hit
    | some i =>
      simp only [] at h
      split at h
      · cases h
        intro y hy
        unfold pyInsert at hy
        rcases List.mem_append.1 hy with h' | h'
        · exact hxs y (List.mem_of_mem_take h')
        · rcases List.mem_cons.1 h' with h'' | h''
          · subst h''; exact hit
          · exact hxs y (List.mem_of_mem_drop h'')
      · split at h
        · cases h
          intro y hy
          rcases List.mem_or_eq_of_mem_set hy with h' | h'
          · exact hxs y h'
          · subst h'; exact hit
        · cases h

theorem seqInsert_conforms (t : Ty) (xs ys : List Val) (idx : Option Int) (item : Val) (ins : Bool)
    (h : seqInsert E t xs idx item ins = .ok ys) : conforms E t item = true := by
  unfold seqInsert at h
  split at h
  · cases h
  · rename_i hc; simpa using hc

theorem listGet?_mem : ∀ (xs : List Val) (k : Nat) (x : Val), listGet? xs k = some x → x ∈ xs
  | [], _, _, h => by cases h
  | y :: ys, 0, x, h => by simp [listGet?] at h; subst h; simp
  | y :: ys, k+1, x, h => by simp [listGet?] at h; exact List.mem_cons_of_mem _ (listGet?_mem ys k x h)

theorem seqExtract_wt (t : Ty) (xs : List Val) (voi : Val) (raise : Bool) (by_ : ByIndex) (idx : Option Int)
    (old : Val) (hxs : ∀ x ∈ xs, wt E x = true) (hv : WT E voi)
    (h : seqExtract E t xs voi raise by_ = .ok (idx, old)) : WT E old := by
  unfold seqExtract at h
  by_cases hm : voi = MISSING
  · simp only [hm, if_true] at h; cases h; rfl
  · simp only [hm, if_false] at h
    by_cases hb : byIndexOf E t voi by_ = true
    · simp only [hb, if_true] at h
      cases ha : asIndex voi with
      | none => rw [ha] at h; cases h
      | some i =>
        rw [ha] at h; simp only [] at h
        cases hp : pyIdx xs.length i with
        | some k =>
          rw [hp] at h; simp only [] at h; cases h
          cases hg : listGet? xs k with
          | none => rfl
          | some x => exact hxs x (listGet?_mem xs k x hg)
        | none =>
          rw [hp] at h; simp only [] at h
          cases raise <;> simp at h
          obtain ⟨_, rfl⟩ := h; rfl
    · simp only [hb, Bool.false_eq_true, if_false] at h
      cases hf : xs.findIdx? (fun x => x == voi) with
      | some k => rw [hf] at h; simp only [] at h; cases h; exact hv
      | none =>
        rw [hf] at h; simp only [] at h
        cases raise <;> simp at h
        obtain ⟨_, rfl⟩ := h; exact hv

/-- the value of a sequence attribute (`List[t]` or the abstract `MutableSequence[t]`) that conforms deeply -/
theorem deep_list {ty t : Ty} {v : Val} (hty : ty = .list t ∨ ty = .mseq t) (hd : conformsDeep E ty v = true) :
    ∃ ys, v = .list ys ∧ ys.all (conforms E t) = true := by
  rcases hty with rfl | rfl <;> cases v <;> simp [conformsDeep, conforms] at hd ⊢ <;> exact hd

theorem deep_set {ty t : Ty} {v : Val} (hty : ty = .set t ∨ ty = .mset t) (hd : conformsDeep E ty v = true) :
    ∃ ys, v = .set ys ∧ ys.all (conforms E t) = true := by
  rcases hty with rfl | rfl <;> cases v <;> simp [conformsDeep, conforms] at hd ⊢ <;> exact hd

theorem deep_dict {ty kt vt : Ty} {v : Val} (hty : ty = .dict kt vt ∨ ty = .mmap kt vt)
    (hd : conformsDeep E ty v = true) :
    ∃ kvs, v = .dict kvs ∧ kvs.all (fun k' v' => conforms E kt k' && conforms E vt v') = true := by
  rcases hty with rfl | rfl <;> cases v <;> simp [conformsDeep, conforms] at hd ⊢ <;> exact hd

theorem curList_ok (hE : EnvOK E) (c : Nat) (fs : Flds) (a : Nat) (sp : AttrSpec) (t : Ty) (xs : List Val)
    (h : WT E (.inst c fs)) (hsp : E.attr? c a = some sp) (hty : sp.ty = .list t ∨ sp.ty = .mseq t)
    (hc : curList E (.inst c fs) sp = .ok xs) :
    (∀ x ∈ xs, conforms E t x = true) ∧ (∀ x ∈ xs, wt E x = true) := by
  have hname := attr?_name E hsp
  unfold curList at hc
  rw [hname] at hc
  have hwt := wt_getAttr E hE (.inst c fs) a h
  rcases getAttr_conforms E hE c fs a sp h hsp with hm | hconf
  · rw [hm] at hc; simp at hc; subst hc; exact ⟨by simp, by simp⟩
  · obtain ⟨ys, hg, hall⟩ := deep_list E hty hconf
    rw [hg] at hc hwt; simp only [] at hc; cases hc
    simp only [Vals_all_toList] at hall
    simp only [WT, wt, wtVals_toList] at hwt
    exact ⟨(all_iff _ _).1 hall, (all_iff _ _).1 hwt⟩

theorem curSet_ok (hE : EnvOK E) (c : Nat) (fs : Flds) (a : Nat) (sp : AttrSpec) (t : Ty) (xs : List Val)
    (h : WT E (.inst c fs)) (hsp : E.attr? c a = some sp) (hty : sp.ty = .set t ∨ sp.ty = .mset t)
    (hc : curSet E (.inst c fs) sp = .ok xs) :
    (∀ x ∈ xs, conforms E t x = true) ∧ (∀ x ∈ xs, wt E x = true) := by
  have hname := attr?_name E hsp
  unfold curSet at hc
  rw [hname] at hc
  have hwt := wt_getAttr E hE (.inst c fs) a h
  rcases getAttr_conforms E hE c fs a sp h hsp with hm | hconf
  · rw [hm] at hc; simp at hc; subst hc; exact ⟨by simp, by simp⟩
  · obtain ⟨ys, hg, hall⟩ := deep_set E hty hconf
    rw [hg] at hc hwt; simp only [] at hc; cases hc
    simp only [Vals_all_toList] at hall
    simp only [WT, wt, wtVals_toList] at hwt
    exact ⟨(all_iff _ _).1 hall, (all_iff _ _).1 hwt⟩

theorem curDict_ok (hE : EnvOK E) (c : Nat) (fs : Flds) (a : Nat) (sp : AttrSpec) (kt vt : Ty) (kvs : KVs)
    (h : WT E (.inst c fs)) (hsp : E.attr? c a = some sp) (hty : sp.ty = .dict kt vt ∨ sp.ty = .mmap kt vt)
    (hc : curDict E (.inst c fs) sp = .ok kvs) :
    kvs.all (fun k' v' => conforms E kt k' && conforms E vt v') = true ∧ wtKVs E kvs = true := by
  have hname := attr?_name E hsp
  unfold curDict at hc
  rw [hname] at hc
  have hwt := wt_getAttr E hE (.inst c fs) a h
  rcases getAttr_conforms E hE c fs a sp h hsp with hm | hconf
  · rw [hm] at hc; simp at hc; subst hc; exact ⟨rfl, rfl⟩
  · obtain ⟨ys, hg, hall⟩ := deep_dict E hty hconf
    rw [hg] at hc hwt; simp only [] at hc; cases hc
    exact ⟨hall, hwt⟩

theorem kvs_all_set (p : Val → Val → Bool) (k v : Val) (hp : p k v = true) :
    ∀ (kvs : KVs), kvs.all p = true → (kvs.set k v).all p = true
  | .nil, _ => by simp [KVs.set, KVs.all, hp]
  | .cons k' v' r, h => by
    simp only [KVs.all, Bool.and_eq_true] at h
    simp only [KVs.set]
    split
    · rename_i heq; subst heq; simp [KVs.all, hp, h.2]
    · simp [KVs.all, h.1, kvs_all_set p k v hp r h.2]

theorem kvs_all_erase (p : Val → Val → Bool) (k : Val) :
    ∀ (kvs : KVs), kvs.all p = true → (KVs.erase k kvs).all p = true
  | .nil, _ => rfl
  | .cons k' v' r, h => by
    simp only [KVs.all, Bool.and_eq_true] at h
    simp only [KVs.erase]
    split
    · exact h.2
    · simp [KVs.all, h.1, kvs_all_erase p k r h.2]

theorem wtKVs_erase (k : Val) : ∀ (kvs : KVs), wtKVs E kvs = true → wtKVs E (KVs.erase k kvs) = true
  | .nil, _ => rfl
  | .cons k' v' r, h => by
    simp only [wtKVs, Bool.and_eq_true] at h
    simp only [KVs.erase]
    split
    · exact h.2
    · simp [wtKVs, h.1.1, h.1.2, wtKVs_erase k r h.2]

theorem wt_kvs_get_some (k old : Val) : ∀ (kvs : KVs), wtKVs E kvs = true → kvs.get? k = some old → WT E old
  | .nil, _, h => by cases h
  | .cons k' v' r, hw, h => by
    simp only [wtKVs, Bool.and_eq_true] at hw
    simp only [KVs.get?] at h
    split at h
    · cases h; exact hw.1.2
    · exact wt_kvs_get_some k old r hw.2 h

/-- what the element routes need from their arguments -/
def EOpOK : EOp → Prop
  | .seqWith item index _ => WT E item ∧ WT E index
  | .seqUpdate voi new _ => WT E voi ∧ WT E new
  | .seqTransform voi f _ => WT E voi ∧ TrOK E f
  | .seqWithout voi _ => WT E voi
  | .mapWith k v => WT E k ∧ WT E v
  | .mapUpdate k new => WT E k ∧ WT E new
  | .mapTransform k f => WT E k ∧ TrOK E f
  | .mapWithout k => WT E k
  | .setWith item => WT E item
  | .setUpdate item new => WT E item ∧ WT E new
  | .setTransform item f => WT E item ∧ TrOK E f
  | .setWithout item => WT E item

theorem bind_ok {α β : Type} {e : Except Err α} {f : α → Except Err β} {y : β} (h : (e >>= f) = .ok y) :
    ∃ x, e = .ok x ∧ f x = .ok y := by
  cases e with
  | error e' => cases h
  | ok x => exact ⟨x, rfl, h⟩

theorem seqColl_ok (hE : EnvOK E) (n : Nat) (recv : Val) (sp : AttrSpec) (t : Ty) (xs ys : List Val) (op : EOp)
    (hr : WT E recv) (hop : EOpOK E op) (hc : ∀ x ∈ xs, conforms E t x = true) (hw : ∀ x ∈ xs, wt E x = true)
    (h : seqColl E n recv sp t xs op = .ok ys) :
    (∀ y ∈ ys, conforms E t y = true) ∧ (∀ y ∈ ys, wt E y = true) := by
  cases op with
  | seqWith item index insert =>
    simp only [seqColl] at h
    obtain ⟨⟨idx, old⟩, he, h⟩ := bind_ok h
    obtain ⟨new, hm, h⟩ := bind_ok h
    have hnew := wt_itemMutate E hE n recv sp t old item none true new hr
      (seqExtract_wt E t xs index _ .yes idx old hw hop.2 he) hop.1 (by intro g hg; cases hg) hm
    exact ⟨seqInsert_all E _ t xs ys idx new insert hc (seqInsert_conforms E t xs ys idx new insert h) h,
           seqInsert_all E _ t xs ys idx new insert hw hnew h⟩
  | seqUpdate voi new by_ =>
    simp only [seqColl] at h
    obtain ⟨⟨idx, old⟩, he, h⟩ := bind_ok h
    obtain ⟨it, hm, h⟩ := bind_ok h
    have hnew := wt_itemMutate E hE n recv sp t old new none false it hr
      (seqExtract_wt E t xs voi _ by_ idx old hw hop.1 he) hop.2 (by intro g hg; cases hg) hm
    exact ⟨seqInsert_all E _ t xs ys idx it false hc (seqInsert_conforms E t xs ys idx it false h) h,
           seqInsert_all E _ t xs ys idx it false hw hnew h⟩
  | seqTransform voi f by_ =>
    simp only [seqColl] at h
    obtain ⟨⟨idx, old⟩, he, h⟩ := bind_ok h
    obtain ⟨it, hm, h⟩ := bind_ok h
    have hnew := wt_itemMutate E hE n recv sp t old MISSING (some f) false it hr
      (seqExtract_wt E t xs voi _ by_ idx old hw hop.1 he) (wt_missing E)
      (by intro g hg; cases hg; exact hop.2) hm
    exact ⟨seqInsert_all E _ t xs ys idx it false hc (seqInsert_conforms E t xs ys idx it false h) h,
           seqInsert_all E _ t xs ys idx it false hw hnew h⟩
  | seqWithout voi by_ =>
    simp only [seqColl] at h
    obtain ⟨⟨idx, old⟩, he, h⟩ := bind_ok h
    simp only [] at h
    cases idx with
    | none => simp [pure, Except.pure] at h; subst h; exact ⟨hc, hw⟩
    | some i =>
      simp only [] at h
      split at h
      · simp [pure, Except.pure] at h; subst h
        exact ⟨fun y hy => hc y (List.mem_of_mem_eraseIdx hy), fun y hy => hw y (List.mem_of_mem_eraseIdx hy)⟩
      · cases h
  | mapWith k v => simp [seqColl] at h
  | mapUpdate k new => simp [seqColl] at h
  | mapTransform k f => simp [seqColl] at h
  | mapWithout k => simp [seqColl] at h
  | setWith item => simp [seqColl] at h
  | setUpdate item new => simp [seqColl] at h
  | setTransform item f => simp [seqColl] at h
  | setWithout item => simp [seqColl] at h

theorem mapInsert_ok (kt vt : Ty) (kvs kvs' : KVs) (k it : Val)
    (hc : kvs.all (fun k' v' => conforms E kt k' && conforms E vt v') = true) (hw : wtKVs E kvs = true)
    (hk : WT E k) (hit : WT E it) (h : mapInsert E kt vt kvs k it = .ok kvs') :
    kvs'.all (fun k' v' => conforms E kt k' && conforms E vt v') = true ∧ wtKVs E kvs' = true := by
  unfold mapInsert at h
  split at h
  · cases h
  · split at h
    · cases h
    · rename_i h1 h2
      cases h
      refine ⟨kvs_all_set _ k it ?_ kvs hc, wt_kvs_set E k it hk hit kvs hw⟩
      simp at h1 h2
      simp [h1, h2]

theorem mapColl_ok (hE : EnvOK E) (n : Nat) (recv : Val) (sp : AttrSpec) (kt vt : Ty) (kvs kvs' : KVs) (op : EOp)
    (hr : WT E recv) (hop : EOpOK E op)
    (hc : kvs.all (fun k' v' => conforms E kt k' && conforms E vt v') = true) (hw : wtKVs E kvs = true)
    (h : mapColl E n recv sp kt vt kvs op = .ok kvs') :
    kvs'.all (fun k' v' => conforms E kt k' && conforms E vt v') = true ∧ wtKVs E kvs' = true := by
  cases op with
  | mapWith k v =>
    simp only [mapColl] at h
    split at h
    · cases h
    · obtain ⟨it, hm, h⟩ := bind_ok h
      have hit := wt_itemMutate E hE n recv sp vt _ v none true it hr (wt_kvs_get E k kvs hw) hop.2
        (by intro g hg; cases hg) hm
      exact mapInsert_ok E kt vt kvs kvs' k it hc hw hop.1 hit h
  | mapUpdate k new =>
    simp only [mapColl] at h
    split at h
    · cases h
    · cases hg : kvs.get? k with
      | none => rw [hg] at h; cases h
      | some old =>
        rw [hg] at h; simp only [] at h
        obtain ⟨it, hm, h⟩ := bind_ok h
        have hit := wt_itemMutate E hE n recv sp vt old new none false it hr
          (wt_kvs_get_some E k old kvs hw hg) hop.2 (by intro g hg; cases hg) hm
        exact mapInsert_ok E kt vt kvs kvs' k it hc hw hop.1 hit h
  | mapTransform k f =>
    simp only [mapColl] at h
    split at h
    · cases h
    · cases hg : kvs.get? k with
      | none => rw [hg] at h; cases h
      | some old =>
        rw [hg] at h; simp only [] at h
        obtain ⟨it, hm, h⟩ := bind_ok h
        have hit := wt_itemMutate E hE n recv sp vt old MISSING (some f) false it hr
          (wt_kvs_get_some E k old kvs hw hg) (wt_missing E) (by intro g hg; cases hg; exact hop.2) hm
        exact mapInsert_ok E kt vt kvs kvs' k it hc hw hop.1 hit h
  | mapWithout k =>
    simp only [mapColl] at h
    split at h
    · cases h
    · cases hg : kvs.get? k with
      | none => rw [hg] at h; cases h
      | some old =>
        rw [hg] at h; simp only [] at h; cases h
        exact ⟨kvs_all_erase _ k kvs hc, wtKVs_erase E k kvs hw⟩
  | seqWith item index insert => simp [mapColl] at h
  | seqUpdate voi new by_ => simp [mapColl] at h
  | seqTransform voi f by_ => simp [mapColl] at h
  | seqWithout voi by_ => simp [mapColl] at h
  | setWith item => simp [mapColl] at h
  | setUpdate item new => simp [mapColl] at h
  | setTransform item f => simp [mapColl] at h
  | setWithout item => simp [mapColl] at h

theorem setInsert_ok (t : Ty) (xs ys : List Val) (index : Option Val) (it : Val)
    (hc : ∀ x ∈ xs, conforms E t x = true) (hw : ∀ x ∈ xs, wt E x = true) (hit : WT E it)
    (h : setInsert E t xs index it = .ok ys) :
    (∀ y ∈ ys, conforms E t y = true) ∧ (∀ y ∈ ys, wt E y = true) := by
  unfold setInsert at h
  split at h
  · cases h
  · rename_i hconf
    split at h
    · cases h
    · cases h
      have hconf' : conforms E t it = true := by simpa using hconf
      have hsub : ∀ y ∈ discardOpt xs index, y ∈ xs := by
        intro y hy
        cases index with
        | none => exact hy
        | some i => exact (List.mem_filter.1 hy).1
      have hmem : ∀ y ∈ addToSet (discardOpt xs index) it, y ∈ xs ∨ y = it := by
        intro y hy
        unfold addToSet at hy
        split at hy
        · exact Or.inl (hsub y hy)
        · rcases List.mem_append.1 hy with h' | h'
          · exact Or.inl (hsub y h')
          · simp at h'; exact Or.inr h'
      constructor
      · intro y hy
        rcases hmem y hy with h' | h'
        · exact hc y h'
        · subst h'; exact hconf'
      · intro y hy
        rcases hmem y hy with h' | h'
        · exact hw y h'
        · subst h'; exact hit

theorem setColl_ok (hE : EnvOK E) (n : Nat) (recv : Val) (sp : AttrSpec) (t : Ty) (xs ys : List Val) (op : EOp)
    (hr : WT E recv) (hop : EOpOK E op) (hc : ∀ x ∈ xs, conforms E t x = true) (hw : ∀ x ∈ xs, wt E x = true)
    (h : setColl E n recv sp t xs op = .ok ys) :
    (∀ y ∈ ys, conforms E t y = true) ∧ (∀ y ∈ ys, wt E y = true) := by
  cases op with
  | setWith item =>
    simp only [setColl] at h
    obtain ⟨it, hm, h⟩ := bind_ok h
    have hit := wt_itemMutate E hE n recv sp t MISSING item none true it hr (wt_missing E) hop
      (by intro g hg; cases hg) hm
    exact setInsert_ok E t xs ys none it hc hw hit h
  | setUpdate item new =>
    simp only [setColl] at h
    split at h
    · cases h
    · split at h
      · cases h
      · obtain ⟨it, hm, h⟩ := bind_ok h
        have hit := wt_itemMutate E hE n recv sp t item new none false it hr hop.1 hop.2
          (by intro g hg; cases hg) hm
        exact setInsert_ok E t xs ys (some item) it hc hw hit h
  | setTransform item f =>
    simp only [setColl] at h
    split at h
    · cases h
    · split at h
      · cases h
      · obtain ⟨it, hm, h⟩ := bind_ok h
        have hit := wt_itemMutate E hE n recv sp t item MISSING (some f) false it hr hop.1 (wt_missing E)
          (by intro g hg; cases hg; exact hop.2) hm
        exact setInsert_ok E t xs ys (some item) it hc hw hit h
  | setWithout item =>
    simp only [setColl] at h
    split at h
    · cases h
    · split at h
      · cases h
      · cases h
        exact ⟨fun y hy => hc y (List.mem_filter.1 hy).1, fun y hy => hw y (List.mem_filter.1 hy).1⟩
  | seqWith item index insert => simp [setColl] at h
  | seqUpdate voi new by_ => simp [setColl] at h
  | seqTransform voi f by_ => simp [setColl] at h
  | seqWithout voi by_ => simp [setColl] at h
  | mapWith k v => simp [setColl] at h
  | mapUpdate k new => simp [setColl] at h
  | mapTransform k f => simp [setColl] at h
  | mapWithout k => simp [setColl] at h

/-- the collection an element helper builds conforms (deeply) to the attribute's annotation and is well typed -/
theorem elemColl_ok (hE : EnvOK E) (n c : Nat) (fs : Flds) (a : Nat) (sp : AttrSpec) (op : EOp) (coll : Val)
    (hr : WT E (.inst c fs)) (hsp : E.attr? c a = some sp) (hop : EOpOK E op)
    (h : elemColl E n (.inst c fs) sp op = .ok coll) : conformsDeep E sp.ty coll = true ∧ WT E coll := by
  unfold elemColl at h
  split at h
  · cases h
  have hseq : ∀ t, sp.ty = .list t ∨ sp.ty = .mseq t →
      (do let xs ← curList E (.inst c fs) sp
          let ys ← seqColl E n (.inst c fs) sp t xs op
          pure (Val.list (Vals.ofList ys))) = Except.ok coll →
      conformsDeep E sp.ty coll = true ∧ WT E coll := by
    intro t hty h
    obtain ⟨xs, hx, h⟩ := bind_ok h
    obtain ⟨ys, hy, h⟩ := bind_ok h
    simp [pure, Except.pure] at h; subst h
    obtain ⟨hc, hw⟩ := curList_ok E hE c fs a sp t xs hr hsp hty hx
    obtain ⟨hc', hw'⟩ := seqColl_ok E hE n _ sp t xs ys op hr hop hc hw hy
    refine ⟨?_, by unfold WT; rw [wt_list_ofList]; exact (all_iff _ _).2 hw'⟩
    have hall : (Vals.ofList ys).all (conforms E t) = true := by
      rw [Vals_all_toList, toList_ofList]; exact (all_iff _ _).2 hc'
    rcases hty with hty | hty <;> rw [hty] <;> simp [conformsDeep, conforms, hall]
  have hset : ∀ t, sp.ty = .set t ∨ sp.ty = .mset t →
      (do let xs ← curSet E (.inst c fs) sp
          let ys ← setColl E n (.inst c fs) sp t xs op
          pure (Val.set (Vals.ofList ys))) = Except.ok coll →
      conformsDeep E sp.ty coll = true ∧ WT E coll := by
    intro t hty h
    obtain ⟨xs, hx, h⟩ := bind_ok h
    obtain ⟨ys, hy, h⟩ := bind_ok h
    simp [pure, Except.pure] at h; subst h
    obtain ⟨hc, hw⟩ := curSet_ok E hE c fs a sp t xs hr hsp hty hx
    obtain ⟨hc', hw'⟩ := setColl_ok E hE n _ sp t xs ys op hr hop hc hw hy
    refine ⟨?_, by unfold WT; rw [wt_set_ofList]; exact (all_iff _ _).2 hw'⟩
    have hall : (Vals.ofList ys).all (conforms E t) = true := by
      rw [Vals_all_toList, toList_ofList]; exact (all_iff _ _).2 hc'
    rcases hty with hty | hty <;> rw [hty] <;> simp [conformsDeep, conforms, hall]
  have hmap : ∀ kt vt, sp.ty = .dict kt vt ∨ sp.ty = .mmap kt vt →
      (do let kvs ← curDict E (.inst c fs) sp
          let kvs' ← mapColl E n (.inst c fs) sp kt vt kvs op
          pure (Val.dict kvs')) = Except.ok coll →
      conformsDeep E sp.ty coll = true ∧ WT E coll := by
    intro kt vt hty h
    obtain ⟨kvs, hx, h⟩ := bind_ok h
    obtain ⟨kvs', hy, h⟩ := bind_ok h
    simp [pure, Except.pure] at h; subst h
    obtain ⟨hc, hw⟩ := curDict_ok E hE c fs a sp kt vt kvs hr hsp hty hx
    obtain ⟨hc', hw'⟩ := mapColl_ok E hE n _ sp kt vt kvs kvs' op hr hop hc hw hy
    refine ⟨?_, hw'⟩
    rcases hty with hty | hty <;> rw [hty] <;> simp [conformsDeep, conforms, hc']
  cases hty : sp.ty with
  | list t => rw [hty] at h; simp only [] at h; rw [← hty]; exact hseq t (Or.inl hty) h
  | mseq t => rw [hty] at h; simp only [] at h; rw [← hty]; exact hseq t (Or.inr hty) h
  | set t => rw [hty] at h; simp only [] at h; rw [← hty]; exact hset t (Or.inl hty) h
  | mset t => rw [hty] at h; simp only [] at h; rw [← hty]; exact hset t (Or.inr hty) h
  | dict kt vt => rw [hty] at h; simp only [] at h; rw [← hty]; exact hmap kt vt (Or.inl hty) h
  | mmap kt vt => rw [hty] at h; simp only [] at h; rw [← hty]; exact hmap kt vt (Or.inr hty) h
  | any => rw [hty] at h; cases h
  | int => rw [hty] at h; cases h
  | str => rw [hty] at h; cases h
  | bool => rw [hty] at h; cases h
  | float => rw [hty] at h; cases h
  | none => rw [hty] at h; cases h
  | lit cs => rw [hty] at h; cases h
  | union x y => rw [hty] at h; cases h
  | spec c' => rw [hty] at h; cases h
  | valid b p => rw [hty] at h; cases h


/-- The states an API history can reach: an instance built by the constructor (keywords of any kind,
dict-to-spec casting included) from acceptable arguments, then any number of calls on any route with
acceptable arguments (`ok`); the receiver after a call and every object a call returns are reachable. -/
inductive Reachable (ok : Route → Prop) : Val → Prop
  | init (n c : Nat) (kw : Kw) (v : Val) : (∀ kv ∈ kw, WT E kv.2) → construct E n c kw = .ok v → Reachable ok v
  | recv (n : Nat) (v : Val) (r : Route) : Reachable ok v → ok r → Reachable ok (step E n v r).recv
  | result (n : Nat) (v : Val) (r : Route) : Reachable ok v → ok r → Reachable ok (step E n v r).result

end SpecVerif.C03.Proofs
