import SpecVerif.Model.C03Boot
import SpecVerif.Proofs.C03
/-!
# C03 — helper lemmas about `SpecVerif.C03Boot.bootstrap` (the statements are in `Props/C03Boot.lean`)
-/
set_option linter.unusedSectionVars false
set_option linter.unusedSimpArgs false
set_option linter.unusedVariables false
namespace SpecVerif.C03Boot.Proofs
open SpecVerif.Py SpecVerif.C05 SpecVerif.C03 SpecVerif.C03Boot

/-! ## insertion-ordered maps as association lists (`d[k] = v`) -/

section Assoc
variable {α : Type} (key : α → Nat)

/-- `d[key r] = r`: an existing key keeps its position -/
def setA (m : List α) (r : α) : List α :=
  if m.any (fun x => key x == key r) then m.map (fun x => if key x == key r then r else x) else m ++ [r]

def getA (m : List α) (a : Nat) : Option α := m.find? (fun x => key x == a)

theorem getA_cons_pos (p : α) (m : List α) (a : Nat) (h : (key p == a) = true) : getA key (p :: m) a = some p := by
  unfold getA; simp only [List.find?_cons, h]

theorem getA_cons_neg (p : α) (m : List α) (a : Nat) (h : (key p == a) = false) : getA key (p :: m) a = getA key m a := by
  unfold getA; simp only [List.find?_cons, h]

theorem any_cons_false {p : α} {m : List α} {q : α → Bool} (h : (p :: m).any q = false) : q p = false ∧ m.any q = false := by
  simpa [List.any_cons] using h

theorem getA_map_same (r : α) : ∀ (m : List α), m.any (fun x => key x == key r) = true →
    getA key (m.map (fun x => if key x == key r then r else x)) (key r) = some r
  | [], h => by simp at h
  | p :: m, h => by
    rw [List.map_cons]
    cases hp : (key p == key r) with
    | true =>
      simp only [↓reduceIte]
      exact getA_cons_pos key r _ (key r) (by simp)
    | false =>
      simp only [Bool.false_eq_true, ↓reduceIte]
      rw [getA_cons_neg key p _ (key r) hp]
      apply getA_map_same r m
      rw [List.any_cons, hp] at h
      simpa using h

theorem getA_append_miss (r : α) : ∀ (m : List α), m.any (fun x => key x == key r) = false →
    getA key (m ++ [r]) (key r) = some r
  | [], _ => getA_cons_pos key r [] (key r) (by simp)
  | p :: m, h => by
    obtain ⟨hp, hm⟩ := any_cons_false h
    rw [List.cons_append, getA_cons_neg key p _ (key r) hp]
    exact getA_append_miss r m hm

theorem getA_setA_same (m : List α) (r : α) : getA key (setA key m r) (key r) = some r := by
  unfold setA
  cases h : m.any (fun x => key x == key r) with
  | true => rw [if_pos rfl]; exact getA_map_same key r m h
  | false => rw [if_neg (by simp)]; exact getA_append_miss key r m h

theorem getA_map_other (r : α) (a : Nat) (ha : a ≠ key r) : ∀ (m : List α),
    getA key (m.map (fun x => if key x == key r then r else x)) a = getA key m a
  | [] => rfl
  | p :: m => by
    have hra : (key r == a) = false := by simp; exact fun h => ha h.symm
    rw [List.map_cons]
    cases hp : (key p == key r) with
    | true =>
      have hpa : (key p == a) = false := by
        have : key p = key r := by simpa using hp
        rw [this]; exact hra
      simp only [↓reduceIte]
      rw [getA_cons_neg key r _ a hra, getA_cons_neg key p _ a hpa]
      exact getA_map_other r a ha m
    | false =>
      simp only [Bool.false_eq_true, ↓reduceIte]
      cases hpa : (key p == a) with
      | true => rw [getA_cons_pos key p _ a hpa, getA_cons_pos key p _ a hpa]
      | false =>
        rw [getA_cons_neg key p _ a hpa, getA_cons_neg key p _ a hpa]
        exact getA_map_other r a ha m

theorem getA_append_other (r : α) (a : Nat) (ha : a ≠ key r) : ∀ (m : List α),
    getA key (m ++ [r]) a = getA key m a
  | [] => by
    have hra : (key r == a) = false := by simp; exact fun h => ha h.symm
    rw [List.nil_append, getA_cons_neg key r [] a hra]
  | p :: m => by
    rw [List.cons_append]
    cases hpa : (key p == a) with
    | true => rw [getA_cons_pos key p _ a hpa, getA_cons_pos key p _ a hpa]
    | false =>
      rw [getA_cons_neg key p _ a hpa, getA_cons_neg key p _ a hpa]
      exact getA_append_other r a ha m

theorem getA_setA_other (m : List α) (r : α) (a : Nat) (ha : a ≠ key r) : getA key (setA key m r) a = getA key m a := by
  unfold setA
  cases h : m.any (fun x => key x == key r) with
  | true => rw [if_pos rfl]; exact getA_map_other key r a ha m
  | false => rw [if_neg (by simp)]; exact getA_append_other key r a ha m

theorem getA_map_pres (f : α → α) (hf : ∀ r, key (f r) = key r) (a : Nat) :
    ∀ (m : List α), getA key (m.map f) a = (getA key m a).map f
  | [] => rfl
  | p :: m => by
    rw [List.map_cons]
    cases hpa : (key p == a) with
    | true =>
      have : (key (f p) == a) = true := by rw [hf]; exact hpa
      rw [getA_cons_pos key p _ a hpa, getA_cons_pos key (f p) _ a this]; rfl
    | false =>
      have : (key (f p) == a) = false := by rw [hf]; exact hpa
      rw [getA_cons_neg key p _ a hpa, getA_cons_neg key (f p) _ a this]
      exact getA_map_pres f hf a m

theorem getA_some_any {m : List α} {a : Nat} {r : α} (h : getA key m a = some r) :
    m.any (fun x => key x == a) = true := by
  unfold getA at h
  have h2 := List.find?_some h
  exact List.any_eq_true.mpr ⟨r, List.mem_of_find?_eq_some h, h2⟩

theorem getA_none_any {m : List α} {a : Nat} (h : getA key m a = none) : m.any (fun x => key x == a) = false := by
  unfold getA at h
  cases hh : m.any (fun x => key x == a) with
  | false => rfl
  | true =>
    obtain ⟨r, hr, hp⟩ := List.any_eq_true.mp hh
    exact absurd hp (List.find?_eq_none.mp h r hr)

theorem getA_some_key {m : List α} {a : Nat} {r : α} (h : getA key m a = some r) : key r = a := by
  unfold getA at h
  have h2 := List.find?_some h
  simpa using h2

theorem getA_some_mem {m : List α} {a : Nat} {r : α} (h : getA key m a = some r) : r ∈ m := by
  unfold getA at h
  exact List.mem_of_find?_eq_some h

end Assoc

/-! ## Python dicts -/

theorem dictSet_eq {β : Type} (m : List (Nat × β)) (k : Nat) (v : β) : dictSet m k v = setA (·.1) m (k, v) := rfl
theorem dictGet_eq {β : Type} (m : List (Nat × β)) (k : Nat) : dictGet m k = (getA (·.1) m k).map (·.2) := rfl

theorem dictGet_dictSet_same {β : Type} (m : List (Nat × β)) (k : Nat) (v : β) : dictGet (dictSet m k v) k = some v := by
  rw [dictGet_eq, dictSet_eq]
  have := getA_setA_same (fun p : Nat × β => p.1) m (k, v)
  simp only [] at this
  rw [this]; rfl

theorem dictGet_dictSet_other {β : Type} (m : List (Nat × β)) (k k' : Nat) (v : β) (hk : k' ≠ k) :
    dictGet (dictSet m k v) k' = dictGet m k' := by
  rw [dictGet_eq, dictGet_eq, dictSet_eq]
  rw [getA_setA_other (fun p : Nat × β => p.1) m (k, v) k' hk]

theorem dictGet_mem {β : Type} {m : List (Nat × β)} {k : Nat} {v : β} (h : dictGet m k = some v) : k ∈ m.map (·.1) := by
  rw [dictGet_eq] at h
  cases hf : getA (fun p : Nat × β => p.1) m k with
  | none => rw [hf] at h; cases h
  | some p =>
    exact List.mem_map.mpr ⟨p, getA_some_mem _ hf, getA_some_key _ hf⟩

/-- the `attrs=` placeholder survives the rest of `self.attrs` unless `attrs_typed` / the overflow option name the attribute -/
theorem fold_attrs_get (a : Nat) : ∀ (l : List Nat) (m : List (Nat × Ty)),
    (a ∈ l ∨ dictGet m a = some Ty.any) → dictGet (l.foldl (fun m a => dictSet m a Ty.any) m) a = some Ty.any
  | [], m, h => by
    cases h with
    | inl h => cases h
    | inr h => exact h
  | x :: l, m, h => by
    apply fold_attrs_get a l
    by_cases hx : a = x
    · right; subst hx; exact dictGet_dictSet_same m a Ty.any
    · cases h with
      | inl h =>
        left
        cases h with
        | head => exact absurd rfl hx
        | tail _ h => exact h
      | inr h => right; rw [dictGet_dictSet_other m x a Ty.any hx]; exact h

theorem fold_typed_other (a : Nat) : ∀ (l : List (Nat × Ty)) (m : List (Nat × Ty)), (∀ p ∈ l, p.1 ≠ a) →
    dictGet (l.foldl (fun m p => dictSet m p.1 p.2) m) a = dictGet m a
  | [], m, _ => rfl
  | p :: l, m, h => by
    have hp : a ≠ p.1 := fun e => h p (List.mem_cons_self) e.symm
    have := fold_typed_other a l (dictSet m p.1 p.2) (fun q hq => h q (List.mem_cons_of_mem _ hq))
    simp only [List.foldl]
    rw [this, dictGet_dictSet_other m p.1 a p.2 hp]

/-- **`attrs=` only nominates.** An attribute named in `attrs=` and not in `attrs_typed=` / `init_overflow_attr=` is
entered into `self.attrs` with the `Any` placeholder. -/
theorem selfAttrs_nominated (d : Decl) (a : Nat) (ha : a ∈ d.attrs) (ht : ∀ p ∈ d.attrsTyped, p.1 ≠ a)
    (ho : d.ovf ≠ some a) : dictGet d.selfAttrs a = some Ty.any := by
  unfold Decl.selfAttrs
  have h1 := fold_attrs_get a d.attrs [] (Or.inl ha)
  have h2 := fold_typed_other a d.attrsTyped (d.attrs.foldl (fun m a => dictSet m a Ty.any) []) ht
  cases ho' : d.ovf with
  | none => simp only []; rw [h2]; exact h1
  | some o =>
    have : a ≠ o := fun e => ho (by rw [ho', e])
    simp only []
    rw [dictGet_dictSet_other _ o a _ this, h2]; exact h1

/-! ## `metadata.attrs[a] = spec` -/

abbrev nameOf (r : RAttr) : Nat := r.spec.name

def findA (m : List RAttr) (a : Nat) : Option RAttr := getA nameOf m a

theorem upsert_eq (m : List RAttr) (r : RAttr) : upsert m r = setA nameOf m r := rfl

theorem findA_upsert_same (m : List RAttr) (r : RAttr) : findA (upsert m r) r.spec.name = some r := by
  rw [upsert_eq]; exact getA_setA_same nameOf m r

theorem findA_upsert_other (m : List RAttr) (r : RAttr) (a : Nat) (ha : a ≠ r.spec.name) :
    findA (upsert m r) a = findA m a := by
  rw [upsert_eq]; exact getA_setA_other nameOf m r a ha

/-- the spec `bootstrap` builds for a managed attribute -/
def built (chain : List RClass) (d : Decl) (a : Nat) : RAttr :=
  { spec := buildSpec chain d a (attrType chain d a), owner := d.id }

theorem built_name (chain : List RClass) (d : Decl) (a : Nat) : (built chain d a).spec.name = a := rfl
theorem built_ty (chain : List RClass) (d : Decl) (a : Nat) : (built chain d a).spec.ty = attrType chain d a := rfl

/-- the loop over `managed_attrs` -/
def managedFold (chain : List RClass) (d : Decl) (l : List Nat) (init : List RAttr) : List RAttr :=
  l.foldl (fun m a => upsert m (built chain d a)) init

theorem managedFold_spec (chain : List RClass) (d : Decl) (a : Nat) : ∀ (l : List Nat) (init : List RAttr),
    (a ∈ l → findA (managedFold chain d l init) a = some (built chain d a)) ∧
    (a ∉ l → findA (managedFold chain d l init) a = findA init a)
  | [], init => ⟨fun h => (by cases h), fun _ => rfl⟩
  | x :: l, init => by
    have ih := managedFold_spec chain d a l (upsert init (built chain d x))
    have hstep : managedFold chain d (x :: l) init = managedFold chain d l (upsert init (built chain d x)) := rfl
    rw [hstep]
    constructor
    · intro hmem
      by_cases hl : a ∈ l
      · exact ih.1 hl
      · have hx : a = x := by
          cases hmem with
          | head => rfl
          | tail _ h => exact absurd h hl
        subst hx
        rw [ih.2 hl]
        exact findA_upsert_same init (built chain d a)
    · intro hmem
      have hl : a ∉ l := fun h => hmem (List.mem_cons_of_mem _ h)
      have hx : a ≠ x := fun e => hmem (by rw [e]; exact List.mem_cons_self)
      rw [ih.2 hl]
      exact findA_upsert_other init _ a hx

theorem findA_map_pres (f : RAttr → RAttr) (hf : ∀ r, (f r).spec.name = r.spec.name) (a : Nat) (m : List RAttr) :
    findA (m.map f) a = (findA m a).map f := getA_map_pres nameOf f hf a m

theorem inheritStep_name (chain : List RClass) (d : Decl) (ra : RAttr) :
    (inheritStep chain d ra).spec.name = ra.spec.name := by
  unfold inheritStep
  split
  · rfl
  · split <;> rfl

/-- an inherited attribute keeps its TYPE through the step that merely re-defaults it -/
theorem inheritStep_ty (chain : List RClass) (d : Decl) (ra : RAttr) :
    (inheritStep chain d ra).spec.ty = ra.spec.ty := by
  unfold inheritStep
  split
  · rfl
  · split <;> rfl

/-- `__spec_class__.attrs` of a bootstrapped spec class, spelled out -/
theorem bootstrap_attrs (chain : List RClass) (d : Decl) (hs : d.isSpec = true) :
    (bootstrap chain d).attrs =
      (match d.key with
       | .named k =>
         if (managedFold chain d d.managed ((parentOf chain).attrs.map (inheritStep chain d))).any (·.spec.name == k)
         then (managedFold chain d d.managed ((parentOf chain).attrs.map (inheritStep chain d)))
         else (managedFold chain d d.managed ((parentOf chain).attrs.map (inheritStep chain d))) ++
           [{ spec := buildSpec chain d k (attrType chain d k), owner := d.id }]
       | _ => (managedFold chain d d.managed ((parentOf chain).attrs.map (inheritStep chain d)))) := by
  unfold bootstrap managedFold built
  simp only [hs]
  cases d.key <;> rfl

theorem attr?_eq_findA (R : RClass) (a : Nat) : R.attr? a = (findA R.attrs a).map (·.spec) := rfl

theorem findA_any {m : List RAttr} {a : Nat} {r : RAttr} (h : findA m a = some r) : m.any (·.spec.name == a) = true :=
  getA_some_any nameOf h

theorem findA_none_any {m : List RAttr} {a : Nat} (h : findA m a = none) : m.any (·.spec.name == a) = false :=
  getA_none_any nameOf h

/-! ## the order of first use -/

theorem bootstrap_id (chain : List RClass) (d : Decl) : (bootstrap chain d).id = d.id := by
  unfold bootstrap; split <;> rfl

theorem bootstrap_supers (chain : List RClass) (d : Decl) : (bootstrap chain d).supers = chain.map (·.id) := by
  unfold bootstrap; split <;> rfl

theorem bootIn_id (W : List RClass) (d : Decl) : (bootIn W d).id = d.id := bootstrap_id _ d

theorem find?_mem' {α : Type} {p : α → Bool} {l : List α} {x : α} (h : l.find? p = some x) : x ∈ l :=
  List.mem_of_find?_eq_some h

theorem chainOf_mem (W : List RClass) (b : Option Nat) : ∀ x ∈ chainOf W b, x ∈ W := by
  intro x hx
  cases b with
  | none => simp [chainOf] at hx
  | some b =>
    unfold chainOf at hx
    cases hf : W.find? (·.id == b) with
    | none => simp [hf] at hx
    | some R =>
      simp only [hf, List.mem_cons, List.mem_filterMap] at hx
      cases hx with
      | inl h => rw [h]; exact find?_mem' hf
      | inr h =>
        obtain ⟨s, _, hs⟩ := h
        exact find?_mem' hs

/-- eager bootstrap of further declarations on top of a world -/
def bootFrom (W : List RClass) (ds : List Decl) : List RClass := ds.foldl (fun W d => W ++ [bootIn W d]) W

theorem bootAll_eq (ds : List Decl) : bootAll ds = bootFrom [] ds := rfl

theorem bootFrom_sub : ∀ (ds : List Decl) (W : List RClass), ∀ R ∈ W, R ∈ bootFrom W ds
  | [], _, R, h => h
  | d :: ds, W, R, h => by
    show R ∈ bootFrom (W ++ [bootIn W d]) ds
    exact bootFrom_sub ds _ R (List.mem_append_left _ h)

theorem bootFrom_append (W : List RClass) (l1 l2 : List Decl) : bootFrom W (l1 ++ l2) = bootFrom (bootFrom W l1) l2 := by
  unfold bootFrom; exact List.foldl_append

theorem bootFrom_ids : ∀ (ds : List Decl) (W : List RClass), (bootFrom W ds).map (·.id) = W.map (·.id) ++ ds.map (·.id)
  | [], W => by simp [bootFrom]
  | d :: ds, W => by
    show (bootFrom (W ++ [bootIn W d]) ds).map (·.id) = _
    rw [bootFrom_ids ds]
    simp [bootIn_id]

/-- every ancestor named by a class of the world is itself in the world -/
def Closed (W : List RClass) : Prop := ∀ R ∈ W, ∀ s ∈ R.supers, ∃ R' ∈ W, R'.id = s

theorem closed_snoc (W : List RClass) (d : Decl) (h : Closed W) : Closed (W ++ [bootIn W d]) := by
  intro R hR s hs
  rcases List.mem_append.mp hR with hR | hR
  · obtain ⟨R', hR', hid⟩ := h R hR s hs
    exact ⟨R', List.mem_append_left _ hR', hid⟩
  · have hR : R = bootIn W d := by simpa using hR
    subst hR
    unfold bootIn at hs
    rw [bootstrap_supers] at hs
    obtain ⟨x, hx, hxs⟩ := List.mem_map.mp hs
    exact ⟨x, List.mem_append_left _ (chainOf_mem W d.base x hx), hxs⟩

theorem closed_bootFrom : ∀ (ds : List Decl) (W : List RClass), Closed W → Closed (bootFrom W ds)
  | [], _, h => h
  | d :: ds, W, h => closed_bootFrom ds _ (closed_snoc W d h)

theorem uniq_of_nodup_ids : ∀ (W : List RClass), (W.map (·.id)).Nodup → ∀ R1 ∈ W, ∀ R2 ∈ W, R1.id = R2.id → R1 = R2
  | [], _, _, h, _, _, _ => by cases h
  | x :: W, hn, R1, h1, R2, h2, hid => by
    rw [List.map_cons, List.nodup_cons] at hn
    rcases List.mem_cons.mp h1 with e1 | m1 <;> rcases List.mem_cons.mp h2 with e2 | m2
    · rw [e1, e2]
    · exfalso; apply hn.1; rw [← e1, hid]; exact List.mem_map.mpr ⟨R2, m2, rfl⟩
    · exfalso; apply hn.1; rw [← e2, ← hid]; exact List.mem_map.mpr ⟨R1, m1, rfl⟩
    · exact uniq_of_nodup_ids W hn.2 R1 m1 R2 m2 hid

theorem find?_exists {α : Type} {p : α → Bool} {l : List α} (h : ∃ x ∈ l, p x = true) : ∃ y, l.find? p = some y := by
  cases hf : l.find? p with
  | some y => exact ⟨y, rfl⟩
  | none =>
    obtain ⟨x, hx, hp⟩ := h
    have := List.find?_eq_none.mp hf x hx
    exact absurd hp this

theorem filterMap_congr' {α β : Type} (f g : α → Option β) : ∀ (l : List α), (∀ x ∈ l, f x = g x) →
    l.filterMap f = l.filterMap g
  | [], _ => rfl
  | x :: l, h => by
    rw [List.filterMap_cons, List.filterMap_cons, h x List.mem_cons_self,
      filterMap_congr' f g l (fun y hy => h y (List.mem_cons_of_mem _ hy))]

/-- a world that is part of the canonical one finds the same class under an id it has -/
theorem find_agree (W C : List RClass) (hsub : ∀ R ∈ W, R ∈ C) (hn : (C.map (·.id)).Nodup) (b : Nat)
    (hb : ∃ R ∈ W, R.id = b) : W.find? (·.id == b) = C.find? (·.id == b) := by
  obtain ⟨R, hR, hid⟩ := hb
  obtain ⟨R1, h1⟩ := find?_exists (p := fun x : RClass => x.id == b) ⟨R, hR, by simp [hid]⟩
  obtain ⟨R2, h2⟩ := find?_exists (p := fun x : RClass => x.id == b) ⟨R, hsub R hR, by simp [hid]⟩
  rw [h1, h2]
  have e1 : R1.id = b := by simpa using List.find?_some h1
  have e2 : R2.id = b := by simpa using List.find?_some h2
  rw [uniq_of_nodup_ids C hn R1 (hsub R1 (find?_mem' h1)) R2 (find?_mem' h2) (by rw [e1, e2])]

theorem chainOf_agree (W C : List RClass) (hsub : ∀ R ∈ W, R ∈ C) (hn : (C.map (·.id)).Nodup) (hc : Closed W)
    (base : Option Nat) (hb : ∀ b, base = some b → ∃ R ∈ W, R.id = b) : chainOf W base = chainOf C base := by
  cases base with
  | none => rfl
  | some b =>
    have hf := find_agree W C hsub hn b (hb b rfl)
    simp only [chainOf]
    rw [← hf]
    cases hfw : W.find? (·.id == b) with
    | none => rfl
    | some R =>
      simp only []
      congr 1
      exact filterMap_congr' _ _ _ (fun s hs => find_agree W C hsub hn s (hc R (find?_mem' hfw) s hs))

/-- well-formed programs: class ids are distinct, a base class is declared before its subclasses -/
def WF (ds : List Decl) : Prop :=
  (ds.map (·.id)).Nodup ∧ ∀ pre d post, ds = pre ++ d :: post → ∀ b, d.base = some b → b ∈ pre.map (·.id)

theorem closed_nil : Closed [] := by intro R h; cases h

theorem canon_ids (ds : List Decl) : (bootAll ds).map (·.id) = ds.map (·.id) := by
  rw [bootAll_eq, bootFrom_ids]; simp

/-- the canonical table entry of a declared class is what bootstrapping it against the WHOLE canonical world gives -/
theorem canon_entry (ds : List Decl) (hwf : WF ds) (d : Decl) (hd : d ∈ ds) : bootIn (bootAll ds) d ∈ bootAll ds := by
  obtain ⟨pre, post, hsplit⟩ := List.append_of_mem hd
  have hcanon : bootAll ds = bootFrom (bootFrom [] pre ++ [bootIn (bootFrom [] pre) d]) post := by
    rw [bootAll_eq, hsplit, bootFrom_append]; rfl
  have hmem : bootIn (bootFrom [] pre) d ∈ bootAll ds := by
    rw [hcanon]; exact bootFrom_sub post _ _ (List.mem_append_right _ (by simp))
  have hsub : ∀ R ∈ bootFrom [] pre, R ∈ bootAll ds := by
    intro R hR; rw [hcanon]; exact bootFrom_sub post _ _ (List.mem_append_left _ hR)
  have hn : ((bootAll ds).map (·.id)).Nodup := by rw [canon_ids]; exact hwf.1
  have hbase : ∀ b, d.base = some b → ∃ R ∈ bootFrom [] pre, R.id = b := by
    intro b hb
    have := hwf.2 pre d post hsplit b hb
    have hids : (bootFrom [] pre).map (·.id) = pre.map (·.id) := by rw [bootFrom_ids]; simp
    rw [← hids] at this
    obtain ⟨R, hR, hid⟩ := List.mem_map.mp this
    exact ⟨R, hR, hid⟩
  have : bootIn (bootFrom [] pre) d = bootIn (bootAll ds) d := by
    unfold bootIn
    rw [chainOf_agree (bootFrom [] pre) (bootAll ds) hsub hn (closed_bootFrom pre [] closed_nil) d.base hbase]
  rw [← this]; exact hmem

/-- what lazy bootstrap maintains: every bootstrapped class is the canonical one, and the world is closed under ancestors -/
def Inv (ds : List Decl) (W : List RClass) : Prop := (∀ R ∈ W, R ∈ bootAll ds) ∧ Closed W

theorem inv_snoc (ds : List Decl) (hwf : WF ds) (W : List RClass) (h : Inv ds W) (d : Decl) (hd : d ∈ ds)
    (hb : ∀ b, d.base = some b → ∃ R ∈ W, R.id = b) : Inv ds (W ++ [bootIn W d]) := by
  have hn : ((bootAll ds).map (·.id)).Nodup := by rw [canon_ids]; exact hwf.1
  refine ⟨?_, closed_snoc W d h.2⟩
  intro R hR
  rcases List.mem_append.mp hR with hR | hR
  · exact h.1 R hR
  · have hR : R = bootIn W d := by simpa using hR
    rw [hR]
    have : bootIn W d = bootIn (bootAll ds) d := by
      unfold bootIn
      rw [chainOf_agree W (bootAll ds) h.1 hn h.2 d.base hb]
    rw [this]; exact canon_entry ds hwf d hd

theorem inv_useClass (ds : List Decl) (hwf : WF ds) : ∀ (n : Nat) (W : List RClass) (c : Nat),
    Inv ds W → Inv ds (useClass ds n W c)
  | 0, _, _, h => h
  | n+1, W, c, h => by
    unfold useClass
    split
    · exact h
    · split
      · exact h
      · rename_i d hfd
        have hd : d ∈ ds := find?_mem' hfd
        cases hbase : d.base with
        | none =>
          simp only []
          exact inv_snoc ds hwf W h d hd (by intro b hb; rw [hbase] at hb; cases hb)
        | some b =>
          simp only []
          have ih := inv_useClass ds hwf n W b h
          split
          · rename_i hany
            apply inv_snoc ds hwf _ ih d hd
            intro b' hb'
            rw [hbase] at hb'
            have : b' = b := by cases hb'; rfl
            subst this
            obtain ⟨R, hR, hp⟩ := List.any_eq_true.mp hany
            exact ⟨R, hR, by simpa using hp⟩
          · exact ih

theorem inv_runUses (ds : List Decl) (hwf : WF ds) (n : Nat) : ∀ (us : List Nat) (W : List RClass),
    Inv ds W → Inv ds (us.foldl (useClass ds n) W)
  | [], _, h => h
  | u :: us, W, h => inv_runUses ds hwf n us _ (inv_useClass ds hwf n W u h)

end SpecVerif.C03Boot.Proofs
