import SpecVerif.Model.C05
/-!
# C05 — helper lemmas (the property statements are in `Props/C05.lean`)
-/
set_option linter.unusedSectionVars false
set_option linter.unusedSimpArgs false
set_option linter.unusedVariables false
namespace SpecVerif.C05.Proofs
open SpecVerif.Py SpecVerif.C05

variable (E : Env)

/-! ## generic facts about `foldlM` in `Except` -/

theorem foldlM_inv {α β : Type} (P : β → Prop) (f : β → α → Except Err β) :
    ∀ (l : List α) (init r : β), P init → (∀ acc x r, P acc → f acc x = .ok r → P r) →
      l.foldlM f init = .ok r → P r := by
  intro l
  induction l with
  | nil => intro init r h0 _ h; simp [List.foldlM, pure, Except.pure] at h; cases h; exact h0
  | cons x xs ih =>
    intro init r h0 hstep h
    simp only [List.foldlM, bind, Except.bind] at h
    cases hfx : f init x with
    | error e => rw [hfx] at h; cases h
    | ok b =>
      rw [hfx] at h
      exact ih b r (hstep init x b h0 hfx) hstep h

theorem foldlM_skip {α β : Type} (f : β → α → Except Err β) (l : List α) (init : β)
    (h : ∀ acc x, x ∈ l → f acc x = .ok acc) : l.foldlM f init = .ok init := by
  induction l generalizing init with
  | nil => rfl
  | cons x xs ih =>
    simp only [List.foldlM, bind, Except.bind]
    rw [h init x (by simp)]
    exact ih init (fun acc y hy => h acc y (by simp [hy]))

theorem foldlM_congr {α β : Type} (f g : β → α → Except Err β) (l : List α) (init : β)
    (h : ∀ acc x, x ∈ l → f acc x = g acc x) : l.foldlM f init = l.foldlM g init := by
  induction l generalizing init with
  | nil => rfl
  | cons x xs ih =>
    simp only [List.foldlM, bind, Except.bind]
    rw [h init x (by simp)]
    cases g init x with
    | error e => rfl
    | ok b => exact ih b (fun acc y hy => h acc y (by simp [hy]))

/-! ## instances stay instances of their class -/

def IsInst (c : Nat) (v : Val) : Prop := ∃ fs, v = .inst c fs

theorem isInst_setField {c : Nat} {v : Val} (a : Nat) (x : Val) (h : IsInst c v) : IsInst c (v.setField a x) := by
  obtain ⟨fs, rfl⟩ := h
  exact ⟨fs.set a x, rfl⟩

theorem isInst_resetDependant {c : Nat} {obj : Val} (d : Nat) (h : IsInst c obj) : IsInst c (resetDependant E obj d) := by
  unfold resetDependant
  split
  · exact h
  · split
    · exact isInst_setField _ _ h
    · split
      · exact isInst_setField _ _ h
      · exact h

theorem isInst_invalidateAux {c : Nat} (names : List Nat) :
    ∀ (k : Nat) (obj : Val) (a : Nat), IsInst c obj → IsInst c (invalidateAux E names k obj a)
  | 0, obj, a, h => h
  | k+1, obj, a, h => by
    simp only [invalidateAux]
    have : ∀ (l : List Nat) (init : Val), IsInst c init →
        IsInst c (l.foldl (fun acc d =>
          if dependsOn E acc d a then invalidateAux E names k (resetDependant E acc d) d else acc) init) := by
      intro l
      induction l with
      | nil => intro init hi; exact hi
      | cons x xs ih =>
        intro init hi
        simp only [List.foldl]
        apply ih
        split
        · exact isInst_invalidateAux names k _ x (isInst_resetDependant E x hi)
        · exact hi
    exact this names obj h

theorem isInst_invalidate {c : Nat} {obj : Val} (a : Nat) (h : IsInst c obj) : IsInst c (E.invalidate obj a) := by
  obtain ⟨fs, rfl⟩ := h
  unfold Env.invalidate
  simp only []
  split
  · exact isInst_invalidateAux E _ _ _ a ⟨fs, rfl⟩
  · exact ⟨fs, rfl⟩

theorem mutateAttrV_isInst {c : Nat} {obj r : Val} {sp : AttrSpec} {v : Val} {skip : Bool} (h : IsInst c obj)
    (hr : mutateAttrV E skip obj sp v = .ok r) : IsInst c r := by
  unfold mutateAttrV at hr
  split at hr
  · cases hr; exact h
  · split at hr
    · cases hr
    · cases hr
      split
      · exact isInst_setField _ _ h
      · exact isInst_invalidate E _ (isInst_setField _ _ h)

theorem setAttrV_isInst {n c : Nat} {obj r : Val} {a : Nat} {v : Val} {skip : Bool} (h : IsInst c obj)
    (hr : setAttrV E n skip obj a v = .ok r) : IsInst c r := by
  obtain ⟨fs, rfl⟩ := h
  cases n with
  | zero => rw [setAttrV] at hr; cases hr
  | succ n =>
    rw [setAttrV] at hr
    split at hr
    · cases hr; split
      · exact ⟨fs, rfl⟩
      · exact ⟨_, rfl⟩
    · split at hr
      · cases hr
      · exact mutateAttrV_isInst E ⟨fs, rfl⟩ hr

theorem construct_isInst {n c : Nat} {kw : Kw} {r : Val} (hr : construct E n c kw = .ok r) : IsInst c r := by
  cases n with
  | zero => rw [construct] at hr; cases hr
  | succ n =>
    rw [construct] at hr
    split at hr
    · cases hr
    · split at hr
      · cases hr
      · split at hr
        · cases hr
        · refine foldlM_inv (IsInst c) _ _ _ r ⟨_, rfl⟩ ?_ hr
          intro acc a r' hacc hstep
          split at hstep
          · cases hstep; exact hacc
          · split at hstep
            · cases hstep; exact hacc
            · exact setAttrV_isInst E hacc hstep

theorem isInst_ne_none {c : Nat} {v : Val} (h : IsInst c v) : v ≠ NONE ∧ v ≠ MISSING := by
  obtain ⟨fs, rfl⟩ := h
  constructor <;> (intro h; cases h)

theorem isInst_not_sent {c : Nat} {v : Val} (h : IsInst c v) : v.isSent = false := by
  obtain ⟨fs, rfl⟩ := h; rfl


/-! ## sentinels -/

theorem ne_of_not_sent {v : Val} (h : v.isSent = false) : v ≠ MISSING ∧ v ≠ EMPTY ∧ v ≠ UNCHANGED := by
  refine ⟨?_, ?_, ?_⟩ <;> (intro h'; subst h'; simp [Val.isSent] at h)

theorem sent_cases {v : Val} (h : v.isSent = true) : v = MISSING ∨ v = EMPTY ∨ v = UNCHANGED := by
  cases v with
  | sc s => cases s with
    | sent k => cases k <;> simp
    | _ => simp [Val.isSent] at h
  | _ => simp [Val.isSent] at h

/-! ## the stages of `mutate_value` -/

theorem mvValue_new (old : Val) (p : MV) (h1 : p.new ≠ MISSING) (h2 : p.new ≠ EMPTY) :
    mvValue old p = applyOpt p.prepare p.new := by
  simp [mvValue, h1, h2]

theorem mvValue_old (old : Val) (p : MV) (h : p.new = MISSING ∨ p.new = EMPTY) (hr : p.replace = false) :
    mvValue old p = old := by
  rcases h with h | h <;> simp [mvValue, h, hr, applyOpt]

theorem mvConstruct_noTy (ctor : Nat → Kw → Except Err Val) (p : MV) (v : Val) (h : p.ty = none) :
    mvConstruct E ctor p v = .ok (v, []) := by
  unfold mvConstruct; rw [h]

/-- a value that is neither MISSING nor a dict to be cast passes steps 3–4 untouched -/
theorem mvConstruct_keep (ctor : Nat → Kw → Except Err Val) (p : MV) (ty : Ty) (v : Val) (h : p.ty = some ty)
    (hm : v ≠ MISSING) (hd : Spec.isDict v = true → conforms E ty (.dict .nil) = true) :
    mvConstruct E ctor p v = .ok (v, []) := by
  unfold mvConstruct; rw [h]
  cases v with
  | dict kvs => simp [hd rfl]
  | sc s => simp [hm]
  | list xs => simp
  | set xs => simp
  | inst c fs => simp

/-- steps 3–4 without keyword attributes are `Spec.castDict` on a value that is not MISSING -/
theorem mvConstruct_cast (m : Nat) (p : MV) (ty : Ty) (v : Val) (h : p.ty = some ty) (ha : p.attrs = [])
    (hm : v ≠ MISSING) :
    mvConstruct E (construct E m) p v = (Spec.castDict E m ty v).map (·, []) := by
  unfold mvConstruct Spec.castDict; rw [h, ha]
  cases v with
  | dict kvs =>
    simp only [List.append_nil, List.isEmpty_nil, Bool.and_true]
    by_cases hc : conforms E ty (.dict .nil) = true
    · simp [hc, Except.map]
    · simp only [hc, Bool.not_false, if_true, Bool.false_eq_true, if_false]
      cases kvs.asKw with
      | none => rfl
      | some dkw =>
        simp only []
        cases ty.ctor with
        | spec c => rfl
        | builtin d => by_cases he : dkw.isEmpty = true <;> simp [he, Except.map]
        | coll e => rfl
        | uncallable => rfl
        | noinst => rfl
  | sc s => simp [hm, Except.map]
  | list xs => simp [Except.map]
  | set xs => simp [Except.map]
  | inst c fs => simp [Except.map]

/-- step 4 for a spec-class annotation when every keyword names an attribute of that class -/
theorem mvConstruct_build (ctor : Nat → Kw → Except Err Val) (p : MV) (c : Nat) (cs : ClassSpec)
    (h : p.ty = some (.spec c)) (hc : E.cls? c = some cs)
    (hk : ∀ kv ∈ p.attrs, (cs.attr? kv.1).isSome = true) :
    mvConstruct E ctor p MISSING =
      (ctor c (p.attrs.filter (fun kv => kv.2 != MISSING))).map (·, p.attrs.map (·.1)) := by
  unfold mvConstruct; rw [h]
  simp only [Ty.ctor, hc, if_true]
  have h1 : p.attrs.filter (fun kv => (cs.attr? kv.1).isSome) = p.attrs :=
    List.filter_eq_self.2 hk
  rw [h1]
  have h2 : p.attrs.filter (fun kv => (p.attrs.map (·.1)).contains kv.1 && kv.2 != MISSING)
      = p.attrs.filter (fun kv => kv.2 != MISSING) := by
    apply List.filter_congr
    intro kv hkv
    have : (p.attrs.map (·.1)).contains kv.1 = true := by
      simp only [List.contains_iff_mem, List.mem_map]
      exact ⟨kv, hkv, rfl⟩
    rw [this, Bool.true_and]
  rw [h2]

theorem mvAttrs_nil (set : Val → Nat → Val → Except Err Val) (used : List Nat) (v : Val) :
    mvAttrs set used [] v = .ok v := by
  simp [mvAttrs]

/-- step 5 does nothing when the constructor consumed every keyword -/
theorem mvAttrs_used (set : Val → Nat → Val → Except Err Val) (used : List Nat) (kw : Kw) (v : Val)
    (hn : v ≠ NONE) (hm : v ≠ MISSING) (hu : ∀ kv ∈ kw, used.contains kv.1 = true) :
    mvAttrs set used kw v = .ok v := by
  unfold mvAttrs
  by_cases he : kw.isEmpty = true
  · simp [he]
  · simp only [he, Bool.false_eq_true, if_false, hn, hm, decide_false, Bool.or_self]
    apply foldlM_skip
    intro acc kv hkv
    rw [hu kv hkv]; rfl

/-- step 5 with no keyword consumed is `Spec.merge` -/
theorem mvAttrs_merge (n : Nat) (kw : Kw) (v : Val) :
    mvAttrs (setAttrV E n false) [] kw v = Spec.merge E n v kw := by
  unfold mvAttrs Spec.merge
  by_cases he : kw.isEmpty = true
  · simp [he]
  · simp only [he, Bool.false_eq_true, if_false]
    by_cases hv : (decide (v = NONE) || decide (v = MISSING)) = true
    · simp [hv]
    · simp only [hv, Bool.false_eq_true, if_false]
      apply foldlM_congr
      intro acc kv _
      simp

theorem mvAttrTransforms_mergeT (n : Nat) (kt : KwT) (v : Val) :
    mvAttrTransforms E (setAttrV E n false) kt v = Spec.mergeT E n v kt := rfl


/-! ## `prepare_attr_value` in the documented cases -/

theorem applyOpt_prep (sp : AttrSpec) (obj v : Val) :
    applyOpt (sp.prep.map (fun p => E.prep p obj)) v = Spec.prep E sp obj v := by
  unfold applyOpt Spec.prep
  cases sp.prep <;> rfl

/-- an ordinary value: preparer, dict cast, collection normalisation -/
theorem prepareAttrValue_plain (m : Nat) (obj : Val) (sp : AttrSpec) (v : Val)
    (hv : v.isSent = false) (hp : Spec.prep E sp obj v ≠ MISSING) :
    prepareAttrValue E (m+2) obj sp v [] = Spec.prepared E m obj sp v := by
  obtain ⟨h1, h2, h3⟩ := ne_of_not_sent hv
  rw [prepareAttrValue]
  simp only [h3, if_false]
  rw [mutateValue]
  simp only [h3, if_false]
  rw [mvValue_new _ _ h1 h2]
  simp only [applyOpt_prep]
  rw [mvConstruct_cast E m _ sp.ty _ rfl rfl hp]
  unfold Spec.prepared
  cases Spec.castDict E m sp.ty (Spec.prep E sp obj v) with
  | error e => rfl
  | ok v2 =>
    simp only [Except.map, mvAttrs_nil, mvTransform, applyOpt, mvAttrTransforms, List.foldlM_nil, pure, Except.pure]

/-- UNCHANGED is handed back untouched: nothing is prepared -/
theorem prepareAttrValue_unchanged (n : Nat) (obj : Val) (sp : AttrSpec) (kw : Kw) :
    prepareAttrValue E (n+1) obj sp UNCHANGED kw = .ok UNCHANGED := by
  rw [prepareAttrValue]
  simp

/-- keywords only: a freshly built instance of the annotation's class -/
theorem prepareAttrValue_build (m : Nat) (obj : Val) (sp : AttrSpec) (v : Val) (kw : Kw) (c : Nat)
    (hty : sp.ty = .spec c) (hv : v = MISSING ∨ v = EMPTY) (hne : kw ≠ [])
    (hk : kwOk E sp.ty (kw.map (·.1)) = true) :
    prepareAttrValue E (m+2) obj sp v kw = Spec.build E m c kw := by
  have hU : v ≠ UNCHANGED := by rcases hv with h | h <;> (rw [h]; decide)
  rw [prepareAttrValue]
  simp only [hU, if_false]
  rw [mutateValue]
  simp only [hU, if_false]
  rw [mvValue_old _ _ hv rfl]
  -- the class exists and owns every keyword
  have hne' : (kw.map (·.1)).isEmpty = false := by
    cases kw with
    | nil => exact absurd rfl hne
    | cons _ _ => rfl
  unfold kwOk at hk
  rw [hne', hty] at hk
  simp only [Bool.false_or, Ty.kwClass] at hk
  cases hcs : E.cls? c with
  | none => rw [hcs] at hk; cases hk
  | some cs =>
    rw [hcs] at hk
    have hall : ∀ kv ∈ kw, (cs.attr? kv.1).isSome = true := by
      intro kv hkv
      have := List.all_eq_true.1 hk kv.1 (List.mem_map.2 ⟨kv, hkv, rfl⟩)
      exact this
    rw [mvConstruct_build E _ _ c cs (by rw [hty]) hcs hall]
    unfold Spec.build
    cases hb : construct E m c (kw.filter (fun kv => kv.2 != MISSING)) with
    | error e => simp [Except.map]
    | ok r =>
      have hi := construct_isInst E hb
      obtain ⟨hn1, hn2⟩ := isInst_ne_none hi
      simp only [Except.map]
      rw [mvAttrs_used _ _ _ _ hn1 hn2]
      · simp [mvTransform, applyOpt, mvAttrTransforms, hty, Ty.isCollection, pure, Except.pure]
      · intro kv hkv
        simp only [List.contains_iff_mem, List.mem_map]
        exact ⟨kv, hkv, rfl⟩

/-- a value together with keywords: the keywords are merged into the prepared value -/
theorem prepareAttrValue_merge (m : Nat) (obj : Val) (sp : AttrSpec) (v : Val) (kw : Kw) (c : Nat)
    (hty : sp.ty = .spec c) (hv : v.isSent = false) (hp : Spec.prep E sp obj v ≠ MISSING)
    (hd : Spec.isDict (Spec.prep E sp obj v) = false) :
    prepareAttrValue E (m+2) obj sp v kw = Spec.merge E m (Spec.prep E sp obj v) kw := by
  obtain ⟨h1, h2, h3⟩ := ne_of_not_sent hv
  rw [prepareAttrValue]
  simp only [h3, if_false]
  rw [mutateValue]
  simp only [h3, if_false]
  rw [mvValue_new _ _ h1 h2]
  simp only [applyOpt_prep]
  rw [mvConstruct_keep E _ _ sp.ty _ rfl hp (by intro h; rw [hd] at h; cases h)]
  simp only [mvAttrs_merge]
  cases Spec.merge E m (Spec.prep E sp obj v) kw with
  | error e => rfl
  | ok r => simp [mvTransform, applyOpt, mvAttrTransforms, hty, Ty.isCollection, pure, Except.pure]


/-! ## keyword validation -/

theorem kwClass_some {ty : Ty} {c : Nat} (h : ty.kwClass = some c) : ty = .spec c := by
  cases ty <;> simp [Ty.kwClass] at h
  subst h; rfl

theorem kwOk_spec {c : Nat} {kw : Kw} (hne : kw ≠ []) (hk : kwOk E (.spec c) (kw.map (·.1)) = true) :
    ∃ cs, E.cls? c = some cs ∧ ∀ kv ∈ kw, (cs.attr? kv.1).isSome = true := by
  have hne' : (kw.map (·.1)).isEmpty = false := by
    cases kw with
    | nil => exact absurd rfl hne
    | cons _ _ => rfl
  unfold kwOk at hk
  rw [hne'] at hk
  simp only [Bool.false_or, Ty.kwClass] at hk
  cases hcs : E.cls? c with
  | none => rw [hcs] at hk; cases hk
  | some cs =>
    rw [hcs] at hk
    refine ⟨cs, rfl, ?_⟩
    intro kv hkv
    exact List.all_eq_true.1 hk kv.1 (List.mem_map.2 ⟨kv, hkv, rfl⟩)

theorem kwOk_nonempty_spec {ty : Ty} {kw : Kw} (hne : kw ≠ []) (hk : kwOk E ty (kw.map (·.1)) = true) :
    ∃ c, ty = .spec c := by
  have hne' : (kw.map (·.1)).isEmpty = false := by
    cases kw with
    | nil => exact absurd rfl hne
    | cons _ _ => rfl
  unfold kwOk at hk
  rw [hne'] at hk
  simp only [Bool.false_or] at hk
  cases hc : ty.kwClass with
  | none => rw [hc] at hk; cases hk
  | some c => exact ⟨c, kwClass_some hc⟩

/-! ## `update_<a>` and `transform_<a>`: the value handed to the assignment -/

theorem mutateValue_update (m : Nat) (recv : Val) (sp : AttrSpec) (v : Val) (kw : Kw)
    (hU : v ≠ UNCHANGED) (hk : kwOk E sp.ty (kw.map (·.1)) = true) (hkv : kw = [] → v.isSent = false)
    (hd : Spec.isDict (if v.isSent then E.getAttr recv sp.name else v) = true →
            conforms E sp.ty (.dict .nil) = true)
    (hm : (if v.isSent then E.getAttr recv sp.name else v) = MISSING → sp.ty.kwClass.isSome = true) :
    mutateValue E (m+2) (E.getAttr recv sp.name) { new := v, ty := some sp.ty, attrs := kw }
      = Spec.updateNested E m recv sp v kw := by
  rw [mutateValue]
  simp only [hU, if_false]
  unfold Spec.updateNested
  by_cases hs : v.isSent = true
  · -- MISSING / EMPTY: the existing value
    have hv : v = MISSING ∨ v = EMPTY := by
      rcases sent_cases hs with h | h | h
      · exact Or.inl h
      · exact Or.inr (Or.inl h) |>.elim Or.inl (fun h => h.elim Or.inr (fun h => absurd h hU))
      · exact absurd h hU
    have hne : kw ≠ [] := by
      intro h; have := hkv h; rw [hs] at this; cases this
    rw [mvValue_old _ _ hv rfl]
    simp only [hs, if_true] at hd hm ⊢
    by_cases hcur : E.getAttr recv sp.name = MISSING
    · have hsome := hm hcur
      cases hc : sp.ty.kwClass with
      | none => rw [hc] at hsome; cases hsome
      | some c =>
        have hty := kwClass_some hc
        rw [hty] at hk
        obtain ⟨cs, hcs, hall⟩ := kwOk_spec E hne hk
        simp only [hcur, if_true]
        rw [mvConstruct_build E _ _ c cs (by simp [hty]) hcs hall]
        unfold Spec.build
        cases hb : construct E (m+1) c (kw.filter (fun kv => kv.2 != MISSING)) with
        | error e => simp [Except.map]
        | ok r =>
          obtain ⟨hn1, hn2⟩ := isInst_ne_none (construct_isInst E hb)
          simp only [Except.map]
          rw [mvAttrs_used _ _ _ _ hn1 hn2]
          · simp [mvTransform, applyOpt, mvAttrTransforms, pure, Except.pure]
          · intro kv hkv'
            simp only [List.contains_iff_mem, List.mem_map]
            exact ⟨kv, hkv', rfl⟩
    · simp only [hcur, if_false]
      rw [mvConstruct_keep E _ _ sp.ty _ rfl hcur hd]
      simp only [mvAttrs_merge]
      cases Spec.merge E (m+1) (E.getAttr recv sp.name) kw with
      | error e => rfl
      | ok r => simp [mvTransform, applyOpt, mvAttrTransforms, pure, Except.pure]
  · -- an ordinary replacement value
    have hs' : v.isSent = false := by simpa using hs
    obtain ⟨h1, h2, _⟩ := ne_of_not_sent hs'
    rw [mvValue_new _ _ h1 h2]
    simp only [hs', Bool.false_eq_true, if_false, applyOpt] at hd hm ⊢
    simp only [h1, if_false]
    rw [mvConstruct_keep E _ _ sp.ty _ rfl h1 hd]
    simp only [mvAttrs_merge]
    cases Spec.merge E (m+1) v kw with
    | error e => rfl
    | ok r => simp [mvTransform, applyOpt, mvAttrTransforms, pure, Except.pure]

theorem mutateValue_transform (m : Nat) (recv : Val) (sp : AttrSpec) (f : Option Tr) (kt : KwT)
    (hd : Spec.isDict (E.getAttr recv sp.name) = true → conforms E sp.ty (.dict .nil) = true)
    (hm : E.getAttr recv sp.name = MISSING → sp.ty.kwClass.isSome = true) :
    mutateValue E (m+2) (E.getAttr recv sp.name) { transform := f, ty := some sp.ty, attrTransforms := kt }
      = Spec.transformNested E m recv sp f kt := by
  rw [mutateValue]
  have hU : (MISSING : Val) ≠ UNCHANGED := by decide
  simp only [hU, if_false]
  rw [mvValue_old _ _ (Or.inl rfl) rfl]
  unfold Spec.transformNested
  by_cases hcur : E.getAttr recv sp.name = MISSING
  · have hsome := hm hcur
    cases hc : sp.ty.kwClass with
    | none => rw [hc] at hsome; cases hsome
    | some c =>
      have hty := kwClass_some hc
      simp only [hcur, if_true]
      unfold mvConstruct
      simp only [hty, Ty.ctor, List.filter_nil, List.map_nil]
      unfold Spec.build
      simp only [List.filter_nil]
      cases hb : construct E (m+1) c [] with
      | error e =>
        cases hcs : E.cls? c <;> simp [Except.map]
      | ok r =>
        cases hcs : E.cls? c <;>
          simp [Except.map, mvAttrs_nil, mvTransform, mvAttrTransforms_mergeT]
  · simp only [hcur, if_false]
    rw [mvConstruct_keep E _ _ sp.ty _ rfl hcur hd]
    simp [mvAttrs_nil, mvTransform, mvAttrTransforms_mergeT]


/-! ## `del` / `reset_<a>` and the top-level helpers -/

theorem delAttrV_eq_resetV (m : Nat) (obj : Val) (sp : AttrSpec)
    (h : sp.defaultVal ≠ MISSING → Spec.AssignOk E sp obj sp.defaultVal) :
    delAttrV E (m+2) obj sp = Spec.Doc.resetV E m obj sp := by
  unfold delAttrV Spec.Doc.resetV
  by_cases hdm : sp.defaultVal = MISSING
  · simp only [hdm, if_true]
  · simp only [hdm, if_false]
    obtain ⟨h1, h2⟩ := h hdm
    rw [prepareAttrValue_plain E m obj sp _ h1 h2]
    rfl

theorem resetAllV_eq (m : Nat) (attrs : List AttrSpec)
    (h : ∀ sp ∈ attrs, sp.defaultVal ≠ MISSING → ∀ obj, Spec.AssignOk E sp obj sp.defaultVal) :
    ∀ obj, resetAllV E (m+2) obj attrs = Spec.Doc.resetAll E m obj attrs := by
  induction attrs with
  | nil => intro obj; rfl
  | cons sp rest ih =>
    intro obj
    have ih' := ih (fun sp' hsp' => h sp' (by simp [hsp']))
    unfold resetAllV Spec.Doc.resetAll
    rw [delAttrV_eq_resetV E m obj sp (fun hd => h sp (by simp) hd obj)]
    cases hr : Spec.Doc.resetV E m obj sp with
    | ok v => simp only []; exact ih' v
    | error e =>
      cases e <;> simp only [] <;> first | exact ih' obj | rfl

/-- the pipeline of the top-level `update` -/
theorem mutateValue_top_update (m : Nat) (recv v : Val) (kw : Kw) (hU : v ≠ UNCHANGED) :
    mutateValue E (m+2) recv { new := v, attrs := kw }
      = Spec.merge E (m+1) (if v.isSent then recv else v) kw := by
  rw [mutateValue]
  simp only [hU, if_false]
  rw [mvConstruct_noTy E _ _ _ rfl]
  simp only [mvAttrs_merge]
  have hval : mvValue recv { new := v, attrs := kw } = (if v.isSent then recv else v) := by
    by_cases hs : v.isSent = true
    · have hv : v = MISSING ∨ v = EMPTY := by
        rcases sent_cases hs with h | h | h
        · exact Or.inl h
        · exact Or.inr h
        · exact absurd h hU
      rw [mvValue_old _ _ hv rfl]; simp [hs]
    · have hs' : v.isSent = false := by simpa using hs
      obtain ⟨h1, h2, _⟩ := ne_of_not_sent hs'
      rw [mvValue_new _ _ h1 h2]; simp [hs', applyOpt]
  rw [hval]
  cases Spec.merge E (m+1) (if v.isSent then recv else v) kw with
  | error e => rfl
  | ok r => simp [mvTransform, applyOpt, mvAttrTransforms, pure, Except.pure]

/-- the pipeline of the top-level `transform` -/
theorem mutateValue_top_transform (m : Nat) (recv : Val) (f : Option Tr) (kt : KwT) :
    mutateValue E (m+2) recv { transform := f, attrTransforms := kt }
      = Spec.mergeT E (m+1) (applyOpt f recv) kt := by
  rw [mutateValue]
  have hU : (MISSING : Val) ≠ UNCHANGED := by decide
  simp only [hU, if_false]
  rw [mvValue_old _ _ (Or.inl rfl) rfl, mvConstruct_noTy E _ _ _ rfl]
  simp [mvAttrs_nil, mvTransform, mvAttrTransforms_mergeT]


theorem foldlM_congr_inv {α β : Type} (P : β → Prop) (f g : β → α → Except Err β) (l : List α) (init : β)
    (h0 : P init) (hfg : ∀ acc x, x ∈ l → P acc → f acc x = g acc x)
    (hP : ∀ acc x r, x ∈ l → P acc → g acc x = .ok r → P r) :
    l.foldlM f init = l.foldlM g init := by
  induction l generalizing init with
  | nil => rfl
  | cons x xs ih =>
    simp only [List.foldlM, bind, Except.bind]
    rw [hfg init x (by simp) h0]
    cases hg : g init x with
    | error e => rfl
    | ok b =>
      exact ih b (hP init x b (by simp) h0 hg)
        (fun acc y hy => hfg acc y (by simp [hy]))
        (fun acc y r hy => hP acc y r (by simp [hy]))

/-! ## copy run vs in-place run -/

/-- The in-place run leaves on the receiver the state the copy run returns, returns the receiver,
raises when the copy run raises, and does nothing when the copy run does nothing. -/
def Commutes (recv : Val) (o₁ o₂ : Outcome) : Prop :=
  o₁.recv = recv ∧
  match o₁.ret with
  | .raised e => o₂.ret = .raised e
  | .receiver => o₂ = o₁
  | .fresh v => o₂ = ⟨v, .receiver⟩

theorem commutes_same_noop (recv : Val) : Commutes recv ⟨recv, .receiver⟩ ⟨recv, .receiver⟩ := ⟨rfl, rfl⟩
theorem commutes_same_raise (recv : Val) (e : Err) : Commutes recv ⟨recv, .raised e⟩ ⟨recv, .raised e⟩ := ⟨rfl, rfl⟩

theorem commutes_outcomeOf (recv v : Val) : Commutes recv (outcomeOf recv v false) (outcomeOf recv v true) :=
  ⟨rfl, rfl⟩

theorem commutes_mutateAttr (recv : Val) (sp : AttrSpec) (pv : Val) :
    Commutes recv (lift recv (mutateAttr E recv sp pv false)) (lift recv (mutateAttr E recv sp pv true)) := by
  unfold mutateAttr
  by_cases h1 : pv.isSent = true
  · simp only [h1, if_true, lift]; exact commutes_same_noop recv
  · by_cases h2 : conforms E sp.ty pv = true
    · simp only [h1, h2, Bool.false_eq_true, if_false, Bool.not_true, lift, if_true]
      exact ⟨rfl, rfl⟩
    · simp only [h1, h2, Bool.false_eq_true, if_false, Bool.not_false, if_true, lift]
      exact commutes_same_raise recv _

theorem commutes_withAttr (n : Nat) (recv : Val) (sp : AttrSpec) (v : Val) (kw : Kw) (cond : Bool) :
    Commutes recv (lift recv (withAttr E n recv sp v kw false cond)) (lift recv (withAttr E n recv sp v kw true cond)) := by
  unfold withAttr
  by_cases hk : kwOk E sp.ty (kw.map (·.1)) = true
  · simp only [hk, Bool.not_true, Bool.false_eq_true, if_false]
    by_cases hc : cond = true
    · simp only [hc, Bool.not_true, Bool.false_eq_true, if_false]
      cases prepareAttrValue E n recv sp v kw with
      | error e => exact commutes_same_raise recv e
      | ok pv => exact commutes_mutateAttr E recv sp pv
    · simp only [hc, Bool.not_false, if_true]; exact commutes_same_noop recv
  · simp only [hk, Bool.not_false, if_true]; exact commutes_same_raise recv _


/-! ## a helper that answers does not answer "raised" -/

/-- the successful outcomes of the helpers are "receiver" or "another object" -/
def Good (r : Except Err Outcome) : Prop :=
  match r with
  | .error _ => True
  | .ok o => ∀ e, o.ret ≠ .raised e

theorem lift_raised_recv (recv : Val) (r : Except Err Outcome) (hg : Good r) (e : Err)
    (h : (lift recv r).ret = .raised e) : (lift recv r).recv = recv := by
  cases r with
  | error e' => rfl
  | ok o => exact absurd h (hg e)

theorem good_noop (recv : Val) : Good (.ok ⟨recv, .receiver⟩) := by intro e h; cases h
theorem good_fresh (recv v : Val) : Good (.ok ⟨recv, .fresh v⟩) := by intro e h; cases h
theorem good_error (e : Err) : Good (.error e) := trivial
theorem good_outcomeOf (recv v : Val) (i : Bool) : Good (.ok (outcomeOf recv v i)) := by
  intro e h; cases i <;> cases h

theorem good_map_receiver (r : Except Err Val) : Good (r.map fun v => (⟨v, .receiver⟩ : Outcome)) := by
  cases r with
  | error e => trivial
  | ok v => intro e h; cases h

theorem good_mutateAttr (recv : Val) (sp : AttrSpec) (pv : Val) (i : Bool) : Good (mutateAttr E recv sp pv i) := by
  unfold mutateAttr
  split
  · exact good_noop recv
  · split
    · trivial
    · split
      · intro e h; cases h
      · exact good_fresh _ _

theorem good_withAttr (n : Nat) (recv : Val) (sp : AttrSpec) (v : Val) (kw : Kw) (i cnd : Bool) :
    Good (withAttr E n recv sp v kw i cnd) := by
  unfold withAttr
  split
  · trivial
  · split
    · exact good_noop recv
    · split
      · trivial
      · exact good_mutateAttr E recv sp _ i

theorem good_updateAttr (n : Nat) (recv : Val) (sp : AttrSpec) (v : Val) (kw : Kw) (i cnd : Bool) :
    Good (updateAttr E n recv sp v kw i cnd) := by
  unfold updateAttr
  split
  · trivial
  · split
    · exact good_noop recv
    · split
      · trivial
      · exact good_withAttr E n recv sp _ [] i true

theorem good_transformAttr (n : Nat) (recv : Val) (sp : AttrSpec) (f : Option Tr) (kt : KwT) (i cnd : Bool) :
    Good (transformAttr E n recv sp f kt i cnd) := by
  unfold transformAttr
  split
  · trivial
  · split
    · exact good_noop recv
    · split
      · trivial
      · exact good_withAttr E n recv sp _ [] i true

theorem good_resetAttr (n : Nat) (recv : Val) (sp : AttrSpec) (i cnd : Bool) :
    Good (resetAttr E n recv sp i cnd) := by
  unfold resetAttr
  split
  · exact good_noop recv
  · cases delAttrV E n recv sp with
    | error e => trivial
    | ok v => exact good_outcomeOf recv v i

theorem good_updateTop (n : Nat) (recv v : Val) (kw : Kw) (i cnd : Bool) :
    Good (updateTop E n recv v kw i cnd) := by
  unfold updateTop
  split
  · trivial
  · split
    · exact good_noop recv
    · split
      · trivial
      · split
        · exact good_noop recv
        · split
          · exact good_outcomeOf recv _ i
          · exact good_fresh _ _

theorem good_transformTop (n : Nat) (recv : Val) (f : Option Tr) (kt : KwT) (i cnd : Bool) :
    Good (transformTop E n recv f kt i cnd) := by
  unfold transformTop
  split
  · trivial
  · split
    · exact good_noop recv
    · split
      · trivial
      · split
        · exact good_fresh _ _
        · split
          · exact good_noop recv
          · exact good_outcomeOf recv _ i


/-! ## invalidation: the dependants of a written attribute are back at their defaults -/

theorem flds_get_set_ne (a d : Nat) (v : Val) (h : a ≠ d) : ∀ (fs : Flds), (fs.set a v).get d = fs.get d
  | .nil => by simp [Flds.set, Flds.get, h]
  | .cons a' v' r => by
    simp only [Flds.set]
    split
    · rename_i heq; subst heq; simp [Flds.get, h]
    · simp only [Flds.get]; split
      · rfl
      · exact flds_get_set_ne a d v h r

theorem flds_get_set_eq (a : Nat) (v : Val) : ∀ (fs : Flds), (fs.set a v).get a = v
  | .nil => by simp [Flds.set, Flds.get]
  | .cons a' v' r => by
    simp only [Flds.set]
    split
    · rename_i heq; subst heq; simp [Flds.get]
    · rename_i hne; simp only [Flds.get, hne, if_false]; exact flds_get_set_eq a v r

/-- "`d` is at its default": the instance is of class `c` and its field `d` holds `dv` -/
def AtDefault (c d : Nat) (dv : Val) (obj : Val) : Prop := IsInst c obj ∧ obj.getAttr d = dv

theorem specOf_isInst {c : Nat} {obj : Val} (d : Nat) (h : IsInst c obj) : specOf E obj d = E.attr? c d := by
  obtain ⟨fs, rfl⟩ := h; rfl

theorem atDefault_reset_self {c d : Nat} {sp : AttrSpec} {obj : Val} (hi : IsInst c obj)
    (hsp : E.attr? c d = some sp) (hok : sp.defaultVal = MISSING ∨ conforms E sp.ty sp.defaultVal = true) :
    AtDefault c d sp.defaultVal (resetDependant E obj d) := by
  unfold resetDependant
  rw [specOf_isInst E d hi, hsp]
  obtain ⟨fs, rfl⟩ := hi
  simp only []
  split
  · rename_i hm
    exact ⟨⟨_, rfl⟩, by simp [Val.setField, Val.getAttr, flds_get_set_eq, hm]⟩
  · rename_i hm
    rcases hok with h | h
    · exact absurd h hm
    · simp only [h, if_true]
      exact ⟨⟨_, rfl⟩, by simp [Val.setField, Val.getAttr, flds_get_set_eq]⟩

theorem atDefault_reset_other {c d : Nat} {dv : Val} {sp : AttrSpec} {obj : Val} (x : Nat)
    (hsp : E.attr? c d = some sp) (hdv : dv = sp.defaultVal)
    (hok : sp.defaultVal = MISSING ∨ conforms E sp.ty sp.defaultVal = true)
    (h : AtDefault c d dv obj) : AtDefault c d dv (resetDependant E obj x) := by
  by_cases hx : x = d
  · subst hx; subst hdv; exact atDefault_reset_self E h.1 hsp hok
  · obtain ⟨⟨fs, rfl⟩, hg⟩ := h
    unfold resetDependant
    cases specOf E (.inst c fs) x with
    | none => exact ⟨⟨fs, rfl⟩, hg⟩
    | some spx =>
      simp only []
      split
      · exact ⟨⟨_, rfl⟩, by simpa [Val.setField, Val.getAttr, flds_get_set_ne x d _ hx] using hg⟩
      · split
        · exact ⟨⟨_, rfl⟩, by simpa [Val.setField, Val.getAttr, flds_get_set_ne x d _ hx] using hg⟩
        · exact ⟨⟨fs, rfl⟩, hg⟩

theorem atDefault_invalidateAux {c d : Nat} {dv : Val} {sp : AttrSpec} (names : List Nat)
    (hsp : E.attr? c d = some sp) (hdv : dv = sp.defaultVal)
    (hok : sp.defaultVal = MISSING ∨ conforms E sp.ty sp.defaultVal = true) :
    ∀ (k : Nat) (obj : Val) (a : Nat), AtDefault c d dv obj → AtDefault c d dv (invalidateAux E names k obj a)
  | 0, obj, a, h => h
  | k+1, obj, a, h => by
    simp only [invalidateAux]
    have : ∀ (l : List Nat) (init : Val), AtDefault c d dv init →
        AtDefault c d dv (l.foldl (fun acc x =>
          if dependsOn E acc x a then invalidateAux E names k (resetDependant E acc x) x else acc) init) := by
      intro l
      induction l with
      | nil => intro init hi; exact hi
      | cons x xs ih =>
        intro init hi
        simp only [List.foldl]
        apply ih
        split
        · exact atDefault_invalidateAux names hsp hdv hok k _ x (atDefault_reset_other E x hsp hdv hok hi)
        · exact hi
    exact this names obj h

/-- one round of `invalidate_attrs(obj, a)` puts every direct dependant `d` of `a` at its default -/
theorem invalidateAux_resets {c d a : Nat} {sp : AttrSpec} (names : List Nat) (k : Nat) (obj : Val)
    (hi : IsInst c obj) (hsp : E.attr? c d = some sp) (hdep : sp.invalidatedBy.contains a = true) (hne : d ≠ a)
    (hmem : d ∈ names) (hok : sp.defaultVal = MISSING ∨ conforms E sp.ty sp.defaultVal = true) :
    AtDefault c d sp.defaultVal (invalidateAux E names (k+1) obj a) := by
  simp only [invalidateAux]
  have hdepOn : ∀ acc, IsInst c acc → dependsOn E acc d a = true := by
    intro acc hacc
    unfold dependsOn
    rw [specOf_isInst E d hacc, hsp]
    simp only [hdep, Bool.true_and]
    simp [hne]
  have : ∀ (l : List Nat) (init : Val), IsInst c init → d ∈ l →
      AtDefault c d sp.defaultVal (l.foldl (fun acc x =>
        if dependsOn E acc x a then invalidateAux E names k (resetDependant E acc x) x else acc) init) := by
    intro l
    induction l with
    | nil => intro init _ hm; cases hm
    | cons x xs ih =>
      intro init hinit hm
      simp only [List.foldl]
      have hstep_inst : IsInst c (if dependsOn E init x a then invalidateAux E names k (resetDependant E init x) x else init) := by
        split
        · exact isInst_invalidateAux E names k _ x (isInst_resetDependant E x hinit)
        · exact hinit
      by_cases hx : x = d
      · subst hx
        rw [hdepOn init hinit]
        simp only [if_true]
        -- established here; the remaining steps preserve it
        have hP := atDefault_invalidateAux E names hsp rfl hok k _ x (atDefault_reset_self E hinit hsp hok)
        have : ∀ (l' : List Nat) (init' : Val), AtDefault c x sp.defaultVal init' →
            AtDefault c x sp.defaultVal (l'.foldl (fun acc y =>
              if dependsOn E acc y a then invalidateAux E names k (resetDependant E acc y) y else acc) init') := by
          intro l'
          induction l' with
          | nil => intro init' h'; exact h'
          | cons y ys ih' =>
            intro init' h'
            simp only [List.foldl]
            apply ih'
            split
            · exact atDefault_invalidateAux E names hsp rfl hok k _ y (atDefault_reset_other E y hsp rfl hok h')
            · exact h'
        exact this xs _ hP
      · have hm' : d ∈ xs := by
          rcases List.mem_cons.1 hm with h' | h'
          · exact absurd h'.symm hx
          · exact h'
        exact ih _ hstep_inst hm'
  exact this names obj hi hmem

end SpecVerif.C05.Proofs
