import SpecVerif.Model.C05Decl
/-!
# C05 — helper lemmas about `Model/C05Decl.lean` (the statements are in `Props/C05.lean`)

`bootstrap` (root first, class by class, as the code runs) against the closed forms `nearestMethod`, `entrySpec`,
`helperSpec` (nearest class first).
-/
set_option linter.unusedSectionVars false
set_option linter.unusedSimpArgs false
set_option linter.unusedVariables false
namespace SpecVerif.C05.Decl.Proofs
open SpecVerif.C05 SpecVerif.C05.Decl

theorem orElse_none_left (b : Option Nat) : orElse none b = b := rfl
theorem orElse_none_right (a : Option Nat) : orElse a none = a := by cases a <;> rfl
theorem orElse_some (x : Nat) (b : Option Nat) : orElse (some x) b = some x := rfl
theorem orElse_self (a : Option Nat) : orElse a a = a := by cases a <;> rfl
theorem orElse_assoc (a b c : Option Nat) : orElse (orElse a b) c = orElse a (orElse b c) := by
  cases a <;> rfl

theorem bootstrapFrom_append (s : Res) (xs ys : List Layer) :
    bootstrapFrom s (xs ++ ys) = bootstrapFrom (bootstrapFrom s xs) ys := by
  simp [bootstrapFrom, List.foldl_append]

theorem bootstrap_snoc (xs : List Layer) (L : Layer) :
    bootstrap (xs ++ [L]) = step (bootstrap xs) L := by
  simp [bootstrap, bootstrapFrom, List.foldl_append]

/-- the three components of `bootstrap`, class by class, are the closed forms -/
theorem bootstrap_closed (near : List Layer) :
    (bootstrap near.reverse).meth = nearestMethod near
    ∧ (bootstrap near.reverse).entry = entrySpec near
    ∧ (bootstrap near.reverse).helper = helperSpec near := by
  induction near with
  | nil => exact ⟨rfl, rfl, rfl⟩
  | cons L above ih =>
    obtain ⟨h1, h2, h3⟩ := ih
    rw [List.reverse_cons, bootstrap_snoc]
    obtain ⟨sp, body, method⟩ := L
    cases sp with
    | false =>
      simp [step, nearestMethod, entrySpec, helperSpec, Layer.untouched, h1, h2, h3]
    | true =>
      cases body with
      | absent => simp [step, nearestMethod, entrySpec, helperSpec, Layer.untouched, Body.owns, h1, h2, h3]
      | value => simp [step, nearestMethod, entrySpec, helperSpec, Layer.untouched, Body.owns, Body.deco, h1, h2, h3]
      | annotated => simp [step, nearestMethod, entrySpec, helperSpec, Layer.untouched, Body.owns, Body.deco, h1, h2, h3,
                           orElse_none_right]
      | attr d => simp [step, nearestMethod, entrySpec, helperSpec, Layer.untouched, Body.owns, Body.deco, h1, h2, h3]

theorem entrySpec_untouched_prefix (pre rest : List Layer) (h : ∀ L ∈ pre, L.untouched = true) :
    entrySpec (pre ++ rest) = entrySpec rest := by
  induction pre with
  | nil => rfl
  | cons L r ih =>
    have hL := h L (by simp)
    simp only [List.cons_append, entrySpec, hL, if_true]
    exact ih (fun M hM => h M (by simp [hM]))

theorem helperSpec_untouched_prefix (pre rest : List Layer) (h : ∀ L ∈ pre, L.untouched = true) :
    helperSpec (pre ++ rest) = helperSpec rest := by
  induction pre with
  | nil => rfl
  | cons L r ih =>
    have hL := h L (by simp)
    have hno : (L.spec && L.body.owns) = false := by
      obtain ⟨sp, body, method⟩ := L
      cases sp <;> cases body <;> simp_all [Layer.untouched, Body.owns]
    simp only [List.cons_append, helperSpec, hno]
    exact ih (fun M hM => h M (by simp [hM]))

theorem nearestMethod_none (ls : List Layer) (h : ∀ L ∈ ls, L.method = none) : nearestMethod ls = none := by
  induction ls with
  | nil => rfl
  | cons L r ih =>
    simp only [nearestMethod, h L (by simp), orElse_none_left]
    exact ih (fun M hM => h M (by simp [hM]))

theorem coherentFrom_helper_eq_entry (ls : List Layer) :
    ∀ s : Res, s.helper = s.entry → coherentFrom s ls = true →
      (bootstrapFrom s ls).helper = (bootstrapFrom s ls).entry := by
  induction ls with
  | nil => intro s h _; exact h
  | cons L r ih =>
    intro s h hc
    simp only [coherentFrom, Bool.and_eq_true] at hc
    obtain ⟨hL, hr⟩ := hc
    have : bootstrapFrom s (L :: r) = bootstrapFrom (step s L) r := rfl
    rw [this]
    apply ih _ _ hr
    obtain ⟨sp, body, method⟩ := L
    cases sp with
    | false => simpa [step] using h
    | true =>
      cases body with
      | absent => simpa [step] using h
      | value =>
        simp at hL
        simp [step, hL, ← h, orElse_self]
      | annotated => simp [step]
      | attr d => simp [step]

end SpecVerif.C05.Decl.Proofs
